/-
  Lemmas for C02: the initial-value pipeline on a masked expression (code pieces and
  placeholders) puts every literal back whole.
-/
import FordModel.InitialValue
import FordModel.Lemmas.Show
namespace Ford.InitialValue
open Ford.Show

/-! ### `QUOTES_RE.search` skips text without quotes -/

def shift (k : Nat) : Option (Nat × Nat) → Option (Nat × Nat)
  | some (i, n) => some (i + k, n)
  | none => none

theorem searchQuote_cons (c : Char) (s : Str) (hc : isQuote c = false) :
    searchQuote (c :: s) = shift 1 (searchQuote s) := by
  cases h : searchQuote s with
  | none => simp [searchQuote, hc, h, shift]
  | some p => obtain ⟨i, n⟩ := p; simp [searchQuote, hc, h, shift]

/-- one character that is not a quote in front of the text is carried over unchanged -/
theorem reinsertGo_cons (nb dbl : Bool) (strings : List Str) (c : Char) (hc : isQuote c = false)
    (fuel : Nat) (s : Str) :
    reinsertGo nb dbl strings fuel (c :: s) =
      (match reinsertGo nb dbl strings fuel s with
        | .ok r => .ok (c :: r)
        | .error e => .error e) := by
  cases fuel with
  | zero => simp [reinsertGo]
  | succ fuel =>
    simp only [reinsertGo, searchQuote_cons c s hc]
    cases h : searchQuote s with
    | none => simp [shift]
    | some p =>
      obtain ⟨i, n⟩ := p
      simp only [shift, List.drop_succ_cons, List.take_succ_cons]
      cases parseNat? (List.take (n - 2) (List.drop (i + 1) s)) with
      | none => rfl
      | some num =>
        simp only
        cases strings[num]? with
        | none => rfl
        | some lit =>
          simp only
          cases tmplExpand (if dbl = true then doubleBs (if nb = true then nbsp lit else lit)
              else if nb = true then nbsp lit else lit) with
          | error e => rfl
          | ok e =>
            simp only [List.cons_append, searchQuote_cons c _ hc]
            have e1 : i + 1 + n = (i + n) + 1 := by omega
            rw [e1, List.drop_succ_cons]
            cases searchQuote (List.take i s ++ e ++ List.drop (i + n) s) with
            | none => rfl
            | some p2 =>
              obtain ⟨j, m⟩ := p2
              simp only [shift]
              have e2 : j + 1 + m = (j + m) + 1 := by omega
              rw [e2, List.drop_succ_cons, List.take_succ_cons]
              cases reinsertGo nb dbl strings fuel
                  (List.drop (j + m) (List.take i s ++ e ++ List.drop (i + n) s)) with
              | error e => rfl
              | ok t => rfl

/-- ... and so is any run of such characters -/
theorem reinsertGo_code_prefix (nb dbl : Bool) (strings : List Str) (t : Str)
    (ht : ∀ c ∈ t, isQuote c = false) (fuel : Nat) (s : Str) :
    reinsertGo nb dbl strings fuel (t ++ s) =
      (match reinsertGo nb dbl strings fuel s with
        | .ok r => .ok (t ++ r)
        | .error e => .error e) := by
  induction t with
  | nil =>
    simp only [List.nil_append]
    cases reinsertGo nb dbl strings fuel s <;> rfl
  | cons c cs ih =>
    have hc := ht c (by simp)
    have hcs : ∀ c' ∈ cs, isQuote c' = false := fun c' h => ht c' (by simp [h])
    rw [List.cons_append, reinsertGo_cons nb dbl strings c hc, ih hcs]
    cases reinsertGo nb dbl strings fuel s <;> rfl

/-! ### placeholders and literals are found whole -/

theorem litTail_noquote (q : Char) (ds : Str) (h : ∀ c ∈ ds, c ≠ q) : litTail q (ds ++ [q]) = true := by
  induction ds with
  | nil => simp [litTail]
  | cons c cs ih =>
    have hc : (c == q) = false := by simpa using h c (by simp)
    have hcs : ∀ c' ∈ cs, c' ≠ q := fun c' h' => h c' (by simp [h'])
    cases cs with
    | nil => simp [litTail, hc]
    | cons d r => simpa [litTail, hc] using ih hcs

/-- `QUOTES_RE.search` at a placeholder `"ds"` (digits) that is not followed by `"` -/
theorem searchQuote_placeholder (ds rest : Str) (hd : ∀ c ∈ ds, c ≠ '"') (hr : rest.head? ≠ some '"') :
    searchQuote ('"' :: ds ++ '"' :: rest) = some (0, ds.length + 2) := by
  have h := litEnd_of_litTail '"' (ds ++ ['"']) rest (litTail_noquote '"' ds hd) hr
  have e : ds ++ '"' :: rest = (ds ++ ['"']) ++ rest := by simp
  simp only [List.cons_append, searchQuote, isQuote, beq_self_eq_true, Bool.or_true, ↓reduceIte, e, h]
  simp

/-- a well-formed literal (any contents), NBSPs substituted, not followed by its own quote -/
theorem searchQuote_literal (q : Char) (hq : isQuote q = true) (body rest : Str)
    (hb : litTail q body = true) (hr : rest.head? ≠ some q) :
    searchQuote (q :: nbsp body ++ rest) = some (0, body.length + 1) := by
  have h1 := litTail_nbspGo q hq body false hb
  have h2 := litEnd_of_litTail q (nbsp body) rest h1 hr
  simp only [nbsp] at h2 ⊢
  simp [searchQuote, hq, h2, nbspGo_length]

theorem nbsp_cons (q : Char) (body : Str) (hq : q ≠ ' ') (hb : body ≠ []) :
    nbsp (q :: body) = q :: nbsp body := by
  cases body with
  | nil => exact absurd rfl hb
  | cons d r => simp [nbsp, nbspGo, hq]

/-! ### masked expressions: code pieces and placeholders -/

/-- a masked initial-value expression is a sequence of code pieces and placeholders `"ds"` -/
inductive Piece where
  | code (t : Str)
  | ph (ds : Str)
  deriving Repr

def Piece.masked : Piece → Str
  | .code t => t
  | .ph ds => '"' :: ds ++ ['"']

/-- the text FORD parses -/
def maskedText : List Piece → Str
  | [] => []
  | p :: r => p.masked ++ maskedText r

/-- the literal a placeholder stands for -/
def litOf (strings : List Str) (ds : Str) : Str :=
  match parseNat? ds with
  | some k => (strings[k]?).getD []
  | none => []

/-- the expression with every placeholder replaced by its literal (NBSPs substituted), code
    pieces untouched -/
def restoredText (strings : List Str) : List Piece → Str
  | [] => []
  | .code t :: r => t ++ restoredText strings r
  | .ph ds :: r => nbsp (litOf strings ds) ++ restoredText strings r

/-- what may follow a placeholder: the end, or a non-empty code piece (two literals are never
    adjacent in a Fortran expression) -/
def startsClean : List Piece → Prop
  | [] => True
  | .code (_ :: _) :: _ => True
  | _ => False

/-- code pieces contain no quote; placeholders are numbers of well-formed literals -/
def WellMasked (strings : List Str) : List Piece → Prop
  | [] => True
  | .code t :: r => (∀ c ∈ t, isQuote c = false) ∧ WellMasked strings r
  | .ph ds :: r =>
    (∃ k q body, parseNat? ds = some k ∧ strings[k]? = some (q :: body) ∧ isQuote q = true ∧
      litTail q body = true) ∧ startsClean r ∧ WellMasked strings r

def countPh : List Piece → Nat
  | [] => 0
  | .code _ :: r => countPh r
  | .ph _ :: r => countPh r + 1

theorem head_maskedText (strings : List Str) (r : List Piece) (q : Char) (hq : isQuote q = true)
    (hs : startsClean r) (hw : WellMasked strings r) : (maskedText r).head? ≠ some q := by
  cases r with
  | nil => simp [maskedText]
  | cons p r' =>
    cases p with
    | ph ds => simp [startsClean] at hs
    | code t =>
      cases t with
      | nil => simp [startsClean] at hs
      | cons c cs =>
        have := hw.1 c (by simp)
        simp only [maskedText, Piece.masked, List.cons_append, List.head?_cons]
        intro h
        have : c = q := by simpa using h
        subst this
        simp_all

theorem parseNat?_digits (ds : Str) (k : Nat) (h : parseNat? ds = some k) : ∀ c ∈ ds, c ≠ '"' := by
  intro c hc e
  subst e
  unfold parseNat? at h
  split at h
  · simp at h
  · rename_i hcond
    simp only [Bool.or_eq_true, Bool.not_eq_true', not_or, Bool.not_eq_false] at hcond
    have := List.all_eq_true.mp hcond.2 '"' hc
    simp [isDigit] at this

theorem litTail_ne_nil (q : Char) (body : Str) (h : litTail q body = true) : body ≠ [] := by
  intro e; subst e; simp [litTail] at h

/-- **the re-insertion loop puts every literal back whole** - whatever the literals contain -/
theorem reinsertGo_pieces (strings : List Str) (ps : List Piece) :
    ∀ fuel, WellMasked strings ps → countPh ps < fuel →
      reinsertGo true true strings fuel (maskedText ps) = .ok (restoredText strings ps) := by
  induction ps with
  | nil =>
    intro fuel _ hf
    cases fuel with
    | zero => omega
    | succ f => simp [reinsertGo, maskedText, searchQuote, restoredText]
  | cons p r ih =>
    intro fuel hw hf
    cases p with
    | code t =>
      simp only [maskedText, Piece.masked, restoredText]
      rw [reinsertGo_code_prefix true true strings t hw.1, ih fuel hw.2 (by simpa [countPh] using hf)]
    | ph ds =>
      obtain ⟨⟨k, q, body, hk, hs, hq, hb⟩, hc, hw'⟩ := hw
      cases fuel with
      | zero => omega
      | succ f =>
        have hf' : countPh r < f := by simp only [countPh] at hf; omega
        have hq' : isQuote '"' = true := by decide
        have hsp : q ≠ ' ' := by intro e; subst e; simp [isQuote] at hq
        have hsq := searchQuote_placeholder ds (maskedText r) (parseNat?_digits ds k hk)
          (head_maskedText strings r '"' hq' hc hw')
        have hlit : litOf strings ds = q :: body := by simp [litOf, hk, hs]
        have hsl := searchQuote_literal q hq body (maskedText r) hb (head_maskedText strings r q hq hc hw')
        have hlen : (nbsp body).length = body.length := by simp [nbsp, nbspGo_length]
        simp only [maskedText, Piece.masked, restoredText, hlit, List.cons_append, List.append_assoc]
        simp only [List.cons_append] at hsq
        simp only [reinsertGo, hsq, Nat.zero_add, List.drop_succ_cons, List.drop_zero, Nat.add_sub_cancel,
          List.take_left', hk, hs, if_true, tmplExpand_doubleBs, List.take_zero, List.nil_append]
        have hdrop : List.drop (ds.length + 1) (ds ++ '"' :: maskedText r) = maskedText r := by
          have e : ds ++ '"' :: maskedText r = (ds ++ ['"']) ++ maskedText r := by simp
          rw [e]
          exact List.drop_left' (by simp)
        rw [hdrop, nbsp_cons q body hsp (litTail_ne_nil q body hb)]
        simp only [List.cons_append] at hsl
        simp only [List.cons_append, hsl, Nat.zero_add]
        have hdrop2 : List.drop (body.length + 1) (q :: (nbsp body ++ maskedText r)) = maskedText r := by
          rw [List.drop_succ_cons]
          exact List.drop_left' hlen
        have htake2 : List.take (body.length + 1) (q :: (nbsp body ++ maskedText r)) = q :: nbsp body := by
          rw [List.take_succ_cons]
          congr 1
          exact List.take_left' hlen
        rw [hdrop2, htake2, ih f hw' hf']
        rfl

theorem countPh_le (ps : List Piece) : countPh ps ≤ (maskedText ps).length := by
  induction ps with
  | nil => simp [countPh]
  | cons p r ih =>
    cases p with
    | code t => simp only [countPh, maskedText, Piece.masked, List.length_append]; omega
    | ph ds => simp only [countPh, maskedText, Piece.masked, List.length_append, List.length_cons]; omega

theorem reinsert_pieces (strings : List Str) (ps : List Piece) (hw : WellMasked strings ps) :
    reinsert true true strings (maskedText ps) = .ok (restoredText strings ps) :=
  reinsertGo_pieces strings ps _ hw (by have := countPh_le ps; omega)

/-! ### the comma tidy-up on the masked text touches code pieces only -/

theorem commaSpace_cons_ne (c : Char) (s : Str) (h : c ≠ ',') : commaSpace (c :: s) = c :: commaSpace s := by
  cases s with
  | nil => simp [commaSpace, h]
  | cons d r => simp [commaSpace, h]

/-- `COMMA_RE.sub` works piece by piece as long as the next piece does not start with white space -/
theorem commaSpace_append (t rest : Str) (h : ∀ c, rest.head? = some c → isSpace c = false) :
    commaSpace (t ++ rest) = commaSpace t ++ commaSpace rest := by
  induction t with
  | nil => simp [commaSpace]
  | cons c cs ih =>
    cases cs with
    | nil =>
      cases rest with
      | nil => simp [commaSpace]
      | cons d r =>
        have hd := h d (by simp)
        by_cases hc : c = ','
        · subst hc; simp [commaSpace, hd]
        · simp [commaSpace, hc]
    | cons d r =>
      have e : c :: d :: r ++ rest = c :: d :: (r ++ rest) := by simp
      rw [e]
      simp only [commaSpace]
      have ih' : commaSpace (d :: (r ++ rest)) = commaSpace (d :: r) ++ commaSpace rest := by
        simpa using ih
      rw [ih']
      split <;> simp

theorem mem_commaSpace (s : Str) : ∀ c ∈ commaSpace s, c ∈ s ∨ c = ' ' := by
  fun_induction commaSpace s
  · simp
  · intro x hx; simp at hx; rcases hx with hx | hx <;> simp_all
  · intro x hx; simp at hx; simp [hx]
  · rename_i c d r _ ih
    intro x hx
    simp only [List.mem_cons] at hx
    rcases hx with hx | hx | hx
    · simp_all
    · simp [hx]
    · rcases ih x hx with h | h
      · left; simp only [List.mem_cons] at h ⊢; exact Or.inr h
      · exact Or.inr h
  · rename_i c d r _ ih
    intro x hx
    simp only [List.mem_cons] at hx
    rcases hx with hx | hx
    · simp [hx]
    · rcases ih x hx with h | h
      · left; simp only [List.mem_cons] at h ⊢; exact Or.inr h
      · exact Or.inr h

def Piece.tidy : Piece → Piece
  | .code t => .code (commaSpace t)
  | .ph ds => .ph ds

/-- the masked text as `line_to_variables` sees it: blanks were removed from the declaration -/
def NoBlank : List Piece → Prop
  | [] => True
  | .code t :: r => (∀ c ∈ t, isSpace c = false) ∧ NoBlank r
  | .ph _ :: r => NoBlank r

theorem head_maskedText_nospace (ps : List Piece) (hn : NoBlank ps) :
    ∀ c, (maskedText ps).head? = some c → isSpace c = false := by
  induction ps with
  | nil => simp [maskedText]
  | cons p r ih =>
    cases p with
    | ph ds => intro c hc; simp [maskedText, Piece.masked] at hc; subst hc; decide
    | code t =>
      cases t with
      | nil => simpa [maskedText, Piece.masked] using ih hn.2
      | cons x xs =>
        intro c hc
        simp [maskedText, Piece.masked] at hc
        subst hc
        exact hn.1 x (by simp)

theorem commaSpace_placeholder (ds rest : Str) (hd : ∀ c ∈ ds, c ≠ ',') :
    commaSpace ('"' :: ds ++ '"' :: rest) = '"' :: ds ++ '"' :: commaSpace rest := by
  have hq : '"' ≠ ',' := by decide
  rw [List.cons_append, commaSpace_cons_ne _ _ hq]
  congr 1
  induction ds with
  | nil => simp [commaSpace_cons_ne _ _ hq]
  | cons c cs ih =>
    rw [List.cons_append, commaSpace_cons_ne _ _ (hd c (by simp)), ih (fun c' h => hd c' (by simp [h]))]
    rfl

theorem parseNat?_nocomma (ds : Str) (k : Nat) (h : parseNat? ds = some k) : ∀ c ∈ ds, c ≠ ',' := by
  intro c hc e
  subst e
  unfold parseNat? at h
  split at h
  · simp at h
  · rename_i hcond
    simp only [Bool.or_eq_true, Bool.not_eq_true', not_or, Bool.not_eq_false] at hcond
    have := List.all_eq_true.mp hcond.2 ',' hc
    simp [isDigit] at this

theorem commaSpace_maskedText (strings : List Str) (ps : List Piece) (hw : WellMasked strings ps)
    (hn : NoBlank ps) : commaSpace (maskedText ps) = maskedText (ps.map Piece.tidy) := by
  induction ps with
  | nil => simp [maskedText, commaSpace]
  | cons p r ih =>
    cases p with
    | code t =>
      simp only [maskedText, Piece.masked, List.map_cons, Piece.tidy]
      rw [commaSpace_append t _ (head_maskedText_nospace r hn.2), ih hw.2 hn.2]
    | ph ds =>
      obtain ⟨⟨k, q, body, hk, _⟩, _, hw'⟩ := hw
      simp only [maskedText, Piece.masked, List.map_cons, Piece.tidy, List.cons_append, List.append_assoc,
        List.nil_append]
      have := commaSpace_placeholder ds (maskedText r) (parseNat?_nocomma ds k hk)
      simp only [List.cons_append] at this
      rw [this, ih hw' hn]

theorem wellMasked_tidy (strings : List Str) (ps : List Piece) (hw : WellMasked strings ps) :
    WellMasked strings (ps.map Piece.tidy) := by
  induction ps with
  | nil => simp [WellMasked]
  | cons p r ih =>
    cases p with
    | code t =>
      refine ⟨?_, ih hw.2⟩
      intro c hc
      rcases mem_commaSpace t c hc with h | h
      · exact hw.1 c h
      · subst h; decide
    | ph ds =>
      obtain ⟨h1, hc, hw'⟩ := hw
      refine ⟨h1, ?_, ih hw'⟩
      cases r with
      | nil => simp [startsClean]
      | cons p' r' =>
        cases p' with
        | ph _ => simp [startsClean] at hc
        | code t =>
          cases t with
          | nil => simp [startsClean] at hc
          | cons x xs =>
            cases xs with
            | nil => simp only [List.map_cons, Piece.tidy, commaSpace]; split <;> simp [startsClean]
            | cons y ys => simp only [List.map_cons, Piece.tidy, commaSpace]; split <;> simp [startsClean]

end Ford.InitialValue
