/-
  Lemmas about the accessibility model (FordModel/ScopeAccess.lean); core tactics only.
-/
import FordModel.ScopeAccess
namespace Ford.ScopeAccess
open Ford Ford.Scope

theorem firstPerm_none_lastPerm (st : List (Perm × Str)) (n : Str) (h : firstPerm st n = none) :
    lastPerm st n = none := by
  induction st with
  | nil => rfl
  | cons s r ih =>
    obtain ⟨p, k⟩ := s
    simp only [firstPerm] at h
    by_cases hk : lower k = n
    · simp [hk] at h
    · simp only [hk, if_false] at h
      simp [lastPerm, ih h, hk]

/-- with at most one access statement per identifier, "the last keyword stays" is "the statement
    that names it" -/
theorem lastPerm_eq_firstPerm (st : List (Perm × Str)) (n : Str) (h : stmtsOnce st = true) :
    lastPerm st n = firstPerm st n := by
  induction st with
  | nil => rfl
  | cons s r ih =>
    obtain ⟨p, k⟩ := s
    simp only [stmtsOnce, Bool.and_eq_true, Option.isNone_iff_eq_none] at h
    by_cases hk : lower k = n
    · subst hk
      simp [lastPerm, firstPerm, firstPerm_none_lastPerm r _ h.1]
    · simp [lastPerm, firstPerm, hk, ih h.2]
      cases firstPerm r n <;> rfl

theorem typeNamed_some (ds : List ADecl) (n : Str) (t : ADecl) (h : typeNamed ds n = some t) :
    t ∈ ds ∧ t.kind = .ty ∧ lower t.name = n := by
  induction ds with
  | nil => simp [typeNamed] at h
  | cons d r ih =>
    simp only [typeNamed] at h
    cases hr : typeNamed r n with
    | some t' =>
      simp only [hr] at h
      cases h
      have := ih hr
      exact ⟨List.mem_cons_of_mem _ this.1, this.2⟩
    | none =>
      simp only [hr] at h
      by_cases hd : d.kind = .ty ∧ lower d.name = n
      · simp only [hd, and_self, if_true] at h
        cases h
        exact ⟨List.mem_cons_self, hd⟩
      · simp [hd] at h

theorem filterTable_get (f : Str → Bool) (tb : Table) (n : Str) :
    tget (filterTable f tb) n = if f n = true then tget tb n else none := by
  induction tb with
  | nil => simp [filterTable, tget]
  | cons ke r ih =>
    obtain ⟨k, e⟩ := ke
    by_cases hf : f k = true
    · by_cases hk : k = n
      · subst hk; simp [filterTable, tget, hf]
      · simp [filterTable, tget, hf, hk, ih]
    · by_cases hk : k = n
      · subst hk; simp [filterTable, tget, hf, ih]
      · simp [filterTable, tget, hf, hk, ih]

theorem localPubK_sound (v : AVariant) (m : AModule) (k : DK) (ds : List ADecl) (x : Str × Ent)
    (h : x ∈ localPubK v m k ds) :
    ∃ d ∈ ds, d.kind = k ∧ finalPerm v m d = .pub ∧ x = (lower d.name, d.ent) := by
  induction ds with
  | nil => simp [localPubK] at h
  | cons d r ih =>
    simp only [localPubK] at h
    by_cases hd : d.kind = k ∧ finalPerm v m d = .pub
    · simp only [hd, and_self, if_true, List.mem_append, List.mem_singleton] at h
      cases h with
      | inl h => obtain ⟨d', hm, hr⟩ := ih h; exact ⟨d', List.mem_cons_of_mem _ hm, hr⟩
      | inr h => exact ⟨d, List.mem_cons_self, hd.1, hd.2, h⟩
    · simp only [hd, if_false] at h
      obtain ⟨d', hm, hr⟩ := ih h; exact ⟨d', List.mem_cons_of_mem _ hm, hr⟩

theorem localPubK_complete (v : AVariant) (m : AModule) (ds : List ADecl) (d : ADecl)
    (hm : d ∈ ds) (hp : finalPerm v m d = .pub) :
    (lower d.name, d.ent) ∈ localPubK v m d.kind ds := by
  induction ds with
  | nil => simp at hm
  | cons d' r ih =>
    simp only [localPubK]
    cases List.mem_cons.mp hm with
    | inl h => subst h; simp [hp]
    | inr h =>
      by_cases hd : d'.kind = d.kind ∧ finalPerm v m d' = .pub
      · simp only [hd, and_self, if_true, List.mem_append]; exact Or.inl (ih h)
      · simp only [hd, if_false]; exact ih h

end Ford.ScopeAccess
