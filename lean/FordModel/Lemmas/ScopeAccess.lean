/-
  Lemmas about the accessibility model (FordModel/ScopeAccess.lean); core tactics only.
-/
import FordModel.ScopeAccess
import FordModel.Lemmas.Scope
namespace Ford.ScopeAccess
open Ford Ford.Scope

theorem firstPerm_none_lastPerm (st : List (Perm × Str)) (n : Str) (h : firstPerm st n = none) :
    lastPerm st n = none := by
  induction st with
  | nil => rfl
  | cons s r ih =>
    obtain ⟨p, k⟩ := s
    simp only [firstPerm] at h
    by_cases hk : lower k = n
    · simp [hk] at h
    · simp only [hk, if_false] at h
      simp [lastPerm, ih h, hk]

/-- with at most one access statement per identifier, "the last keyword stays" is "the statement
    that names it" -/
theorem lastPerm_eq_firstPerm (st : List (Perm × Str)) (n : Str) (h : stmtsOnce st = true) :
    lastPerm st n = firstPerm st n := by
  induction st with
  | nil => rfl
  | cons s r ih =>
    obtain ⟨p, k⟩ := s
    simp only [stmtsOnce, Bool.and_eq_true, Option.isNone_iff_eq_none] at h
    by_cases hk : lower k = n
    · subst hk
      simp [lastPerm, firstPerm, firstPerm_none_lastPerm r _ h.1]
    · simp [lastPerm, firstPerm, hk, ih h.2]
      cases firstPerm r n <;> rfl

theorem typeNamed_some (ds : List ADecl) (n : Str) (t : ADecl) (h : typeNamed ds n = some t) :
    t ∈ ds ∧ t.kind = .ty ∧ lower t.name = n := by
  induction ds with
  | nil => simp [typeNamed] at h
  | cons d r ih =>
    simp only [typeNamed] at h
    cases hr : typeNamed r n with
    | some t' =>
      simp only [hr] at h
      cases h
      have := ih hr
      exact ⟨List.mem_cons_of_mem _ this.1, this.2⟩
    | none =>
      simp only [hr] at h
      by_cases hd : d.kind = .ty ∧ lower d.name = n
      · simp only [hd, and_self, if_true] at h
        cases h
        exact ⟨List.mem_cons_self, hd⟩
      · simp [hd] at h

theorem filterTable_get (f : Str → Bool) (tb : Table) (n : Str) :
    tget (filterTable f tb) n = if f n = true then tget tb n else none := by
  induction tb with
  | nil => simp [filterTable, tget]
  | cons ke r ih =>
    obtain ⟨k, e⟩ := ke
    by_cases hf : f k = true
    · by_cases hk : k = n
      · subst hk; simp [filterTable, tget, hf]
      · simp [filterTable, tget, hf, hk, ih]
    · by_cases hk : k = n
      · subst hk; simp [filterTable, tget, hf, ih]
      · simp [filterTable, tget, hf, hk, ih]

theorem localPubK_sound (v : AVariant) (m : AModule) (k : DK) (ds : List ADecl) (x : Str × Ent)
    (h : x ∈ localPubK v m k ds) :
    ∃ d ∈ ds, d.kind = k ∧ finalPerm v m d = .pub ∧ x = (lower d.name, d.ent) := by
  induction ds with
  | nil => simp [localPubK] at h
  | cons d r ih =>
    simp only [localPubK] at h
    by_cases hd : d.kind = k ∧ finalPerm v m d = .pub
    · simp only [hd, and_self, if_true, List.mem_append, List.mem_singleton] at h
      cases h with
      | inl h => obtain ⟨d', hm, hr⟩ := ih h; exact ⟨d', List.mem_cons_of_mem _ hm, hr⟩
      | inr h => exact ⟨d, List.mem_cons_self, hd.1, hd.2, h⟩
    · simp only [hd, if_false] at h
      obtain ⟨d', hm, hr⟩ := ih h; exact ⟨d', List.mem_cons_of_mem _ hm, hr⟩

theorem localPubK_complete (v : AVariant) (m : AModule) (ds : List ADecl) (d : ADecl)
    (hm : d ∈ ds) (hp : finalPerm v m d = .pub) :
    (lower d.name, d.ent) ∈ localPubK v m d.kind ds := by
  induction ds with
  | nil => simp at hm
  | cons d' r ih =>
    simp only [localPubK]
    cases List.mem_cons.mp hm with
    | inl h => subst h; simp [hp]
    | inr h =>
      by_cases hd : d'.kind = d.kind ∧ finalPerm v m d' = .pub
      · simp only [hd, and_self, if_true, List.mem_append]; exact Or.inl (ih h)
      · simp only [hd, if_false]; exact ih h

/-! ### the public tables are the accessible part of the module's top-level frame -/

theorem filterTable_append (f : Str → Bool) (a b : Table) :
    filterTable f (a ++ b) = filterTable f a ++ filterTable f b := by
  induction a with
  | nil => rfl
  | cons ke r ih =>
    obtain ⟨k, e⟩ := ke
    by_cases hf : f k = true <;> simp [filterTable, hf, ih]

/-- if the accessibility FORD settled for every declaration is Fortran's, the public table of a kind
    is the accessible part of the table of all declarations of that kind -/
theorem localPubK_filter (v : AVariant) (m : AModule) (k : DK) (ds : List ADecl)
    (h : ∀ d ∈ ds, finalPerm v m d = accOf m (lower d.name)) :
    localPubK v m k ds = filterTable (accessible m) (localAllK k ds) := by
  induction ds with
  | nil => rfl
  | cons d r ih =>
    have hr := ih (fun d' hd' => h d' (List.mem_cons_of_mem _ hd'))
    have hd := h d List.mem_cons_self
    by_cases hk : d.kind = k
    · by_cases hp : accOf m (lower d.name) = .pub
      · simp [localPubK, localAllK, hk, hd, hp, hr, filterTable_append, filterTable, accessible]
      · simp [localPubK, localAllK, hk, hd, hp, hr, filterTable_append, filterTable, accessible]
    · simp [localPubK, localAllK, hk, hr]

theorem typeNamed_undeclared (ds : List ADecl) (n : Str) (h : declared ds n = false) :
    typeNamed ds n = none := by
  cases ht : typeNamed ds n with
  | none => rfl
  | some t =>
    have h3 := typeNamed_some ds n t ht
    have : declared ds n = true := by
      simp only [declared, List.any_eq_true]
      exact ⟨t, h3.1, by simp [h3.2.2]⟩
    simp [this] at h

/-- statements about an identifier the module does not declare, when PRIVATE statements name
    declared identifiers only: the identifier is named PUBLIC iff it is left on the public list -/
theorem firstPerm_undeclared (ds : List ADecl) (st : List (Perm × Str)) (n : Str)
    (hV : ∀ s ∈ st, s.1 = .pub ∨ declared ds (lower s.2) = true) (hn : declared ds n = false) :
    (firstPerm st n = some .pub ∨ firstPerm st n = none) ∧
      (firstPerm st n = some .pub ↔
        n ∈ (st.filter fun s => s.1 = .pub ∧ declared ds (lower s.2) = false).map fun s => lower s.2) := by
  induction st with
  | nil => simp [firstPerm]
  | cons s r ih =>
    obtain ⟨p, k⟩ := s
    have ihr := ih (fun s hs => hV s (List.mem_cons_of_mem _ hs))
    have h0 := hV (p, k) List.mem_cons_self
    by_cases hk : lower k = n
    · subst hk
      have hp : p = .pub := by
        cases h0 with
        | inl h => exact h
        | inr h => simp [hn] at h
      subst hp
      simp [firstPerm, hn]
    · simp only [firstPerm, hk, if_false]
      refine ⟨ihr.1, ?_⟩
      rw [ihr.2]
      have hk' : ¬ n = lower k := fun h => hk h.symm
      by_cases hf : p = .pub ∧ declared ds (lower k) = false
      · have : decide (p = .pub ∧ declared ds (lower k) = false) = true := by simp [hf]
        simp only [List.filter_cons, this, if_true, List.map_cons, List.mem_cons, hk', false_or]
      · have : decide (p = .pub ∧ declared ds (lower k) = false) = false := by simp [hf]
        simp only [List.filter_cons, this]
        simp

/-- for an identifier the module does not declare, FORD's re-export test is Fortran's accessibility -/
theorem shouldBePublic_undeclared (m : AModule) (n : Str) (hV : privatesDeclared m = true)
    (hn : declared m.decls n = false) : shouldBePublic m n = accessible m n := by
  have hV' : ∀ s ∈ m.stmts, s.1 = .pub ∨ declared m.decls (lower s.2) = true := by
    intro s hs
    have := List.all_eq_true.mp hV s hs
    simpa using this
  have hf := firstPerm_undeclared m.decls m.stmts n hV' hn
  have hl : n ∉ (m.decls.filter fun d => declPerm m d = .pub).map fun d => lower d.name := by
    intro hmem
    obtain ⟨d, hd, hdn⟩ := List.mem_map.mp hmem
    have : declared m.decls n = true := by
      simp only [declared, List.any_eq_true]
      exact ⟨d, (List.mem_filter.mp hd).1, by simp [hdn]⟩
    simp [this] at hn
  have ht := typeNamed_undeclared m.decls n hn
  cases hd : m.dflt with
  | pub =>
    cases hf.1 with
    | inl h => simp [shouldBePublic, accessible, accOf, hd, h]
    | inr h => simp [shouldBePublic, accessible, accOf, hd, h, ht]
  | priv =>
    by_cases hp : firstPerm m.stmts n = some .pub
    · have hmem : n ∈ publicList m := List.mem_append_right _ (hf.2.mp hp)
      simp [shouldBePublic, accessible, accOf, hd, hp, hmem]
    · have hnone : firstPerm m.stmts n = none := by
        cases hf.1 with
        | inl h => exact absurd h hp
        | inr h => exact h
      have hnm := mt hf.2.mpr hp
      have hnmem : n ∉ publicList m := by
        intro h
        cases List.mem_append.mp h with
        | inl h => exact hl h
        | inr h => exact hnm h
      simp [shouldBePublic, accessible, accOf, hd, hnone, ht, hnmem]

/-- the public tables answer every lookup like the accessible part of the module's own tables -/
def SameF (m : AModule) (ex : Exports) (tb : Tabs) : Prop :=
  ∀ n, tget ex.p n = tget (filterTable (accessible m) tb.p) n ∧
    tget ex.a n = tget (filterTable (accessible m) tb.a) n ∧
    tget ex.t n = tget (filterTable (accessible m) tb.t) n

theorem step_same (m : AModule) (i x t : Table)
    (hx : ∀ n, tget x n = tget (filterTable (accessible m) t) n)
    (hi : ∀ n, tget i n ≠ none → shouldBePublic m n = accessible m n) (n : Str) :
    tget (filterTable (shouldBePublic m) i ++ x) n = tget (filterTable (accessible m) (i ++ t)) n := by
  rw [tget_append, filterTable_get, filterTable_get, tget_append, hx n, filterTable_get]
  cases hg : tget i n with
  | none => simp
  | some e =>
    have := hi n (by simp [hg])
    rw [this]
    by_cases ha : accessible m n = true <;> simp [ha]

theorem reexports_same (m : AModule) (env : ModEnv) (us : List Use) (ex : Exports) (tb : Tabs)
    (h0 : SameF m ex tb)
    (hC : ∀ u ∈ us, ∀ x, findMod env (lower u.mod) = some x → ∀ n,
      (tget (importTable x.p u) n ≠ none ∨ tget (importTable x.a u) n ≠ none ∨ tget (importTable x.t u) n ≠ none) →
        shouldBePublic m n = accessible m n) :
    SameF m (reexports m env us ex) (applyUses env us tb) := by
  induction us generalizing ex tb with
  | nil => simpa [reexports, applyUses] using h0
  | cons u us ih =>
    have hC' := fun u' hu' => hC u' (List.mem_cons_of_mem _ hu')
    simp only [reexports, applyUses]
    cases hf : findMod env (lower u.mod) with
    | none => exact ih ex tb h0 hC'
    | some x =>
      have hu := hC u List.mem_cons_self x hf
      refine ih _ _ ?_ hC'
      intro n
      exact ⟨step_same m _ _ _ (fun k => (h0 k).1) (fun k hk => hu k (Or.inl hk)) n,
        step_same m _ _ _ (fun k => (h0 k).2.1) (fun k hk => hu k (Or.inr (Or.inl hk))) n,
        step_same m _ _ _ (fun k => (h0 k).2.2) (fun k hk => hu k (Or.inr (Or.inr hk))) n⟩

end Ford.ScopeAccess
