import FordModel.Assets
import FordModel.Lemmas.Nav
import FordModel.Lemmas.Path
namespace Ford.Assets
open Ford.Path Ford.Nav

/-! ## asset links -/

theorem flatMap_ch (ρ : Str → Str) (l : Str) : (l.map Tok.ch).flatMap (tokStr ρ) = l := by
  induction l with
  | nil => rfl
  | cons c cs ih => simp [tokStr, ih]

theorem inst_congr (ρ : Str → Str) (p q : List Piece) (h : flat p = flat q) : inst ρ p = inst ρ q := by
  simp [inst, h]

theorem inst_below (ρ : Str → Str) (p q : List Piece) (f : Str)
    (h : flat p = flat q ++ (('/' :: f).map Tok.ch)) : inst ρ p = inst ρ q ++ '/' :: f := by
  unfold inst
  rw [h, List.flatMap_append, flatMap_ch]

/-- a write that covers a link creates the file the link names, for all values of the dynamic pieces -/
theorem covers_mem (ρ : Str → Str) (w : Write) (l : Link) (h : covers w l = true) :
    inst ρ l.path ∈ writeFiles ρ w := by
  unfold covers at h
  unfold writeFiles
  cases hs : w.src with
  | file =>
    rw [hs] at h
    simp only [decide_eq_true_eq] at h
    simp [inst_congr ρ _ _ h]
  | page =>
    rw [hs] at h
    simp only [decide_eq_true_eq] at h
    simp [inst_congr ρ _ _ h]
  | shipped fs =>
    rw [hs] at h
    simp only [List.any_eq_true, decide_eq_true_eq] at h
    obtain ⟨f, hf, he⟩ := h
    simp only [List.mem_map]
    exact ⟨f, hf, (inst_below ρ _ _ f he).symm⟩
  | user =>
    rw [hs] at h
    simp at h

/-- soundness of the per-link obligation: for every option combination and all dynamic values, an
    emitted link names a written file -/
theorem linkOk_sound (T : Tables) (l : Link) (h : linkOk T l = true) (sh : Shape) (ρ : Str → Str)
    (hc : eval sh l.cond = true) : inst ρ l.path ∈ written T sh ρ := by
  unfold linkOk at h
  simp only [List.any_eq_true, Bool.and_eq_true] at h
  obtain ⟨w, hw, hcov, hval⟩ := h
  have hi := valid_sound _ hval sh
  rw [eval_imp] at hi
  have hwc := hi hc
  unfold written
  simp only [List.mem_flatMap]
  exact ⟨w, hw, by simp [hwc, covers_mem ρ w l hcov]⟩

/-! ## copies next to static pages -/

theorem pageSeg_normal : NormalSeg pageSeg := by decide

theorem resolve_normal (d r : List Seg) (hd : Normal d) (hr : Normal r) : resolve d r = d ++ r := by
  unfold resolve
  exact norm_normal _ (normal_append hd hr)

theorem normal_cons_mk {x : Seg} {xs : List Seg} (hx : NormalSeg x) (hxs : Normal xs) : Normal (x :: xs) := by
  intro s hs
  cases hs with
  | head => exact hx
  | tail _ h => exact hxs s h

theorem pageDir_normal (p : PageNode) (hl : Normal p.loc) : Normal (pageDirOf p) :=
  normal_cons_mk pageSeg_normal hl

/-- when the `copy_subdir` loop runs for a page, the relative link `<dir>/<file>` written on that page
    resolves to a file the page's `writeout` creates -/
theorem copy_link_written (T : PageTables) (p : PageNode) (hrun : T.copyGuard.runs p.isIndex = true)
    (base : List Seg) (d : Seg) (fs : List (List Seg)) (f : List Seg)
    (hmem : (d, fs) ∈ p.copySubdir) (hf : f ∈ fs)
    (hb : Normal base) (hl : Normal p.loc) (hd : NormalSeg d) (hfn : Normal f) :
    resolve (base ++ pageDirOf p) (d :: f) ∈ (pageWrites T p).map (base ++ ·) := by
  rw [resolve_normal _ _ (normal_append hb (pageDir_normal p hl)) (normal_cons_mk hd hfn)]
  simp only [List.mem_map]
  refine ⟨pageSeg :: p.loc ++ d :: f, ?_, by simp [pageDirOf]⟩
  unfold pageWrites
  rw [hrun]
  simp only [List.mem_cons, List.mem_append, List.mem_flatMap, List.mem_map, if_true]
  right; left
  exact ⟨(d, fs), hmem, f, hf, rfl⟩

/-- the same for the other files of a page directory, carried by the node of its `index.md` -/
theorem file_link_written (T : PageTables) (p : PageNode) (hrun : T.filesGuard.runs p.isIndex = true)
    (base : List Seg) (f : Seg) (hf : f ∈ p.files)
    (hb : Normal base) (hl : Normal p.loc) (hfn : NormalSeg f) :
    resolve (base ++ pageDirOf p) [f] ∈ (pageWrites T p).map (base ++ ·) := by
  rw [resolve_normal _ _ (normal_append hb (pageDir_normal p hl)) (normal_cons_mk hfn (by intro s hs; cases hs))]
  simp only [List.mem_map]
  refine ⟨pageSeg :: p.loc ++ [f], ?_, by simp [pageDirOf]⟩
  unfold pageWrites
  rw [hrun]
  simp only [List.mem_cons, List.mem_append, List.mem_map, if_true]
  right; right
  exact ⟨f, hf, rfl⟩

end Ford.Assets
