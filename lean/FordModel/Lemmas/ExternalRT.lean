/-
  Round trip lemmas: importing what was exported gives the specified objects.
-/
import FordModel.ExternalSpec
import FordModel.Lemmas.External
namespace Ford.Ext
open Ford

/-! ### facts about the generated tables -/

theorem hdr_keys_not_attrs : ∀ a ∈ Gen.attributes,
    (a == kName) = false ∧ (a == kUrl) = false ∧ (a == kObj) = false ∧ (a == kProctype) = false := by
  decide

theorem kProctype_not_attr : kProctype ∉ Gen.attributes := by decide

theorem exportAttrs_eq_map (attrs : List (Str × Attr)) :
    exportAttrs attrs = attrs.map (fun kv => (kv.1, exportAttr kv.2)) := by
  induction attrs with
  | nil => simp [exportAttrs]
  | cons x r ih => obtain ⟨k, a⟩ := x; simp [exportAttrs, ih]

theorem importPairs_eq_map (b : Base) (p : Option Json) (kvs : List (Str × Json)) :
    importPairs b p kvs = kvs.map (fun kv => (kv.1, importAttr b p kv.2)) := by
  induction kvs with
  | nil => simp [importPairs]
  | cons x r ih => obtain ⟨k, a⟩ := x; simp [importPairs, ih]

theorem specAttrs_eq_map (b : Base) (p : Option Json) (attrs : List (Str × Attr)) :
    specAttrs b p attrs = attrs.map (fun kv => (kv.1, specAttr b p kv.2)) := by
  induction attrs with
  | nil => simp [specAttrs]
  | cons x r ih => obtain ⟨k, a⟩ := x; simp [specAttrs, ih]

theorem header_lookup_attr (name : Str) (url : Option Str) (obj : Str) (pt : Option Str) (a : Str)
    (ha : a ∈ Gen.attributes) : (header name url obj pt).lookup a = none := by
  obtain ⟨h1, h2, h3, h4⟩ := hdr_keys_not_attrs a ha
  cases pt <;> simp [header, List.lookup, h1, h2, h3, h4]

theorem afterFirstSlash_dot_slash (u : Str) : afterFirstSlash ('.' :: '/' :: u) = u := by
  simp [afterFirstSlash, afterFirstSlashAux]

theorem truthy_export (e : Ent) : truthy (exportE e) = keep e := by
  cases e with
  | ext => simp [exportE, truthy, keep]
  | text s => simp [exportE, truthy, keep]
  | node name url obj pt attrs => cases pt <;> simp [exportE, truthy, keep, header]

/-- the attribute part of the round trip, given the children's round trips -/
theorem attrs_roundtrip (b : Base) (q : Option Json) (name : Str) (url : Option Str) (obj : Str)
    (pt : Option Str) (attrs : List (Str × Attr))
    (hattrs : importPairs b q (exportAttrs attrs)
                = (specAttrs b q attrs).map (fun kv => (kv.1, (Except.ok kv.2 : Except XErr XAttr)))) :
    sequencePairs (orderByTable Gen.attributes
        (importPairs b q (header name url obj pt ++ orderByTable Gen.attributes (exportAttrs attrs))))
      = .ok (orderByTable Gen.attributes (specAttrs b q attrs)) := by
  have key : orderByTable Gen.attributes
        (importPairs b q (header name url obj pt ++ orderByTable Gen.attributes (exportAttrs attrs)))
      = (orderByTable Gen.attributes (specAttrs b q attrs)).map
          (fun kv => (kv.1, (Except.ok kv.2 : Except XErr XAttr))) := by
    rw [← orderByTable_map_snd, ← hattrs]
    apply orderByTable_congr
    intro a ha
    rw [importPairs_eq_map, importPairs_eq_map, lookup_map_snd, lookup_map_snd, lookup_append,
      header_lookup_attr _ _ _ _ a ha, lookup_orderByTable, if_pos ha]
    simp
  rw [key, sequencePairs_ok]


theorem kUrl_ne_kName : (kUrl == kName) = false := by decide
theorem kObj_ne_kName : (kObj == kName) = false := by decide
theorem kObj_ne_kUrl : (kObj == kUrl) = false := by decide
theorem kProctype_ne_kName : (kProctype == kName) = false := by decide
theorem kProctype_ne_kUrl : (kProctype == kUrl) = false := by decide
theorem kProctype_ne_kObj : (kProctype == kObj) = false := by decide

/-- node case of the round trip, given the round trip of the attributes -/
theorem dict2obj_export_node (b : Base) (p : Option Json) (name : Str) (url : Option Str) (obj : Str)
    (pt : Option Str) (attrs : List (Str × Attr))
    (hv1 : (Gen.entities.lookup (kindOf obj pt)).isSome = true)
    (hv2 : (kindOf obj pt != kInterface || pt.isSome) = true)
    (hattrs : importPairs b (some (.str name)) (exportAttrs attrs)
                = (specAttrs b (some (.str name)) attrs).map
                    (fun kv => (kv.1, (Except.ok kv.2 : Except XErr XAttr)))) :
    dict2obj b p (exportE (.node name url obj pt attrs)) = .ok (specE b p (.node name url obj pt attrs)) := by
  have hseq := attrs_roundtrip b (some (.str name)) name url obj pt attrs hattrs
  obtain ⟨ent, hent⟩ := Option.isSome_iff_exists.mp hv1
  have hpn : (orderByTable Gen.attributes (exportAttrs attrs)).lookup kProctype = none := by
    rw [lookup_orderByTable, if_neg kProctype_not_attr]
  have hname : (header name url obj pt ++ orderByTable Gen.attributes (exportAttrs attrs)).lookup kName
      = some (.str name) := by
    cases pt <;> simp [header, List.lookup]
  have hurl : (header name url obj pt ++ orderByTable Gen.attributes (exportAttrs attrs)).lookup kUrl
      = some (.str ('.' :: '/' :: urlText url)) := by
    cases pt <;> simp [header, List.lookup, kUrl_ne_kName]
  have hobj : (header name url obj pt ++ orderByTable Gen.attributes (exportAttrs attrs)).lookup kObj
      = some (.str obj) := by
    cases pt <;> simp [header, List.lookup, kObj_ne_kName, kObj_ne_kUrl]
  have hpt : (header name url obj pt ++ orderByTable Gen.attributes (exportAttrs attrs)).lookup kProctype
      = pt.map Json.str := by
    cases pt <;> simp [header, List.lookup, kProctype_ne_kName, kProctype_ne_kUrl, kProctype_ne_kObj, hpn]
  simp only [exportE, dict2obj, hname]
  rw [hseq]
  unfold buildNode
  simp only [hname, hurl, hobj, hpt]
  have hlow : lowerJson ((pt.map Json.str).getD (.str obj)) = .ok (kindOf obj pt) := by
    cases pt <;> simp [lowerJson, kindOf]
  simp only [truthy, afterFirstSlash_dot_slash, hlow, hent]
  cases pt with
  | none =>
    have hni : (kindOf obj none == kInterface) = false := by simpa using hv2
    simp [specE, hni]
  | some pv =>
    by_cases hi : (kindOf obj (some pv) == kInterface) = true
    · simp [specE, hi]
    · have hi2 : (kindOf obj (some pv) == kInterface) = false := by simpa using hi
      simp [specE, hi2]


mutual
theorem rt_ent (b : Base) : ∀ (e : Ent), validE e = true → ∀ p, keep e = true ∨ (∃ s, e = .text s) →
    dict2obj b p (exportE e) = .ok (specE b p e)
  | .ext, _, _, h => by simp [keep] at h
  | .text s, _, _, _ => by simp [exportE, dict2obj, specE]
  | .node name url obj pt attrs, hv, p, _ => by
    simp only [validE, Bool.and_eq_true] at hv
    exact dict2obj_export_node b p name url obj pt attrs hv.1.1 hv.1.2
      (rt_attrs b attrs hv.2 (some (.str name)))
theorem rt_attrs (b : Base) : ∀ (attrs : List (Str × Attr)), validAttrs attrs = true → ∀ q,
    importPairs b q (exportAttrs attrs)
      = (specAttrs b q attrs).map (fun kv => (kv.1, (Except.ok kv.2 : Except XErr XAttr)))
  | [], _, _ => by simp [exportAttrs, importPairs, specAttrs]
  | (k, a) :: r, hv, q => by
    simp only [validAttrs, Bool.and_eq_true] at hv
    simp [exportAttrs, importPairs, specAttrs, rt_attr b a hv.1 q, rt_attrs b r hv.2 q]
theorem rt_attr (b : Base) : ∀ (a : Attr), validAttr a = true → ∀ q,
    importAttr b q (exportAttr a) = .ok (specAttr b q a)
  | .list xs, hv, q => by
    simp only [validAttr] at hv
    simp [exportAttr, importAttr, specAttr, rt_list b xs hv q]
  | .dict kvs, hv, q => by
    simp only [validAttr] at hv
    simp [exportAttr, importAttr, specAttr, rt_dict b kvs hv q]
  | .scalar s, _, _ => by simp [exportAttr, importAttr, specAttr]
theorem rt_list (b : Base) : ∀ (xs : List Ent), validList xs = true → ∀ q,
    importList b q (exportList xs) = .ok (specList b q xs)
  | [], _, _ => by simp [exportList, importList, specList]
  | e :: r, hv, q => by
    simp only [validList, Bool.and_eq_true] at hv
    by_cases hk : keep e = true
    · simp [exportList, importList, specList, truthy_export, hk, rt_ent b e hv.1 q (Or.inl hk),
        rt_list b r hv.2 q]
    · simp [exportList, importList, specList, truthy_export, hk, rt_list b r hv.2 q]
theorem rt_dict (b : Base) : ∀ (kvs : List (Str × Ent)), validDict kvs = true → ∀ q,
    importDict b q (exportDict kvs) = .ok (specDict b q kvs)
  | [], _, _ => by simp [exportDict, importDict, specDict]
  | (k, e) :: r, hv, q => by
    simp only [validDict, Bool.and_eq_true] at hv
    by_cases hk : keep e = true
    · simp [exportDict, importDict, specDict, truthy_export, hk, rt_ent b e hv.1 q (Or.inl hk),
        rt_dict b r hv.2 q]
    · simp [exportDict, importDict, specDict, truthy_export, hk, rt_dict b r hv.2 q]
end

end Ford.Ext
