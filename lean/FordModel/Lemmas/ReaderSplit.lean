import FordModel.Lemmas.ReaderLayout
namespace Ford

/-! ### `&` ... `&` continuation is exact: a line cut anywhere reads as the uncut line -/

/-- text contributed by a continuation line -/
def Mid.text : Mid → Str
  | .cont _ b => b
  | _ => []

/-- a physical line of a continued statement that joins directly: blank / comment line,
    `&`-only line, or `& b &` -/
def Mid.direct : Mid → Prop
  | .blank => True
  | .ampOnly _ => True
  | .cont lead _ => lead = true

theorem foldl_join_direct (J : Str) (mids : List Mid) (h : ∀ mid ∈ mids, mid.direct) :
    mids.foldl Mid.join J = J ++ (mids.map Mid.text).flatten := by
  induction mids generalizing J with
  | nil => simp
  | cons mid ms ih =>
    have hm := h mid (by simp)
    have hrest : ∀ m' ∈ ms, m'.direct := fun m' hm' => h m' (by simp [hm'])
    simp only [List.foldl_cons, List.map_cons, List.flatten_cons]
    rw [ih _ hrest]
    cases mid with
    | blank => simp [Mid.join, Mid.text]
    | ampOnly ws => simp [Mid.join, Mid.text]
    | cont lead b =>
      simp only [Mid.direct] at hm
      subst hm
      simp [Mid.join, Mid.text]

/-- a complete statement on one physical line -/
theorem feedCode_single (x : Char) (s : Str) (hx : x ≠ '&') (hl : (x :: s).getLast? ≠ some '&')
    (hJ : itemsOf (' ' :: x :: s) ≠ []) :
    feedCode [] false (x :: s) = .ok (([], false), itemsOf (' ' :: x :: s)) := by
  have hx' : (x == '&') = false := by simp [hx]
  have hl' : ((x :: s).getLast? == some '&') = false := by simpa using hl
  have : (itemsOf (' ' :: x :: s)).isEmpty = false := by simpa using hJ
  simp only [itemsOf] at this
  simp [feedCode, hx', splitAmp, hl', tailC, itemsOf, this, strip, rstrip, lstrip]

theorem getLast?_append_of_ne_nil (a b : Str) (hb : b ≠ []) : (a ++ b).getLast? = b.getLast? := by
  cases b with
  | nil => exact absurd rfl hb
  | cons c cs => simp [List.getLast?_append, List.getLast?_cons_cons, List.getLast?_eq_some_getLast]

/-- **Cutting a line with `&` ... `&` changes nothing.**  The statement on the physical line
    `l1` (code part `x :: r ++ pieces ++ b`) and the same text cut into any number of pieces -
    first line `x r &`, then any mixture of blank / comment / `&`-only lines and lines
    `& piece &`, then `& b` - give the same reading, exactly. -/
theorem split_exact (m : Marks) (l0 l1 : Str) (x : Char) (r : Str) (mids : List Mid)
    (lines : List Str) (ln b : Str) (rest : List Str)
    (h0 : NoDoc m false l0) (hc0 : codeOf false l0 = x :: r ++ ['&']) (hx : x ≠ '&')
    (hd : ∀ mid ∈ mids, mid.direct)
    (hr : Rendered m (' ' :: x :: r) mids lines)
    (hn : NoDoc m (unterminated (' ' :: x :: r ++ (mids.map Mid.text).flatten)) ln)
    (hcn : codeOf (unterminated (' ' :: x :: r ++ (mids.map Mid.text).flatten)) ln = '&' :: b)
    (h1 : NoDoc m false l1) (hc1 : codeOf false l1 = x :: r ++ (mids.map Mid.text).flatten ++ b)
    (hb : isBlank b = false) (hl : b.getLast? ≠ some '&')
    (hJ : itemsOf (' ' :: x :: r ++ (mids.map Mid.text).flatten ++ b) ≠ []) :
    readFrom m (qs [] false) (l0 :: lines ++ ln :: rest) = readFrom m (qs [] false) (l1 :: rest) := by
  have hfold : mids.foldl Mid.join (' ' :: x :: r) = ' ' :: x :: r ++ (mids.map Mid.text).flatten := by
    rw [foldl_join_direct _ _ hd]
  have hbne : b ≠ [] := by
    intro h; subst h; simp [isBlank] at hb
  -- the cut layout
  have hL := continuation_join m l0 x r mids lines ln true b rest h0 hc0 hx hr
    (by rw [hfold]; exact hn) (by rw [hfold]; simpa [lastCode] using hcn) hb hl (by intro h; cases h)
    (by rw [hfold]; simpa [Mid.join] using hJ)
  rw [hL, hfold]
  -- the uncut line
  have hu : unterminated ([] : Str) = false := by decide
  have hlast : (x :: (r ++ (mids.map Mid.text).flatten ++ b)).getLast? ≠ some '&' := by
    have e : x :: (r ++ (mids.map Mid.text).flatten ++ b) = (x :: (r ++ (mids.map Mid.text).flatten)) ++ b := by
      simp
    rw [e, getLast?_append_of_ne_nil _ _ hbne]; exact hl
  have hf1 : feed m (qs [] false) l1 =
      .ok (qs [] false, itemsOf (' ' :: x :: (r ++ (mids.map Mid.text).flatten ++ b))) := by
    rw [feed_eq_feedCode m (qs [] false) l1 (quiet_qs _ _) (by simpa [qs, hu] using h1)]
    simp only [qs, hu, hc1]
    have e : x :: r ++ (mids.map Mid.text).flatten ++ b = x :: (r ++ (mids.map Mid.text).flatten ++ b) := by
      simp
    rw [e, feedCode_single x _ hx hlast (by simpa using hJ)]
    rfl
  rw [readFrom_step m _ _ l1 rest _ hf1]
  simp [Mid.join]

end Ford
