/-
  Lemmas for C16 round 6: looking up a child of an imported object that came from an exported
  description (`xFindChild ∘ specE`), and the double stripping of an exported URL.
-/
import FordModel.ExternalChild
import FordModel.ExternalSpec
import FordModel.Lemmas.External
import FordModel.Lemmas.ExternalReach
namespace Ford.Ext
open Ford

/-- the first entity object of a list whose name is `name`, case-insensitively (specification side) -/
def firstNamed (name : Str) : List Ent → Option Ent
  | [] => none
  | .node n u o pt ats :: r => if lower name == lower n then some (.node n u o pt ats) else firstNamed name r
  | _ :: r => firstNamed name r

/-- the first entity of that name in the exported list attributes of an entity, the attributes taken in
    `order` (specification side of `_find_in_list(self.children, name)`) -/
def firstChild (name : Str) (attrs : List (Str × Attr)) : List Str → Option Ent
  | [] => none
  | a :: r =>
    match (if a ∈ Gen.attributes then attrs.lookup a else none) with
    | some (.list xs) =>
      (match firstNamed name xs with
       | some c => some c
       | none => firstChild name attrs r)
    | _ => firstChild name attrs r

theorem xFindIn_specList (b : Base) (q : Option Json) (name : Str) (xs : List Ent) :
    xFindIn name (specList b q xs) = .ok ((firstNamed name xs).map (specE b q)) := by
  induction xs with
  | nil => simp [specList, xFindIn, firstNamed]
  | cons e r ih =>
    cases e with
    | ext => simp [specList, keep, firstNamed, ih]
    | text s =>
      by_cases hs : s.isEmpty = true
      · simp [specList, keep, hs, firstNamed, ih]
      · simp [specList, keep, hs, firstNamed, specE, xFindIn, ih]
    | node n u o pt ats =>
      by_cases hn : (lower name == lower n) = true
      · simp [specList, keep, firstNamed, specE, xFindIn, hn]
      · simp [specList, keep, firstNamed, specE, xFindIn, hn, ih]

theorem firstNamed_sound (name : Str) (xs : List Ent) (c : Ent) (h : firstNamed name xs = some c) :
    c ∈ xs ∧ ∃ n u o pt ats, c = .node n u o pt ats ∧ lower name = lower n := by
  induction xs with
  | nil => simp [firstNamed] at h
  | cons e r ih =>
    cases e with
    | ext => simp only [firstNamed] at h; have := ih h; exact ⟨List.mem_cons_of_mem _ this.1, this.2⟩
    | text s => simp only [firstNamed] at h; have := ih h; exact ⟨List.mem_cons_of_mem _ this.1, this.2⟩
    | node n u o pt ats =>
      by_cases hn : (lower name == lower n) = true
      · simp only [firstNamed, hn, if_true, Option.some.injEq] at h
        subst h
        exact ⟨List.mem_cons_self, n, u, o, pt, ats, rfl, by simpa using hn⟩
      · simp only [firstNamed, hn] at h
        have := ih h
        exact ⟨List.mem_cons_of_mem _ this.1, this.2⟩

theorem firstNamed_complete (name : Str) (xs : List Ent) (n : Str) (u : Option Str) (o : Str) (pt : Option Str)
    (ats : List (Str × Attr)) (h : Ent.node n u o pt ats ∈ xs) (hn : lower name = lower n) :
    ∃ c, firstNamed name xs = some c := by
  induction xs with
  | nil => simp at h
  | cons e r ih =>
    cases e with
    | ext =>
      rcases List.mem_cons.mp h with h | h
      · cases h
      · simpa [firstNamed] using ih h
    | text s =>
      rcases List.mem_cons.mp h with h | h
      · cases h
      · simpa [firstNamed] using ih h
    | node n' u' o' pt' at' =>
      by_cases hn' : (lower name == lower n') = true
      · exact ⟨.node n' u' o' pt' at', by simp [firstNamed, hn']⟩
      · rcases List.mem_cons.mp h with h | h
        · cases h; simp [hn] at hn'
        · simpa [firstNamed, hn'] using ih h

theorem firstChild_sound (name : Str) (attrs : List (Str × Attr)) (order : List Str) (c : Ent)
    (h : firstChild name attrs order = some c) :
    ∃ a xs, a ∈ order ∧ a ∈ Gen.attributes ∧ attrs.lookup a = some (.list xs) ∧ c ∈ xs ∧
      ∃ n u o pt ats, c = .node n u o pt ats ∧ lower name = lower n := by
  induction order with
  | nil => simp [firstChild] at h
  | cons a r ih =>
    have lift : firstChild name attrs r = some c →
        ∃ a' xs, a' ∈ a :: r ∧ a' ∈ Gen.attributes ∧ attrs.lookup a' = some (.list xs) ∧ c ∈ xs ∧
          ∃ n u o pt ats, c = .node n u o pt ats ∧ lower name = lower n := fun h' => by
      obtain ⟨a', xs, h1, h2⟩ := ih h'
      exact ⟨a', xs, List.mem_cons_of_mem _ h1, h2⟩
    by_cases ha : a ∈ Gen.attributes
    · cases hl : attrs.lookup a with
      | none => simp [firstChild, ha, hl] at h; exact lift h
      | some v =>
        cases v with
        | list xs =>
          cases hf : firstNamed name xs with
          | none => simp [firstChild, ha, hl, hf] at h; exact lift h
          | some c' =>
            simp [firstChild, ha, hl, hf] at h
            subst h
            have := firstNamed_sound name xs c' hf
            exact ⟨a, xs, List.mem_cons_self, ha, hl, this.1, this.2⟩
        | dict kvs => simp [firstChild, ha, hl] at h; exact lift h
        | scalar s => simp [firstChild, ha, hl] at h; exact lift h
    · simp [firstChild, ha] at h; exact lift h

theorem firstChild_complete (name : Str) (attrs : List (Str × Attr)) (order : List Str) (a : Str) (xs : List Ent)
    (ha : a ∈ order) (hat : a ∈ Gen.attributes) (hl : attrs.lookup a = some (.list xs))
    (n : Str) (u : Option Str) (o : Str) (pt : Option Str) (ats : List (Str × Attr))
    (h : Ent.node n u o pt ats ∈ xs) (hn : lower name = lower n) :
    ∃ c, firstChild name attrs order = some c := by
  induction order with
  | nil => simp at ha
  | cons a' r ih =>
    by_cases he : a = a'
    · subst he
      obtain ⟨c, hc⟩ := firstNamed_complete name xs n u o pt ats h hn
      exact ⟨c, by simp [firstChild, hat, hl, hc]⟩
    · have har : a ∈ r := by
        rcases List.mem_cons.mp ha with h' | h'
        · exact absurd h' he
        · exact h'
      obtain ⟨c, hc⟩ := ih har
      unfold firstChild
      split
      · split
        · exact ⟨_, rfl⟩
        · exact ⟨c, hc⟩
      · exact ⟨c, hc⟩

/-! ### what a fresh object of an External class has can be iterated -/

/-- table fact on the probed `Gen.classDefaults`: every default value is an empty list / dict or a string -/
theorem classDefaults_iterable :
    Gen.classDefaults.all (fun row => row.2.all (fun p => p.2 == kList || p.2 == kDict || p.2 == kStr)) = true := by
  decide

theorem lookup_mem {β : Type} (xs : List (Str × β)) (a : Str) (v : β) (h : xs.lookup a = some v) :
    ∃ k, (k, v) ∈ xs := by
  induction xs with
  | nil => simp [List.lookup] at h
  | cons x r ih =>
    obtain ⟨k, w⟩ := x
    by_cases hk : (a == k) = true
    · simp [List.lookup, hk] at h; subst h; exact ⟨k, List.mem_cons_self⟩
    · simp [List.lookup, hk] at h
      obtain ⟨k', hk'⟩ := ih h
      exact ⟨k', List.mem_cons_of_mem _ hk'⟩

theorem defaultVal_iterable (cls a : Str) :
    defaultVal cls a = .absent ∨ defaultVal cls a = .nothing := by
  unfold defaultVal
  cases h : (Gen.classDefaults.lookup cls).bind (fun row => row.lookup a) with
  | none => simp
  | some shape =>
    right
    cases hr : Gen.classDefaults.lookup cls with
    | none => simp [hr] at h
    | some row =>
      simp [hr] at h
      obtain ⟨k, hk⟩ := lookup_mem _ _ _ hr
      obtain ⟨k2, hk2⟩ := lookup_mem _ _ _ h
      have h1 := List.all_eq_true.mp classDefaults_iterable (k, row) hk
      have h2 := List.all_eq_true.mp h1 (k2, shape) hk2
      simp only at h2
      simp [h2]

/-- the attribute of the import of an exported entity, as `find_child` meets it -/
theorem attrVal_spec (b : Base) (q : Option Json) (cls : Str) (attrs : List (Str × Attr)) (a : Str) :
    attrVal cls (orderByTable Gen.attributes (specAttrs b q attrs)) a =
      match (if a ∈ Gen.attributes then attrs.lookup a else none) with
      | some (.list xs) => .items (specList b q xs)
      | some (.dict _) => .nothing
      | some (.scalar _) => .nothing
      | none => defaultVal cls a := by
  unfold attrVal
  rw [lookup_orderByTable, lookup_specAttrs]
  by_cases ha : a ∈ Gen.attributes
  · cases hl : attrs.lookup a with
    | none => simp [ha]
    | some v => cases v <;> simp [ha, specAttr]
  · simp [ha]

theorem findLazy_spec (b : Base) (q : Option Json) (cls : Str) (name : Str) (attrs : List (Str × Attr))
    (order : List Str) :
    findLazy name cls (orderByTable Gen.attributes (specAttrs b q attrs)) order
      = .ok ((firstChild name attrs order).map (specE b q)) := by
  induction order with
  | nil => simp [findLazy, firstChild]
  | cons a r ih =>
    unfold findLazy firstChild
    rw [attrVal_spec]
    cases hl : (if a ∈ Gen.attributes then attrs.lookup a else none) with
    | none =>
      rcases defaultVal_iterable cls a with hd | hd <;> simp [hd, ih]
    | some v =>
      cases v with
      | list xs =>
        simp only [xFindIn_specList]
        cases hf : firstNamed name xs <;> simp [ih]
      | dict kvs => simp [ih]
      | scalar s => simp [ih]

/-! ### stripping the first segment twice -/

theorem afterFirstSlashAux_append (d f : Str) (hd : '/' ∉ d) :
    afterFirstSlashAux (d ++ '/' :: f) = some f := by
  induction d with
  | nil => simp [afterFirstSlashAux]
  | cons c r ih =>
    have hc : (c == '/') = false := by
      simp only [List.mem_cons, not_or] at hd
      simpa using fun h => hd.1 h.symm
    have hr : '/' ∉ r := fun h => hd (List.mem_cons_of_mem _ h)
    simp [afterFirstSlashAux, hc, ih hr]

theorem afterFirstSlash_append (d f : Str) (hd : '/' ∉ d) : afterFirstSlash (d ++ '/' :: f) = f := by
  simp [afterFirstSlash, afterFirstSlashAux_append d f hd]

theorem afterFirstSlashAux_none (s : Str) (h : '/' ∉ s) : afterFirstSlashAux s = none := by
  induction s with
  | nil => rfl
  | cons c r ih =>
    have hc : (c == '/') = false := by
      simp only [List.mem_cons, not_or] at h
      simpa using fun h' => h.1 h'.symm
    simp [afterFirstSlashAux, hc, ih (fun h' => h (List.mem_cons_of_mem _ h'))]

end Ford.Ext

namespace Ford.Ext
open Ford

theorem xFindTop_not_skipped (skip : List Str) (name : Str) (xs : List XObj) (o : XObj)
    (h : xFindTop skip name xs = .ok (some o)) : skip.contains (xCls o) = false := by
  induction xs with
  | nil => simp [xFindTop] at h
  | cons x r ih =>
    cases x with
    | text s => simp only [xFindTop] at h; exact ih h
    | node cls n url parent pt attrs =>
      by_cases hs : skip.contains cls = true
      · simp only [xFindTop, hs, if_true] at h; exact ih h
      · have hs' : skip.contains cls = false := by
          cases hc : skip.contains cls
          · rfl
          · exact absurd hc hs
        cases n with
        | str s =>
          by_cases hn : (lower name == lower s) = true
          · simp only [xFindTop, hs', hn, if_true] at h
            simp only [Bool.false_eq_true, if_false, Except.ok.injEq, Option.some.injEq] at h
            subst h
            simpa [xCls] using hs'
          · simp only [xFindTop, hs', hn] at h
            simp only [Bool.false_eq_true, if_false] at h
            exact ih h
        | null => simp only [xFindTop, hs', Bool.false_eq_true, if_false] at h; cases h
        | bool b => simp only [xFindTop, hs', Bool.false_eq_true, if_false] at h; cases h
        | num k => simp only [xFindTop, hs', Bool.false_eq_true, if_false] at h; cases h
        | arr ys => simp only [xFindTop, hs', Bool.false_eq_true, if_false] at h; cases h
        | obj kvs => simp only [xFindTop, hs', Bool.false_eq_true, if_false] at h; cases h

end Ford.Ext
