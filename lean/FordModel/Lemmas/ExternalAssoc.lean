/-
  Lemmas about the tables of FordModel/ExternalAssoc.lean (Python dicts as association lists) and
  about `Project.find` on the collections after `load_external_modules`.
-/
import FordModel.External
import FordModel.ExternalAssoc
import FordModel.Lemmas.ExternalMulti
namespace Ford.Ext
open Ford

/-- every key once - what a Python dict is -/
def Tbl.wf (t : Tbl) : Prop := (t.map (·.1)).Nodup

theorem lookup_dset (d : Tbl) (k k' : Str) (v : Item) :
    (dset d k v).lookup k' = if k' == k then some v else d.lookup k' := by
  induction d with
  | nil => simp [dset, List.lookup]; split <;> simp_all
  | cons x r ih =>
    obtain ⟨a, b⟩ := x
    by_cases h : a == k
    · have h' : a = k := by simpa using h
      subst h'
      by_cases h2 : k' == a <;> simp [dset, List.lookup, h2]
    · by_cases h2 : k' == a
      · have h2' : k' = a := by simpa using h2
        subst h2'
        simp [dset, h, List.lookup]
      · simp [dset, h, List.lookup, h2, ih]

theorem keys_dset (d : Tbl) (k : Str) (v : Item) :
    (dset d k v).map (·.1) = if k ∈ d.map (·.1) then d.map (·.1) else d.map (·.1) ++ [k] := by
  induction d with
  | nil => simp [dset]
  | cons x r ih =>
    obtain ⟨a, b⟩ := x
    by_cases h : a == k
    · have h' : a = k := by simpa using h
      simp [dset, h']
    · have h' : ¬ k = a := by intro e; subst e; simp at h
      simp only [dset, h, Bool.false_eq_true, ↓reduceIte, List.map_cons, ih, List.mem_cons, h', false_or]
      split <;> simp

theorem wf_dset (d : Tbl) (k : Str) (v : Item) (h : d.wf) : (dset d k v).wf := by
  unfold Tbl.wf at *
  rw [keys_dset]
  split
  · exact h
  · rename_i hk
    exact List.nodup_append.mpr ⟨h, by simp, by
      intro a ha b hb
      simp at hb; subst hb
      intro e; subst e; exact hk ha⟩

theorem wf_dupdate (d e : Tbl) (h : d.wf) : (dupdate d e).wf := by
  unfold dupdate
  induction e generalizing d with
  | nil => simpa using h
  | cons x r ih => simpa using ih _ (wf_dset d x.1 x.2 h)

theorem lookup_dupdate_not_key (d e : Tbl) (k : Str) (h : k ∉ e.map (·.1)) :
    (dupdate d e).lookup k = d.lookup k := by
  unfold dupdate
  induction e generalizing d with
  | nil => simp
  | cons x r ih =>
    simp only [List.map_cons, List.mem_cons, not_or] at h
    simp only [List.foldl_cons]
    rw [ih _ h.2, lookup_dset]
    have : (k == x.1) = false := by simpa using h.1
    simp [this]

/-- `d.update(e)`: afterwards `d[k]` is `e[k]` for every key of `e` -/
theorem lookup_dupdate_of_lookup (d e : Tbl) (k : Str) (v : Item) (he : e.wf)
    (h : e.lookup k = some v) : (dupdate d e).lookup k = some v := by
  induction e generalizing d with
  | nil => simp [List.lookup] at h
  | cons x r ih =>
    obtain ⟨a, b⟩ := x
    have hwf : Tbl.wf r := by
      unfold Tbl.wf at *; simp only [List.map_cons] at he; exact (List.nodup_cons.mp he).2
    have hna : a ∉ r.map (·.1) := by
      unfold Tbl.wf at he; simp only [List.map_cons] at he; exact (List.nodup_cons.mp he).1
    by_cases hk : k == a
    · have hk' : k = a := by simpa using hk
      subst hk'
      simp [List.lookup] at h
      subst h
      have := lookup_dupdate_not_key (dset d k b) r k hna
      simp only [dupdate, List.foldl_cons] at this ⊢
      rw [this, lookup_dset]; simp
    · simp [List.lookup, hk] at h
      have := ih (dset d a b) hwf h
      simpa [dupdate] using this

theorem wf_filter (t : Tbl) (p : Str × Item → Bool) (h : t.wf) : Tbl.wf (t.filter p) := by
  unfold Tbl.wf at *
  exact List.Nodup.sublist (List.Sublist.map _ List.filter_sublist) h

theorem lookup_of_mem_wf (t : Tbl) (k : Str) (v : Item) (hw : t.wf) (h : (k, v) ∈ t) :
    t.lookup k = some v := by
  induction t with
  | nil => simp at h
  | cons x r ih =>
    obtain ⟨a, b⟩ := x
    unfold Tbl.wf at hw
    simp only [List.map_cons] at hw
    have ⟨hna, hr⟩ := List.nodup_cons.mp hw
    rcases List.mem_cons.mp h with h1 | h2
    · cases h1; simp [List.lookup]
    · have : ¬ k = a := by
        intro e
        exact hna (List.mem_map.mpr ⟨(k, v), h2, e⟩)
      have hk : (k == a) = false := by simpa using this
      simp [List.lookup, hk, ih hr h2]

theorem mem_filterWith (keep : Str → Item → Bool) (t : Tbl) (k : Str) (v : Item) :
    (k, v) ∈ filterWith keep t ↔ (k, v) ∈ t ∧ keep k v = true := by
  simp [filterWith, List.mem_filter]

theorem get_update (p q : Pub) (f : Fld) : (p.update q).get f = dupdate (p.get f) (q.get f) := by
  cases f <;> rfl

theorem get_map (g : Tbl → Tbl) (p : Pub) (f : Fld) : (p.map g).get f = g (p.get f) := by
  cases f <;> rfl

theorem findMod_append_fresh (name : Str) (env : List (Str × Pub)) (p : Pub)
    (h : findMod name env = none) : findMod name (env ++ [(name, p)]) = some p := by
  induction env with
  | nil => simp [findMod]
  | cons x r ih =>
    obtain ⟨n, q⟩ := x
    by_cases hn : lower n == lower name
    · simp [findMod, hn] at h
    · simp [findMod, hn] at h ⊢
      exact ih h

/-- one USE statement without ONLY / renames: the tables after `correlate` -/
theorem correlateModWith_single_all (keep : BMod → Str → Item → Bool) (m : BMod) (env ext : List (Str × Pub))
    (t : Str) (p : Pub) (hu : m.uses = [(t, .all)]) (hl : lookupMod env ext t = some p) :
    correlateModWith keep m env ext = (m.ownPub.update (p.map (filterWith (keep m))), m.ownAll.update p) := by
  simp [correlateModWith, hu, applyUsesWith, hl, usedEntities]

/-! ### `Project.find` on the collections after the load -/

theorem findIn_append (name : Str) (xs ys : List Named) :
    findIn name (xs ++ ys) = (findIn name xs).or (findIn name ys) := by
  induction xs with
  | nil => simp [findIn]
  | cons x r ih => by_cases hx : lower x.name = lower name <;> simp [findIn, hx, ih]

theorem findIn_of_mem (name : Str) (l : List Named) (h : ∃ y ∈ l, lower y.name = lower name) :
    ∃ x ∈ l, findIn name l = some x ∧ lower x.name = lower name := by
  induction l with
  | nil => simp at h
  | cons a r ih =>
    by_cases ha : lower a.name = lower name
    · exact ⟨a, by simp, by simp [findIn, ha], ha⟩
    · obtain ⟨y, hy, hl⟩ := h
      have hy' : y ∈ r := by
        rcases List.mem_cons.mp hy with e | e
        · subst e; exact absurd hl ha
        · exact e
      obtain ⟨x, hx, hf, hn⟩ := ih ⟨y, hy', hl⟩
      exact ⟨x, List.mem_cons_of_mem _ hx, by simp [findIn, ha, hf], hn⟩

theorem findIn_some (name : Str) (l : List Named) (x : Named) (h : findIn name l = some x) :
    x ∈ l ∧ lower x.name = lower name := by
  induction l with
  | nil => simp [findIn] at h
  | cons a r ih =>
    by_cases ha : lower a.name = lower name
    · simp [findIn, ha] at h; subst h; exact ⟨by simp, ha⟩
    · simp [findIn, ha] at h
      exact ⟨List.mem_cons_of_mem _ (ih h).1, (ih h).2⟩

theorem loadedIn_mem (c : Str) (es : List Entry) (x : Entry) (s : Str) (hx : x ∈ es)
    (hn : x.name = .str s) (hl : x.list = c) : ({ name := s, ext := true } : Named) ∈ loadedIn c es := by
  induction es with
  | nil => simp at hx
  | cons e r ih =>
    rcases List.mem_cons.mp hx with h | h
    · subst h; simp [loadedIn, hn, hl]
    · have := ih h
      unfold loadedIn
      split
      · split <;> simp [this]
      · exact this

theorem loadedIn_ext (c : Str) (es : List Entry) : ∀ y ∈ loadedIn c es, y.ext = true := by
  induction es with
  | nil => simp [loadedIn]
  | cons e r ih =>
    intro y hy
    unfold loadedIn at hy
    split at hy
    · split at hy
      · rcases List.mem_cons.mp hy with h | h
        · subst h; rfl
        · exact ih y h
      · exact ih y hy
    · exact ih y hy

theorem lookup_map_snd_self {β : Type} (L : List (Str × Str)) (f : Str → β) (c : Str) :
    (L.map (fun kv => (kv.2, f kv.2))).lookup c = if c ∈ L.map (·.2) then some (f c) else none := by
  induction L with
  | nil => simp
  | cons x r ih =>
    by_cases h : c == x.2
    · have h' : c = x.2 := by simpa using h
      simp [h']
    · have h' : ¬ c = x.2 := by simpa using h
      simp only [List.map_cons, List.lookup, h, ih, List.mem_cons, h', false_or]

/-- a collection `Project.find` looks at holds, after the load, B's own entities and then the loaded ones -/
theorem collection_withLoaded (own : Colls) (es : List Entry) (c : Str) (hc : c ∈ Gen.linkTypes.map (·.2)) :
    collection (withLoaded own es) c = collection own c ++ loadedIn c es := by
  unfold withLoaded
  show ((Gen.linkTypes.map (fun kv => (kv.2, collection own kv.2 ++ loadedIn kv.2 es))).lookup c).getD [] = _
  rw [lookup_map_snd_self Gen.linkTypes (fun c => collection own c ++ loadedIn c es) c]
  simp [hc]

end Ford.Ext
