/-
  Lemmas about the attribute-statement model (`FordModel/AttrStmt.lean`) used by the C18 theorems.
-/
import FordModel.AttrStmt
namespace Ford.AttrStmt

/-! ## one attribute / a list of attributes -/

theorem applyAttr_name (p : List (Str × Str)) (v : DVar) (a : Str) :
    (applyAttr p v a).name = v.name ∧ (applyAttr p v a).ftype = v.ftype ∧
    (applyAttr p v a).optional = v.optional ∧ (applyAttr p v a).parameter = v.parameter := by
  unfold applyAttr
  split
  · simp
  · split
    · simp
    · split
      · simp
      · split <;> simp

theorem applyAttrs_name (p : List (Str × Str)) (attrs : List Str) (v : DVar) :
    (applyAttrs p v attrs).name = v.name ∧ (applyAttrs p v attrs).ftype = v.ftype ∧
    (applyAttrs p v attrs).optional = v.optional ∧ (applyAttrs p v attrs).parameter = v.parameter := by
  induction attrs generalizing v with
  | nil => simp [applyAttrs]
  | cons a as ih =>
    have h := applyAttr_name p v a
    have h2 := ih (applyAttr p v a)
    simp only [applyAttrs, List.foldl_cons] at h2 ⊢
    simp [h2, h]

/-- attributes are only ever added -/
theorem applyAttr_attribs_mono (p : List (Str × Str)) (v : DVar) (a x : Str) (h : x ∈ v.attribs) :
    x ∈ (applyAttr p v a).attribs := by
  unfold applyAttr
  split
  · simpa
  · split
    · simpa
    · split
      · simp [h]
      · split <;> simp [h]

theorem applyAttrs_attribs_mono (p : List (Str × Str)) (attrs : List Str) (v : DVar) (x : Str)
    (h : x ∈ v.attribs) : x ∈ (applyAttrs p v attrs).attribs := by
  induction attrs generalizing v with
  | nil => simpa [applyAttrs]
  | cons a as ih =>
    simp only [applyAttrs, List.foldl_cons]
    exact ih (applyAttr p v a) (applyAttr_attribs_mono p v a x h)

theorem applyAttr_plain (p : List (Str × Str)) (v : DVar) (a : Str) (h : isPlainAttr a = true) :
    a ∈ (applyAttr p v a).attribs := by
  simp only [isPlainAttr, Bool.and_eq_true, Bool.not_eq_true', bne_iff_ne, ne_eq] at h
  obtain ⟨⟨⟨h1, h2⟩, h3⟩, h4⟩ := h
  unfold applyAttr
  rw [if_neg (by simp [h1])]
  rw [if_neg (by simpa using h2)]
  rw [if_neg (by simp [h3])]
  rw [if_neg (by simpa using h4)]
  simp

theorem applyAttrs_plain (p : List (Str × Str)) (attrs : List Str) (v : DVar) (a : Str)
    (ha : a ∈ attrs) (h : isPlainAttr a = true) : a ∈ (applyAttrs p v attrs).attribs := by
  induction attrs generalizing v with
  | nil => cases ha
  | cons b bs ih =>
    simp only [applyAttrs, List.foldl_cons]
    rcases List.mem_cons.mp ha with e | hm
    · subst e
      exact applyAttrs_attribs_mono p bs _ a (applyAttr_plain p v a h)
    · exact ih (applyAttr p v b) hm

/-- an attribute that is not an intent leaves the intent alone -/
theorem applyAttr_intent_other (p : List (Str × Str)) (v : DVar) (a : Str)
    (h : a.take 6 ≠ (chars! "intent")) : (applyAttr p v a).intent = v.intent := by
  unfold applyAttr
  split
  · simp
  · rw [if_neg (by simpa using h)]
    split
    · simp
    · split <;> simp

theorem applyAttrs_intent_other (p : List (Str × Str)) (attrs : List Str) (v : DVar)
    (h : ∀ a ∈ attrs, a.take 6 ≠ (chars! "intent")) : (applyAttrs p v attrs).intent = v.intent := by
  induction attrs generalizing v with
  | nil => simp [applyAttrs]
  | cons a as ih =>
    simp only [applyAttrs, List.foldl_cons]
    have := ih (applyAttr p v a) (fun x hx => h x (List.mem_cons_of_mem _ hx))
    simp only [applyAttrs] at this
    rw [this, applyAttr_intent_other p v a (h a (List.mem_cons_self ..))]

theorem applyAttr_intent (p : List (Str × Str)) (v : DVar) (a : Str)
    (h : a.take 6 = (chars! "intent")) : (applyAttr p v a).intent = (a.drop 7).dropLast := by
  have hp : isPermission a = false := by
    cases hq : isPermission a with
    | false => rfl
    | true =>
      simp only [isPermission, Bool.or_eq_true, beq_iff_eq] at hq
      rcases hq with (e | e) | e <;> (subst e; simp at h)
  unfold applyAttr
  rw [if_neg (by simp [hp]), if_pos (by simpa using h)]

theorem applyAttrs_append (p : List (Str × Str)) (v : DVar) (xs ys : List Str) :
    applyAttrs p v (xs ++ ys) = applyAttrs p (applyAttrs p v xs) ys := by
  simp [applyAttrs, List.foldl_append]

/-! ## the attribute dictionary -/

theorem lookup_eraseKey_other (d : Dict) (k key : Str) (h : k ≠ key) :
    lookupAttrs (eraseKey d k) key = lookupAttrs d key := by
  induction d with
  | nil => simp [eraseKey, lookupAttrs]
  | cons e d ih =>
    obtain ⟨k', as⟩ := e
    by_cases hk : k' = k
    · subst hk
      simp [eraseKey, lookupAttrs, h]
    · simp only [eraseKey, beq_iff_eq, hk, if_false, lookupAttrs]
      rw [ih]

theorem lookup_consumeItems (items : List Item) (d d' : Dict) (key : Str)
    (h : key ∉ items.map (·.name)) (hc : consumeItems d items = some d') :
    lookupAttrs d' key = lookupAttrs d key := by
  induction items generalizing d with
  | nil =>
    simp only [consumeItems, Option.some.injEq] at hc
    rw [hc]
  | cons i is ih =>
    simp only [List.map_cons, List.mem_cons, not_or] at h
    simp only [consumeItems] at hc
    split at hc
    · cases hc
    · rw [ih _ h.2 hc]
      exact lookup_eraseKey_other d i.name key (fun e => h.1 e.symm)

/-! ## first declaration with a given name -/

theorem firstVar_nil (key : Str) : firstVar key [] = none := by simp [firstVar, takeVar]

theorem firstVar_cons (key : Str) (v : DVar) (vs : List DVar) :
    firstVar key (v :: vs) = if lower v.name = key then some v else firstVar key vs := by
  unfold firstVar
  simp only [takeVar, beq_iff_eq]
  split
  · simp
  · cases h : takeVar key vs with
    | none => simp
    | some x => simp

/-- the attach loop gives the first variable of a name everything recorded for that name -/
theorem firstVar_attachGo (p : List (Str × Str)) (key : Str) (vars : List DVar) (d : Dict) :
    firstVar key (attachGo p d vars) =
      (firstVar key vars).map (fun v => applyAttrs p v (lookupAttrs d key)) := by
  induction vars generalizing d with
  | nil => simp [attachGo, firstVar_nil]
  | cons v vs ih =>
    simp only [attachGo, firstVar_cons, (applyAttrs_name p _ v).1]
    by_cases h : lower v.name = key
    · simp [h]
    · simp only [h, if_false]
      rw [ih, lookup_eraseKey_other _ _ _ h]

/-- variables that stay are found as before when externals are dropped -/
theorem firstVar_dropExternal (key : Str) (vars : List DVar) (v : DVar)
    (h : firstVar key vars = some v) (hv : isExternal v = false) :
    firstVar key (dropExternal vars) = some v := by
  induction vars with
  | nil => simp [firstVar_nil] at h
  | cons w ws ih =>
    rw [firstVar_cons] at h
    by_cases hk : lower w.name = key
    · simp only [hk, if_true, Option.some.injEq] at h
      subst h
      simp [dropExternal, List.filter, hv, firstVar_cons, hk]
    · simp only [hk, if_false] at h
      have := ih h
      unfold dropExternal at this ⊢
      simp only [List.filter]
      split
      · simp [firstVar_cons, hk, this]
      · exact this

/-- removing the first variable of another name does not change which variable a name finds -/
theorem firstVar_takeVar_other (k key : Str) (h : k ≠ key) (vars : List DVar) (x : DVar) (r : List DVar)
    (ht : takeVar k vars = some (x, r)) : firstVar key r = firstVar key vars := by
  induction vars generalizing x r with
  | nil => simp [takeVar] at ht
  | cons w ws ih =>
    simp only [takeVar, beq_iff_eq] at ht
    by_cases hk : lower w.name = k
    · simp only [hk, if_true, Option.some.injEq, Prod.mk.injEq] at ht
      obtain ⟨_, e⟩ := ht
      subst e
      rw [firstVar_cons, if_neg (by rw [hk]; exact h)]
    · simp only [hk, if_false] at ht
      cases hh : takeVar k ws with
      | none => simp [hh] at ht
      | some y =>
        obtain ⟨y1, y2⟩ := y
        simp only [hh, Option.some.injEq, Prod.mk.injEq] at ht
        obtain ⟨_, e⟩ := ht
        subst e
        rw [firstVar_cons, firstVar_cons, ih y1 y2 hh]

/-! ## the argument loop -/

/-- position `i` of the argument list receives the first declared variable of that name, when the
    argument names are pairwise distinct -/
theorem matchArgs_get (argNames : List Str) (hn : (argNames.map lower).Nodup)
    (vars : List DVar) (ifs : List Str) (i : Nat) (a : Str) (v : DVar)
    (ha : argNames[i]? = some a) (hv : firstVar (lower a) vars = some v) :
    (matchArgs (argNames.map Slot.name) vars ifs).1[i]? = some (.var v) := by
  induction argNames generalizing vars ifs i with
  | nil => simp at ha
  | cons b bs ih =>
    simp only [List.map_cons, List.nodup_cons] at hn
    obtain ⟨hb, hn'⟩ := hn
    cases i with
    | zero =>
      simp only [List.getElem?_cons_zero, Option.some.injEq] at ha
      subst ha
      simp only [List.map_cons, matchArgs]
      cases ht : takeVar (lower b) vars with
      | none => simp [firstVar, ht] at hv
      | some x =>
        simp only [firstVar, ht, Option.map_some, Option.some.injEq] at hv
        subst hv
        simp
    | succ j =>
      simp only [List.getElem?_cons_succ] at ha
      have hne : lower b ≠ lower a := by
        intro e
        apply hb
        rw [e]
        exact List.mem_map.mpr ⟨a, List.mem_of_getElem? ha, rfl⟩
      simp only [List.map_cons, matchArgs]
      cases ht : takeVar (lower b) vars with
      | some x =>
        obtain ⟨x1, x2⟩ := x
        have h2 : firstVar (lower a) x2 = some v := by
          rw [firstVar_takeVar_other _ _ hne vars x1 x2 ht]; exact hv
        simpa using ih hn' x2 ifs j ha h2
      | none =>
        cases hi : takeIface (lower b) ifs with
        | some y => simpa using ih hn' vars y.2 j ha hv
        | none => simpa using ih hn' vars ifs j ha hv

/-- what is left of the variables still finds every name that is not an argument -/
theorem matchArgs_vars_other (argNames : List Str) (key : Str) (hk : key ∉ argNames.map lower)
    (vars : List DVar) (ifs : List Str) :
    firstVar key (matchArgs (argNames.map Slot.name) vars ifs).2.1 = firstVar key vars := by
  induction argNames generalizing vars ifs with
  | nil => simp [matchArgs]
  | cons b bs ih =>
    simp only [List.map_cons, List.mem_cons, not_or] at hk
    obtain ⟨hb, hk'⟩ := hk
    simp only [List.map_cons, matchArgs]
    cases ht : takeVar (lower b) vars with
    | some x =>
      obtain ⟨x1, x2⟩ := x
      simp only
      rw [ih hk' x2 ifs, firstVar_takeVar_other _ _ (fun e => hb e.symm) vars x1 x2 ht]
    | none =>
      cases hi : takeIface (lower b) ifs with
      | some y => simpa using ih hk' vars y.2
      | none => simpa using ih hk' vars ifs

/-! ## the result -/

theorem matchResult_vars_other (r key : Str) (h : lower r ≠ key) (vars : List DVar) :
    firstVar key (matchResult (some (.name r)) vars).2 = firstVar key vars := by
  simp only [matchResult]
  cases ht : takeVar (lower r) vars with
  | some x =>
    obtain ⟨x1, x2⟩ := x
    simpa using firstVar_takeVar_other _ _ h vars x1 x2 ht
  | none => simp

theorem matchResult_get (r : Str) (vars : List DVar) (v : DVar) (h : firstVar (lower r) vars = some v) :
    (matchResult (some (.name r)) vars).1 = some (.var v) := by
  simp only [matchResult]
  cases ht : takeVar (lower r) vars with
  | some x =>
    simp only [firstVar, ht, Option.map_some, Option.some.injEq] at h
    subst h
    simp
  | none => simp [firstVar, ht] at h

/-- the variables after the attach and drop-external steps: the first declaration of `key` with all
    its statement attributes -/
theorem firstVar_attached (p : List (Str × Str)) (items : List Item) (d : Dict) (vars vars' : List DVar)
    (key : Str) (v : DVar) (ha : attach p items d vars = some vars')
    (hv : firstVar key vars = some v) (hi : key ∉ items.map (·.name))
    (hx : isExternal (applyAttrs p v (lookupAttrs d key)) = false) :
    firstVar key (dropExternal vars') = some (applyAttrs p v (lookupAttrs d key)) := by
  apply firstVar_dropExternal _ _ _ _ hx
  unfold attach at ha
  cases hc : consumeItems d items with
  | none => simp [hc] at ha
  | some d' =>
    simp only [hc, Option.some.injEq] at ha
    rw [← ha, firstVar_attachGo, hv, lookup_consumeItems items d d' key hi hc]
    rfl

end Ford.AttrStmt
