import FordModel.DeclLine
namespace Ford.DeclLine
open Ford Ford.Show

theorem foldl_attribs (rules : Rules) : ∀ (as : List Str) (st : DeclAttrs),
    (as.foldl (classifyOne rules) st).attribs = st.attribs ++ as.filter (isPlain rules)
  | [], st => by simp
  | a :: as, st => by
    rw [List.foldl_cons, foldl_attribs rules as]
    cases h : lookupRule rules (normAttr a) with
    | none => simp [classifyOne, h, isPlain, List.filter_cons]
    | some act => cases act <;> simp [classifyOne, h, isPlain, List.filter_cons]

theorem classify_attribs (rules : Rules) (perm : Str) (as : List Str) :
    (classify rules perm as).attribs = as.filter (isPlain rules) := by
  simp [classify, foldl_attribs, DeclAttrs.init]

theorem foldl_optional (rules : Rules) : ∀ (as : List Str) (st : DeclAttrs),
    (as.foldl (classifyOne rules) st).optional = (st.optional || as.any (isOptRule rules))
  | [], st => by simp
  | a :: as, st => by
    rw [List.foldl_cons, foldl_optional rules as]
    cases h : lookupRule rules (normAttr a) with
    | none => simp [classifyOne, h, isOptRule]
    | some act => cases act <;> simp [classifyOne, h, isOptRule]

theorem foldl_parameter (rules : Rules) : ∀ (as : List Str) (st : DeclAttrs),
    (as.foldl (classifyOne rules) st).parameter = (st.parameter || as.any (isParamRule rules))
  | [], st => by simp
  | a :: as, st => by
    rw [List.foldl_cons, foldl_parameter rules as]
    cases h : lookupRule rules (normAttr a) with
    | none => simp [classifyOne, h, isParamRule]
    | some act => cases act <;> simp [classifyOne, h, isParamRule]

theorem foldl_intent_keep (rules : Rules) : ∀ (as : List Str) (st : DeclAttrs),
    (∀ a ∈ as, isIntentRule rules a = false) → (as.foldl (classifyOne rules) st).intent = st.intent
  | [], _, _ => rfl
  | a :: as, st, h => by
    have ha := h a (by simp)
    rw [List.foldl_cons, foldl_intent_keep rules as _ (fun b hb => h b (by simp [hb]))]
    cases hl : lookupRule rules (normAttr a) with
    | none => simp [classifyOne, hl]
    | some act =>
      cases act with
      | intent v => simp [isIntentRule, hl] at ha
      | _ => simp [classifyOne, hl]

theorem foldl_permission_keep (rules : Rules) : ∀ (as : List Str) (st : DeclAttrs),
    (∀ a ∈ as, isPermRule rules a = false) → (as.foldl (classifyOne rules) st).permission = st.permission
  | [], _, _ => rfl
  | a :: as, st, h => by
    have ha := h a (by simp)
    rw [List.foldl_cons, foldl_permission_keep rules as _ (fun b hb => h b (by simp [hb]))]
    cases hl : lookupRule rules (normAttr a) with
    | none => simp [classifyOne, hl]
    | some act =>
      cases act with
      | permission => simp [isPermRule, hl] at ha
      | _ => simp [classifyOne, hl]

theorem classify_intent_last (rules : Rules) (perm : Str) (pre post : List Str) (a v : Str)
    (ha : lookupRule rules (normAttr a) = some (.intent v))
    (hp : ∀ b ∈ post, isIntentRule rules b = false) :
    (classify rules perm (pre ++ a :: post)).intent = v := by
  simp only [classify, List.foldl_append, List.foldl_cons]
  rw [foldl_intent_keep rules post _ hp]
  simp [classifyOne, ha]

theorem classify_permission_last (rules : Rules) (perm : Str) (pre post : List Str) (a : Str)
    (ha : lookupRule rules (normAttr a) = some .permission)
    (hp : ∀ b ∈ post, isPermRule rules b = false) :
    (classify rules perm (pre ++ a :: post)).permission = normAttr a := by
  simp only [classify, List.foldl_append, List.foldl_cons]
  rw [foldl_permission_keep rules post _ hp]
  simp [classifyOne, ha]

theorem classify_permission_default (rules : Rules) (perm : Str) (as : List Str)
    (hp : ∀ b ∈ as, isPermRule rules b = false) : (classify rules perm as).permission = perm := by
  simp only [classify]
  rw [foldl_permission_keep rules as _ hp]
  rfl

/-- a declaration without attributes says the same with and without `::` -/
theorem attribSplit2_colons (d : Str) (h : TypeSpec.skipWs d = d) (hc : ∀ t, d ≠ ':' :: ':' :: t) :
    attribSplit2 (':' :: ':' :: ' ' :: d) = d ∧ attribSplit2 (' ' :: d) = d := by
  constructor
  · simp [attribSplit2, TypeSpec.skipWs, isSpace, h]
  · have : TypeSpec.skipWs (' ' :: d) = d := by simp [TypeSpec.skipWs, isSpace, h]
    simp only [attribSplit2, this]

end Ford.DeclLine
