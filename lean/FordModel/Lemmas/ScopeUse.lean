/-
  C07 - lemmas about use association: what `FortranModule.get_used_entities`
  (`importTable` / `usedObjects` of the model) hands to the using scope, against
  Fortran's rule `useDenotes` (ScopeSpec.lean).
-/
import FordModel.Scope
import FordModel.ScopeSpec
import FordModel.Lemmas.Scope
namespace Ford.Scope
open Ford

/-! ### lookups and membership -/

theorem tget_mem {L : Table} {n : Str} {e : Ent} (h : tget L n = some e) : (n, e) ∈ L := by
  induction L with
  | nil => simp [tget] at h
  | cons x xs ih =>
    obtain ⟨k, v⟩ := x
    by_cases hk : k = n
    · simp only [tget, hk, ↓reduceIte, Option.some.injEq] at h
      simp [hk, h]
    · simp only [tget, hk, ↓reduceIte] at h
      simp [ih h]

theorem tget_none_iff (L : Table) (n : Str) : tget L n = none ↔ ∀ e, (n, e) ∉ L := by
  induction L with
  | nil => simp [tget]
  | cons x xs ih =>
    obtain ⟨k, v⟩ := x
    by_cases hk : k = n
    · simp only [tget, hk, ↓reduceIte, List.mem_cons, Prod.mk.injEq, true_and, not_or]
      constructor
      · intro h; cases h
      · intro h; exact absurd rfl (h v).1
    · simp only [tget, hk, ↓reduceIte, ih, List.mem_cons, Prod.mk.injEq, not_or]
      constructor
      · intro h e; exact ⟨fun hh => hk hh.1.symm, h e⟩
      · intro h e; exact (h e).2

/-- a name that occurs, and only with one value, is looked up to that value - whatever the order -/
theorem tget_of_forall {L : Table} {n : Str} {e e0 : Ent} (h0 : (n, e0) ∈ L)
    (h : ∀ e', (n, e') ∈ L → e' = e) : tget L n = some e := by
  cases hg : tget L n with
  | none => exact absurd h0 ((tget_none_iff L n).1 hg e0)
  | some e' => rw [h e' (tget_mem hg)]

/-! ### the dict a write log stands for -/

theorem mem_dictKeys (tb : Table) (k : Str) : k ∈ dictKeys tb ↔ ∃ e, (k, e) ∈ tb := by
  induction tb generalizing k with
  | nil => simp [dictKeys]
  | cons x xs ih =>
    obtain ⟨k', v⟩ := x
    simp only [dictKeys]
    by_cases hm : k' ∈ dictKeys xs
    · simp only [hm, ↓reduceIte, ih, List.mem_cons, Prod.mk.injEq]
      constructor
      · rintro ⟨e, he⟩; exact ⟨e, Or.inr he⟩
      · rintro ⟨e, he | he⟩
        · rw [he.1]; exact (ih k').1 hm
        · exact ⟨e, he⟩
    · simp only [hm, ↓reduceIte, List.mem_append, ih, List.mem_cons, List.not_mem_nil, or_false, Prod.mk.injEq]
      constructor
      · rintro (⟨e, he⟩ | rfl)
        · exact ⟨e, Or.inr he⟩
        · exact ⟨v, Or.inl ⟨rfl, rfl⟩⟩
      · rintro ⟨e, he | he⟩
        · exact Or.inr he.1
        · exact Or.inl ⟨e, he⟩

theorem mem_dictItems (tb : Table) (k : Str) (e : Ent) : (k, e) ∈ dictItems tb ↔ tget tb k = some e := by
  simp only [dictItems, List.mem_filterMap, Option.map_eq_some_iff, Prod.mk.injEq]
  constructor
  · rintro ⟨k', _, e', he', rfl, rfl⟩; exact he'
  · intro h
    exact ⟨k, (mem_dictKeys tb k).2 ⟨e, tget_mem h⟩, e, h, rfl, rfl⟩

/-! ### `used_objects` -/

theorem mem_usedObjects (pub : Table) (only : Bool) (un : List (Str × Str)) (n : Str) (e : Ent) :
    (n, e) ∈ usedObjects pub only un ↔ ∃ k, tget pub k = some e ∧ localName only un k = some n := by
  simp only [usedObjects, List.mem_reverse, List.mem_filterMap, Option.map_eq_some_iff, Prod.mk.injEq,
    Prod.exists, mem_dictItems]
  constructor
  · rintro ⟨k, e', hk, n', hn, rfl, rfl⟩; exact ⟨k, hk, hn⟩
  · rintro ⟨k, hk, hn⟩; exact ⟨k, e, hk, n, hn, rfl, rfl⟩

theorem localName_plain (k : Str) : localName false [] k = some k := by simp [localName, sget]

/-- whatever a USE statement enters under the name `n` is a public entity of the module that
    `used_objects` files under `n` -/
theorem importTable_sound (pub : Table) (u : Use) (n : Str) (e : Ent)
    (h : tget (importTable pub u) n = some e) :
    ∃ k, tget pub k = some e ∧ localName u.only (usedNames u.items) k = some n := by
  unfold importTable at h
  split at h
  · rename_i hc
    simp only [Bool.and_eq_true, List.isEmpty_iff, Bool.not_eq_eq_eq_not, Bool.not_true] at hc
    refine ⟨n, h, ?_⟩
    rw [hc.1, hc.2]; exact localName_plain n
  · exact (mem_usedObjects pub u.only _ n e).1 (tget_mem h)

/-- a public entity that is filed under `n`, and the only such one, is what `n` is looked up to -/
theorem importTable_complete (pub : Table) (u : Use) (n k : Str) (e : Ent)
    (hk : tget pub k = some e) (hn : localName u.only (usedNames u.items) k = some n)
    (huniq : ∀ k' e', tget pub k' = some e' → localName u.only (usedNames u.items) k' = some n → e' = e) :
    tget (importTable pub u) n = some e := by
  unfold importTable
  split
  · rename_i hc
    simp only [Bool.and_eq_true, List.isEmpty_iff, Bool.not_eq_eq_eq_not, Bool.not_true] at hc
    rw [hc.1, hc.2] at hn
    change localName false [] k = some n at hn
    rw [localName_plain] at hn
    cases hn; exact hk
  · refine tget_of_forall ((mem_usedObjects pub u.only _ n e).2 ⟨k, hk, hn⟩) ?_
    intro e' he'
    obtain ⟨k', hk', hn'⟩ := (mem_usedObjects pub u.only _ n e').1 he'
    exact huniq k' e' hk' hn'

/-! ### `used_names` -/

theorem sget_append (u d : List (Str × Str)) (k : Str) :
    sget (u ++ d) k = match sget u k with
      | some e => some e
      | none => sget d k := by
  induction u with
  | nil => simp [sget]
  | cons x xs ih =>
    obtain ⟨k', e⟩ := x
    by_cases h : k' = k <;> simp [sget, h, ih]

theorem useItems_cons (m : Str) (o : Bool) (l r : Str) (rest : List (Str × Str)) :
    useItems ⟨m, o, (l, r) :: rest⟩ = (lower l, lower r) :: useItems ⟨m, o, rest⟩ := rfl

/-- an entry of `used_names` comes from an item of the statement -/
theorem sget_usedNames_mem (m : Str) (o : Bool) (items : List (Str × Str)) (k l : Str)
    (h : sget (usedNames items) k = some l) : (l, k) ∈ useItems ⟨m, o, items⟩ := by
  induction items with
  | nil => simp [usedNames, sget] at h
  | cons x xs ih =>
    obtain ⟨loc, rem⟩ := x
    simp only [usedNames, sget_append] at h
    rw [useItems_cons]
    cases hs : sget (usedNames xs) k with
    | some l' =>
      simp only [hs, Option.some.injEq] at h
      subst h
      exact List.mem_cons_of_mem _ (ih hs)
    | none =>
      simp only [hs, sget] at h
      by_cases hk : lower rem = k
      · simp only [hk, ↓reduceIte, Option.some.injEq] at h
        simp [← h, ← hk]
      · simp [hk] at h

theorem sget_usedNames_none (m : Str) (o : Bool) (items : List (Str × Str)) (k : Str) :
    sget (usedNames items) k = none ↔ ∀ l, (l, k) ∉ useItems ⟨m, o, items⟩ := by
  induction items with
  | nil => simp [usedNames, sget, useItems]
  | cons x xs ih =>
    obtain ⟨loc, rem⟩ := x
    simp only [usedNames, sget_append, useItems_cons, List.mem_cons, Prod.mk.injEq, not_or]
    cases hs : sget (usedNames xs) k with
    | some l' =>
      simp only [reduceCtorEq, false_iff]
      have := sget_usedNames_mem m o xs k l' hs
      intro hh; exact (hh l').2 this
    | none =>
      have ih' := ih.1 hs
      by_cases hk : lower rem = k
      · simp only [sget, hk, ↓reduceIte, reduceCtorEq, false_iff]
        intro hh; exact (hh (lower loc)).1 ⟨rfl, trivial⟩
      · simp only [sget, hk, ↓reduceIte, true_iff]
        intro l
        exact ⟨fun hh => hk hh.2.symm, ih' l⟩

/-- with pairwise distinct module-side names every item is an entry of `used_names` -/
theorem sget_usedNames_of_mem (m : Str) (o : Bool) (items : List (Str × Str)) (k l : Str)
    (nd : ((useItems ⟨m, o, items⟩).map (·.2)).Nodup) (h : (l, k) ∈ useItems ⟨m, o, items⟩) :
    sget (usedNames items) k = some l := by
  cases hs : sget (usedNames items) k with
  | none => exact absurd h ((sget_usedNames_none m o items k).1 hs l)
  | some l' =>
    have h' := sget_usedNames_mem m o items k l' hs
    -- two items with the same module-side name are the same item
    have : l' = l := by
      generalize useItems ⟨m, o, items⟩ = I at nd h h'
      induction I with
      | nil => cases h
      | cons x xs ih =>
        simp only [List.map_cons, List.nodup_cons, List.mem_map, not_exists, not_and] at nd
        simp only [List.mem_cons] at h h'
        rcases h with h | h <;> rcases h' with h' | h'
        · rw [← h] at h'; exact (Prod.mk.inj h').1
        · exact absurd (by rw [← h]) (nd.1 (l', k) h')
        · exact absurd (by rw [← h']) (nd.1 (l, k) h)
        · exact ih nd.2 h h'
    rw [this]

theorem fst_unique {I : List (Str × Str)} (nd : (I.map (·.1)).Nodup) {a b c : Str}
    (h1 : (a, b) ∈ I) (h2 : (a, c) ∈ I) : b = c := by
  induction I with
  | nil => cases h1
  | cons x xs ih =>
    simp only [List.map_cons, List.nodup_cons, List.mem_map, not_exists, not_and] at nd
    simp only [List.mem_cons] at h1 h2
    rcases h1 with h1 | h1 <;> rcases h2 with h2 | h2
    · rw [← h1] at h2; exact (Prod.mk.inj h2).2.symm ▸ rfl
    · exact absurd (by rw [← h1]) (nd.1 (a, c) h2)
    · exact absurd (by rw [← h2]) (nd.1 (a, b) h1)
    · exact ih nd.2 h1 h2

/-! ### the model against Fortran's rule -/

/-- the name under which `used_objects` files a public entity, in terms of the items -/
theorem localName_cases (m : Str) (o : Bool) (items : List (Str × Str)) (k n : Str)
    (h : localName o (usedNames items) k = some n) :
    (n, k) ∈ useItems ⟨m, o, items⟩ ∨
      (o = false ∧ k = n ∧ ∀ l, (l, k) ∉ useItems ⟨m, o, items⟩) := by
  unfold localName at h
  cases hs : sget (usedNames items) k with
  | some l =>
    simp only [hs, Option.some.injEq] at h
    subst h
    exact Or.inl (sget_usedNames_mem m o items k l hs)
  | none =>
    simp only [hs] at h
    cases o with
    | true => simp at h
    | false =>
      simp only [Bool.false_eq_true, ↓reduceIte, Option.some.injEq] at h
      exact Or.inr ⟨rfl, h, (sget_usedNames_none m false items k).1 hs⟩

theorem importTable_denotes (pub : Table) (m : Str) (o : Bool) (items : List (Str × Str)) (n : Str)
    (ok : useOK pub ⟨m, o, items⟩ = true) :
    tget (importTable pub ⟨m, o, items⟩) n = useDenotes pub ⟨m, o, items⟩ n := by
  simp only [useOK, Bool.and_eq_true, decide_eq_true_eq, Bool.or_eq_true, List.all_eq_true,
    List.any_eq_true, Option.isNone_iff_eq_none] at ok
  obtain ⟨⟨ndR, ndL⟩, clash⟩ := ok
  -- a public entity filed under `n` although `n` is not a local name must be `n` itself
  unfold useDenotes
  cases hfind : (useItems ⟨m, o, items⟩).find? (fun lr => decide (lr.1 = n)) with
  | some lr =>
    obtain ⟨l, r⟩ := lr
    have hmem : (l, r) ∈ useItems ⟨m, o, items⟩ := List.mem_of_find?_eq_some hfind
    have hl : l = n := by simpa using List.find?_some hfind
    subst hl
    have hr : localName o (usedNames items) r = some l := by
      simp [localName, sget_usedNames_of_mem m o items r l ndR hmem]
    have only_r : ∀ k e', tget pub k = some e' → localName o (usedNames items) k = some l → k = r := by
      intro k e' hk hn
      rcases localName_cases m o items k l hn with h1 | ⟨ho, hkl, hno⟩
      · exact fst_unique ndL h1 hmem
      · subst hkl
        rcases clash with hc | hc
        · simp [ho] at hc
        · rcases hc (k, r) hmem with h2 | ⟨lr', h2, h3⟩
          · simp only at h2; rw [h2] at hk; cases hk
          · obtain ⟨l', r'⟩ := lr'
            simp only at h3
            subst h3
            exact absurd h2 (hno l')
    simp only
    cases hp : tget pub r with
    | some e =>
      refine importTable_complete pub _ l r e hp hr ?_
      intro k' e' hk' hn'
      have := only_r k' e' hk' hn'
      subst this
      rw [hp] at hk'; cases hk'; rfl
    | none =>
      cases hi : tget (importTable pub ⟨m, o, items⟩) l with
      | none => rfl
      | some e' =>
        obtain ⟨k, hk, hn⟩ := importTable_sound pub _ l e' hi
        have := only_r k e' hk hn
        subst this
        rw [hp] at hk; cases hk
  | none =>
    have hnl : ∀ r, (n, r) ∉ useItems ⟨m, o, items⟩ := by
      intro r hr
      have := List.find?_eq_none.1 hfind (n, r) hr
      simp at this
    simp only
    cases o with
    | true =>
      simp only [↓reduceIte]
      cases hi : tget (importTable pub ⟨m, true, items⟩) n with
      | none => rfl
      | some e' =>
        obtain ⟨k, hk, hn⟩ := importTable_sound pub _ n e' hi
        rcases localName_cases m true items k n hn with h1 | ⟨ho, _, _⟩
        · exact absurd h1 (hnl k)
        · cases ho
    | false =>
      simp only [Bool.false_eq_true, ↓reduceIte]
      by_cases hany : (useItems ⟨m, false, items⟩).any (fun lr => decide (lr.2 = n)) = true
      · simp only [hany, ↓reduceIte]
        simp only [List.any_eq_true, decide_eq_true_eq] at hany
        obtain ⟨⟨l', r'⟩, hm', hr'⟩ := hany
        simp only at hr'
        subst hr'
        cases hi : tget (importTable pub ⟨m, false, items⟩) r' with
        | none => rfl
        | some e' =>
          obtain ⟨k, hk, hn⟩ := importTable_sound pub _ r' e' hi
          rcases localName_cases m false items k r' hn with h1 | ⟨_, hkl, hno⟩
          · exact absurd h1 (hnl k)
          · subst hkl; exact absurd hm' (hno l')
      · simp only [hany, Bool.false_eq_true, ↓reduceIte]
        simp only [List.any_eq_true, decide_eq_true_eq, not_exists, not_and] at hany
        have hno : ∀ l, (l, n) ∉ useItems ⟨m, false, items⟩ := fun l hl => hany (l, n) hl rfl
        have hself : localName false (usedNames items) n = some n := by
          simp [localName, (sget_usedNames_none m false items n).2 hno]
        have only_n : ∀ k, localName false (usedNames items) k = some n → k = n := by
          intro k hn
          rcases localName_cases m false items k n hn with h1 | ⟨_, hkl, _⟩
          · exact absurd h1 (hnl k)
          · exact hkl
        cases hp : tget pub n with
        | some e =>
          refine importTable_complete pub _ n n e hp hself ?_
          intro k' e' hk' hn'
          have := only_n k' hn'
          subst this
          rw [hp] at hk'; cases hk'; rfl
        | none =>
          cases hi : tget (importTable pub ⟨m, false, items⟩) n with
          | none => rfl
          | some e' =>
            obtain ⟨k, hk, hn⟩ := importTable_sound pub _ n e' hi
            have := only_n k hn
            subst this
            rw [hp] at hk; cases hk

end Ford.Scope
