import FordModel.Reader
import FordModel.Lemmas.Split
namespace Ford

/-! ### `quote_split` is the lexical scanner -/

/-- Specification: split at every `sep` that the lexical scanner `qstep`
    sees outside a character literal. -/
def splitSpec (sep : Char) : Str → QSt → Str → List Str
  | [], _, cur => [cur.reverse]
  | c :: cs, st, cur =>
    if c == sep && st == .out then cur.reverse :: splitSpec sep cs .out []
    else splitSpec sep cs (qstep st c) (c :: cur)

theorem splitSpec_ne (sep c : Char) (cs : Str) (st : QSt) (cur : Str)
    (h : (c == sep && st == .out) = false) :
    splitSpec sep (c :: cs) st cur = splitSpec sep cs (qstep st c) (c :: cur) := by
  simp [splitSpec, h]

theorem splitSpec_sep (sep c : Char) (cs : Str) (cur : Str) (h : (c == sep) = true) :
    splitSpec sep (c :: cs) .out cur = cur.reverse :: splitSpec sep cs .out [] := by
  simp [splitSpec, h]

/-- relation between the two Python flags (`squote`, `dquote`) and the scanner state -/
inductive FlagRel : Bool → Bool → QSt → Prop
  | out : FlagRel false false .out
  | dbl : FlagRel true false (.inq '"')
  | sgl : FlagRel false true (.inq '\'')

theorem qsplitAux_eq_spec (sep : Char) (hs : isQuote sep = false) (l : Str) (sq dq : Bool)
    (cur : Str) (st : QSt) (h : FlagRel sq dq st) :
    qsplitAux sep l sq dq cur = splitSpec sep l st cur := by
  have hs1 : (sep == '"') = false := by
    simp [isQuote] at hs; simp [hs.2]
  have hs2 : (sep == '\'') = false := by
    simp [isQuote] at hs; simp [hs.1]
  have hs1' : ('"' == sep) = false := by
    simp [isQuote] at hs; simp [Ne.symm hs.2]
  have hs2' : ('\'' == sep) = false := by
    simp [isQuote] at hs; simp [Ne.symm hs.1]
  fun_induction qsplitAux sep l sq dq cur generalizing st
  case case1 => simp [splitSpec]
  case case2 => cases h <;> simp_all [splitSpec, isQuote]
  case case3 => cases h <;> simp_all [splitSpec, isQuote]
  case case4 => cases h <;> simp_all [splitSpec, isQuote]
  case case5 => cases h <;> simp_all [splitSpec, isQuote]
  case case6 c d rest sq dq cur hc hsq ih =>
    cases h <;> simp_all
    rw [splitSpec_ne _ _ _ _ _ (by simp [hs1'])]
    exact ih _ (by simp [qstep, isQuote]; exact .dbl)
  case case7 c d rest sq dq cur hc hsq hd ih =>
    cases h <;> simp_all
    rw [splitSpec_ne _ _ _ _ _ (by simp [hs1']), splitSpec_ne _ _ _ _ _ (by simp [hs1'])]
    exact ih _ (by simp [qstep, isQuote]; exact .dbl)
  case case8 c d rest sq dq cur hc hsq hd ih =>
    cases h <;> simp_all
    rw [splitSpec_ne _ _ _ _ _ (by simp [hs1'])]
    exact ih _ (by simp [qstep]; exact .out)
  case case9 c d rest sq dq cur hc1 hc hdq ih =>
    cases h <;> simp_all
    rw [splitSpec_ne _ _ _ _ _ (by simp [hs2'])]
    exact ih _ (by simp [qstep, isQuote]; exact .sgl)
  case case10 c d rest sq dq cur hc1 hc hdq hd ih =>
    cases h <;> simp_all
    rw [splitSpec_ne _ _ _ _ _ (by simp [hs2']), splitSpec_ne _ _ _ _ _ (by simp [hs2'])]
    exact ih _ (by simp [qstep, isQuote]; exact .sgl)
  case case11 c d rest sq dq cur hc1 hc hdq hd ih =>
    cases h <;> simp_all
    rw [splitSpec_ne _ _ _ _ _ (by simp [hs2'])]
    exact ih _ (by simp [qstep]; exact .out)
  case case12 c d rest sq dq cur hc1 hc2 hc ih =>
    cases h <;> simp_all
    rw [splitSpec_sep _ _ _ _ (by simp)]
    simp
    exact ih _ .out
  case case13 c d rest sq dq cur hc1 hc2 hc ih =>
    cases h
    · have h1 : (c == '"') = false := by simpa using hc1
      have h2 : (c == '\'') = false := by simpa using hc2
      have h3 : (c == sep) = false := by simpa using hc
      rw [splitSpec_ne _ _ _ _ _ (by simp [h3])]
      exact ih _ (by simp [qstep, isQuote, h1, h2]; exact .out)
    · have h1 : (c == '"') = false := by simpa using hc1
      rw [splitSpec_ne _ _ _ _ _ (by simp)]
      exact ih _ (by simp [qstep, h1]; exact .dbl)
    · have h2 : (c == '\'') = false := by simpa using hc2
      rw [splitSpec_ne _ _ _ _ _ (by simp)]
      exact ih _ (by simp [qstep, h2]; exact .sgl)

end Ford

namespace Ford

/-! ### The comment / doc-mark regex has a unique match -/

/-- `([^"'!]|('[^']*')|("[^"]*"))*` : the strings matched by the starred group. -/
inductive Atoms : Str → Prop
  | nil : Atoms []
  | plain (c : Char) (rest : Str) : isQuote c = false → c ≠ '!' → Atoms rest → Atoms (c :: rest)
  | quoted (q : Char) (body rest : Str) : isQuote q = true → q ∉ body → Atoms rest →
      Atoms (q :: body ++ q :: rest)

/-- Declarative reading of `^ATOMS(!MARK.*)$` : group 4 starts at index `i`. -/
def ComMatch (mark l : Str) (i : Nat) : Prop :=
  ∃ p s, l = p ++ '!' :: s ∧ Atoms p ∧ p.length = i ∧ startsWith s mark = true

theorem comScanAux_inq_skip (mark : Str) (q : Char) (body rest : Str) (k : Nat) (h : q ∉ body) :
    comScanAux mark (body ++ q :: rest) (.inq q) k = comScanAux mark rest .out (k + body.length + 1) := by
  induction body generalizing k with
  | nil => simp [comScanAux]
  | cons b bs ih =>
    have hb : (b == q) = false := by
      simp at h; simp [Ne.symm h.1]
    have hq : q ∉ bs := by simp at h; exact h.2
    simp [comScanAux, hb, ih (k + 1) hq]
    congr 1; omega

/-- soundness direction: a declarative match is what the scanner returns -/
theorem comScanAux_of_atoms (mark p s : Str) (k : Nat) (hp : Atoms p) :
    comScanAux mark (p ++ '!' :: s) .out k =
      if startsWith s mark then some (k + p.length) else none := by
  induction hp generalizing k with
  | nil => simp [comScanAux]
  | plain c rest hq hb _ ih =>
    have : (c == '!') = false := by simp [hb]
    simp [comScanAux, this, hq, ih (k + 1)]
    split <;> simp; omega
  | quoted q body rest hq hnot _ ih =>
    have hb : (q == '!') = false := by
      simp [isQuote] at hq; rcases hq with h | h <;> simp [h]
    simp only [List.cons_append, comScanAux, hb, hq]
    simp only [Bool.false_eq_true, ↓reduceIte, List.append_assoc, List.cons_append]
    rw [comScanAux_inq_skip mark q body _ _ hnot, ih]
    split <;> simp; omega

/-- what a successful scan from state `st` tells about the input -/
def ScanPost (mark : Str) (l : Str) (k i : Nat) : QSt → Prop
  | .out => ∃ p s, l = p ++ '!' :: s ∧ Atoms p ∧ i = k + p.length ∧ startsWith s mark = true
  | .inq q => isQuote q = true →
      ∃ body p s, q ∉ body ∧ l = body ++ q :: (p ++ '!' :: s) ∧ Atoms p ∧
        i = k + body.length + 1 + p.length ∧ startsWith s mark = true

/-- completeness direction, generalised over the scanner state -/
theorem comScanAux_some (mark l : Str) (st : QSt) (k i : Nat) :
    comScanAux mark l st k = some i → ScanPost mark l k i st := by
  fun_induction comScanAux mark l st k
  case case1 => simp
  case case2 c cs k hc hm =>
    intro h
    simp at h hc; subst hc
    exact ⟨[], cs, by simp, .nil, by simp [h], hm⟩
  case case3 => simp
  case case4 c cs k hc hq ih =>
    intro h
    obtain ⟨body, p, s, hb, hl, hp, hi, hs⟩ := ih h hq
    refine ⟨c :: (body ++ c :: p), s, by simp [hl], ?_, by simp; omega, hs⟩
    exact .quoted c body p hq hb hp
  case case5 c cs k hc hq ih =>
    intro h
    obtain ⟨p, s, hl, hp, hi, hs⟩ := ih h
    refine ⟨c :: p, s, by simp [hl], .plain c p (by simpa using hq) (by simpa using hc) hp, by simp; omega, hs⟩
  case case6 c cs q k hc ih =>
    intro h _
    obtain ⟨p, s, hl, hp, hi, hs⟩ := ih h
    simp at hc; subst hc
    exact ⟨[], p, s, by simp, by simp [hl], hp, by simp; omega, hs⟩
  case case7 c cs q k hc ih =>
    intro h hq
    obtain ⟨body, p, s, hb, hl, hp, hi, hs⟩ := ih h hq
    refine ⟨c :: body, p, s, ?_, by simp [hl], hp, by simp; omega, hs⟩
    simp at hc ⊢
    exact ⟨fun e => hc e.symm, hb⟩

end Ford
