import FordModel.GraphLabel
namespace Ford.Graph

theorem labelOf_labelAdd (d : LabelDict) (k t : Node) (i : Nat) :
    labelOf (labelAdd d k i) t = if k = t then labelOf d t ++ [i] else labelOf d t := by
  induction d with
  | nil => by_cases h : k = t <;> simp [labelAdd, labelOf, h]
  | cons kv r ih =>
    obtain ⟨k', l⟩ := kv
    by_cases h1 : k' = k
    · subst h1
      by_cases h2 : k' = t <;> simp [labelAdd, labelOf, h2]
    · by_cases h2 : k' = t
      · subst h2
        have : ¬ k = k' := fun h => h1 h.symm
        simp [labelAdd, labelOf, h1, this]
      · simp [labelAdd, labelOf, h1, h2, ih]

theorem labelOf_compLoop (comps : List Node) (i : Nat) (d : LabelDict) (t : Node) :
    labelOf (compLoop comps i d) t = labelOf d t ++ posFrom comps i t := by
  induction comps generalizing i d with
  | nil => simp [compLoop, posFrom]
  | cons p r ih =>
    simp only [compLoop, posFrom, ih, labelOf_labelAdd]
    by_cases h : p = t <;> simp [h]

theorem compOfLoop_eq (t : Node) (comps : List Node) (i : Nat) (l : List Nat) :
    compOfLoop t comps i l = l ++ posFrom comps i t := by
  induction comps generalizing i l with
  | nil => simp [compOfLoop, posFrom]
  | cons p r ih =>
    simp only [compOfLoop, posFrom, ih]
    by_cases h : p = t <;> simp [h]

theorem mem_posFrom (comps : List Node) (i : Nat) (t : Node) (j : Nat) :
    j ∈ posFrom comps i t ↔ i ≤ j ∧ comps[j - i]? = some t := by
  induction comps generalizing i with
  | nil => simp [posFrom]
  | cons p r ih =>
    simp only [posFrom, List.mem_append, ih]
    constructor
    · rintro (h | ⟨h1, h2⟩)
      · by_cases hp : p = t
        · simp [hp] at h; subst h; simp [hp]
        · simp [hp] at h
      · refine ⟨by omega, ?_⟩
        have : j - i = (j - (i + 1)) + 1 := by omega
        rw [this]; simpa using h2
    · rintro ⟨h1, h2⟩
      by_cases hj : j = i
      · subst hj
        simp at h2
        left; simp [h2]
      · right
        refine ⟨by omega, ?_⟩
        have : j - i = (j - (i + 1)) + 1 := by omega
        rw [this] at h2; simpa using h2

theorem posFrom_sorted (comps : List Node) (i : Nat) (t : Node) :
    (posFrom comps i t).Pairwise (· < ·) := by
  induction comps generalizing i with
  | nil => simp [posFrom]
  | cons p r ih =>
    simp only [posFrom]
    rw [List.pairwise_append]
    refine ⟨?_, ih (i + 1), ?_⟩
    · by_cases hp : p = t <;> simp [hp]
    · intro a ha b hb
      by_cases hp : p = t
      · simp [hp] at ha; subst ha
        have := (mem_posFrom r (a + 1) t b).1 hb
        omega
      · simp [hp] at ha

theorem keys_labelAdd (d : LabelDict) (k : Node) (i : Nat) :
    (labelAdd d k i).map Prod.fst = if k ∈ d.map Prod.fst then d.map Prod.fst else d.map Prod.fst ++ [k] := by
  induction d with
  | nil => simp [labelAdd]
  | cons kv r ih =>
    obtain ⟨k', l⟩ := kv
    by_cases h1 : k' = k
    · subst h1; simp [labelAdd]
    · have : ¬ k = k' := fun h => h1 h.symm
      simp only [labelAdd, h1, if_false, List.map_cons, ih, List.mem_cons, this, false_or]
      by_cases h2 : k ∈ r.map Prod.fst <;> simp [h2]

theorem keys_compLoop (comps : List Node) (i : Nat) (d : LabelDict) :
    (∀ k, k ∈ (compLoop comps i d).map Prod.fst ↔ k ∈ d.map Prod.fst ∨ k ∈ comps) ∧
    ((d.map Prod.fst).Nodup → ((compLoop comps i d).map Prod.fst).Nodup) := by
  induction comps generalizing i d with
  | nil => simp [compLoop]
  | cons p r ih =>
    obtain ⟨ih1, ih2⟩ := ih (i + 1) (labelAdd d p i)
    simp only [compLoop]
    constructor
    · intro k
      rw [ih1 k, keys_labelAdd]
      by_cases hp : p ∈ d.map Prod.fst
      · simp only [hp, if_true, List.mem_cons]
        constructor
        · rintro (h | h)
          · exact Or.inl h
          · exact Or.inr (Or.inr h)
        · rintro (h | h | h)
          · exact Or.inl h
          · subst h; exact Or.inl hp
          · exact Or.inr h
      · simp only [hp, if_false, List.mem_append, List.mem_cons, List.not_mem_nil, or_false]
        constructor
        · rintro ((h | h) | h)
          · exact Or.inl h
          · exact Or.inr (Or.inl h)
          · exact Or.inr (Or.inr h)
        · rintro (h | h | h)
          · exact Or.inl (Or.inl h)
          · exact Or.inl (Or.inr h)
          · exact Or.inr h
    · intro hd
      apply ih2
      rw [keys_labelAdd]
      by_cases hp : p ∈ d.map Prod.fst
      · simpa [hp] using hd
      · simp only [hp, if_false]
        rw [List.nodup_append]
        refine ⟨hd, by simp, ?_⟩
        intro a ha b hb hab
        simp at hb; subst hb; subst hab
        exact hp ha

/-! ### node labels -/

theorem splitFirst_clean (c : Char) (a r : Str) (h : a.contains c = false) :
    splitFirst c (a ++ c :: r) = some (a, r) := by
  induction a with
  | nil => simp [splitFirst]
  | cons x t ih =>
    simp only [List.contains_cons, Bool.or_eq_false_iff] at h
    have hx : ¬ x = c := by
      intro hxc; subst hxc; simp at h
    simp [splitFirst, hx, ih h.2]

theorem splitFirst_none (c : Char) (a : Str) (h : a.contains c = false) : splitFirst c a = none := by
  induction a with
  | nil => simp [splitFirst]
  | cons x t ih =>
    simp only [List.contains_cons, Bool.or_eq_false_iff] at h
    have hx : ¬ x = c := by
      intro hxc; subst hxc; simp at h
    simp [splitFirst, hx, ih h.2]

theorem decodeBinder_label (i : LabelIn) (hn : i.name.contains '%' = false)
    (hb : ∀ b, i.binder = some b → b.contains '%' = false) :
    decodeBinder (bindingLabel i ++ i.name) = (i.binder, i.name) := by
  cases hbi : i.binder with
  | none => simp [bindingLabel, hbi, decodeBinder, splitFirst_none _ _ hn]
  | some b =>
    have := splitFirst_clean '%' b i.name (hb b hbi)
    simp [bindingLabel, hbi, decodeBinder, this]

theorem clean_parts {i : LabelIn} (h : i.clean = true) :
    i.name.contains ':' = false ∧ i.name.contains '%' = false
      ∧ (∀ p, i.parent = some p → p.contains ':' = false)
      ∧ (∀ b, i.binder = some b → b.contains ':' = false ∧ b.contains '%' = false) := by
  simp only [LabelIn.clean, cleanName, Bool.and_eq_true, Bool.not_eq_true'] at h
  obtain ⟨⟨⟨h1, h2⟩, h3⟩, h4⟩ := h
  refine ⟨h1, h2, ?_, ?_⟩
  · intro p hp; simp [hp, cleanName] at h3; simpa using h3.1
  · intro b hb; simp [hb, cleanName] at h4; simpa using h4

/-- a label written with `show_proc_parent` can be read back: scope, type and name -/
theorem decodeLabel_procLabel (i : LabelIn) (h : i.clean = true) : decodeLabel (procLabel true i) = i := by
  obtain ⟨hn1, hn2, hp, hb⟩ := clean_parts h
  have hdb := decodeBinder_label i hn2 (fun b hbi => (hb b hbi).2)
  cases hpi : i.parent with
  | some p =>
    have e : procLabel true i = p ++ ':' :: (':' :: (bindingLabel i ++ i.name)) := by
      simp [procLabel, parentLabel, hpi]
    rw [e, decodeLabel, splitFirst_clean ':' p _ (hp p hpi)]
    simp only [hdb]
    cases i; simp_all
  | none =>
    have e : procLabel true i = bindingLabel i ++ i.name := by simp [procLabel, parentLabel, hpi]
    have hc : (bindingLabel i ++ i.name).contains ':' = false := by
      cases hbi : i.binder with
      | none => simpa [bindingLabel, hbi] using hn1
      | some b =>
        have := (hb b hbi).1
        simp only [bindingLabel, hbi, List.contains_eq_mem, List.mem_append, List.mem_cons, List.not_mem_nil,
          or_false, decide_eq_false_iff_not, not_or] at this hn1 ⊢
        refine ⟨⟨this, by decide⟩, hn1⟩
    rw [e, decodeLabel, splitFirst_none ':' _ hc]
    simp only [hdb]
    cases i; simp_all

end Ford.Graph
