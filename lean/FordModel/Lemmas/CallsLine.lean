import FordModel.CallsLine
import FordModel.Spec.CallsLine
import FordModel.Lemmas.Reader
namespace Ford.Calls
open Ford Ford.CallsSpec

/-- inside a literal opened by `q` nothing but `q` matters -/
theorem splitSpec_body (sep q : Char) (body rest cur : Str) (h : q ∉ body) :
    splitSpec sep (body ++ rest) (.inq q) cur = splitSpec sep rest (.inq q) (body.reverse ++ cur) := by
  induction body generalizing cur with
  | nil => simp
  | cons b bs ih =>
    have hb : (b == q) = false := by
      simp at h; simp [Ne.symm h.1]
    have hq : q ∉ bs := by simp at h; exact h.2
    simp only [List.cons_append]
    rw [splitSpec_ne _ _ _ _ _ (by simp)]
    simp only [qstep, hb, Bool.false_eq_true, ↓reduceIte]
    rw [ih _ hq]
    simp

/-- a statement text is consumed whole: the scanner is outside a literal before and after -/
theorem splitSpec_stmt (s : Str) (h : StmtText s) (rest cur : Str) :
    splitSpec ';' (s ++ rest) .out cur = splitSpec ';' rest .out (s.reverse ++ cur) := by
  induction h generalizing cur with
  | nil => simp
  | plain c r hq hc _ ih =>
    have hc' : (c == ';') = false := by simp [hc]
    simp only [List.cons_append]
    rw [splitSpec_ne _ _ _ _ _ (by simp [hc'])]
    simp only [qstep, hq, Bool.false_eq_true, ↓reduceIte]
    rw [ih]
    simp
  | lit q body r hq hb _ ih =>
    have hq' : (q == ';') = false := by
      simp [isQuote] at hq; rcases hq with h | h <;> simp [h]
    simp only [List.cons_append, List.append_assoc]
    rw [splitSpec_ne _ _ _ _ _ (by simp [hq'])]
    simp only [qstep, hq, ↓reduceIte]
    rw [splitSpec_body _ _ _ _ _ hb]
    rw [splitSpec_ne _ _ _ _ _ (by simp)]
    simp only [qstep, beq_self_eq_true, ↓reduceIte]
    rw [ih]
    simp

theorem stmtText_append (a b : Str) (ha : StmtText a) (hb : StmtText b) : StmtText (a ++ b) := by
  induction ha with
  | nil => simpa using hb
  | plain c r hq hc _ ih => exact .plain c _ hq hc ih
  | lit q body r hq hbody _ ih =>
    have : q :: (body ++ q :: r) ++ b = q :: (body ++ q :: (r ++ b)) := by simp
    rw [this]
    exact .lit q body _ hq hbody ih

theorem splitSpec_join (s : Str) (ss : List Str) (h : ∀ t ∈ s :: ss, StmtText t) :
    splitSpec ';' (joinSep ';' (s :: ss)) .out [] = s :: ss := by
  induction ss generalizing s with
  | nil =>
    have := splitSpec_stmt s (h s (by simp)) [] []
    simpa [joinSep, splitSpec] using this
  | cons y r ih =>
    have h1 := splitSpec_stmt s (h s (by simp)) (';' :: joinSep ';' (y :: r)) []
    simp only [joinSep]
    rw [h1, splitSpec_sep _ _ _ _ (by simp)]
    simp only [List.append_nil, List.reverse_reverse]
    rw [ih y (fun t ht => h t (by simp at ht ⊢; right; exact ht))]

theorem quoteSplit_join_stmts (ss : List Str) (hne : ss ≠ []) (h : ∀ t ∈ ss, StmtText t) :
    quoteSplit ';' (joinSep ';' ss) = ss := by
  cases ss with
  | nil => exact absurd rfl hne
  | cons s r =>
    have hs : isQuote ';' = false := by decide
    rw [show quoteSplit ';' (joinSep ';' (s :: r)) = splitSpec ';' (joinSep ';' (s :: r)) .out [] from
      qsplitAux_eq_spec ';' hs _ false false [] .out .out]
    exact splitSpec_join s r h

theorem lineStatements_join (ss : List Str) (h : ∀ t ∈ ss, StmtText t) :
    lineStatements (joinSep ';' ss) = (ss.filter (fun f => !f.isEmpty)).map strip := by
  cases ss with
  | nil => simp [lineStatements, joinSep, quoteSplit, qsplitAux]
  | cons s r => simp only [lineStatements, quoteSplit_join_stmts (s :: r) (by simp) h]

theorem unitStatements_join (groups : List (List Str)) (h : ∀ g ∈ groups, ∀ t ∈ g, StmtText t) :
    unitStatements (groups.map (joinSep ';')) = (groups.flatten.filter (fun f => !f.isEmpty)).map strip := by
  induction groups with
  | nil => simp [unitStatements]
  | cons g gs ih =>
    have hg := lineStatements_join g (h g (by simp))
    have := ih (fun g' hg' => h g' (by simp [hg']))
    simp only [unitStatements] at this ⊢
    simp [hg, this]

end Ford.Calls
