import FordModel.Display
import FordModel.DisplayLinks
namespace Ford.Display
open Ford.Generated

/-! ### lookups return members -/

theorem firstNamed_mem (nm : Nat → Nat) (n : Nat) : (xs : List Ent) → (c : Ent) →
    firstNamed nm n xs = some c → c ∈ xs
  | [], c, h => by simp [firstNamed] at h
  | e :: es, c, h => by
    simp only [firstNamed] at h
    split at h
    · simp at h; simp [h]
    · exact List.mem_cons_of_mem _ (firstNamed_mem nm n es c h)

theorem inList_sub (l : String) : (cs : Ents) → (c : Ent) → c ∈ cs.inList l → c ∈ cs.toList
  | .nil, c, h => by simp [Ents.inList] at h
  | .cons e rest, c, h => by
    simp only [Ents.inList, List.mem_append] at h
    simp only [Ents.toList, List.mem_cons]
    rcases h with h | h
    · split at h
      · simp at h; exact Or.inl h
      · simp at h
    · exact Or.inr (inList_sub l rest c h)

theorem childrenOf_sub (cs : Ents) : (ls : List String) → (c : Ent) → c ∈ childrenOf cs ls → c ∈ cs.toList
  | [], c, h => by simp [childrenOf] at h
  | l :: ls, c, h => by
    simp only [childrenOf, List.mem_append] at h
    rcases h with h | h
    · exact inList_sub l cs c h
    · exact childrenOf_sub cs ls c h

/-- a hit of `find_child` that does not go through a kept procedure reference names the page
    of the entity itself or the page of one of its (surviving) children -/
theorem findChild_page (E : LinkEnv) (a : Bool) (own : Kind → Bool) (pg : Nat) (e : Ent) (n : Nat) (h : Hit)
    (hf : findChild E a own pg e n = some h) (hv : h.viaRef = false) :
    h.page = pg ∨ ∃ c, c ∈ e.kids.toList ∧ own c.info.kind = true ∧ h.page = c.info.id := by
  unfold findChild at hf
  simp only at hf
  split at hf
  · rename_i c hc
    have hm := firstNamed_mem _ _ _ _ hc
    have hm' : c ∈ e.kids.toList := by
      split at hm
      · simp at hm
      · exact childrenOf_sub _ _ _ hm
    simp only [Option.some.injEq] at hf
    subst hf
    by_cases ho : own c.info.kind = true
    · right; exact ⟨c, hm', ho, by simp [ho]⟩
    · left; simp [ho]
  · split at hf
    · simp only [Option.some.injEq] at hf
      subst hf
      simp at hv
    · split at hf
      · simp only [Option.some.injEq] at hf
        subst hf
        left; rfl
      · simp at hf

/-! ### `Project.find` returns an entity that has a page -/

theorem firstInList_mem (nm : Nat → Nat) (n : Nat) (l : String) : (es : List (Nat × String)) → (i : Nat) →
    firstInList nm n l es = some i → i ∈ es.map (·.1)
  | [], i, h => by simp [firstInList] at h
  | (j, pl) :: rest, i, h => by
    simp only [firstInList] at h
    split at h
    · simp at h; simp [h]
    · simp only [List.map_cons, List.mem_cons]
      exact Or.inr (firstInList_mem nm n l rest i h)

theorem findInLists_mem (nm : Nat → Nat) (n : Nat) (es : List (Nat × String)) : (ls : List String) → (i : Nat) →
    findInLists nm n es ls = some i → i ∈ es.map (·.1)
  | [], i, h => by simp [findInLists] at h
  | l :: ls, i, h => by
    simp only [findInLists] at h
    split at h
    · rename_i j hj
      simp only [Option.some.injEq] at h
      subst h
      exact firstInList_mem nm n l es j hj
    · exact findInLists_mem nm n es ls i h

theorem lookup_isSome_eq (l : String) : (xs : List (String × String)) →
    (xs.lookup l).isSome = (xs.map (·.1)).contains l
  | [] => by simp [List.lookup]
  | (a, b) :: rest => by
    have ih := lookup_isSome_eq l rest
    simp only [List.lookup, List.map_cons, List.contains_cons]
    by_cases hab : l == a
    · simp [hab]
    · simp [hab, ih]

theorem pageKidsL_ids : (cs : Ents) → cs.pageKidsL.map (·.1) = cs.pageKids
  | .nil => by simp [Ents.pageKidsL, Ents.pageKids]
  | .cons e rest => by
    have ih := pageKidsL_ids rest
    have hl := lookup_isSome_eq (listOf e.info.kind) C05.containers
    simp only [Ents.pageKidsL, Ents.pageKids, List.map_append, ih, inContainers]
    cases hk : C05.containers.lookup (listOf e.info.kind) with
    | none => rw [hk] at hl; simp at hl; simp [hl]
    | some pl => rw [hk] at hl; simp at hl; simp [hl]

theorem unitPagesL_ids : (cs : Ents) → cs.unitPagesL.map (·.1) = cs.unitPages
  | .nil => by simp [Ents.unitPagesL, Ents.unitPages]
  | .cons e rest => by
    have ih := unitPagesL_ids rest
    simp only [Ents.unitPagesL, Ents.unitPages, List.map_append, List.map_cons, ih]
    split <;> simp [pageKidsL_ids]

theorem projEntries_ids : (q : List Ent) → (projEntries q).map (·.1) = pageIds q
  | [] => by simp [projEntries, pageIds]
  | f :: fs => by
    have ih := projEntries_ids fs
    simp [projEntries, pageIds, ih, unitPagesL_ids]

theorem projectFind_mem (E : LinkEnv) (q : List Ent) (n i : Nat) (h : projectFind E q n = some i) :
    i ∈ pageIds q := by
  unfold projectFind at h
  have := findInLists_mem _ _ _ _ _ h
  rwa [projEntries_ids] at this

/-! ### `convert_link` -/

/-- where the page of a link can come from -/
theorem resolve0_page (E : LinkEnv) (q : List Ent) (par : Option (Ent × (Kind → Bool) × Nat))
    (own : Kind → Bool) (pg : Nat) (ctx : Ent) (n : Nat) (h : Hit)
    (hr : resolve0 E q par own pg ctx n = some h) (hv : h.viaRef = false) :
    (h.page = pg ∨ ∃ c, c ∈ ctx.kids.toList ∧ own c.info.kind = true ∧ h.page = c.info.id)
    ∨ (∃ p pown ppg, par = some (p, pown, ppg)
        ∧ (h.page = ppg ∨ ∃ c, c ∈ p.kids.toList ∧ pown c.info.kind = true ∧ h.page = c.info.id))
    ∨ h.page ∈ pageIds q := by
  unfold resolve0 at hr
  split at hr
  · rename_i h' hf
    simp only [Option.some.injEq] at hr
    subst hr
    exact Or.inl (findChild_page E true own pg ctx n _ hf hv)
  · split at hr
    · rename_i h' hp
      simp only [Option.some.injEq] at hr
      subst hr
      cases par with
      | none => simp at hp
      | some t =>
        obtain ⟨p, pown, ppg⟩ := t
        simp only at hp
        exact Or.inr (Or.inl ⟨p, pown, ppg, rfl, findChild_page E false pown ppg p n _ hp hv⟩)
    · split at hr
      · rename_i i hi
        simp only [Option.some.injEq] at hr
        subst hr
        exact Or.inr (Or.inr (projectFind_mem E q n i hi))
      · simp at hr

/-- the page test only removes hits -/
theorem resolve_some (E : LinkEnv) (q : List Ent) (par : Option (Ent × (Kind → Bool) × Nat))
    (own : Kind → Bool) (pg : Nat) (ctx : Ent) (n : Nat) (h : Hit)
    (hr : resolve E q par own pg ctx n = some h) :
    resolve0 E q par own pg ctx n = some h ∧ (E.checksPage = true → h.page ∈ pageIds q) := by
  unfold resolve at hr
  split at hr
  · rename_i h' h0
    split at hr
    · simp at hr
    · rename_i hc
      simp only [Option.some.injEq] at hr
      subst hr
      refine ⟨h0, ?_⟩
      intro hcp
      simp only [hcp, Bool.true_and, Bool.not_eq_true', Bool.not_eq_false] at hc
      simpa using hc
  · simp at hr

theorem resolve_page (E : LinkEnv) (q : List Ent) (par : Option (Ent × (Kind → Bool) × Nat))
    (own : Kind → Bool) (pg : Nat) (ctx : Ent) (n : Nat) (h : Hit)
    (hr : resolve E q par own pg ctx n = some h) (hv : h.viaRef = false) :
    (h.page = pg ∨ ∃ c, c ∈ ctx.kids.toList ∧ own c.info.kind = true ∧ h.page = c.info.id)
    ∨ (∃ p pown ppg, par = some (p, pown, ppg)
        ∧ (h.page = ppg ∨ ∃ c, c ∈ p.kids.toList ∧ pown c.info.kind = true ∧ h.page = c.info.id))
    ∨ h.page ∈ pageIds q :=
  resolve0_page E q par own pg ctx n h (resolve_some E q par own pg ctx n h hr).1 hv

theorem linksAt_mem (E : LinkEnv) (q : List Ent) (par : Option (Ent × (Kind → Bool) × Nat))
    (own : Kind → Bool) (pg : Nat) (ctx : Ent) : (ns : List Nat) → (l : Link) →
    l ∈ linksAt E q par own pg ctx ns → ∃ n, l.hit = resolve E q par own pg ctx n
  | [], l, h => by simp [linksAt] at h
  | n :: ns, l, h => by
    simp only [linksAt, List.mem_cons] at h
    rcases h with h | h
    · exact ⟨n, by rw [h]⟩
    · exact linksAt_mem E q par own pg ctx ns l h

/-- a link is safe with respect to a set of page ids -/
def Link.pointsInto (l : Link) (S : Nat → Prop) : Prop :=
  ∀ h, l.hit = some h → h.viaRef = false → S h.page

/-! ### the four levels of the traversal -/

mutual
theorem deepLinks_ok (E : LinkEnv) (q : List Ent) (pg : Nat) (hpg : pg ∈ pageIds q) :
    (par e : Ent) → (l : Link) → l ∈ Ent.deepLinks E q par pg e → l.pointsInto (· ∈ pageIds q)
  | par, .mk i cs, l, hl => by
    simp only [Ent.deepLinks, List.mem_append] at hl
    rcases hl with hl | hl
    · obtain ⟨n, hn⟩ := linksAt_mem _ _ _ _ _ _ _ _ hl
      intro h hh hv
      rw [hn] at hh
      rcases resolve_page _ _ _ _ _ _ _ _ hh hv with h1 | h1 | h1
      · rcases h1 with h1 | ⟨c, _, ho, _⟩
        · rw [h1]; exact hpg
        · simp [noPage] at ho
      · obtain ⟨p, pown, ppg, hp, h2⟩ := h1
        simp only [Option.some.injEq, Prod.mk.injEq] at hp
        obtain ⟨_, hpo, hpp⟩ := hp
        subst hpo; subst hpp
        rcases h2 with h2 | ⟨c, _, ho, _⟩
        · rw [h2]; exact hpg
        · simp [noPage] at ho
      · exact h1
    · exact deepLinksKids_ok E q pg hpg (.mk i cs) cs l hl
theorem deepLinksKids_ok (E : LinkEnv) (q : List Ent) (pg : Nat) (hpg : pg ∈ pageIds q) :
    (par : Ent) → (cs : Ents) → (l : Link) → l ∈ Ents.deepLinks E q par pg cs → l.pointsInto (· ∈ pageIds q)
  | par, .nil, l, hl => by simp [Ents.deepLinks] at hl
  | par, .cons e rest, l, hl => by
    simp only [Ents.deepLinks, List.mem_append] at hl
    rcases hl with hl | hl
    · exact deepLinks_ok E q pg hpg par e l hl
    · exact deepLinksKids_ok E q pg hpg par rest l hl
end

/-- members of a unit `u` whose own page and whose page-bearing children are pages of `q` -/
theorem memberLinks_ok (E : LinkEnv) (q : List Ent) (u : Ent) (hu : u.info.id ∈ pageIds q)
    (hk : ∀ c, c ∈ u.kids.toList → memberOwn u.info.kind c.info.kind = true → c.info.id ∈ pageIds q) :
    (cs : Ents) → (∀ c, c ∈ cs.toList → c ∈ u.kids.toList) → (l : Link) →
    l ∈ cs.memberLinks E q u → l.pointsInto (· ∈ pageIds q)
  | .nil, _, l, hl => by simp [Ents.memberLinks] at hl
  | .cons c rest, hsub, l, hl => by
    have hc : c ∈ u.kids.toList := hsub c (by simp [Ents.toList])
    have hpg : (if memberOwn u.info.kind c.info.kind then c.info.id else u.info.id) ∈ pageIds q := by
      split
      · rename_i ho; exact hk c hc ho
      · exact hu
    simp only [Ents.memberLinks, List.mem_append] at hl
    rcases hl with (hl | hl) | hl
    · obtain ⟨n, hn⟩ := linksAt_mem _ _ _ _ _ _ _ _ hl
      intro h hh hv
      rw [hn] at hh
      rcases resolve_page _ _ _ _ _ _ _ _ hh hv with h1 | h1 | h1
      · rcases h1 with h1 | ⟨c', _, ho, _⟩
        · rw [h1]; exact hpg
        · simp [noPage] at ho
      · obtain ⟨p, pown, ppg, hp, h2⟩ := h1
        simp only [Option.some.injEq, Prod.mk.injEq] at hp
        obtain ⟨hp1, hpo, hpp⟩ := hp
        subst hp1; subst hpo; subst hpp
        rcases h2 with h2 | ⟨c', hc', ho, h3⟩
        · rw [h2]; exact hu
        · rw [h3]; exact hk c' hc' ho
      · exact h1
    · exact deepLinksKids_ok E q _ hpg c c.kids l hl
    · exact memberLinks_ok E q u hu hk rest (fun x hx => hsub x (by simp [Ents.toList, hx])) l hl

/-- what `pageIds` contains below one file -/
def FileOk (q : List Ent) (f : Ent) : Prop :=
  f.info.id ∈ pageIds q
  ∧ ∀ u, u ∈ f.kids.toList →
      u.info.id ∈ pageIds q
      ∧ ∀ c, c ∈ u.kids.toList → memberOwn u.info.kind c.info.kind = true → c.info.id ∈ pageIds q

theorem unitLinks_ok (E : LinkEnv) (q : List Ent) (f : Ent) (hf : FileOk q f) :
    (cs : Ents) → (∀ u, u ∈ cs.toList → u ∈ f.kids.toList) → (l : Link) →
    l ∈ cs.unitLinks E q f → l.pointsInto (· ∈ pageIds q)
  | .nil, _, l, hl => by simp [Ents.unitLinks] at hl
  | .cons u rest, hsub, l, hl => by
    have huf : u ∈ f.kids.toList := hsub u (by simp [Ents.toList])
    obtain ⟨hu, hk⟩ := hf.2 u huf
    simp only [Ents.unitLinks, List.mem_append] at hl
    rcases hl with (hl | hl) | hl
    · obtain ⟨n, hn⟩ := linksAt_mem _ _ _ _ _ _ _ _ hl
      intro h hh hv
      rw [hn] at hh
      rcases resolve_page _ _ _ _ _ _ _ _ hh hv with h1 | h1 | h1
      · rcases h1 with h1 | ⟨c', hc', ho, h3⟩
        · rw [h1]; exact hu
        · rw [h3]; exact hk c' hc' ho
      · obtain ⟨p, pown, ppg, hp, h2⟩ := h1
        simp only [Option.some.injEq, Prod.mk.injEq] at hp
        obtain ⟨hp1, hpo, hpp⟩ := hp
        subst hp1; subst hpo; subst hpp
        rcases h2 with h2 | ⟨u', hu', _, h3⟩
        · rw [h2]; exact hf.1
        · rw [h3]; exact (hf.2 u' hu').1
      · exact h1
    · exact memberLinks_ok E q u hu hk u.kids (fun _ hx => hx) l hl
    · exact unitLinks_ok E q f hf rest (fun x hx => hsub x (by simp [Ents.toList, hx])) l hl

theorem filesLinks_ok (E : LinkEnv) (q : List Ent) :
    (fs : List Ent) → (∀ f, f ∈ fs → FileOk q f) → (l : Link) →
    l ∈ filesLinks E q fs → l.pointsInto (· ∈ pageIds q)
  | [], _, l, hl => by simp [filesLinks] at hl
  | f :: fs, hfs, l, hl => by
    have hf : FileOk q f := hfs f (by simp)
    simp only [filesLinks, List.mem_append] at hl
    rcases hl with (hl | hl) | hl
    · obtain ⟨n, hn⟩ := linksAt_mem _ _ _ _ _ _ _ _ hl
      intro h hh hv
      rw [hn] at hh
      rcases resolve_page _ _ _ _ _ _ _ _ hh hv with h1 | h1 | h1
      · rcases h1 with h1 | ⟨u, hu, _, h3⟩
        · rw [h1]; exact hf.1
        · rw [h3]; exact (hf.2 u hu).1
      · obtain ⟨p, pown, ppg, hp, _⟩ := h1
        simp at hp
      · exact h1
    · exact unitLinks_ok E q f hf f.kids (fun _ hx => hx) l hl
    · exact filesLinks_ok E q fs (fun x hx => hfs x (by simp [hx])) l hl

/-! ### `pageIds` contains what the traversal treats as pages -/

theorem pageKids_mem (uk : Kind) : (cs : Ents) → (c : Ent) → c ∈ cs.toList →
    inContainers (listOf c.info.kind) = true → c.info.id ∈ cs.pageKids
  | .nil, c, h, _ => by simp [Ents.toList] at h
  | .cons e rest, c, h, ho => by
    simp only [Ents.toList, List.mem_cons] at h
    simp only [Ents.pageKids, List.mem_append]
    rcases h with h | h
    · subst h; left; simp [ho]
    · right; exact pageKids_mem uk rest c h ho

theorem unitPages_mem : (us : Ents) → (u : Ent) → u ∈ us.toList →
    u.info.id ∈ us.unitPages
    ∧ ∀ c, c ∈ u.kids.toList → memberOwn u.info.kind c.info.kind = true → c.info.id ∈ us.unitPages
  | .nil, u, h => by simp [Ents.toList] at h
  | .cons e rest, u, h => by
    simp only [Ents.toList, List.mem_cons] at h
    rcases h with h | h
    · subst h
      refine ⟨by simp [Ents.unitPages], ?_⟩
      intro c hc ho
      simp only [memberOwn, Bool.and_eq_true] at ho
      simp only [Ents.unitPages, ho.1, if_true, List.mem_append, List.mem_cons]
      left; right
      exact pageKids_mem u.info.kind u.kids c hc ho.2
    · obtain ⟨h1, h2⟩ := unitPages_mem rest u h
      refine ⟨by simp only [Ents.unitPages, List.mem_append]; exact Or.inr h1, ?_⟩
      intro c hc ho
      simp only [Ents.unitPages, List.mem_append]
      exact Or.inr (h2 c hc ho)

theorem fileOk_of_mem : (q : List Ent) → (f : Ent) → f ∈ q → FileOk q f
  | [], f, h => by simp at h
  | g :: gs, f, h => by
    simp only [List.mem_cons] at h
    rcases h with h | h
    · subst h
      refine ⟨by simp [pageIds], ?_⟩
      intro u hu
      obtain ⟨h1, h2⟩ := unitPages_mem f.kids u hu
      refine ⟨by simp [pageIds, h1], ?_⟩
      intro c hc ho
      simp [pageIds, h2 c hc ho]
    · obtain ⟨h1, h2⟩ := fileOk_of_mem gs f h
      refine ⟨by simp only [pageIds, List.mem_append]; exact Or.inr h1, ?_⟩
      intro u hu
      obtain ⟨h3, h4⟩ := h2 u hu
      refine ⟨by simp only [pageIds, List.mem_append]; exact Or.inr h3, ?_⟩
      intro c hc ho
      simp only [pageIds, List.mem_append]
      exact Or.inr (h4 c hc ho)

/-- **every direct hit names a page that exists**: for any project `q` (pruned or not), any naming,
    any links - the page a resolved link points at is one of `pageIds q`, unless the hit went
    through a kept procedure reference -/
theorem linksOf_pages (E : LinkEnv) (q : List Ent) (l : Link) (hl : l ∈ linksOf E q)
    (h : Hit) (hh : l.hit = some h) (hv : h.viaRef = false) : h.page ∈ pageIds q :=
  filesLinks_ok E q q (fun f hf => fileOk_of_mem q f hf) l hl h hh hv


/-! ### repaired variant: the page test holds for every hit -/

theorem linksAt_checked (E : LinkEnv) (q : List Ent) (hc : E.checksPage = true)
    (par : Option (Ent × (Kind → Bool) × Nat)) (own : Kind → Bool) (pg : Nat) (ctx : Ent)
    (l : Link) (ns : List Nat) (hl : l ∈ linksAt E q par own pg ctx ns) (h : Hit) (hh : l.hit = some h) :
    h.page ∈ pageIds q := by
  obtain ⟨n, hn⟩ := linksAt_mem E q par own pg ctx ns l hl
  rw [hn] at hh
  exact (resolve_some E q par own pg ctx n h hh).2 hc

mutual
theorem deepLinks_checked (E : LinkEnv) (q : List Ent) (hc : E.checksPage = true) (pg : Nat) :
    (par e : Ent) → (l : Link) → l ∈ Ent.deepLinks E q par pg e → ∀ h, l.hit = some h → h.page ∈ pageIds q
  | par, .mk i cs, l, hl => by
    simp only [Ent.deepLinks, List.mem_append] at hl
    rcases hl with hl | hl
    · exact linksAt_checked E q hc _ _ _ _ l _ hl
    · exact deepLinksKids_checked E q hc pg (.mk i cs) cs l hl
theorem deepLinksKids_checked (E : LinkEnv) (q : List Ent) (hc : E.checksPage = true) (pg : Nat) :
    (par : Ent) → (cs : Ents) → (l : Link) → l ∈ Ents.deepLinks E q par pg cs →
    ∀ h, l.hit = some h → h.page ∈ pageIds q
  | par, .nil, l, hl => by simp [Ents.deepLinks] at hl
  | par, .cons e rest, l, hl => by
    simp only [Ents.deepLinks, List.mem_append] at hl
    rcases hl with hl | hl
    · exact deepLinks_checked E q hc pg par e l hl
    · exact deepLinksKids_checked E q hc pg par rest l hl
end

theorem memberLinks_checked (E : LinkEnv) (q : List Ent) (hc : E.checksPage = true) (u : Ent) :
    (cs : Ents) → (l : Link) → l ∈ cs.memberLinks E q u → ∀ h, l.hit = some h → h.page ∈ pageIds q
  | .nil, l, hl => by simp [Ents.memberLinks] at hl
  | .cons c rest, l, hl => by
    simp only [Ents.memberLinks, List.mem_append] at hl
    rcases hl with (hl | hl) | hl
    · exact linksAt_checked E q hc _ _ _ _ l _ hl
    · exact deepLinksKids_checked E q hc _ c c.kids l hl
    · exact memberLinks_checked E q hc u rest l hl

theorem unitLinks_checked (E : LinkEnv) (q : List Ent) (hc : E.checksPage = true) (f : Ent) :
    (cs : Ents) → (l : Link) → l ∈ cs.unitLinks E q f → ∀ h, l.hit = some h → h.page ∈ pageIds q
  | .nil, l, hl => by simp [Ents.unitLinks] at hl
  | .cons u rest, l, hl => by
    simp only [Ents.unitLinks, List.mem_append] at hl
    rcases hl with (hl | hl) | hl
    · exact linksAt_checked E q hc _ _ _ _ l _ hl
    · exact memberLinks_checked E q hc u u.kids l hl
    · exact unitLinks_checked E q hc f rest l hl

theorem filesLinks_checked (E : LinkEnv) (q : List Ent) (hc : E.checksPage = true) :
    (fs : List Ent) → (l : Link) → l ∈ filesLinks E q fs → ∀ h, l.hit = some h → h.page ∈ pageIds q
  | [], l, hl => by simp [filesLinks] at hl
  | f :: fs, l, hl => by
    simp only [filesLinks, List.mem_append] at hl
    rcases hl with (hl | hl) | hl
    · exact linksAt_checked E q hc _ _ _ _ l _ hl
    · exact unitLinks_checked E q hc f f.kids l hl
    · exact filesLinks_checked E q hc fs l hl

/-- **repaired variant: every hit names a page that exists**, references included -/
theorem linksOf_pages_checked (E : LinkEnv) (q : List Ent) (hc : E.checksPage = true)
    (l : Link) (hl : l ∈ linksOf E q) (h : Hit) (hh : l.hit = some h) : h.page ∈ pageIds q :=
  filesLinks_checked E q hc q l hl h hh

end Ford.Display
