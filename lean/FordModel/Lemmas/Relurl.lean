import FordModel.Relurl
import FordModel.Lemmas.Path
import FordModel.Lemmas.Url
namespace Ford.Relurl
open Ford.Path

/-- A link below the normalised output directory is rewritten by `relurl`, on any file system
    (`real` idempotent; what lies below a canonical output directory is reached without crossing
    a symbolic link). -/
theorem rewrites_of_ok (T : Tables) (hT : tablesOk T = true) (fs : FS)
    (hidem : ∀ p, fs.real (fs.real p) = fs.real p) (p t : List Seg)
    (hplain : fs.real (normalisePath T fs p) = normalisePath T fs p →
      fs.real (normalisePath T fs p ++ t) = normalisePath T fs p ++ t) :
    rewrites T fs (normalisePath T fs p ++ t) = true := by
  cases hr : T.relurlResolves with
  | false => simp [rewrites, linkPath, hr]
  | true =>
    have hn : T.normalise = .resolve := by simpa [tablesOk, hr] using hT
    have hd : normalisePath T fs p = fs.real p := by simp [normalisePath, hn]
    have := hplain (by rw [hd]; exact hidem p)
    simp [rewrites, linkPath, hr, this]

/-- ... and the reference it writes resolves, from the page's directory, to the target. -/
theorem relurl_resolves (T : Tables) (fs : FS) (d pageDir t : List Seg)
    (hrw : rewrites T fs (d ++ t) = true) (hd : Normal d) (hp : Normal pageDir) (ht : Normal t) :
    ∃ r, relurl T fs (d ++ pageDir) (d ++ t) = some r ∧ resolve (d ++ pageDir) r = d ++ t := by
  have hl : linkPath T fs (d ++ t) = d ++ t := by simpa [rewrites] using hrw
  refine ⟨relpathPy (d ++ t) (d ++ pageDir), by simp [relurl, hrw, hl], ?_⟩
  exact Ford.Url.resolve_relpathPy _ _ (normal_append hd ht) (normal_append hd hp)

/-- a file system with one symbolic link `/work -> /real` -/
def linkFS : FS :=
  { real := fun p => match p with
      | s :: rest => if s = ['w', 'o', 'r', 'k'] then ['r', 'e', 'a', 'l'] :: rest else s :: rest
      | [] => [] }

theorem linkFS_idem (p : List Seg) : linkFS.real (linkFS.real p) = linkFS.real p := by
  cases p with
  | nil => rfl
  | cons s rest =>
    by_cases h : s = ['w', 'o', 'r', 'k']
    · simp [linkFS, h]
    · simp [linkFS, h]

end Ford.Relurl
