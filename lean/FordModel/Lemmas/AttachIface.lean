import FordModel.AttachIface
namespace Ford

/-- the bookkeeping of interface blocks never changes what `attachStep` computes -/
theorem wStep_a (mark : Str) (w : WSt) (it : Str) : (wStep mark w it).a = attachStep mark w.a it := by
  unfold wStep
  simp only
  repeat' split
  all_goals rfl

theorem wFrom_a (mark : Str) (w : WSt) (items : List Str) : (wFrom mark w items).a = attachFrom mark w.a items := by
  induction items generalizing w with
  | nil => rfl
  | cons it items ih => simp only [wFrom, attachFrom, ih, wStep_a]

theorem attachW_ents (mark : Str) (items : List Str) : (attachW mark items).a.ents = attach mark items := by
  simp [attachW, attach, wFrom_a]

/-- without interface blocks that get wrappers nothing is inserted, dropped or rewritten -/
theorem insertWrappers_nil (wfix tb : Bool) (fields : List Str) (base xs : List EntDoc) (i : Nat) :
    insertWrappers wfix tb fields [] base i xs = xs := by
  induction xs generalizing i with
  | nil => rfl
  | cons x xs ih => simp [insertWrappers, ih]

/-- with the repair every wrapper carries the block's metadata and the shared list is untouched -/
theorem wrapFold_fixed (tb : Bool) (fields : List Str) (bm : MetaDict) (names L : List Str) :
    wrapFold true tb fields bm names L = (names.map (fun n => (n, bm)), L) := by
  induction names with
  | nil => rfl
  | cons n ns ih => simp [wrapFold, ih]

end Ford
