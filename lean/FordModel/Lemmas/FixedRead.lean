/-
  C14, round 6: lemmas for the composition of the fixed-to-free converter with the free-form
  reader on one continued statement (`Props/C14.lean: fixed_statement_reads_as_one_logical_line`).
-/
import FordModel.Fixed
import FordModel.FixedSpec
import FordModel.Reader
import FordModel.Lemmas.Fixed
import FordModel.Lemmas.ReaderLayout
namespace Ford.Fixed
open Ford

/-- a line that may stand behind the initial line of a statement and before its last
    continuation line: anything but another initial line -/
def Item.midOk (it : Item) : Bool := !it.isRegular || it.isCont

/-- the free-form equivalent of such a line: a continuation line in the middle is itself
    continued (` &`), the other lines are as they are -/
def midFree (v : Variant) (lim : Bool) (it : Item) : Str := freeLine v lim it it.isRegular

theorem nextIsCont_mid (mid : List Item) (c6 : Char) (body : Str) (rest : List Item)
    (h : ∀ it ∈ mid, it.midOk = true) : nextIsCont (mid ++ .cont c6 body :: rest) = true := by
  induction mid with
  | nil => simp [nextIsCont, Item.isRegular, Item.isCont]
  | cons it its ih =>
    have h1 := h it (by simp)
    have h2 := ih (fun g hg => h g (by simp [hg]))
    simp only [List.cons_append, nextIsCont]
    by_cases hr : it.isRegular = true
    · simp only [hr, ↓reduceIte]
      simpa [Item.midOk, hr] using h1
    · simp only [hr, Bool.false_eq_true, ↓reduceIte]
      exact h2

theorem renderFree_mid (v : Variant) (lim : Bool) (mid : List Item) (c6 : Char) (body : Str)
    (rest : List Item) (h : ∀ it ∈ mid, it.midOk = true) :
    renderFree v lim (mid ++ .cont c6 body :: rest) =
      mid.map (midFree v lim) ++ renderFree v lim (.cont c6 body :: rest) := by
  induction mid with
  | nil => rfl
  | cons it its ih =>
    have h2 : ∀ g ∈ its, g.midOk = true := fun g hg => h g (by simp [hg])
    simp only [List.cons_append, renderFree, List.map_cons, midFree]
    rw [nextIsCont_mid its c6 body rest h2, ih h2, Bool.and_true]
    rfl

/-- a whole-line comment `!t` whose text does not begin with a documentation mark: no doc
    comment of any kind, and no code -/
theorem comment_line_no_code (m : Marks) (t : Str)
    (h1 : startsWith t m.pre = false) (h2 : startsWith t m.preAlt = false)
    (h3 : startsWith t m.alt = false) (h4 : startsWith t m.doc = false) :
    NoDoc m false ('!' :: t) ∧ codeOf false ('!' :: t) = [] := by
  have hf : firstStripped ([] ++ '!' :: t) ≠ some '#' := by
    simp [firstStripped, lstrip, isSpace]
  refine ⟨?_, ?_⟩
  · exact ⟨by simpa using hf, matchDocmark_comment _ [] t .nil h1, matchDocmark_comment _ [] t .nil h2,
      matchDocmark_comment _ [] t .nil h3, matchDocmark_comment _ [] t .nil h4⟩
  · have := codeOf_outside_comment [] t .nil
    simpa [strip, rstrip, lstrip] using this

theorem lstrip_append_of_not_blank (s t : Str) (h : isBlank s = false) : lstrip (s ++ t) = lstrip s ++ t := by
  induction s with
  | nil => simp [isBlank] at h
  | cons a s' ih =>
    by_cases ha : isSpace a = true
    · have h' : isBlank s' = false := by simpa [isBlank, ha] using h
      simp only [List.cons_append, lstrip, ha, ↓reduceIte]
      exact ih h'
    · simp [lstrip, ha]

theorem lstrip_ne_nil_of_not_blank (s : Str) (h : isBlank s = false) : ∃ y r, lstrip s = y :: r ∧ isSpace y = false := by
  induction s with
  | nil => simp [isBlank] at h
  | cons a s' ih =>
    by_cases ha : isSpace a = true
    · have h' : isBlank s' = false := by simpa [isBlank, ha] using h
      simp only [lstrip, ha, ↓reduceIte]
      exact ih h'
    · exact ⟨a, s', by simp [lstrip, ha], by simpa using ha⟩

/-- the code part of `s &` for a comment-free, quote-closed, non-blank `s` -/
theorem codeOf_continued (s : Str) (hs : Atoms (s ++ [' ', '&'])) (hne : isBlank s = false) :
    codeOf false (s ++ [' ', '&']) = (lstrip s ++ [' ']) ++ ['&'] := by
  rw [codeOf_outside_plain _ hs]
  simp only [strip]
  rw [lstrip_append_of_not_blank s _ hne]
  have : lstrip s ++ [' ', '&'] = (lstrip s ++ [' ']) ++ ['&'] := by simp
  rw [this, rstrip_of_last _ _ (by decide)]

end Ford.Fixed
