/-
  Lemmas about the model of the statement that opens a derived type (FordModel/TypeHead.lean).
-/
import FordModel.TypeHead
import FordModel.Lemmas.TypeSpec
import FordModel.Lemmas.TypeSpecChar
namespace Ford.TypeHead
open Ford Ford.TypeSpec

/-! ## characters -/

theorem space_not_word {c : Char} (h : isSpace c = true) : isWord c = false := by
  simp only [isSpace, Bool.or_eq_true, beq_iff_eq] at h
  rcases h with ((((h1 | h1) | h1) | h1) | h1) | h1 <;> subst h1 <;> decide

theorem word_not_space {c : Char} (h : isWord c = true) : isSpace c = false := by
  cases hs : isSpace c with
  | false => rfl
  | true => rw [space_not_word hs] at h; cases h

/-- a character whose lower-case form is a letter is a letter -/
theorem lowerChar_alpha (b k : Char) (hk : isAlpha k = true) (h : lowerChar b = k) : isWord b = true := by
  unfold lowerChar at h
  split at h
  · rename_i hAZ
    simp [isWord, isAlpha, hAZ.1, hAZ.2]
  · subst h; simp [isWord, hk]

theorem lowerChar_ne_of_not_word (b k : Char) (hk : isAlpha k = true) (hb : isWord b = false) : lowerChar b ≠ k := by
  intro h; rw [lowerChar_alpha b k hk h] at hb; cases hb

/-! ## runs -/

theorem skipWs_blank (w : Str) (hw : isBlank w = true) : skipWs w = [] := by
  have := skipWs_blank_append w [] hw
  simpa [skipWs] using this

theorem skipWs_blank_word (w : Str) (c : Char) (r : Str) (hw : isBlank w = true) (hc : isWord c = true) :
    skipWs (w ++ c :: r) = c :: r := by
  rw [skipWs_blank_append _ _ hw]; exact skipWs_of_head _ _ (word_not_space hc)

theorem skipWs_length_lt (w : Str) (c : Char) (r : Str) (hw : isBlank w = true) (hne : w ≠ []) (hc : isSpace c = false) :
    (skipWs (w ++ c :: r)).length < (w ++ c :: r).length := by
  rw [skipWs_blank_append _ _ hw, skipWs_of_head _ _ hc]
  cases w with
  | nil => exact absurd rfl hne
  | cons a as => simp; omega

/-- `\w+` takes exactly the identifier when what follows does not start with a word character -/
theorem spanWord_append (n rest : Str) (hn : ∀ c ∈ n, isWord c = true)
    (hr : ∀ c r', rest = c :: r' → isWord c = false) : spanWord (n ++ rest) = (n, rest) := by
  induction n with
  | nil =>
    cases rest with
    | nil => rfl
    | cons c r' => simp [spanWord, hr c r' rfl]
  | cons a as ih =>
    have ha := hn a (by simp)
    have := ih (fun d hd => hn d (by simp [hd]))
    simp [spanWord, ha, this]

theorem spanNoParen_append (body rest : Str) (hb : ∀ c ∈ body, c ≠ '(' ∧ c ≠ ')') :
    spanNoParen (body ++ ')' :: rest) = (body, ')' :: rest) := by
  induction body with
  | nil => simp [spanNoParen]
  | cons a as ih =>
    have ha := hb a (by simp)
    have := ih (fun d hd => hb d (by simp [hd]))
    simp [spanNoParen, ha.1, ha.2, this]

/-! ## the look-ahead -/

theorem word_ne_paren {c : Char} (h : isWord c = true) : c ≠ '(' := by
  intro h'; subst h'; simp [isWord, isAlpha, isDigit] at h

/-- the look-ahead `is\s*\(` fails when the identifier is not `is` (in any letter case), or when no
    parenthesis follows it; what follows the identifier does not start with a word character -/
theorem guardAhead_false (n rest : Str) (hn : ∀ c ∈ n, isWord c = true) (hne : n ≠ [])
    (hr : ∀ c r', rest = c :: r' → isWord c = false)
    (hx : lower n ≠ (chars! "is") ∨ (skipWs rest).head? ≠ some '(') :
    guardAhead (n ++ rest) = false := by
  match n, hne with
  | [a], _ =>
    cases rest with
    | nil => simp [guardAhead, kwCI]
    | cons b bs =>
      have hb := lowerChar_ne_of_not_word b 's' (by decide) (hr b bs rfl)
      simp [guardAhead, kwCI, hb]
  | [a, b], _ =>
    simp only [guardAhead, List.cons_append, List.nil_append, kwCI]
    by_cases h1 : lowerChar a = 'i'
    · by_cases h2 : lowerChar b = 's'
      · rcases hx with hx | hx
        · exact absurd (by simp [lower, h1, h2]) hx
        · cases rest <;> simp_all [kwCI]
      · simp [h1, h2]
    · simp [h1]
  | a :: b :: c :: r, _ =>
    have hc : isWord c = true := hn c (by simp)
    simp only [guardAhead, List.cons_append, kwCI]
    by_cases h1 : lowerChar a = 'i'
    · by_cases h2 : lowerChar b = 's'
      · simp [h1, h2, kwCI, skipWs_of_head c (r ++ rest) (word_not_space hc), word_ne_paren hc]
      · simp [h1, h2]
    · simp [h1]

/-! ## the tail of the pattern -/

theorem paramsEnd_blank (w : Str) (hw : isBlank w = true) : paramsEnd (skipWs w) = some none := by
  simp [skipWs_blank w hw, paramsEnd]

theorem paramsEnd_params (body w : Str) (hb : ∀ c ∈ body, c ≠ '(' ∧ c ≠ ')') (hw : isBlank w = true) :
    paramsEnd ('(' :: (body ++ ')' :: w)) = some (some ('(' :: (body ++ [')']))) := by
  simp [paramsEnd, spanNoParen_append body w hb, skipWs_blank w hw]

theorem blank_head_not_word (w : Str) (hw : isBlank w = true) : ∀ c r', w = c :: r' → isWord c = false := by
  intro c r' h; subst h
  simp [isBlank] at hw
  exact space_not_word hw.1

/-- `name` + blanks: group 2 = the name, no group 3 - for every identifier -/
theorem nameTail_plain (n w : Str) (hn : ∀ c ∈ n, isWord c = true) (hne : n ≠ []) (hw : isBlank w = true) :
    nameTail (n ++ w) = some (n, none) := by
  have hr := blank_head_not_word w hw
  have hg := guardAhead_false n w hn hne hr (Or.inr (by simp [skipWs_blank w hw]))
  have hs := spanWord_append n w hn hr
  have hn' : n.isEmpty = false := by cases n <;> simp_all
  simp [nameTail, hg, hs, hn', paramsEnd_blank w hw]

/-- `name` + blanks + `( .. )` + blanks: groups 2 and 3 - for every identifier but `is` -/
theorem nameTail_params (n w1 body w2 : Str) (hn : ∀ c ∈ n, isWord c = true) (hne : n ≠ [])
    (hx : lower n ≠ (chars! "is")) (h1 : isBlank w1 = true)
    (hb : ∀ c ∈ body, c ≠ '(' ∧ c ≠ ')') (h2 : isBlank w2 = true) :
    nameTail (n ++ (w1 ++ '(' :: (body ++ ')' :: w2))) = some (n, some ('(' :: (body ++ [')']))) := by
  have hr : ∀ c r', (w1 ++ '(' :: (body ++ ')' :: w2)) = c :: r' → isWord c = false := by
    intro c r' h
    cases w1 with
    | nil => simp at h; rw [← h.1]; decide
    | cons a as =>
      simp at h; rw [← h.1]
      simp [isBlank] at h1; exact space_not_word h1.1
  have hg := guardAhead_false n _ hn hne hr (Or.inl hx)
  have hs := spanWord_append n _ hn hr
  have hn' : n.isEmpty = false := by cases n <;> simp_all
  have hsk : skipWs (w1 ++ '(' :: (body ++ ')' :: w2)) = '(' :: (body ++ ')' :: w2) := by
    rw [skipWs_blank_append _ _ h1]; exact skipWs_of_head _ _ (by decide)
  simp [nameTail, hg, hs, hn', hsk, paramsEnd_params body w2 hb h2]

/-- nothing that starts with a character outside `\w` is a name -/
theorem nameTail_nonword (c : Char) (r : Str) (hc : isWord c = false) : nameTail (c :: r) = none := by
  have hg : guardAhead (c :: r) = false := by
    simp [guardAhead, kwCI, lowerChar_ne_of_not_word c 'i' (by decide) hc]
  simp [nameTail, hg, spanWord, hc]

theorem nameTail_nil : nameTail [] = none := by simp [nameTail, guardAhead, kwCI, spanWord]

/-! ## `(,.*)?::` -/

theorem atColons_nocolon (acc s : Str) (h : ∀ c ∈ s, c ≠ ':') : atColons acc s = none := by
  match s with
  | [] => simp [atColons]
  | [c] =>
    have := h c (by simp)
    simp [atColons]
  | c :: d :: r =>
    have := h c (by simp)
    unfold atColons
    split
    · rename_i heq; injection heq with h1 _; exact absurd h1 this
    · rfl

theorem colonsSplit_nocolon (s : Str) : ∀ acc, (∀ c ∈ s, c ≠ ':') → colonsSplit acc s = none := by
  induction s with
  | nil => intro acc _; simp [colonsSplit]
  | cons c cs ih =>
    intro acc h
    simp [colonsSplit, ih (c :: acc) (fun d hd => h d (by simp [hd])), atColons_nocolon acc (c :: cs) h]

theorem colonsSplit_cons (acc : Str) (c : Char) (cs : Str) :
    colonsSplit acc (c :: cs) =
      match colonsSplit (c :: acc) cs with
      | some x => some x
      | none => atColons acc (c :: cs) := by
  cases h : colonsSplit (c :: acc) cs <;> simp [colonsSplit, h]

theorem atColons_colons (acc rest : Str) :
    atColons acc (':' :: ':' :: rest) =
      match nameTail (skipWs rest) with
      | some (n, p) => some (acc.reverse, n, p)
      | none => none := by
  cases h : nameTail (skipWs rest) <;> simp [atColons, h]

theorem atColons_head (acc : Str) (c : Char) (r : Str) (hc : c ≠ ':') : atColons acc (c :: r) = none := by
  unfold atColons
  split
  · rename_i heq; injection heq with h1 _; exact absurd h1 hc
  · rfl

theorem atColons_second (acc : Str) (r : Str) (hr : ∀ c ∈ r, c ≠ ':') : atColons acc (':' :: r) = none := by
  cases r with
  | nil => simp [atColons]
  | cons d r' =>
    have hd := hr d (by simp)
    unfold atColons
    split
    · rename_i heq; injection heq with _ h3; injection h3 with h4 _; exact absurd h4 hd
    · rfl

/-- one `::` in the statement: that is where group 1 ends -/
theorem colonsSplit_unique (a rest : Str) (ha : ∀ c ∈ a, c ≠ ':') (hrest : ∀ c ∈ rest, c ≠ ':') :
    ∀ acc, colonsSplit acc (a ++ ':' :: ':' :: rest) =
      match nameTail (skipWs rest) with
      | some (n, p) => some (acc.reverse ++ a, n, p)
      | none => none := by
  induction a with
  | nil =>
    intro acc
    have h1 : colonsSplit (':' :: acc) (':' :: rest) = none := by
      rw [colonsSplit_cons, colonsSplit_nocolon rest _ hrest, atColons_second _ rest hrest]
    rw [List.nil_append, colonsSplit_cons, h1, atColons_colons]
    simp
  | cons c cs ih =>
    intro acc
    have hc := ha c (by simp)
    have := ih (fun d hd => ha d (by simp [hd])) (c :: acc)
    rw [List.cons_append, colonsSplit_cons, this, atColons_head acc c _ hc]
    cases nameTail (skipWs rest) with
    | none => rfl
    | some x => simp

/-! ## `TYPE_RE` -/

theorem ident_head (n : Str) (hn : ∀ c ∈ n, isWord c = true) (hne : n ≠ []) :
    ∃ c r, n = c :: r ∧ isWord c = true := by
  cases n with
  | nil => exact absurd rfl hne
  | cons c r => exact ⟨c, r, rfl, hn c (by simp)⟩

/-- first alternative: `type`, at least one blank, then the tail -/
theorem typeRe_alt1 (t w rest : Str) (x : Str × Option Str) (ht : lower t = (chars! "type"))
    (hw : isBlank w = true) (hwne : w ≠ []) (c : Char) (r : Str) (hrest : rest = c :: r) (hc : isSpace c = false)
    (hx : nameTail rest = some x) : typeRe (t ++ (w ++ rest)) = some ⟨none, x.1, x.2⟩ := by
  subst hrest
  have hk := kwCI_of_lower (chars! "type") t (w ++ c :: r) ht
  have hsk : skipWs (w ++ c :: r) = c :: r := by
    rw [skipWs_blank_append _ _ hw]; exact skipWs_of_head _ _ hc
  have hlt : (c :: r).length < (w ++ c :: r).length := by
    cases w with
    | nil => exact absurd rfl hwne
    | cons a as => simp; omega
  obtain ⟨x1, x2⟩ := x
  simp only [typeRe, hk, hsk, hlt, if_true, hx]

/-- **`type name`** - for every identifier, keyword in any letter case, any blanks -/
theorem typeRe_plain (t w n w2 : Str) (ht : lower t = (chars! "type")) (hw : isBlank w = true) (hwne : w ≠ [])
    (hn : ∀ c ∈ n, isWord c = true) (hne : n ≠ []) (hw2 : isBlank w2 = true) :
    typeRe (t ++ (w ++ (n ++ w2))) = some ⟨none, n, none⟩ := by
  obtain ⟨c, r, hnc, hc⟩ := ident_head n hn hne
  have := typeRe_alt1 t w (n ++ w2) (n, none) ht hw hwne c (r ++ w2) (by simp [hnc]) (word_not_space hc)
    (nameTail_plain n w2 hn hne hw2)
  simpa using this

/-- **`type name (params)`** - for every identifier but `is` -/
theorem typeRe_plain_params (t w n w1 body w2 : Str) (ht : lower t = (chars! "type")) (hw : isBlank w = true)
    (hwne : w ≠ []) (hn : ∀ c ∈ n, isWord c = true) (hne : n ≠ []) (hx : lower n ≠ (chars! "is"))
    (h1 : isBlank w1 = true) (hb : ∀ c ∈ body, c ≠ '(' ∧ c ≠ ')') (h2 : isBlank w2 = true) :
    typeRe (t ++ (w ++ (n ++ (w1 ++ '(' :: (body ++ ')' :: w2))))) = some ⟨none, n, some ('(' :: (body ++ [')']))⟩ := by
  obtain ⟨c, r, hnc, hc⟩ := ident_head n hn hne
  have := typeRe_alt1 t w (n ++ (w1 ++ '(' :: (body ++ ')' :: w2))) (n, some ('(' :: (body ++ [')']))) ht hw hwne c
    (r ++ (w1 ++ '(' :: (body ++ ')' :: w2))) (by simp [hnc]) (word_not_space hc)
    (nameTail_params n w1 body w2 hn hne hx h1 hb h2)
  simpa using this

/-- the first alternative fails on a statement whose first character after `type` and the blanks is
    neither a blank nor in `\w` -/
theorem typeRe_alt1_fails (w : Str) (c : Char) (r : Str) (hw : isBlank w = true) (hc : isWord c = false)
    (hs : isSpace c = false) :
    (if (skipWs (w ++ c :: r)).length < (w ++ c :: r).length then nameTail (skipWs (w ++ c :: r)) else none) = none := by
  have hsk : skipWs (w ++ c :: r) = c :: r := by
    rw [skipWs_blank_append _ _ hw]; exact skipWs_of_head _ _ hs
  rw [hsk]
  split
  · exact nameTail_nonword c r hc
  · rfl

theorem blank_ne_colon (w : Str) (hw : isBlank w = true) : ∀ c ∈ w, c ≠ ':' := by
  intro c hc h; subst h
  have := (List.all_eq_true.mp hw) ':' hc
  simp [isSpace] at this

theorem word_ne_colon (n : Str) (hn : ∀ c ∈ n, isWord c = true) : ∀ c ∈ n, c ≠ ':' := by
  intro c hc h; subst h
  have := hn ':' hc
  simp [isWord, isAlpha, isDigit] at this

/-- second alternative without an attribute list: `type`, blanks, `::`, then the tail -/
theorem typeRe_colons_tail (t w0 rest : Str) (x : Str × Option Str) (ht : lower t = (chars! "type"))
    (h0 : isBlank w0 = true) (hx : nameTail (skipWs rest) = some x) :
    typeRe (t ++ (w0 ++ ':' :: ':' :: rest)) = some ⟨none, x.1, x.2⟩ := by
  have hk := kwCI_of_lower (chars! "type") t (w0 ++ ':' :: ':' :: rest) ht
  have ha := typeRe_alt1_fails w0 ':' (':' :: rest) h0 (by decide) (by decide)
  have hsk : skipWs (w0 ++ ':' :: ':' :: rest) = ':' :: ':' :: rest := by
    rw [skipWs_blank_append _ _ h0]; exact skipWs_of_head _ _ (by decide)
  obtain ⟨x1, x2⟩ := x
  simp only [typeRe, hk, ha]
  simp only [hsk, hx]

/-- second alternative with an attribute list that contains no colon -/
theorem typeRe_attrs_tail (t w0 a rest : Str) (x : Str × Option Str) (ht : lower t = (chars! "type"))
    (h0 : isBlank w0 = true) (ha : ∀ c ∈ a, c ≠ ':') (hrest : ∀ c ∈ rest, c ≠ ':')
    (hx : nameTail (skipWs rest) = some x) :
    typeRe (t ++ (w0 ++ ',' :: (a ++ ':' :: ':' :: rest))) = some ⟨some (',' :: a), x.1, x.2⟩ := by
  have hk := kwCI_of_lower (chars! "type") t (w0 ++ ',' :: (a ++ ':' :: ':' :: rest)) ht
  have h1 := typeRe_alt1_fails w0 ',' (a ++ ':' :: ':' :: rest) h0 (by decide) (by decide)
  have hsk : skipWs (w0 ++ ',' :: (a ++ ':' :: ':' :: rest)) = ',' :: (a ++ ':' :: ':' :: rest) := by
    rw [skipWs_blank_append _ _ h0]; exact skipWs_of_head _ _ (by decide)
  have hc := colonsSplit_unique a rest ha hrest [',']
  obtain ⟨x1, x2⟩ := x
  rw [hx] at hc
  simp only [typeRe, hk, h1]
  simp only [hsk, hc]
  simp

theorem skipWs_blank_ident (w n w2 : Str) (hw : isBlank w = true) (hn : ∀ c ∈ n, isWord c = true) (hne : n ≠ []) :
    skipWs (w ++ (n ++ w2)) = n ++ w2 := by
  obtain ⟨c, r, hnc, hc⟩ := ident_head n hn hne
  subst hnc
  exact skipWs_blank_word w c (r ++ w2) hw hc

/-- **`type [, attrs] :: name`** without attributes - for every identifier -/
theorem typeRe_colons (t w0 w1 n w2 : Str) (ht : lower t = (chars! "type")) (h0 : isBlank w0 = true)
    (h1 : isBlank w1 = true) (hn : ∀ c ∈ n, isWord c = true) (hne : n ≠ []) (h2 : isBlank w2 = true) :
    typeRe (t ++ (w0 ++ ':' :: ':' :: (w1 ++ (n ++ w2)))) = some ⟨none, n, none⟩ := by
  have := typeRe_colons_tail t w0 (w1 ++ (n ++ w2)) (n, none) ht h0
    (by rw [skipWs_blank_ident w1 n w2 h1 hn hne]; exact nameTail_plain n w2 hn hne h2)
  simpa using this

/-- **`type, attrs :: name`** - for every identifier and every attribute text without a colon -/
theorem typeRe_attrs (t w0 a w1 n w2 : Str) (ht : lower t = (chars! "type")) (h0 : isBlank w0 = true)
    (ha : ∀ c ∈ a, c ≠ ':') (h1 : isBlank w1 = true) (hn : ∀ c ∈ n, isWord c = true) (hne : n ≠ [])
    (h2 : isBlank w2 = true) :
    typeRe (t ++ (w0 ++ ',' :: (a ++ ':' :: ':' :: (w1 ++ (n ++ w2))))) = some ⟨some (',' :: a), n, none⟩ := by
  have hrest : ∀ c ∈ w1 ++ (n ++ w2), c ≠ ':' := by
    intro c hc
    simp only [List.mem_append] at hc
    rcases hc with hc | hc | hc
    · exact blank_ne_colon w1 h1 c hc
    · exact word_ne_colon n hn c hc
    · exact blank_ne_colon w2 h2 c hc
  have := typeRe_attrs_tail t w0 a (w1 ++ (n ++ w2)) (n, none) ht h0 ha hrest
    (by rw [skipWs_blank_ident w1 n w2 h1 hn hne]; exact nameTail_plain n w2 hn hne h2)
  simpa using this

/-! ## what is not a type definition -/

theorem lower_is (i : Str) (hi : lower i = (chars! "is")) :
    ∃ a b, i = [a, b] ∧ lowerChar a = 'i' ∧ lowerChar b = 's' := by
  match i with
  | [] => simp [lower] at hi
  | [_] => simp [lower] at hi
  | [a, b] => simp [lower] at hi; exact ⟨a, b, rfl, hi.1, hi.2⟩
  | _ :: _ :: _ :: _ => simp [lower] at hi

/-- **the SELECT TYPE guard** `type is ( ..` is not matched, whatever follows the parenthesis -/
theorem typeRe_guard (t w i w1 rest : Str) (ht : lower t = (chars! "type")) (hw : isBlank w = true)
    (hi : lower i = (chars! "is")) (h1 : isBlank w1 = true) :
    typeRe (t ++ (w ++ (i ++ (w1 ++ '(' :: rest)))) = none := by
  obtain ⟨a, b, hab, hla, hlb⟩ := lower_is i hi
  subst hab
  have haw : isWord a = true := lowerChar_alpha a 'i' (by decide) hla
  have hk := kwCI_of_lower (chars! "type") t (w ++ ([a, b] ++ (w1 ++ '(' :: rest))) ht
  have hsk : skipWs (w ++ ([a, b] ++ (w1 ++ '(' :: rest))) = a :: b :: (w1 ++ '(' :: rest) := by
    simpa using skipWs_blank_word w a (b :: (w1 ++ '(' :: rest)) hw haw
  have hg : guardAhead (a :: b :: (w1 ++ '(' :: rest)) = true := by
    have hsk1 : skipWs (w1 ++ '(' :: rest) = '(' :: rest := by
      rw [skipWs_blank_append _ _ h1]; exact skipWs_of_head _ _ (by decide)
    simp [guardAhead, kwCI, hla, hlb, hsk1]
  have hnt : nameTail (a :: b :: (w1 ++ '(' :: rest)) = none := by simp [nameTail, hg]
  have hac : a ≠ ',' := by intro h; subst h; simp [isWord, isAlpha, isDigit] at haw
  have hacol : a ≠ ':' := by intro h; subst h; simp [isWord, isAlpha, isDigit] at haw
  simp only [typeRe, hk, hsk, hnt, ite_self]
  split
  · rename_i heq; injection heq with h _; exact absurd h hac
  · rename_i heq; injection heq with h _; exact absurd h hacol
  · rfl

/-- **a declaration** `type ( ..` is not matched, whatever follows the parenthesis -/
theorem typeRe_decl (t w rest : Str) (ht : lower t = (chars! "type")) (hw : isBlank w = true) :
    typeRe (t ++ (w ++ '(' :: rest)) = none := by
  have hk := kwCI_of_lower (chars! "type") t (w ++ '(' :: rest) ht
  have h1 := typeRe_alt1_fails w '(' rest hw (by decide) (by decide)
  have hsk : skipWs (w ++ '(' :: rest) = '(' :: rest := by
    rw [skipWs_blank_append _ _ hw]; exact skipWs_of_head _ _ (by decide)
  simp only [typeRe, hk, h1]
  simp only [hsk]
  simp

/-! ## the declaration side (`VARIABLE_STRING`) -/

theorem varAlt_none (kw : Str → Option Str) (banned : List Str) (s : Str) (h : kw s = none) :
    varAlt kw banned s = none := by simp [varAlt, h]

theorem kw2CI_none (k1 k2 s : Str) (h : kwCI k1 s = none) : kw2CI k1 k2 s = none := by simp [kw2CI, h]

theorem skipWsLast_blank (w : Str) (c : Char) (r : Str) (hw : isBlank w = true) (hc : isSpace c = false) :
    ∀ l, ∃ l', skipWsLast l (w ++ c :: r) = (l', c :: r) := by
  induction w with
  | nil => intro l; exact ⟨l, by simp [skipWsLast, hc]⟩
  | cons a as ih =>
    intro l
    simp [isBlank] at hw
    obtain ⟨l', h⟩ := ih (by simp [isBlank]; exact hw.2) (some a)
    exact ⟨l', by simp [skipWsLast, hw.1, h]⟩

theorem take_prefix (t r : Str) : (t ++ r).take ((t ++ r).length - r.length) = t := by
  simp

/-- the alternatives of group 1 other than `type` fail on a statement that begins with `type` -/
theorem varRe_type (t r : Str) (ht : lower t = (chars! "type")) :
    varRe (t ++ r) =
      match varAlt (kwCI (chars! "type")) [(chars! "is")] (t ++ r) with
      | some (r', g2) => some ((t ++ r).take ((t ++ r).length - r'.length), g2)
      | none => none := by
  have d : ∀ kw, diverge kw (chars! "type") = true → kwCI kw (t ++ r) = none :=
    fun kw h => kwCI_diverge kw t r (by rw [ht]; exact h)
  have e1 := varAlt_none _ [] (t ++ r) (d (chars! "integer") (by decide))
  have e2 := varAlt_none _ [] (t ++ r) (d (chars! "real") (by decide))
  have e3 := varAlt_none _ [] (t ++ r) (kw2CI_none _ (chars! "precision") _ (d (chars! "double") (by decide)))
  have e4 := varAlt_none _ [] (t ++ r) (d (chars! "character") (by decide))
  have e5 := varAlt_none _ [] (t ++ r) (d (chars! "complex") (by decide))
  have e6 := varAlt_none _ [] (t ++ r) (kw2CI_none _ (chars! "complex") _ (d (chars! "double") (by decide)))
  have e7 := varAlt_none _ [] (t ++ r) (d (chars! "logical") (by decide))
  have e9 := varAlt_none _ [(chars! "is"), (chars! "default")] (t ++ r) (d (chars! "class") (by decide))
  have e10 := varAlt_none _ [] (t ++ r) (d (chars! "procedure") (by decide))
  have e11 := varAlt_none _ [] (t ++ r) (d (chars! "enumerator") (by decide))
  simp only [varRe, e1, e2, e3, e4, e5, e6, e7, e9, e10, e11, firstSome2]
  cases varAlt (kwCI (chars! "type")) [(chars! "is")] (t ++ r) with
  | none => rfl
  | some x => rfl

/-- the alternatives of group 1 other than `class` fail on a statement that begins with `class` -/
theorem varRe_class (t r : Str) (ht : lower t = (chars! "class")) :
    varRe (t ++ r) =
      match varAlt (kwCI (chars! "class")) [(chars! "is"), (chars! "default")] (t ++ r) with
      | some (r', g2) => some ((t ++ r).take ((t ++ r).length - r'.length), g2)
      | none => none := by
  have d : ∀ kw, diverge kw (chars! "class") = true → kwCI kw (t ++ r) = none :=
    fun kw h => kwCI_diverge kw t r (by rw [ht]; exact h)
  have e1 := varAlt_none _ [] (t ++ r) (d (chars! "integer") (by decide))
  have e2 := varAlt_none _ [] (t ++ r) (d (chars! "real") (by decide))
  have e3 := varAlt_none _ [] (t ++ r) (kw2CI_none _ (chars! "precision") _ (d (chars! "double") (by decide)))
  have e4 := varAlt_none _ [] (t ++ r) (d (chars! "character") (by decide))
  have e5 := varAlt_none _ [] (t ++ r) (d (chars! "complex") (by decide))
  have e6 := varAlt_none _ [] (t ++ r) (kw2CI_none _ (chars! "complex") _ (d (chars! "double") (by decide)))
  have e7 := varAlt_none _ [] (t ++ r) (d (chars! "logical") (by decide))
  have e8 := varAlt_none _ [(chars! "is")] (t ++ r) (d (chars! "type") (by decide))
  have e10 := varAlt_none _ [] (t ++ r) (d (chars! "procedure") (by decide))
  have e11 := varAlt_none _ [] (t ++ r) (d (chars! "enumerator") (by decide))
  simp only [varRe, e1, e2, e3, e4, e5, e6, e7, e8, e10, e11, firstSome2]
  cases varAlt (kwCI (chars! "class")) [(chars! "is"), (chars! "default")] (t ++ r) with
  | none => rfl
  | some x => rfl

/-- `\s+word` is there -/
theorem wsThen_true (kw w i rest : Str) (hw : isBlank w = true) (hwne : w ≠ []) (hi : lower i = kw)
    (c : Char) (r : Str) (hic : i = c :: r) (hc : isSpace c = false) : wsThen kw (w ++ (i ++ rest)) = true := by
  subst hic
  have hsk : skipWs (w ++ (c :: r ++ rest)) = c :: r ++ rest := by
    rw [skipWs_blank_append _ _ hw]; exact skipWs_of_head _ _ hc
  have hlt : (c :: r ++ rest).length < (w ++ (c :: r ++ rest)).length := by
    cases w with
    | nil => exact absurd rfl hwne
    | cons a as => simp; omega
  simp only [wsThen, hsk, hlt, decide_true, Bool.true_and, kwCI_of_lower kw (c :: r) rest hi, Option.isSome_some]

/-- a banned word after the keyword: the alternative does not match -/
theorem varAlt_banned (k : Str) (banned : List Str) (t r : Str) (ht : lower t = k)
    (hb : banned.any (fun w => wsThen w r) = true) : varAlt (kwCI k) banned (t ++ r) = none := by
  simp only [varAlt, kwCI_of_lower k t r ht, hb, if_true]

/-- a parenthesis after the keyword and blanks: the alternative matches, group 2 starts at the parenthesis -/
theorem varAlt_paren (k : Str) (banned : List Str) (t w rest : Str) (ht : lower t = k) (hw : isBlank w = true)
    (hk : ∀ b ∈ banned, ∃ c r, b = c :: r ∧ lowerChar '(' ≠ c) :
    varAlt (kwCI k) banned (t ++ (w ++ '(' :: rest)) = some (w ++ '(' :: rest, '(' :: rest) := by
  have hsk : skipWs (w ++ '(' :: rest) = '(' :: rest := by
    rw [skipWs_blank_append _ _ hw]; exact skipWs_of_head _ _ (by decide)
  have hb : banned.any (fun b => wsThen b (w ++ '(' :: rest)) = false := by
    rw [List.any_eq_false]
    intro b hbm
    obtain ⟨c, r, hbc, hne⟩ := hk b hbm
    subst hbc
    simp [wsThen, hsk, kwCI, hne]
  obtain ⟨l', hl⟩ := skipWsLast_blank w '(' rest hw (by decide) none
  simp [varAlt, kwCI_of_lower k t _ ht, hb, varTail, hl]

/-! ## `FortranType._initialize` -/

theorem isBlank_reverse (w : Str) (hw : isBlank w = true) : isBlank w.reverse = true := by
  simp only [isBlank, List.all_eq_true] at *
  intro c hc; exact hw c (by simpa using hc)

/-- blanks around an attribute written without blanks at its ends are stripped, nothing else -/
theorem strip_tight (l a r : Str) (hl : isBlank l = true) (ha : tight a = true) (hr : isBlank r = true) :
    strip (l ++ (a ++ r)) = a := by
  cases a with
  | nil => simp [tight] at ha
  | cons c m =>
    cases hrev : (c :: m).reverse with
    | nil => simp at hrev
    | cons d m' =>
      unfold tight at ha
      rw [hrev] at ha
      simp only [Bool.and_eq_true, Bool.not_eq_true'] at ha
      have h3 : lstrip (l ++ (c :: m ++ r)) = c :: m ++ r := by
        rw [lstrip_blank_append _ _ hl]; exact lstrip_of_head _ _ ha.1
      have h4 : rstrip (c :: m ++ r) = c :: m := by
        unfold rstrip
        rw [List.reverse_append, lstrip_blank_append _ _ (isBlank_reverse r hr), hrev, lstrip_of_head _ _ ha.2, ← hrev]
        simp
      simp only [strip, h3, h4]

theorem strip_tight_self (a : Str) (ha : tight a = true) : strip a = a := by
  simpa using strip_tight [] a [] rfl ha rfl

theorem blank_no_comma (w : Str) (hw : isBlank w = true) : ∀ c ∈ w, c ≠ ',' := by
  intro c hc h; subst h
  have := (List.all_eq_true.mp hw) ',' hc
  simp [isSpace] at this

theorem item_no_comma (it : Str × Str × Str) (h : attrItemOk it = true) : ∀ c ∈ it.1 ++ (it.2.1 ++ it.2.2), c ≠ ',' := by
  simp only [attrItemOk, Bool.and_eq_true, List.all_eq_true, bne_iff_ne] at h
  intro c hc
  simp only [List.mem_append] at hc
  rcases hc with hc | hc | hc
  · exact blank_no_comma _ h.1.1.1 c hc
  · exact (h.1.2 c hc).1
  · exact blank_no_comma _ h.2 c hc

theorem item_no_colon (it : Str × Str × Str) (h : attrItemOk it = true) : ∀ c ∈ it.1 ++ (it.2.1 ++ it.2.2), c ≠ ':' := by
  simp only [attrItemOk, Bool.and_eq_true, List.all_eq_true, bne_iff_ne] at h
  intro c hc
  simp only [List.mem_append] at hc
  rcases hc with hc | hc | hc
  · exact blank_ne_colon _ h.1.1.1 c hc
  · exact (h.1.2 c hc).2
  · exact blank_ne_colon _ h.2 c hc

theorem renderAttrs_no_colon (items : List (Str × Str × Str)) (h : ∀ it ∈ items, attrItemOk it = true) :
    ∀ c ∈ renderAttrs items, c ≠ ':' := by
  match items with
  | [] => intro c hc; simp [renderAttrs] at hc
  | [(l, a, r)] =>
    simpa [renderAttrs] using item_no_colon (l, a, r) (h _ (by simp))
  | (l, a, r) :: x :: xs =>
    have h1 := item_no_colon (l, a, r) (h _ (by simp))
    have h2 := renderAttrs_no_colon (x :: xs) (fun it hit => h it (by simp [hit]))
    intro c hc
    simp only [renderAttrs, List.mem_append, List.mem_cons] at hc
    rcases hc with hc | hc | hc | hc | hc
    · exact h1 c (by simp [hc])
    · exact h1 c (by simp [hc])
    · exact h1 c (by simp [hc])
    · subst hc; decide
    · exact h2 c hc

/-- strip-and-split gives back the attribute texts as written, in order -/
theorem splitStripped_render (items : List (Str × Str × Str)) (hne : items ≠ [])
    (h : ∀ it ∈ items, attrItemOk it = true) : splitStripped (renderAttrs items) = items.map (·.2.1) := by
  match items, hne with
  | [(l, a, r)], _ =>
    have hok := h (l, a, r) (by simp)
    have hnc := item_no_comma (l, a, r) hok
    simp only [attrItemOk, Bool.and_eq_true] at hok
    simp only [splitStripped, renderAttrs, splitComma_one _ hnc, List.map_cons, List.map_nil,
      strip_tight l a r hok.1.1.1 hok.1.1.2 hok.2]
  | (l, a, r) :: x :: xs, _ =>
    have hok := h (l, a, r) (by simp)
    have hnc := item_no_comma (l, a, r) hok
    simp only [attrItemOk, Bool.and_eq_true] at hok
    have ih := splitStripped_render (x :: xs) (by simp) (fun it hit => h it (by simp [hit]))
    simp only [splitStripped] at ih
    have happ : l ++ (a ++ (r ++ ',' :: renderAttrs (x :: xs))) = (l ++ (a ++ r)) ++ ',' :: renderAttrs (x :: xs) := by
      simp
    simp only [splitStripped, renderAttrs, happ, splitComma, splitComma_go_append _ _ [] hnc, List.map_cons,
      List.reverse_nil, List.nil_append, strip_tight l a r hok.1.1.1 hok.1.1.2 hok.2]
    simp only [splitComma] at ih
    rw [ih]
    rfl

/-! ### `EXTENDS_RE` -/

theorem spanBase_append (b rest : Str) (hb : ∀ c ∈ b, c ≠ '(' ∧ c ≠ ')' ∧ isSpace c = false)
    (hr : ∀ c r', rest = c :: r' → (c == '(' || c == ')' || isSpace c) = true) : spanBase (b ++ rest) = (b, rest) := by
  induction b with
  | nil =>
    cases rest with
    | nil => rfl
    | cons c r' => simp only [List.nil_append, spanBase, hr c r' rfl, if_true]
  | cons a as ih =>
    have ha := hb a (by simp)
    have := ih (fun d hd => hb d (by simp [hd]))
    simp [spanBase, ha.1, ha.2.1, ha.2.2, this]

/-- `extends ( base )` in any letter case with any blanks: the parent is the name as written -/
theorem extendsAt_spelled (e w1 w2 b w3 rest : Str) (he : lower e = (chars! "extends")) (h1 : isBlank w1 = true)
    (h2 : isBlank w2 = true) (hb : ∀ c ∈ b, c ≠ '(' ∧ c ≠ ')' ∧ isSpace c = false) (hbne : b ≠ [])
    (h3 : isBlank w3 = true) : extendsAt (e ++ (w1 ++ '(' :: (w2 ++ (b ++ (w3 ++ ')' :: rest))))) = some b := by
  have hk := kwCI_of_lower (chars! "extends") e (w1 ++ '(' :: (w2 ++ (b ++ (w3 ++ ')' :: rest)))) he
  have hs1 : skipWs (w1 ++ '(' :: (w2 ++ (b ++ (w3 ++ ')' :: rest)))) = '(' :: (w2 ++ (b ++ (w3 ++ ')' :: rest))) := by
    rw [skipWs_blank_append _ _ h1]; exact skipWs_of_head _ _ (by decide)
  obtain ⟨c, r, hbc⟩ : ∃ c r, b = c :: r := by
    cases b with
    | nil => exact absurd rfl hbne
    | cons c r => exact ⟨c, r, rfl⟩
  have hcs : isSpace c = false := (hb c (by simp [hbc])).2.2
  have hs2 : skipWs (w2 ++ (b ++ (w3 ++ ')' :: rest))) = b ++ (w3 ++ ')' :: rest) := by
    rw [skipWs_blank_append _ _ h2, hbc]; exact skipWs_of_head _ _ hcs
  have hr : ∀ c r', (w3 ++ ')' :: rest) = c :: r' → (c == '(' || c == ')' || isSpace c) = true := by
    intro c r' h
    cases w3 with
    | nil => simp at h; rw [← h.1]; decide
    | cons a as =>
      simp at h; rw [← h.1]
      simp [isBlank] at h3; simp [h3.1]
  have hsp := spanBase_append b (w3 ++ ')' :: rest) hb hr
  have hs3 : skipWs (w3 ++ ')' :: rest) = ')' :: rest := by
    rw [skipWs_blank_append _ _ h3]; exact skipWs_of_head _ _ (by decide)
  have hbe : b.isEmpty = false := by rw [hbc]; rfl
  simp only [extendsAt, hk, hs1, hs2, hsp, hbe, hs3]
  simp

theorem extendsSearch_spelled (e w1 w2 b w3 rest : Str) (he : lower e = (chars! "extends")) (h1 : isBlank w1 = true)
    (h2 : isBlank w2 = true) (hb : ∀ c ∈ b, c ≠ '(' ∧ c ≠ ')' ∧ isSpace c = false) (hbne : b ≠ [])
    (h3 : isBlank w3 = true) : extendsSearch (e ++ (w1 ++ '(' :: (w2 ++ (b ++ (w3 ++ ')' :: rest))))) = some b := by
  have h := extendsAt_spelled e w1 w2 b w3 rest he h1 h2 hb hbne h3
  cases e with
  | nil => simp [lower] at he
  | cons c cs =>
    simp only [List.cons_append] at h ⊢
    simp only [extendsSearch, h]

/-- `EXTENDS_RE` needs an opening parenthesis -/
theorem extendsAt_noparen (s : Str) (h : ∀ c ∈ s, c ≠ '(') : extendsAt s = none := by
  unfold extendsAt
  split
  · rfl
  · rename_i r hk
    obtain ⟨p, hp⟩ := kwCI_suffix _ _ _ hk
    obtain ⟨q, hq⟩ := skipWs_suffix r
    split
    · rename_i r1 hs
      have hm : '(' ∈ s := by
        rw [hp]; apply List.mem_append_right
        rw [hq]; apply List.mem_append_right
        rw [hs]; simp
      exact absurd rfl (h '(' hm)
    · rfl

theorem extendsSearch_noparen (s : Str) (h : ∀ c ∈ s, c ≠ '(') : extendsSearch s = none := by
  induction s with
  | nil => rfl
  | cons c cs ih =>
    simp only [extendsSearch, extendsAt_noparen (c :: cs) h]
    exact ih (fun d hd => h d (by simp [hd]))

theorem no_paren_of_lower (a k : Str) (hk : lower a = k) (hkp : ∀ c ∈ k, c ≠ '(') : ∀ c ∈ a, c ≠ '(' := by
  intro c hc h; subst h
  have : lowerChar '(' ∈ lower a := by simp only [lower, List.mem_map]; exact ⟨'(', hc, rfl⟩
  rw [hk] at this
  exact hkp _ this (by decide)

/-- `public` / `private` in any letter case sets the permission and nothing else -/
theorem attrStep_access (t : TypeInfo) (a : Str) (ha : tight a = true)
    (hk : lower a = (chars! "public") ∨ lower a = (chars! "private")) :
    attrStep t a = { t with permission := lower a } := by
  have hnp : ∀ c ∈ a, c ≠ '(' := by
    rcases hk with hk | hk
    · exact no_paren_of_lower a _ hk (by decide)
    · exact no_paren_of_lower a _ hk (by decide)
  simp only [attrStep, extendsSearch_noparen a hnp, strip_tight_self a ha]
  rcases hk with hk | hk <;> simp [hk]

/-- an attribute without a parenthesis that is neither PUBLIC, PRIVATE nor EXTERNAL is kept as written -/
theorem attrStep_plain (t : TypeInfo) (a : Str) (ha : tight a = true) (hnp : ∀ c ∈ a, c ≠ '(')
    (h1 : lower a ≠ (chars! "public")) (h2 : lower a ≠ (chars! "private")) (h3 : lower a ≠ (chars! "external")) :
    attrStep t a = { t with attribs := t.attribs ++ [a] } := by
  simp [attrStep, extendsSearch_noparen a hnp, strip_tight_self a ha, h1, h2, h3]

/-- `extends(base)` in any spelling records the parent as written and nothing else -/
theorem attrStep_extends (t : TypeInfo) (e w1 w2 b w3 : Str) (he : lower e = (chars! "extends")) (h1 : isBlank w1 = true)
    (h2 : isBlank w2 = true) (hb : ∀ c ∈ b, c ≠ '(' ∧ c ≠ ')' ∧ isSpace c = false) (hbne : b ≠ [])
    (h3 : isBlank w3 = true) :
    attrStep t (e ++ (w1 ++ '(' :: (w2 ++ (b ++ (w3 ++ [')']))))) = { t with base := some b } := by
  simp [attrStep, extendsSearch_spelled e w1 w2 b w3 [] he h1 h2 hb hbne h3]

/-! ## the statement as the cascade handles it -/

theorem typeStmt_plain (inh t w n w2 : Str) (ht : lower t = (chars! "type")) (hw : isBlank w = true) (hwne : w ≠ [])
    (hn : ∀ c ∈ n, isWord c = true) (hne : n ≠ []) (hw2 : isBlank w2 = true) :
    typeStmt inh (t ++ (w ++ (n ++ w2))) = some ⟨n, none, [], inh, []⟩ := by
  simp [typeStmt, typeRe_plain t w n w2 ht hw hwne hn hne hw2, typeInit]

theorem typeStmt_colons (inh t w0 w1 n w2 : Str) (ht : lower t = (chars! "type")) (h0 : isBlank w0 = true)
    (h1 : isBlank w1 = true) (hn : ∀ c ∈ n, isWord c = true) (hne : n ≠ []) (h2 : isBlank w2 = true) :
    typeStmt inh (t ++ (w0 ++ ':' :: ':' :: (w1 ++ (n ++ w2)))) = some ⟨n, none, [], inh, []⟩ := by
  simp [typeStmt, typeRe_colons t w0 w1 n w2 ht h0 h1 hn hne h2, typeInit]

theorem typeStmt_attrs (inh t w0 w1 n w2 : Str) (items : List (Str × Str × Str)) (ht : lower t = (chars! "type"))
    (h0 : isBlank w0 = true) (hi : items ≠ []) (hok : ∀ it ∈ items, attrItemOk it = true)
    (h1 : isBlank w1 = true) (hn : ∀ c ∈ n, isWord c = true) (hne : n ≠ []) (h2 : isBlank w2 = true) :
    typeStmt inh (t ++ (w0 ++ ',' :: (renderAttrs items ++ ':' :: ':' :: (w1 ++ (n ++ w2))))) =
      some ((items.map (·.2.1)).foldl attrStep ⟨n, none, [], inh, []⟩) := by
  have hr := typeRe_attrs t w0 (renderAttrs items) w1 n w2 ht h0 (renderAttrs_no_colon items hok) h1 hn hne h2
  simp [typeStmt, hr, typeInit, splitStripped_render items hi hok]

/-! ## guards and declarations seen by `VARIABLE_RE` -/

theorem lower_head (i k : Str) (kc : Char) (kr : Str) (hi : lower i = k) (hk : k = kc :: kr) (ha : isAlpha kc = true) :
    ∃ c r, i = c :: r ∧ isSpace c = false := by
  subst hk
  cases i with
  | nil => simp [lower] at hi
  | cons c r =>
    simp [lower] at hi
    exact ⟨c, r, rfl, word_not_space (lowerChar_alpha c kc ha hi.1)⟩

/-- `type is ..` is not a declaration, whatever follows -/
theorem varRe_guard_type (t w i rest : Str) (ht : lower t = (chars! "type")) (hw : isBlank w = true) (hwne : w ≠ [])
    (hi : lower i = (chars! "is")) : varRe (t ++ (w ++ (i ++ rest))) = none := by
  obtain ⟨c, r, hic, hc⟩ := lower_head i _ 'i' (chars! "s") hi rfl (by decide)
  have hb := wsThen_true (chars! "is") w i rest hw hwne hi c r hic hc
  rw [varRe_type t _ ht, varAlt_banned (chars! "type") _ t _ ht (by simp [hb])]

/-- `class is ..` is not a declaration, whatever follows -/
theorem varRe_guard_class_is (t w i rest : Str) (ht : lower t = (chars! "class")) (hw : isBlank w = true) (hwne : w ≠ [])
    (hi : lower i = (chars! "is")) : varRe (t ++ (w ++ (i ++ rest))) = none := by
  obtain ⟨c, r, hic, hc⟩ := lower_head i _ 'i' (chars! "s") hi rfl (by decide)
  have hb := wsThen_true (chars! "is") w i rest hw hwne hi c r hic hc
  rw [varRe_class t _ ht, varAlt_banned (chars! "class") _ t _ ht (by simp [hb])]

/-- `class default ..` is not a declaration, whatever follows -/
theorem varRe_guard_class_default (t w i rest : Str) (ht : lower t = (chars! "class")) (hw : isBlank w = true)
    (hwne : w ≠ []) (hi : lower i = (chars! "default")) : varRe (t ++ (w ++ (i ++ rest))) = none := by
  obtain ⟨c, r, hic, hc⟩ := lower_head i _ 'd' (chars! "efault") hi rfl (by decide)
  have hb := wsThen_true (chars! "default") w i rest hw hwne hi c r hic hc
  rw [varRe_class t _ ht, varAlt_banned (chars! "class") _ t _ ht (by simp [hb])]

/-- `type ( ..` is a declaration: group 1 = the keyword as written, group 2 = everything from the parenthesis -/
theorem varRe_decl_type (t w rest : Str) (ht : lower t = (chars! "type")) (hw : isBlank w = true) :
    varRe (t ++ (w ++ '(' :: rest)) = some (t, '(' :: rest) := by
  have h := varAlt_paren (chars! "type") [(chars! "is")] t w rest ht hw
    (by intro b hb; simp at hb; subst hb; exact ⟨'i', _, rfl, by decide⟩)
  rw [varRe_type t _ ht, h]
  simp

/-- `class ( ..` is a declaration -/
theorem varRe_decl_class (t w rest : Str) (ht : lower t = (chars! "class")) (hw : isBlank w = true) :
    varRe (t ++ (w ++ '(' :: rest)) = some (t, '(' :: rest) := by
  have h := varAlt_paren (chars! "class") [(chars! "is"), (chars! "default")] t w rest ht hw
    (by
      intro b hb; simp at hb
      rcases hb with hb | hb
      · subst hb; exact ⟨'i', _, rfl, by decide⟩
      · subst hb; exact ⟨'d', _, rfl, by decide⟩)
  rw [varRe_class t _ ht, h]
  simp

end Ford.TypeHead
