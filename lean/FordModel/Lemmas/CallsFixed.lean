/-
  C08, fixed-form source: a card with text in columns 73+ as the reader sees it after the
  converter (limit on), and the join of a continued card with its continuation card.
-/
import FordModel.CallsLine
import FordModel.FixedSpec
import FordModel.Lemmas.Fixed
import FordModel.Lemmas.ReaderLayout
import FordModel.Lemmas.ReaderQuote
import FordModel.Lemmas.ReaderDoc
namespace Ford.Calls
open Ford Ford.Fixed

theorem atoms_lits (p : Str) (h : Atoms p) : Lits p := by
  induction h with
  | nil => exact .nil
  | plain c rest hq _ _ ih => exact .plain c rest hq ih
  | quoted q body rest hq hb _ ih => exact .quoted q body rest hq hb ih

theorem dropNL_snoc (s : Str) : dropNL (s ++ ['\n']) = s := by simp [dropNL]

/-- the converted line of a card with text beyond column 72, limit on (code after C14's repair:
    the overflow stands behind `! `) -/
theorem freeCode_long (v : Variant) (hv : v.spacedExcess = true) (lab body : Str) (amp : Bool)
    (hl : body.length > 66) :
    dropNL (freeCode v true lab body amp) =
      ljust 72 (if amp then rstrip (lab ++ body.take 66) ++ [' ', '&'] else rstrip (lab ++ body.take 66))
        ++ '!' :: ' ' :: body.drop 66 := by
  have h : freeCode v true lab body amp =
      (ljust 72 (if amp then rstrip (lab ++ body.take 66) ++ [' ', '&'] else rstrip (lab ++ body.take 66))
        ++ '!' :: ' ' :: body.drop 66) ++ ['\n'] := by
    simp [freeCode, hl, excessMark, hv]
  rw [h, dropNL_snoc]

theorem lstrip_ind (ind : Str) (x : Char) (t : Str) (hi : isBlank ind = true) (hx : isSpace x = false) :
    lstrip (ind ++ x :: t) = x :: t := by
  rw [lstrip_blank_append _ _ hi]; simp [lstrip, hx]

/-- `strip` of an indented text padded with blanks -/
theorem strip_ind_ljust (n : Nat) (ind : Str) (x : Char) (t : Str) (hi : isBlank ind = true)
    (hx : isSpace x = false) (ht : rstrip (x :: t) = x :: t) :
    strip (ljust n (ind ++ x :: t)) = x :: t := by
  have e : ljust n (ind ++ x :: t) = ind ++ x :: (t ++ List.replicate (n - (ind ++ x :: t).length) ' ') := by
    simp [ljust]
  rw [e, strip, lstrip_ind _ _ _ hi hx]
  have e2 : x :: (t ++ List.replicate (n - (ind ++ x :: t).length) ' ') =
      (x :: t) ++ List.replicate (n - (ind ++ x :: t).length) ' ' := by simp
  rw [e2, rstrip_append_blanks, ht]

theorem firstStripped_ind (ind : Str) (x : Char) (t : Str) (hi : isBlank ind = true) (hx : isSpace x = false) :
    firstStripped (ind ++ x :: t) = some x := by
  simp [firstStripped, lstrip_ind _ _ _ hi hx]

theorem rstrip_amp (s : Str) : rstrip (s ++ [' ', '&']) = s ++ [' ', '&'] := by
  have : s ++ [' ', '&'] = (s ++ [' ']) ++ ['&'] := by simp
  rw [this, rstrip_of_last _ _ (by decide)]

/-- a card with text beyond column 72 as the reader sees it: no doc comment, and its code part is
    the visible part (label + columns 7-72, plus ` &` when continued) without the indentation -/
theorem long_card_code (v : Variant) (hv : v.spacedExcess = true) (lab body : Str) (amp : Bool)
    (ind : Str) (x : Char) (t : Str) (hl : body.length > 66)
    (hA : (if amp then rstrip (lab ++ body.take 66) ++ [' ', '&'] else rstrip (lab ++ body.take 66)) = ind ++ x :: t)
    (hi : isBlank ind = true) (hx : isSpace x = false) (hxh : x ≠ '#') (ht : rstrip (x :: t) = x :: t)
    (ha : Atoms (x :: t)) :
    NoDoc Marks.default false (dropNL (freeCode v true lab body amp)) ∧
      codeOf false (dropNL (freeCode v true lab body amp)) = x :: t := by
  rw [freeCode_long v hv lab body amp hl, hA]
  have hP : Atoms (ljust 72 (ind ++ x :: t)) := atoms_ljust _ _ (atoms_append _ _ (atoms_of_blank ind hi) ha)
  have hfirst : firstStripped (ljust 72 (ind ++ x :: t) ++ '!' :: ' ' :: body.drop 66) ≠ some '#' := by
    have e : ljust 72 (ind ++ x :: t) ++ '!' :: ' ' :: body.drop 66 =
        ind ++ x :: (t ++ List.replicate (72 - (ind ++ x :: t).length) ' ' ++ '!' :: ' ' :: body.drop 66) := by
      simp [ljust]
    rw [e, firstStripped_ind _ _ _ hi hx]
    simpa using hxh
  refine ⟨⟨hfirst, ?_, ?_, ?_, ?_⟩, ?_⟩
  · exact matchDocmark_comment _ _ _ hP (by simp [startsWith, Marks.default])
  · exact matchDocmark_comment _ _ _ hP (by simp [startsWith, Marks.default])
  · exact matchDocmark_comment _ _ _ hP (by simp [startsWith, Marks.default])
  · exact matchDocmark_comment _ _ _ hP (by simp [startsWith, Marks.default])
  · rw [codeOf_outside_comment _ _ hP, strip_ind_ljust 72 ind x t hi hx ht]

/-- a plain free-form line: no doc comment, the code part is the line -/
theorem plain_line_code (x : Char) (t : Str) (hx : isSpace x = false) (hxh : x ≠ '#')
    (ht : rstrip (x :: t) = x :: t) (ha : Atoms (x :: t)) :
    NoDoc Marks.default false (x :: t) ∧ codeOf false (x :: t) = x :: t := by
  refine ⟨⟨?_, matchDocmark_plain _ _ ha, matchDocmark_plain _ _ ha, matchDocmark_plain _ _ ha,
    matchDocmark_plain _ _ ha⟩, ?_⟩
  · simp [firstStripped, lstrip, hx, hxh]
  · rw [codeOf_outside_plain _ ha]
    simp [strip, lstrip, hx, ht]

theorem strip_padded_one (x : Char) (r0 : Str) (hx : isSpace x = false) (hr0 : rstrip (x :: r0) = x :: r0) :
    strip (' ' :: x :: (r0 ++ [' '])) = x :: r0 := by
  have e : x :: (r0 ++ [' ']) = (x :: r0) ++ [' '] := by simp
  have hs : isSpace ' ' = true := by decide
  simp only [strip, lstrip, hs, hx, if_true, Bool.false_eq_true, if_false]
  rw [e, rstrip_snoc_space _ _ hs, hr0]

/-- two physical lines `x r0 &` / `y b0` (whatever spelling gives these code parts) are read as the
    one statement line `x r0 y b0` -/
theorem two_line_join (l0 l1 : Str) (x y : Char) (r0 b0 : Str) (rest : List Str)
    (hn0 : NoDoc Marks.default false l0) (hc0 : codeOf false l0 = x :: (r0 ++ [' ', '&']))
    (hn1 : NoDoc Marks.default false l1) (hc1 : codeOf false l1 = y :: b0)
    (hx : isSpace x = false) (hxa : x ≠ '&') (hr0 : rstrip (x :: r0) = x :: r0) (ha0 : Atoms (x :: r0))
    (hy : isSpace y = false) (hya : y ≠ '&') (hlast : (y :: b0).getLast? ≠ some '&')
    (hJ : itemsOf (x :: r0 ++ ' ' :: y :: b0) ≠ []) :
    readFrom Marks.default (qs [] false) (l0 :: l1 :: rest) =
      (readFrom Marks.default (qs [] false) rest).map (fun more => itemsOf (x :: r0 ++ ' ' :: y :: b0) ++ more) := by
  have hu : unterminated (' ' :: x :: (r0 ++ [' '])) = false := by
    apply unterminated_lits
    have : ' ' :: x :: (r0 ++ [' ']) = [' '] ++ ((x :: r0) ++ [' ']) := by simp
    rw [this]
    exact atoms_lits _ (atoms_append _ _ (.plain ' ' [] (by decide) (by decide) .nil)
      (atoms_append _ _ ha0 (.plain ' ' [] (by decide) (by decide) .nil)))
  have hb : isBlank (y :: b0) = false := by simp [isBlank, hy]
  have hjoin : Mid.join (' ' :: x :: (r0 ++ [' '])) (.cont false (y :: b0)) = x :: r0 ++ ' ' :: y :: b0 := by
    simp [Mid.join, strip_padded_one x r0 hx hr0]
  have h := continuation_join Marks.default l0 x (r0 ++ [' ']) [] [] l1 false (y :: b0) rest hn0
    (by rw [hc0]; simp) hxa (by simp [Rendered])
    (by simpa [hu] using hn1) (by simpa [hu, lastCode] using hc1) hb hlast
    (fun _ => ⟨y, b0, rfl, hya⟩) (by simpa [hjoin] using hJ)
  have e : l0 :: l1 :: rest = l0 :: [] ++ l1 :: rest := rfl
  rw [e, h, List.foldl_nil, hjoin]
  cases readFrom Marks.default (qs [] false) rest <;> rfl

end Ford.Calls
