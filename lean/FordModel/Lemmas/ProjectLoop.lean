import FordModel.ProjectLoop
namespace Ford

/-! ### the per-file loop -/

theorem loadFrom_append (st : ProjState) (a b : List (Str × Except Err FileTree)) :
    loadFrom true st (a ++ b) = loadFrom true (loadFrom true st a) b := by
  induction a generalizing st with
  | nil => rfl
  | cons x xs ih =>
    obtain ⟨n, r⟩ := x
    cases r <;> simp [loadFrom, ih]

/-- the registration part of the state does not depend on the warnings collected so far -/
theorem loadFrom_reg_congr (s1 s2 : ProjState) (h : s1.reg = s2.reg) (fs : List (Str × Except Err FileTree)) :
    (loadFrom true s1 fs).reg = (loadFrom true s2 fs).reg := by
  induction fs generalizing s1 s2 with
  | nil => exact h
  | cons x xs ih =>
    obtain ⟨m, r⟩ := x
    cases r with
    | ok t => simp only [loadFrom]; exact ih _ _ (by simp [h])
    | error e' => simp only [loadFrom, if_true]; exact ih _ _ (by simp [h])

/-- a rejected file changes nothing but the list of warnings -/
theorem loadFrom_reg_error (st : ProjState) (n : Str) (e : Err) (rest : List (Str × Except Err FileTree)) :
    (loadFrom true st ((n, .error e) :: rest)).reg
      = (loadFrom true st rest).reg := by
  simp only [loadFrom, if_true]
  exact loadFrom_reg_congr { st with warned := st.warned ++ [(n, e)] } st rfl rest

theorem loadFrom_reg_filter (st : ProjState) (fs : List (Str × Except Err FileTree)) :
    (loadFrom true st fs).reg = (loadFrom true st (fs.filter isOkFile)).reg := by
  induction fs generalizing st with
  | nil => rfl
  | cons x xs ih =>
    obtain ⟨m, r⟩ := x
    cases r with
    | ok t => simp only [loadFrom, List.filter, isOkFile]; exact ih _
    | error e' =>
      simp only [loadFrom, List.filter, isOkFile, if_true]
      rw [ih]
      exact loadFrom_reg_congr { st with warned := st.warned ++ [(m, e')] } st rfl _

theorem loadFrom_warned (st : ProjState) (fs : List (Str × Except Err FileTree)) :
    (loadFrom true st fs).warned
      = st.warned ++ fs.filterMap rejection := by
  induction fs generalizing st with
  | nil => simp [loadFrom]
  | cons x xs ih =>
    obtain ⟨m, r⟩ := x
    cases r with
    | ok t =>
      have : rejection (m, (Except.ok t : Except Err FileTree)) = none := rfl
      simp [loadFrom, ih, this]
    | error e' =>
      have : rejection (m, (Except.error e' : Except Err FileTree)) = some (m, e') := rfl
      simp [loadFrom, ih, this]

theorem loadFrom_files (st : ProjState) (fs : List (Str × Except Err FileTree)) :
    (loadFrom true st fs).reg.files.map (·.1)
      = st.reg.files.map (·.1) ++ (fs.filter isOkFile).map (·.1) := by
  induction fs generalizing st with
  | nil => simp [loadFrom]
  | cons x xs ih =>
    obtain ⟨m, r⟩ := x
    cases r with
    | ok t => simp [loadFrom, ih, register, isOkFile, List.filter]
    | error e' => simp [loadFrom, ih, isOkFile, List.filter]

theorem loadFrom_aborted (st : ProjState) (fs : List (Str × Except Err FileTree)) :
    (loadFrom true st fs).aborted = st.aborted := by
  induction fs generalizing st with
  | nil => rfl
  | cons x xs ih =>
    obtain ⟨m, r⟩ := x
    cases r with
    | ok t => simp [loadFrom, ih]
    | error e' => simp [loadFrom, ih]

theorem filter_insertAt_error (k : Nat) (n : Str) (e : Err) (good : List (Str × Except Err FileTree)) :
    (insertFileAt k (n, .error e) good).filter isOkFile = good.filter isOkFile := by
  simp only [insertFileAt, List.filter_append, List.filter, isOkFile]
  rw [← List.filter_append, List.take_append_drop]

end Ford
