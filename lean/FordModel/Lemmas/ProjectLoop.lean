import FordModel.ProjectLoop
namespace Ford

/-! ### the per-file loop -/

theorem loadFrom_append (st : ProjState) (a b : List (Str × Except Err FileTree)) :
    loadFrom true st (a ++ b) = loadFrom true (loadFrom true st a) b := by
  induction a generalizing st with
  | nil => rfl
  | cons x xs ih =>
    obtain ⟨n, r⟩ := x
    cases r <;> simp [loadFrom, ih]

/-- the registration part of the state does not depend on the warnings collected so far -/
theorem loadFrom_reg_congr (s1 s2 : ProjState) (h : s1.reg = s2.reg) (fs : List (Str × Except Err FileTree)) :
    (loadFrom true s1 fs).reg = (loadFrom true s2 fs).reg := by
  induction fs generalizing s1 s2 with
  | nil => exact h
  | cons x xs ih =>
    obtain ⟨m, r⟩ := x
    cases r with
    | ok t => simp only [loadFrom]; exact ih _ _ (by simp [h])
    | error e' => simp only [loadFrom, if_true]; exact ih _ _ (by simp [h])

/-- a rejected file changes nothing but the list of warnings -/
theorem loadFrom_reg_error (st : ProjState) (n : Str) (e : Err) (rest : List (Str × Except Err FileTree)) :
    (loadFrom true st ((n, .error e) :: rest)).reg
      = (loadFrom true st rest).reg := by
  simp only [loadFrom, if_true]
  exact loadFrom_reg_congr { st with warned := st.warned ++ [(n, e)] } st rfl rest

theorem loadFrom_reg_filter (st : ProjState) (fs : List (Str × Except Err FileTree)) :
    (loadFrom true st fs).reg = (loadFrom true st (fs.filter isOkFile)).reg := by
  induction fs generalizing st with
  | nil => rfl
  | cons x xs ih =>
    obtain ⟨m, r⟩ := x
    cases r with
    | ok t => simp only [loadFrom, List.filter, isOkFile]; exact ih _
    | error e' =>
      simp only [loadFrom, List.filter, isOkFile, if_true]
      rw [ih]
      exact loadFrom_reg_congr { st with warned := st.warned ++ [(m, e')] } st rfl _

theorem loadFrom_warned (st : ProjState) (fs : List (Str × Except Err FileTree)) :
    (loadFrom true st fs).warned
      = st.warned ++ fs.filterMap rejection := by
  induction fs generalizing st with
  | nil => simp [loadFrom]
  | cons x xs ih =>
    obtain ⟨m, r⟩ := x
    cases r with
    | ok t =>
      have : rejection (m, (Except.ok t : Except Err FileTree)) = none := rfl
      simp [loadFrom, ih, this]
    | error e' =>
      have : rejection (m, (Except.error e' : Except Err FileTree)) = some (m, e') := rfl
      simp [loadFrom, ih, this]

theorem loadFrom_files (st : ProjState) (fs : List (Str × Except Err FileTree)) :
    (loadFrom true st fs).reg.files.map (·.1)
      = st.reg.files.map (·.1) ++ (fs.filter isOkFile).map (·.1) := by
  induction fs generalizing st with
  | nil => simp [loadFrom]
  | cons x xs ih =>
    obtain ⟨m, r⟩ := x
    cases r with
    | ok t => simp [loadFrom, ih, register, isOkFile, List.filter]
    | error e' => simp [loadFrom, ih, isOkFile, List.filter]

theorem loadFrom_aborted (st : ProjState) (fs : List (Str × Except Err FileTree)) :
    (loadFrom true st fs).aborted = st.aborted := by
  induction fs generalizing st with
  | nil => rfl
  | cons x xs ih =>
    obtain ⟨m, r⟩ := x
    cases r with
    | ok t => simp [loadFrom, ih]
    | error e' => simp [loadFrom, ih]

theorem filter_insertAt_error (k : Nat) (n : Str) (e : Err) (good : List (Str × Except Err FileTree)) :
    (insertFileAt k (n, .error e) good).filter isOkFile = good.filter isOkFile := by
  simp only [insertFileAt, List.filter_append, List.filter, isOkFile]
  rw [← List.filter_append, List.take_append_drop]

/-! ### the process-wide name table -/

theorem namesFrom_true (fs : List (List NameKey × Except Err FileTree)) :
    namesFrom true fs = (fs.map (·.1)).flatten := by
  induction fs with
  | nil => rfl
  | cons x xs ih =>
    obtain ⟨r, o⟩ := x
    cases o <;> simp [namesFrom, ih]

/-- a file whose constructor requested nothing leaves the name table as if it were absent,
    wherever it is read and whatever became of it -/
theorem namesFrom_insert_nil (k : Nat) (bad : List NameKey × Except Err FileTree) (hb : bad.1 = [])
    (good : List (List NameKey × Except Err FileTree)) :
    namesFrom true (insertFileAt k bad good) = namesFrom true good := by
  rw [namesFrom_true, namesFrom_true]
  simp only [insertFileAt, List.map_append, List.map_cons, List.flatten_append, List.flatten_cons, hb,
             List.nil_append]
  rw [← List.flatten_append, ← List.map_append, List.take_append_drop]

theorem reservedWith_nil (evs : List (CK × CK × Str)) : reservedWith [] evs = [] := by
  simp [reservedWith]

/-! ### the reader on a truncated file -/

/-- cutting the file after any physical line gives the reader a prefix of the logical lines -/
theorem readFrom_prefix (m : Marks) (s : RS) (pre suf : List Str) (all : List Str)
    (h : readFrom m s (pre ++ suf) = .ok all) :
    ∃ xs ys, readFrom m s pre = .ok xs ∧ all = xs ++ ys := by
  induction pre generalizing s all with
  | nil => exact ⟨[], all, rfl, rfl⟩
  | cons l ls ih =>
    simp only [List.cons_append, readFrom] at h ⊢
    cases hf : feed m s l with
    | error e => simp [hf] at h
    | ok r =>
      obtain ⟨s', items⟩ := r
      simp only [hf] at h ⊢
      cases hr : readFrom m s' (ls ++ suf) with
      | error e => simp [hr] at h
      | ok more =>
        simp only [hr] at h
        obtain ⟨xs, ys, h1, h2⟩ := ih s' more hr
        refine ⟨items ++ xs, ys, by simp [h1], ?_⟩
        cases h
        simp [h2]

end Ford
