/-
  Lemmas about the source-file model (FordModel/SourceOf.lean): the first entry of `hierarchy`
  is the entity the parent chain ends in.
-/
import FordModel.SourceOf
namespace Ford.SourceOf
open Ford Ford.Names

theorem climb_nil_root (ps : Parents) (fuel e : Nat) (h : climb ps fuel e = []) : rootOf ps fuel e = e := by
  cases fuel with
  | zero => rfl
  | succ n =>
    unfold climb at h
    unfold rootOf
    cases hp : parentOf ps e with
    | none => rfl
    | some p => rw [hp] at h; cases h

theorem climb_last_root (ps : Parents) (fuel : Nat) : ∀ (e r : Nat),
    (climb ps fuel e).getLast? = some r → rootOf ps fuel e = r := by
  induction fuel with
  | zero => intro e r h; simp [climb] at h
  | succ n ih =>
    intro e r h
    unfold climb at h
    unfold rootOf
    cases hp : parentOf ps e with
    | none => rw [hp] at h; simp at h
    | some p =>
      rw [hp] at h
      simp only at h ⊢
      cases hc : climb ps n p with
      | nil =>
        rw [hc] at h
        simp at h
        rw [climb_nil_root ps n p hc, h]
      | cons a t =>
        rw [hc] at h
        apply ih p r
        rw [hc]
        simpa [List.getLast?_cons_cons] using h

theorem sourceFile_eq_root (ps : Parents) (fuel e : Nat) : sourceFile ps fuel e = rootOf ps fuel e := by
  unfold sourceFile hierarchy
  cases hc : climb ps fuel e with
  | nil => simp [climb_nil_root ps fuel e hc]
  | cons a t =>
    have hl : ((a :: t).reverse).head? = (a :: t).getLast? := List.head?_reverse
    cases hr : (a :: t).reverse with
    | nil => simp at hr
    | cons f rest =>
      rw [hr] at hl
      simp only [List.head?_cons] at hl
      simp only
      exact (climb_last_root ps fuel e f (by rw [hc]; exact hl.symm)).symm

end Ford.SourceOf
