/-
  Lemmas for the `type( )` / `class( )` / `procedure( )` branch of FordModel/TypeSpec.lean.
-/
import FordModel.Lemmas.TypeSpecChar
namespace Ford.TypeSpec

/-- the keywords whose parenthesised part is a prototype -/
inductive ProtoT where
  | type | class | procedure
  deriving DecidableEq, Repr

def ProtoT.kw : ProtoT → Str
  | .type => (chars! "type") | .class => (chars! "class") | .procedure => (chars! "procedure")

theorem protoT_alpha (ty : ProtoT) : ∀ c ∈ ty.kw, isAlpha c = true := by cases ty <;> decide
theorem protoT_isProto (ty : ProtoT) : isProtoType ty.kw = true := by cases ty <;> decide

theorem varTypeRest_proto (ty : ProtoT) (t r : Str) (ht : lower t = ty.kw) :
    varTypeRest (t ++ r) = some r := by
  have hd : ∀ kw, diverge kw ty.kw = true → kwCI kw (t ++ r) = none :=
    fun kw h => kwCI_diverge kw t r (by rw [ht]; exact h)
  have hp := kwCI_of_lower _ t r ht
  cases ty <;> simp only [ProtoT.kw] at hd hp
  · simp only [varTypeRest, firstSome, kw2CI, hp, hd (chars! "integer") (by decide), hd (chars! "real") (by decide),
      hd (chars! "double") (by decide), hd (chars! "character") (by decide), hd (chars! "complex") (by decide),
      hd (chars! "logical") (by decide)]
  · simp only [varTypeRest, firstSome, kw2CI, hp, hd (chars! "integer") (by decide), hd (chars! "real") (by decide),
      hd (chars! "double") (by decide), hd (chars! "character") (by decide), hd (chars! "complex") (by decide),
      hd (chars! "logical") (by decide), hd (chars! "type") (by decide)]
  · simp only [varTypeRest, firstSome, kw2CI, hp, hd (chars! "integer") (by decide), hd (chars! "real") (by decide),
      hd (chars! "double") (by decide), hd (chars! "character") (by decide), hd (chars! "complex") (by decide),
      hd (chars! "logical") (by decide), hd (chars! "type") (by decide), hd (chars! "class") (by decide)]

theorem normVartype_proto (ty : ProtoT) (t : Str) (ht : lower t = ty.kw) : normVartype t = ty.kw := by
  unfold normVartype
  simp only [ht]
  cases ty <;> decide

/-- `PROTO_RE.match(name)` for a plain name -/
theorem protoMatch_name (n : Str) (hn : ∀ c ∈ n, isWord c = true) (hne : n ≠ []) :
    protoMatch n = some (n, []) := by
  have ht : n.takeWhile isWord = n := takeWhile_all _ hn
  have hstar : ∀ r, n ≠ '*' :: r := by
    intro r e
    have := hn '*' (by rw [e]; simp)
    revert this; decide
  unfold protoMatch
  cases n with
  | nil => exact absurd rfl hne
  | cons c cs =>
    have hc : c ≠ '*' := by intro e; subst e; exact hstar cs rfl
    split
    · rename_i r heq; simp at heq; exact absurd heq.1 hc
    · simp [ht, skipWs]

theorem finish_proto_paren (ty : ProtoT) (w2 n w3 rest : Str) (h2 : isBlank w2 = true) (h3 : isBlank w3 = true)
    (hn : ∀ c ∈ n, isWord c = true) (hne : n ≠ []) :
    finish ty.kw ('(' :: ((w2 ++ n ++ w3) ++ [')'])) rest
      = .ok { vartype := ty.kw, rest, proto := some (n, []) } := by
  have hX : ∀ c ∈ w2 ++ n ++ w3, c ≠ ')' := by
    intro c hc
    simp only [List.mem_append] at hc
    rcases hc with (hc | hc) | hc
    · exact isParen_close (blank_paren h2 c hc)
    · exact isParen_close (word_paren (hn c hc))
    · exact isParen_close (blank_paren h3 c hc)
  have hXne : (w2 ++ n ++ w3).isEmpty = false := by
    cases n with
    | nil => exact absurd rfl hne
    | cons c cs => simp
  have hns : ∀ c ∈ n, isSpace c = false := fun c hc => word_space (hn c hc)
  have hcond : (ty.kw == (chars! "type") || ty.kw == (chars! "class") || ty.kw == (chars! "character")) = true ∨
      ¬ (('(' :: ((w2 ++ n ++ w3) ++ [')'])).length < 3) := by
    right
    cases n with
    | nil => exact absurd rfl hne
    | cons c cs => simp; omega
  have hlen : ¬ (('(' :: ((w2 ++ n ++ w3) ++ [')'])).length < 3) := by
    cases n with
    | nil => exact absurd rfl hne
    | cons c cs => simp; omega
  unfold finish
  simp only [hlen, decide_false, Bool.false_and, vkSearch_paren _ hX, hXne, protoT_isProto]
  simp [removeWs_strip, removeWs_append, removeWs_blank _ h2, removeWs_blank _ h3, removeWs_nospace n hns,
    protoMatch_name n hn hne]

theorem parseType_front_proto (ty : ProtoT) (t after core tail : Str) (ht : lower t = ty.kw)
    (hnl : (t ++ after).contains '\n' = false)
    (hnorm : starNorm (strip after) = core ++ rstrip tail)
    (hgp : getParens (core ++ rstrip tail) = .ok core) :
    parseType (t ++ after) = finish ty.kw core (strip tail) := by
  unfold parseType
  simp only [hnl, Bool.false_eq_true, if_false, varTypeRest_proto ty t _ ht]
  have htake : (t ++ after).take ((t ++ after).length - after.length) = t := by simp
  simp only [htake, normVartype_proto ty t ht, hnorm, hgp]
  congr 1
  simp [strip_rstrip]

/-- `type ( name ) tail`, `class ( name ) tail`, `procedure ( name ) tail` -/
theorem parse_proto (ty : ProtoT) (t w1 w2 n w3 tail : Str) (ht : lower t = ty.kw)
    (h1 : isPad w1 = true) (h2 : isPad w2 = true) (h3 : isPad w3 = true)
    (hn : ∀ c ∈ n, isWord c = true) (hne : n ≠ [])
    (htail : EndsScan tail) (htn : tail.all (fun c => c != '\n') = true) :
    parseType (t ++ (w1 ++ (('(' :: (w2 ++ n ++ w3) ++ [')']) ++ tail)))
      = .ok { vartype := ty.kw, rest := strip tail, proto := some (n, []) } := by
  have hta := kw_alpha t _ ht (protoT_alpha ty)
  have hT := allNotNl t (fun c hc => nospace_ne_nl (alpha_space (hta c hc)))
  have hN := allNotNl n (fun c hc => nospace_ne_nl (word_space (hn c hc)))
  have hcont : (t ++ (w1 ++ (('(' :: (w2 ++ n ++ w3) ++ [')']) ++ tail))).contains '\n' = false := by
    apply contains_nl_false'
    simp [List.all_append, hT, hN, isPad_nl h1, isPad_nl h2, isPad_nl h3, htn]
  have hin : ∀ c ∈ w2 ++ n ++ w3, isParen c = false := by
    intro c hc
    simp only [List.mem_append] at hc
    rcases hc with (hc | hc) | hc
    · exact blank_paren (isPad_blank h2) c hc
    · exact word_paren (hn c hc)
    · exact blank_paren (isPad_blank h3) c hc
  have hgp : getParens (('(' :: (w2 ++ n ++ w3) ++ [')']) ++ rstrip tail) = .ok ('(' :: (w2 ++ n ++ w3) ++ [')']) := by
    have := getParens_paren (w2 ++ n ++ w3) (rstrip tail) hin (endsScan_rstrip _ htail)
    simpa using this
  have hnorm : starNorm (strip (w1 ++ (('(' :: (w2 ++ n ++ w3) ++ [')']) ++ tail)))
      = ('(' :: (w2 ++ n ++ w3) ++ [')']) ++ rstrip tail := by
    rw [strip_core w1 '(' _ ')' tail (isPad_blank h1) (by decide) (by decide)]; rfl
  rw [parseType_front_proto ty t _ _ tail ht hcont hnorm hgp]
  exact finish_proto_paren ty w2 n w3 _ (isPad_blank h2) (isPad_blank h3) hn hne

end Ford.TypeSpec
