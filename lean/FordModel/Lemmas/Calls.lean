import FordModel.CallsTable
import FordModel.Spec.Calls
import FordModel.Lemmas.CallsRegex
namespace Ford.Calls
open Ford Ford.CallsSpec

/-! ### strip_paren on balanced text -/

theorem strip_above (t : PTree) (h : t.WF) :
    ∀ (ret lv : Int) (rest cur : Str) (acc : List Str), ret < lv →
      stripParenAux ret (t.render ++ rest) lv cur acc = stripParenAux ret rest lv cur acc := by
  induction t with
  | nil => intros; simp [PTree.render]
  | chr c r ih =>
    intro ret lv rest cur acc hlt
    obtain ⟨h1, h2, h3⟩ := h
    have hne : ¬ lv = ret := by omega
    simp [PTree.render, stripParenAux, h1, h2, hne]
    exact ih h3 ret lv rest cur acc hlt
  | grp g r ihg ihr =>
    intro ret lv rest cur acc hlt
    obtain ⟨hg, hr⟩ := h
    have e1 : ¬ lv = ret := by omega
    have e2 : ¬ lv + 1 = ret := by omega
    simp [PTree.render, stripParenAux, e1, e2, List.append_assoc]
    rw [ihg hg ret (lv + 1) _ cur acc (by omega)]
    simp [stripParenAux, e2, e1]
    exact ihr hr ret lv rest cur acc hlt

theorem strip_at (t : PTree) (h : t.WF) :
    ∀ (ret : Int) (rest cur : Str) (acc : List Str),
      stripParenAux ret (t.render ++ rest) ret cur acc
        = stripParenAux ret rest ret (t.flat.reverse ++ cur) acc := by
  induction t with
  | nil => intros; simp [PTree.render, PTree.flat]
  | chr c r ih =>
    intro ret rest cur acc
    obtain ⟨h1, h2, h3⟩ := h
    simp [PTree.render, PTree.flat, stripParenAux, h1, h2]
    rw [ih h3]
  | grp g r _ ihr =>
    intro ret rest cur acc
    obtain ⟨hg, hr⟩ := h
    simp [PTree.render, PTree.flat, stripParenAux, List.append_assoc]
    rw [strip_above g hg ret (ret + 1) _ _ acc (by omega)]
    have e : ¬ ret + 1 = ret := by omega
    simp [stripParenAux, e]
    rw [ihr hr]

theorem strip_below (t : PTree) (h : t.WF) :
    ∀ (k : Nat) (ret lv : Int) (rest : Str) (acc : List Str), ret = lv + 1 + k →
      stripParenAux ret (t.render ++ rest) lv [] acc
        = stripParenAux ret rest lv [] ((t.pieces k).reverse ++ acc) := by
  induction t with
  | nil => intros; simp [PTree.render, PTree.pieces]
  | chr c r ih =>
    intro k ret lv rest acc hk
    obtain ⟨h1, h2, h3⟩ := h
    have e : ¬ lv = ret := by omega
    simp [PTree.render, PTree.pieces, stripParenAux, h1, h2, e]
    exact ih h3 k ret lv rest acc hk
  | grp g r ihg ihr =>
    intro k ret lv rest acc hk
    obtain ⟨hg, hr⟩ := h
    cases k with
    | zero =>
      have e1 : ¬ lv = ret := by omega
      have e2 : lv + 1 = ret := by omega
      simp [PTree.render, PTree.pieces, stripParenAux, e1, e2, List.append_assoc]
      subst e2
      rw [strip_at g hg]
      simp [stripParenAux]
      rw [ihr hr 0 (lv + 1) lv rest _ (by omega)]
    | succ k =>
      have e1 : ¬ lv = ret := by omega
      have e2 : ¬ lv + 1 = ret := by omega
      simp [PTree.render, PTree.pieces, stripParenAux, e1, e2, List.append_assoc]
      rw [ihg hg k ret (lv + 1) _ acc (by omega)]
      simp [stripParenAux, e1, e2]
      rw [ihr hr (k + 1) ret lv rest _ (by omega)]

theorem stripParen_render (t : PTree) (h : t.WF) (d : Nat) :
    stripParen t.render d = t.piecesAt d := by
  cases d with
  | zero =>
    have := strip_at t h 0 [] [] []
    simp at this
    simp [stripParen, PTree.piecesAt, this, stripParenAux]
  | succ k =>
    have := strip_below t h k ((k + 1 : Nat) : Int) 0 [] [] (by omega)
    simp at this
    simp [stripParen, PTree.piecesAt, this, stripParenAux]

end Ford.Calls

namespace Ford.Calls
open Ford

/-! ### the filter / de-duplication loop -/

theorem addChains_lasts_nodup (intr : List Str) (asc : Assocs) (gs : List Str) (calls : List Chain) :
    (calls.map lastOf).Nodup → ((addChains intr asc gs calls).map lastOf).Nodup := by
  fun_induction addChains intr asc gs calls <;> simp_all [List.nodup_append]
  all_goals grind

theorem addChains_no_intr (intr : List Str) (asc : Assocs) (gs : List Str) (calls : List Chain) :
    (∀ c ∈ calls, lastOf c ∉ intr) → ∀ c ∈ addChains intr asc gs calls, lastOf c ∉ intr := by
  fun_induction addChains intr asc gs calls <;> simp_all
  all_goals grind

theorem addChains_prefix (intr : List Str) (asc : Assocs) (gs : List Str) (calls : List Chain) :
    calls <+: addChains intr asc gs calls := by
  fun_induction addChains intr asc gs calls
  · simp
  · assumption
  · rename_i ih
    exact List.IsPrefix.trans (List.prefix_append _ _) ih

theorem mem_addChains_lasts (intr : List Str) (asc : Assocs) (gs : List Str) (calls : List Chain) (l : Str) :
    l ∈ (addChains intr asc gs calls).map lastOf ↔
      l ∈ calls.map lastOf ∨ (l ∉ intr ∧ ∃ g ∈ gs, lastOf (substHead asc (chainOf g)) = l) := by
  fun_induction addChains intr asc gs calls <;> simp_all
  all_goals grind

end Ford.Calls

namespace Ford.Calls
open Ford

/-! ### the statement loop -/

theorem step_calls (gs : Rx.Guards) (casc : List (String × String)) (intr : List Str) (s : St) (raw : Str) :
    (step gs casc intr s raw).calls = s.calls ∨
      ∃ asc line, (step gs casc intr s raw).calls = addProcedureCalls intr asc line s.calls := by
  unfold step
  dsimp only
  repeat' split
  all_goals first
    | exact Or.inl rfl
    | exact Or.inr ⟨_, _, rfl⟩

/-- the invariant of the recorded list -/
def CallsInv (intr : List Str) (cs : List Chain) : Prop :=
  (cs.map lastOf).Nodup ∧ ∀ c ∈ cs, lastOf c ∉ intr

theorem step_inv (gs : Rx.Guards) (casc : List (String × String)) (intr : List Str) (s : St) (raw : Str)
    (h : CallsInv intr s.calls) : CallsInv intr (step gs casc intr s raw).calls := by
  rcases step_calls gs casc intr s raw with e | ⟨asc, line, e⟩
  · rw [e]; exact h
  · rw [e]
    exact ⟨addChains_lasts_nodup _ _ _ _ h.1, addChains_no_intr _ _ _ _ h.2⟩

theorem foldl_step_inv (gs : Rx.Guards) (casc : List (String × String)) (intr : List Str) (lines : List Str) :
    ∀ s : St, CallsInv intr s.calls → CallsInv intr (lines.foldl (step gs casc intr) s).calls := by
  induction lines with
  | nil => intro s h; exact h
  | cons l ls ih => intro s h; exact ih _ (step_inv gs casc intr s l h)

theorem runUnit_inv (gs : Rx.Guards) (casc : List (String × String)) (intr : List Str) (lines : List Str) :
    CallsInv intr (runUnit gs casc intr lines).calls :=
  foldl_step_inv gs casc intr lines {} ⟨by simp, by simp⟩

theorem step_prefix (gs : Rx.Guards) (casc : List (String × String)) (intr : List Str) (s : St) (raw : Str) :
    s.calls <+: (step gs casc intr s raw).calls := by
  rcases step_calls gs casc intr s raw with e | ⟨asc, line, e⟩
  · rw [e]; exact List.prefix_refl _
  · rw [e]; exact addChains_prefix _ _ _ _

/-! ### the cascade -/

theorem branchAct_ne_scan (name : String) (line : Str) (bl : Int)
    (h : name ≠ "CALL_RE|SUBCALL_RE") : branchAct name line bl ≠ .scan := by
  unfold branchAct
  repeat' split
  all_goals simp_all

theorem gate_not_scan (gs : Rx.Guards) (casc : List (String × String)) (name guard : String) (line : Str) (bl : Int)
    (hp : precedesCall casc name guard = true) (ht : branchTakes gs name guard line bl = true) :
    gate gs casc line bl ≠ .scan := by
  induction casc with
  | nil => simp [precedesCall] at hp
  | cons e rest ih =>
    obtain ⟨n, g⟩ := e
    simp only [precedesCall] at hp
    by_cases hc : (n == "CALL_RE|SUBCALL_RE") = true
    · simp [hc] at hp
    · simp only [hc] at hp
      have hne : n ≠ "CALL_RE|SUBCALL_RE" := by simpa using hc
      simp only [gate]
      by_cases hm : (n == name && g == guard) = true
      · have : n = name ∧ g = guard := by simpa using hm
        obtain ⟨rfl, rfl⟩ := this
        simp [ht]
        exact branchAct_ne_scan _ _ _ hne
      · simp only [hm] at hp
        by_cases htk : branchTakes gs n g line bl = true
        · simp [htk]; exact branchAct_ne_scan _ _ _ hne
        · simp [htk]; exact ih (by simpa using hp)

/-- a branch other than the CALL and ASSOCIATE branches neither scans nor opens an association -/
theorem branchAct_quiet (name : String) (line : Str) (bl : Int)
    (h1 : name ≠ "CALL_RE|SUBCALL_RE") (h2 : name ≠ "ASSOCIATE_RE") :
    branchAct name line bl ≠ .scan ∧ ∀ items, branchAct name line bl ≠ .assoc items := by
  unfold branchAct
  refine ⟨?_, ?_⟩
  · repeat' split
    all_goals simp_all
  · intro items
    repeat' split
    all_goals simp_all

/-- the statement is decided by a branch listed before all of `stops` when such a branch takes it -/
theorem gate_of_precedes (gs : Rx.Guards) (stops : List String) (casc : List (String × String))
    (name guard : String) (line : Str) (bl : Int)
    (hp : precedesAll stops casc name guard = true) (ht : branchTakes gs name guard line bl = true) :
    ∃ n, n ∉ stops ∧ gate gs casc line bl = branchAct n line bl := by
  induction casc with
  | nil => simp [precedesAll] at hp
  | cons e rest ih =>
    obtain ⟨n, g⟩ := e
    have hp' : n ∉ stops ∧ ((n = name ∧ g = guard) ∨ precedesAll stops rest name guard = true) := by
      simpa [precedesAll] using hp
    obtain ⟨hne, hor⟩ := hp'
    simp only [gate]
    by_cases htk : branchTakes gs n g line bl = true
    · simp only [htk, if_true]
      exact ⟨n, hne, rfl⟩
    · simp only [htk]
      rcases hor with ⟨rfl, rfl⟩ | hr
      · exact absurd ht htk
      · exact ih hr

/-- only the ASSOCIATE branch opens an association, and only on a line `ASSOCIATE_RE` matches -/
theorem gate_assoc (gs : Rx.Guards) (casc : List (String × String)) (line : Str) (bl : Int) (items : Str)
    (h : gate gs casc line bl = .assoc items) : associateRe line = some items := by
  induction casc with
  | nil => simp [gate] at h
  | cons e rest ih =>
    obtain ⟨n, g⟩ := e
    simp only [gate] at h
    by_cases htk : branchTakes gs n g line bl = true
    · simp only [htk, if_true] at h
      unfold branchAct at h
      repeat' split at h
      all_goals simp_all
    · simp only [htk] at h
      exact ih (by simpa using h)

/-- a statement whose branch neither scans nor opens an association leaves the recorded list alone -/
theorem step_calls_eq (gs : Rx.Guards) (casc : List (String × String)) (intr : List Str) (s : St) (raw : Str)
    (h1 : gate gs casc (maskQuotes raw) s.bl ≠ .scan)
    (h2 : ∀ items, gate gs casc (maskQuotes raw) s.bl ≠ .assoc items) :
    (step gs casc intr s raw).calls = s.calls := by
  unfold step
  dsimp only
  split
  · rfl
  split
  · rfl
  cases hg : gate gs casc (maskQuotes raw) s.bl with
  | scan => exact absurd hg h1
  | assoc items => exact absurd hg (h2 items)
  | endAssoc => cases s.assocs <;> rfl
  | _ => rfl

/-! ### the generated guards -/

theorem lower_eq_two {s : Str} {a b : Char} (h : lower s = [a, b]) :
    ∃ x y, s = [x, y] ∧ lowerChar x = a ∧ lowerChar y = b := by
  rcases s with _ | ⟨x, _ | ⟨y, _ | ⟨z, s⟩⟩⟩ <;> simp [lower] at h
  exact ⟨x, y, rfl, h.1, h.2⟩

theorem lower_eq_six {s : Str} {a b c d e f : Char} (h : lower s = [a, b, c, d, e, f]) :
    ∃ x1 x2 x3 x4 x5 x6, s = [x1, x2, x3, x4, x5, x6] ∧ lowerChar x1 = a ∧ lowerChar x2 = b ∧
      lowerChar x3 = c ∧ lowerChar x4 = d ∧ lowerChar x5 = e ∧ lowerChar x6 = f := by
  rcases s with _ | ⟨x1, _ | ⟨x2, _ | ⟨x3, _ | ⟨x4, _ | ⟨x5, _ | ⟨x6, _ | ⟨z, s⟩⟩⟩⟩⟩⟩⟩ <;> simp [lower] at h
  exact ⟨x1, x2, x3, x4, x5, x6, rfl, h.1, h.2.1, h.2.2.1, h.2.2.2.1, h.2.2.2.2.1, h.2.2.2.2.2⟩

/-- the shape of a FORMAT statement: label, blanks, `format` (any case), blanks, `(` items `)`,
    anything -/
theorem formatGuard_takes (lab ws1 kw ws2 items rest : Str)
    (hlab : lab ≠ []) (hd : ∀ c ∈ lab, isDigit c = true)
    (h1 : ws1 ≠ []) (hw1 : ∀ c ∈ ws1, isSpace c = true)
    (hkw : lower kw = ['f', 'o', 'r', 'm', 'a', 't'])
    (h2 : ws2 ≠ []) (hw2 : ∀ c ∈ ws2, isSpace c = true)
    (hit : ∀ c ∈ items, c ≠ '\n') :
    Rx.guardTest Generated.C08.guards "FORMAT_RE"
      (lab ++ (ws1 ++ (kw ++ (ws2 ++ '(' :: (items ++ ')' :: rest))))) = true := by
  obtain ⟨k1, k2, k3, k4, k5, k6, rfl, e1, e2, e3, e4, e5, e6⟩ := lower_eq_six hkw
  have hdig : ∀ c ∈ lab, Rx.setHas true false [.range '0' '9'] c = true := by
    intro c hc
    have := hd c hc
    simp [isDigit] at this
    simp [Rx.setHas, Rx.Item.has, this]
  simp only [Rx.guardTest, Generated.C08.guards, Rx.Pattern.test]
  simp (config := { decide := true }) only [if_true, if_false]
  refine Rx.matchAt_of_mem (t := rest) _ ?_
  simp only [Generated.C08.rxFORMAT_RE]
  refine Rx.mem_run_seq (Rx.mem_run_bol rfl) ?_
  refine Rx.mem_seq_plus_set lab hlab hdig ?_
  refine Rx.mem_seq_plus_set ws1 h1 (fun c hc => Rx.setHas_space (hw1 c hc)) ?_
  refine Rx.mem_seq_set (Rx.setHas_chr_ci e1) ?_
  refine Rx.mem_seq_set (Rx.setHas_chr_ci e2) ?_
  refine Rx.mem_seq_set (Rx.setHas_chr_ci e3) ?_
  refine Rx.mem_seq_set (Rx.setHas_chr_ci e4) ?_
  refine Rx.mem_seq_set (Rx.setHas_chr_ci e5) ?_
  refine Rx.mem_seq_set (Rx.setHas_chr_ci e6) ?_
  -- `\s+` (as in the source) or `\s*` (candidate repair fixes/C08-format-without-blank.diff)
  first
    | refine Rx.mem_seq_plus_set ws2 h2 (fun c hc => Rx.setHas_space (hw2 c hc)) ?_
    | refine Rx.mem_seq_star_set ws2 (fun c hc => Rx.setHas_space (hw2 c hc)) ?_
  refine Rx.mem_seq_set Rx.setHas_chr ?_
  refine Rx.mem_seq_star_set items (fun c hc => Rx.setHas_notnl (hit c hc)) ?_
  exact Rx.mem_run_set Rx.setHas_chr

/-- the shape of a computed GO TO **anywhere** in a statement: anything, `go`, blanks, `to`,
    blanks, `(` labels `)`, anything -/
theorem arithGotoGuard_takes (pre go ws1 to_ ws2 labels rest : Str)
    (hgo : lower go = ['g', 'o']) (hw1 : ∀ c ∈ ws1, isSpace c = true)
    (hto : lower to_ = ['t', 'o']) (hw2 : ∀ c ∈ ws2, isSpace c = true)
    (hne : labels ≠ []) (hl : ∀ c ∈ labels, isDigit c = true ∨ c = ',' ∨ isSpace c = true) :
    Rx.guardTest Generated.C08.guards "ARITH_GOTO_RE"
      (pre ++ (go ++ (ws1 ++ (to_ ++ (ws2 ++ '(' :: (labels ++ ')' :: rest)))))) = true := by
  obtain ⟨g, o, rfl, e1, e2⟩ := lower_eq_two hgo
  obtain ⟨t, o', rfl, e3, e4⟩ := lower_eq_two hto
  have hlab : ∀ c ∈ labels, Rx.setHas true false [.range '0' '9', .chr ',', .space] c = true := by
    intro c hc
    rcases hl c hc with h | h | h
    · simp [isDigit] at h
      simp [Rx.setHas, Rx.Item.has, h]
    · simp [Rx.setHas, Rx.Item.has, h]
    · simp [Rx.setHas, Rx.Item.has, h]
  simp only [Rx.guardTest, Generated.C08.guards, Rx.Pattern.test]
  simp (config := { decide := true }) only [if_true, if_false]
  refine Rx.searchFrom_append _ pre _ (Rx.matchAt_of_mem (t := rest) _ ?_)
  simp only [Generated.C08.rxARITH_GOTO_RE]
  refine Rx.mem_seq_set (Rx.setHas_chr_ci e1) ?_
  refine Rx.mem_seq_set (Rx.setHas_chr_ci e2) ?_
  refine Rx.mem_seq_star_set ws1 (fun c hc => Rx.setHas_space (hw1 c hc)) ?_
  refine Rx.mem_seq_set (Rx.setHas_chr_ci e3) ?_
  refine Rx.mem_seq_set (Rx.setHas_chr_ci e4) ?_
  refine Rx.mem_seq_star_set ws2 (fun c hc => Rx.setHas_space (hw2 c hc)) ?_
  refine Rx.mem_seq_set Rx.setHas_chr ?_
  refine Rx.mem_seq_plus_set labels hne hlab ?_
  exact Rx.mem_run_set Rx.setHas_chr

end Ford.Calls

namespace Ford.Calls
open Ford

/-! ### masking of character literals -/

theorem litScan_body (q : Char) (post : Str) (hp : post.head? ≠ some q) :
    ∀ (body : Str) (pos : Nat) (fb : Option Nat), (∀ c ∈ body, c ≠ q) →
      litScan q (body ++ q :: post) pos fb = some (pos + body.length + 1) := by
  intro body
  induction body with
  | nil =>
    intro pos fb _
    cases post with
    | nil => simp [litScan]
    | cons d rest =>
      have : d ≠ q := by simpa using hp
      simp [litScan, this]
  | cons b bs ih =>
    intro pos fb hb
    have hbq : b ≠ q := hb b (by simp)
    have hrest : ∀ c ∈ bs, c ≠ q := fun c hc => hb c (by simp [hc])
    have := ih (pos + 1) fb hrest
    cases hbs : bs ++ q :: post with
    | nil => simp at hbs
    | cons d rest =>
      rw [hbs] at this
      simp only [List.cons_append, hbs, litScan, beq_iff_eq, hbq, if_false, this, List.length_cons]
      congr 1
      omega

theorem maskAux_prefix (pre s : Str) (n : Nat) (h : ∀ c ∈ pre, isQuote c = false) :
    maskAux (pre ++ s) 0 n = pre ++ maskAux s 0 n := by
  induction pre with
  | nil => rfl
  | cons c cs ih =>
    have hc : isQuote c = false := h c (by simp)
    simp [maskAux, hc]
    exact ih (fun d hd => h d (by simp [hd]))

theorem maskAux_skip (xs s : Str) (k n : Nat) :
    maskAux (xs ++ s) (xs.length + k) n = maskAux s k n := by
  induction xs with
  | nil => simp
  | cons c cs ih =>
    have : (c :: cs).length + k = (cs.length + k) + 1 := by simp; omega
    rw [List.cons_append, this, maskAux]
    exact ih

/-- explicit form of the masking of the first literal of a line -/
theorem maskAux_literal (q : Char) (hq : isQuote q = true) (body post : Str) (n : Nat)
    (hb : ∀ c ∈ body, c ≠ q) (hp : post.head? ≠ some q) :
    maskAux (q :: (body ++ q :: post)) 0 n =
      (let repl := (toString n).toList
       let x := repl ++ '"' :: post
       let e := (litScan '"' x 0 none).getD (repl.length + 1)
       '"' :: x.take e ++ maskAux post (e - (repl.length + 1)) (n + 1)) := by
  have h1 := litScan_body q post hp body 0 none hb
  simp only [Nat.zero_add] at h1
  simp only [maskAux, hq, h1, if_true]
  have hd : (body ++ q :: post).drop (body.length + 1) = post := by
    rw [show body ++ q :: post = (body ++ [q]) ++ post by simp]
    rw [List.drop_left' (by simp)]
  simp only [hd]
  have hs := maskAux_skip (body ++ [q]) post
    ((litScan '"' ((toString n).toList ++ '"' :: post) 0 none).getD ((toString n).toList.length + 1)
      - ((toString n).toList.length + 1)) (n + 1)
  simp only [List.length_append, List.length_singleton, List.append_assoc, List.singleton_append] at hs
  rw [hs]

end Ford.Calls
