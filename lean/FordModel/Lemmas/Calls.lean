import FordModel.CallsTable
import FordModel.Spec.Calls
namespace Ford.Calls
open Ford Ford.CallsSpec

/-! ### strip_paren on balanced text -/

theorem strip_above (t : PTree) (h : t.WF) :
    ∀ (ret lv : Int) (rest cur : Str) (acc : List Str), ret < lv →
      stripParenAux ret (t.render ++ rest) lv cur acc = stripParenAux ret rest lv cur acc := by
  induction t with
  | nil => intros; simp [PTree.render]
  | chr c r ih =>
    intro ret lv rest cur acc hlt
    obtain ⟨h1, h2, h3⟩ := h
    have hne : ¬ lv = ret := by omega
    simp [PTree.render, stripParenAux, h1, h2, hne]
    exact ih h3 ret lv rest cur acc hlt
  | grp g r ihg ihr =>
    intro ret lv rest cur acc hlt
    obtain ⟨hg, hr⟩ := h
    have e1 : ¬ lv = ret := by omega
    have e2 : ¬ lv + 1 = ret := by omega
    simp [PTree.render, stripParenAux, e1, e2, List.append_assoc]
    rw [ihg hg ret (lv + 1) _ cur acc (by omega)]
    simp [stripParenAux, e2, e1]
    exact ihr hr ret lv rest cur acc hlt

theorem strip_at (t : PTree) (h : t.WF) :
    ∀ (ret : Int) (rest cur : Str) (acc : List Str),
      stripParenAux ret (t.render ++ rest) ret cur acc
        = stripParenAux ret rest ret (t.flat.reverse ++ cur) acc := by
  induction t with
  | nil => intros; simp [PTree.render, PTree.flat]
  | chr c r ih =>
    intro ret rest cur acc
    obtain ⟨h1, h2, h3⟩ := h
    simp [PTree.render, PTree.flat, stripParenAux, h1, h2]
    rw [ih h3]
  | grp g r _ ihr =>
    intro ret rest cur acc
    obtain ⟨hg, hr⟩ := h
    simp [PTree.render, PTree.flat, stripParenAux, List.append_assoc]
    rw [strip_above g hg ret (ret + 1) _ _ acc (by omega)]
    have e : ¬ ret + 1 = ret := by omega
    simp [stripParenAux, e]
    rw [ihr hr]

theorem strip_below (t : PTree) (h : t.WF) :
    ∀ (k : Nat) (ret lv : Int) (rest : Str) (acc : List Str), ret = lv + 1 + k →
      stripParenAux ret (t.render ++ rest) lv [] acc
        = stripParenAux ret rest lv [] ((t.pieces k).reverse ++ acc) := by
  induction t with
  | nil => intros; simp [PTree.render, PTree.pieces]
  | chr c r ih =>
    intro k ret lv rest acc hk
    obtain ⟨h1, h2, h3⟩ := h
    have e : ¬ lv = ret := by omega
    simp [PTree.render, PTree.pieces, stripParenAux, h1, h2, e]
    exact ih h3 k ret lv rest acc hk
  | grp g r ihg ihr =>
    intro k ret lv rest acc hk
    obtain ⟨hg, hr⟩ := h
    cases k with
    | zero =>
      have e1 : ¬ lv = ret := by omega
      have e2 : lv + 1 = ret := by omega
      simp [PTree.render, PTree.pieces, stripParenAux, e1, e2, List.append_assoc]
      subst e2
      rw [strip_at g hg]
      simp [stripParenAux]
      rw [ihr hr 0 (lv + 1) lv rest _ (by omega)]
    | succ k =>
      have e1 : ¬ lv = ret := by omega
      have e2 : ¬ lv + 1 = ret := by omega
      simp [PTree.render, PTree.pieces, stripParenAux, e1, e2, List.append_assoc]
      rw [ihg hg k ret (lv + 1) _ acc (by omega)]
      simp [stripParenAux, e1, e2]
      rw [ihr hr (k + 1) ret lv rest _ (by omega)]

theorem stripParen_render (t : PTree) (h : t.WF) (d : Nat) :
    stripParen t.render d = t.piecesAt d := by
  cases d with
  | zero =>
    have := strip_at t h 0 [] [] []
    simp at this
    simp [stripParen, PTree.piecesAt, this, stripParenAux]
  | succ k =>
    have := strip_below t h k ((k + 1 : Nat) : Int) 0 [] [] (by omega)
    simp at this
    simp [stripParen, PTree.piecesAt, this, stripParenAux]

end Ford.Calls

namespace Ford.Calls
open Ford

/-! ### the filter / de-duplication loop -/

theorem addChains_lasts_nodup (intr : List Str) (asc : Assocs) (gs : List Str) (calls : List Chain) :
    (calls.map lastOf).Nodup → ((addChains intr asc gs calls).map lastOf).Nodup := by
  fun_induction addChains intr asc gs calls <;> simp_all [List.nodup_append]
  all_goals grind

theorem addChains_no_intr (intr : List Str) (asc : Assocs) (gs : List Str) (calls : List Chain) :
    (∀ c ∈ calls, lastOf c ∉ intr) → ∀ c ∈ addChains intr asc gs calls, lastOf c ∉ intr := by
  fun_induction addChains intr asc gs calls <;> simp_all
  all_goals grind

theorem addChains_prefix (intr : List Str) (asc : Assocs) (gs : List Str) (calls : List Chain) :
    calls <+: addChains intr asc gs calls := by
  fun_induction addChains intr asc gs calls
  · simp
  · assumption
  · rename_i ih
    exact List.IsPrefix.trans (List.prefix_append _ _) ih

theorem mem_addChains_lasts (intr : List Str) (asc : Assocs) (gs : List Str) (calls : List Chain) (l : Str) :
    l ∈ (addChains intr asc gs calls).map lastOf ↔
      l ∈ calls.map lastOf ∨ (l ∉ intr ∧ ∃ g ∈ gs, lastOf (substHead asc (chainOf g)) = l) := by
  fun_induction addChains intr asc gs calls <;> simp_all
  all_goals grind

end Ford.Calls

namespace Ford.Calls
open Ford

/-! ### the statement loop -/

theorem step_calls (casc : List (String × String)) (intr : List Str) (s : St) (raw : Str) :
    (step casc intr s raw).calls = s.calls ∨
      ∃ asc line, (step casc intr s raw).calls = addProcedureCalls intr asc line s.calls := by
  unfold step
  dsimp only
  repeat' split
  all_goals first
    | exact Or.inl rfl
    | exact Or.inr ⟨_, _, rfl⟩

/-- the invariant of the recorded list -/
def CallsInv (intr : List Str) (cs : List Chain) : Prop :=
  (cs.map lastOf).Nodup ∧ ∀ c ∈ cs, lastOf c ∉ intr

theorem step_inv (casc : List (String × String)) (intr : List Str) (s : St) (raw : Str)
    (h : CallsInv intr s.calls) : CallsInv intr (step casc intr s raw).calls := by
  rcases step_calls casc intr s raw with e | ⟨asc, line, e⟩
  · rw [e]; exact h
  · rw [e]
    exact ⟨addChains_lasts_nodup _ _ _ _ h.1, addChains_no_intr _ _ _ _ h.2⟩

theorem foldl_step_inv (casc : List (String × String)) (intr : List Str) (lines : List Str) :
    ∀ s : St, CallsInv intr s.calls → CallsInv intr (lines.foldl (step casc intr) s).calls := by
  induction lines with
  | nil => intro s h; exact h
  | cons l ls ih => intro s h; exact ih _ (step_inv casc intr s l h)

theorem runUnit_inv (casc : List (String × String)) (intr : List Str) (lines : List Str) :
    CallsInv intr (runUnit casc intr lines).calls :=
  foldl_step_inv casc intr lines {} ⟨by simp, by simp⟩

theorem step_prefix (casc : List (String × String)) (intr : List Str) (s : St) (raw : Str) :
    s.calls <+: (step casc intr s raw).calls := by
  rcases step_calls casc intr s raw with e | ⟨asc, line, e⟩
  · rw [e]; exact List.prefix_refl _
  · rw [e]; exact addChains_prefix _ _ _ _

/-! ### the cascade -/

theorem branchAct_ne_scan (name : String) (line : Str) (bl : Int)
    (h : name ≠ "CALL_RE|SUBCALL_RE") : branchAct name line bl ≠ .scan := by
  unfold branchAct
  repeat' split
  all_goals simp_all

theorem gate_not_scan (casc : List (String × String)) (name guard : String) (line : Str) (bl : Int)
    (hp : precedesCall casc name guard = true) (ht : branchTakes name guard line bl = true) :
    gate casc line bl ≠ .scan := by
  induction casc with
  | nil => simp [precedesCall] at hp
  | cons e rest ih =>
    obtain ⟨n, g⟩ := e
    simp only [precedesCall] at hp
    by_cases hc : (n == "CALL_RE|SUBCALL_RE") = true
    · simp [hc] at hp
    · simp only [hc] at hp
      have hne : n ≠ "CALL_RE|SUBCALL_RE" := by simpa using hc
      simp only [gate]
      by_cases hm : (n == name && g == guard) = true
      · have : n = name ∧ g = guard := by simpa using hm
        obtain ⟨rfl, rfl⟩ := this
        simp [ht]
        exact branchAct_ne_scan _ _ _ hne
      · simp only [hm] at hp
        by_cases htk : branchTakes n g line bl = true
        · simp [htk]; exact branchAct_ne_scan _ _ _ hne
        · simp [htk]; exact ih (by simpa using hp)

end Ford.Calls

namespace Ford.Calls
open Ford

/-! ### masking of character literals -/

theorem litScan_body (q : Char) (post : Str) (hp : post.head? ≠ some q) :
    ∀ (body : Str) (pos : Nat) (fb : Option Nat), (∀ c ∈ body, c ≠ q) →
      litScan q (body ++ q :: post) pos fb = some (pos + body.length + 1) := by
  intro body
  induction body with
  | nil =>
    intro pos fb _
    cases post with
    | nil => simp [litScan]
    | cons d rest =>
      have : d ≠ q := by simpa using hp
      simp [litScan, this]
  | cons b bs ih =>
    intro pos fb hb
    have hbq : b ≠ q := hb b (by simp)
    have hrest : ∀ c ∈ bs, c ≠ q := fun c hc => hb c (by simp [hc])
    have := ih (pos + 1) fb hrest
    cases hbs : bs ++ q :: post with
    | nil => simp at hbs
    | cons d rest =>
      rw [hbs] at this
      simp only [List.cons_append, hbs, litScan, beq_iff_eq, hbq, if_false, this, List.length_cons]
      congr 1
      omega

theorem maskAux_prefix (pre s : Str) (n : Nat) (h : ∀ c ∈ pre, isQuote c = false) :
    maskAux (pre ++ s) 0 n = pre ++ maskAux s 0 n := by
  induction pre with
  | nil => rfl
  | cons c cs ih =>
    have hc : isQuote c = false := h c (by simp)
    simp [maskAux, hc]
    exact ih (fun d hd => h d (by simp [hd]))

theorem maskAux_skip (xs s : Str) (k n : Nat) :
    maskAux (xs ++ s) (xs.length + k) n = maskAux s k n := by
  induction xs with
  | nil => simp
  | cons c cs ih =>
    have : (c :: cs).length + k = (cs.length + k) + 1 := by simp; omega
    rw [List.cons_append, this, maskAux]
    exact ih

/-- explicit form of the masking of the first literal of a line -/
theorem maskAux_literal (q : Char) (hq : isQuote q = true) (body post : Str) (n : Nat)
    (hb : ∀ c ∈ body, c ≠ q) (hp : post.head? ≠ some q) :
    maskAux (q :: (body ++ q :: post)) 0 n =
      (let repl := (toString n).toList
       let x := repl ++ '"' :: post
       let e := (litScan '"' x 0 none).getD (repl.length + 1)
       '"' :: x.take e ++ maskAux post (e - (repl.length + 1)) (n + 1)) := by
  have h1 := litScan_body q post hp body 0 none hb
  simp only [Nat.zero_add] at h1
  simp only [maskAux, hq, h1, if_true]
  have hd : (body ++ q :: post).drop (body.length + 1) = post := by
    rw [show body ++ q :: post = (body ++ [q]) ++ post by simp]
    rw [List.drop_left' (by simp)]
  simp only [hd]
  have hs := maskAux_skip (body ++ [q]) post
    ((litScan '"' ((toString n).toList ++ '"' :: post) 0 none).getD ((toString n).toList.length + 1)
      - ((toString n).toList.length + 1)) (n + 1)
  simp only [List.length_append, List.length_singleton, List.append_assoc, List.singleton_append] at hs
  rw [hs]

end Ford.Calls
