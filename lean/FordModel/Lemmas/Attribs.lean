/-
  Lemmas for the attribute bookkeeping model (FordModel/Attribs.lean): what `process_attribs` computes,
  entity by entity; an attribute statement naming one identifier; plain attributes.
-/
import FordModel.Attribs
import FordModel.Lemmas.Show
import FordModel.Lemmas.DeclList
namespace Ford.Attribs
open Ford Ford.Show Ford.TypeSpec

/-! ## lists of statements -/

theorem named_append (cfg : Cfg) (a b : List Stmt) (n : Str) :
    named cfg (a ++ b) n = named cfg a n ++ named cfg b n := by simp [named]

theorem named_cons (cfg : Cfg) (s : Stmt) (b : List Stmt) (n : Str) :
    named cfg (s :: b) n = contrib cfg n s ++ named cfg b n := by simp [named]

theorem declared_append (inh : Str) (a b : List Stmt) :
    declared inh (a ++ b) = declared inh a ++ declared inh b := by simp [declared]

theorem declared_cons (inh : Str) (s : Stmt) (b : List Stmt) :
    declared inh (s :: b) = declVars inh s ++ declared inh b := by simp [declared]

theorem params_append (cfg : Cfg) (a b : List Stmt) : params cfg (a ++ b) = params cfg a ++ params cfg b := by
  simp [params]

theorem params_cons (cfg : Cfg) (s : Stmt) (b : List Stmt) : params cfg (s :: b) = paramPairs cfg s ++ params cfg b := by
  simp [params]

theorem paramsOk_append (cfg : Cfg) (a b : List Stmt) : paramsOk cfg (a ++ b) = (paramsOk cfg a && paramsOk cfg b) := by
  simp [paramsOk, List.all_append]

theorem paramsOk_cons (cfg : Cfg) (s : Stmt) (b : List Stmt) :
    paramsOk cfg (s :: b) = ((paramItems s).all (itemOk cfg) && paramsOk cfg b) := by simp [paramsOk]

/-! ## `process_attribs`, entity by entity -/

theorem applyAll_append (cfg : Cfg) (p : List (Str × Str)) (v : Var) (a b : List Str) :
    applyAll cfg p v (a ++ b) = applyAll cfg p (applyAll cfg p v a) b := by simp [applyAll, List.foldl_append]

theorem applyAll_nil (cfg : Cfg) (p : List (Str × Str)) (v : Var) : applyAll cfg p v [] = v := rfl

theorem processVars_blockData (cfg : Cfg) (p : List (Str × Str)) (vs : List Var) (d : Dict) :
    processVars cfg true p vs d = vs.map fun v => applyAll cfg p v (d (lower v.name)) := by
  induction vs generalizing d with
  | nil => rfl
  | cons v vs ih => simp [processVars, ih]

/-- with pairwise different (lower-cased) names the deletion of a used key is invisible: every variable takes
    exactly the entries filed under its own name -/
theorem processVars_distinct (cfg : Cfg) (p : List (Str × Str)) (vs : List Var) (d : Dict)
    (h : (vs.map fun v => lower v.name).Pairwise (· ≠ ·)) :
    processVars cfg false p vs d = vs.map fun v => applyAll cfg p v (d (lower v.name)) := by
  induction vs generalizing d with
  | nil => rfl
  | cons v vs ih =>
    simp only [List.map_cons, List.pairwise_cons] at h
    simp only [processVars, Bool.false_eq_true, if_false, List.map_cons]
    rw [ih _ h.2]
    congr 1
    apply List.map_congr_left
    intro w hw
    have hne : lower w.name ≠ lower v.name := by
      intro e
      exact h.1 (lower w.name) (List.mem_map.2 ⟨w, hw, rfl⟩) e.symm
    simp [Dict.erase, hne]

theorem run_eq (cfg : Cfg) (bd : Bool) (inh : Str) (stmts : List Stmt) (hok : paramsOk cfg stmts = true)
    (hd : bd = true ∨ ((declared inh stmts).map fun v => lower v.name).Pairwise (· ≠ ·)) :
    run cfg bd inh stmts = .ok (dropExternal cfg bd ((declared inh stmts).map fun v =>
      applyAll cfg (params cfg stmts) v (named cfg stmts (lower v.name)))) := by
  simp only [run, hok, if_true]
  cases bd with
  | true => rw [processVars_blockData]
  | false =>
    rcases hd with hd | hd
    · cases hd
    · rw [processVars_distinct _ _ _ _ hd]

/-! ## characters of identifiers -/

theorem isWord_lowerChar_ascii : ∀ m, m < 128 → isWord (Char.ofNat m) = true →
    isWord (lowerChar (Char.ofNat m)) = true := by decide

theorem isWord_lowerChar (c : Char) (h : isWord c = true) : isWord (lowerChar c) = true := by
  by_cases hc : c.toNat < 128
  · have := isWord_lowerChar_ascii c.toNat hc
    rw [Char.ofNat_toNat] at this
    exact this h
  · rw [lowerChar_big c hc]; exact h

theorem nameOk_lower (n : Str) (h : NameOk n) : NameOk (lower n) := by
  intro c hc
  unfold lower at hc
  obtain ⟨x, hx, rfl⟩ := List.mem_map.1 hc
  exact isWord_lowerChar x (h x hx)

theorem word_not_space {c : Char} (h : isWord c = true) : isSpace c = false := by
  cases hs : isSpace c with
  | false => rfl
  | true =>
    simp only [isSpace, Bool.or_eq_true, beq_iff_eq] at hs
    rcases hs with ((((rfl | rfl) | rfl) | rfl) | rfl) | rfl <;> simp [isWord, isAlpha, isDigit] at h

theorem lstrip_name (n : Str) (h : NameOk n) : lstrip n = n := by
  cases n with
  | nil => rfl
  | cons c cs => simp [lstrip, word_not_space (h c (by simp))]

theorem strip_name (n : Str) (h : NameOk n) : strip n = n := by
  have hr : NameOk n.reverse := fun c hc => h c (by simpa using hc)
  simp [strip, rstrip, lstrip_name n h, lstrip_name n.reverse hr]

theorem parenIdx_name (n : Str) (h : NameOk n) : parenIdx n = none := by
  induction n with
  | nil => rfl
  | cons c cs ih =>
    have hc : (c == '(') = false := by
      have := word_paren (h c (by simp))
      simp only [isParen, Bool.or_eq_false_iff] at this
      exact this.1.1.1
    simp [parenIdx, hc, ih (fun d hd => h d (by simp [hd]))]

theorem splitDims_name (n : Str) (h : NameOk n) : splitDims n = (n, []) := by
  simp [splitDims, parenIdx_name n h]

theorem parenSplit_name (n : Str) (h : NameOk n) : parenSplit ',' n = [n] := by
  have := parenSplit_names n [] h (by simp)
  simpa [joinStr] using this

theorem varKey_name (cfg : Cfg) (n : Str) (h : NameOk n) : varKey cfg n = n := by
  unfold varKey
  split
  · exact strip_name n h
  · rfl

/-! ## plain attributes -/

/-- the facts packed into `isPlain` -/
structure Plain (cfg : Cfg) (k : Str) : Prop where
  norm : attrNorm k = k
  low : noBlank (lower k) = k
  acc : isAccess k = false
  opt : (k == (chars! "optional")) = false
  par : (k == (chars! "parameter")) = false
  i1 : (k == (chars! "intent(in)")) = false
  i2 : (k == (chars! "intent(out)")) = false
  i3 : (k == (chars! "intent(inout)")) = false
  dat : (k == (chars! "data")) = false
  int : (k.take 6 == (chars! "intent")) = false
  dim : (dimRe k && dimOwner cfg k) = false

theorem plain_of (cfg : Cfg) (k : Str) (h : isPlain cfg k = true) : Plain cfg k := by
  simp only [isPlain, Bool.and_eq_true, beq_iff_eq, Bool.not_eq_true', bne_iff_ne, ne_eq] at h
  obtain ⟨⟨⟨⟨⟨⟨⟨⟨⟨⟨h1, h2⟩, h3⟩, h4⟩, h5⟩, h6⟩, h7⟩, h8⟩, h9⟩, h10⟩, h11⟩ := h
  exact ⟨h1, h2, h3, by simpa using h4, by simpa using h5, by simpa using h6, by simpa using h7,
    by simpa using h8, by simpa using h9, by simpa using h10, by simpa using h11⟩

theorem hdrStep_plain (cfg : Cfg) (h : Hdr) (k : Str) (hk : Plain cfg k) :
    hdrStep h k = { h with attribs := h.attribs ++ [k] } := by
  simp [hdrStep, hk.low, hk.acc, hk.opt, hk.par, hk.i1, hk.i2, hk.i3]

theorem hdrOf_snoc_plain (cfg : Cfg) (inh : Str) (as : List Str) (k : Str) (hk : Plain cfg k) :
    hdrOf inh (as ++ [k]) = { hdrOf inh as with attribs := (hdrOf inh as).attribs ++ [k] } := by
  simp [hdrOf, List.foldl_append, hdrStep_plain cfg _ k hk]

theorem applyAttr_plain (cfg : Cfg) (p : List (Str × Str)) (v : Var) (k : Str) (hk : Plain cfg k) :
    applyAttr cfg p v k = { v with attribs := v.attribs ++ [k] } := by
  have hd := hk.dim
  simp only [applyAttr, hk.acc, hk.int, hk.par, Bool.false_eq_true, if_false]
  rw [if_neg (by simpa using hd)]

/-- an attribute statement `k :: name` with a plain keyword and one identifier files `k` under that
    identifier (lower-cased) and nothing anywhere else, in every variant of the code -/
theorem contrib_single (cfg : Cfg) (n k nm : Str) (hk : Plain cfg k) (hn : NameOk nm) :
    contrib cfg n (.attr k nm) = if lower nm = n then [k] else [] := by
  have hl := nameOk_lower nm hn
  simp only [contrib, hk.norm, hk.dat, hk.par, Bool.false_eq_true, if_false, parenSplit_name nm hn]
  split
  · simp only [List.filterMap_cons, List.filterMap_nil, strip_name nm hn, splitDims_name _ hl,
      varKey_name cfg _ hl, List.append_nil]
    by_cases h : lower nm = n <;> simp [h]
  · simp only [List.filterMap_cons, List.filterMap_nil, strip_name nm hn]
    by_cases h : lower nm = n <;> simp [h]

theorem paramPairs_plain (cfg : Cfg) (k rest : Str) (hk : Plain cfg k) : paramPairs cfg (.attr k rest) = [] := by
  simp [paramPairs, paramItems, hk.norm, hk.par]

theorem paramItems_plain (cfg : Cfg) (k rest : Str) (hk : Plain cfg k) : paramItems (.attr k rest) = [] := by
  simp [paramItems, hk.norm, hk.par]

/-! ## an attribute in its own statement or on the declaration -/

theorem map_congr_mid (f g : Var → Var) (P Q : List Var) (x x' : Var)
    (hP : ∀ v ∈ P, f v = g v) (hQ : ∀ v ∈ Q, f v = g v) (hx : f x = g x') :
    (P ++ x :: Q).map f = (P ++ x' :: Q).map g := by
  simp only [List.map_append, List.map_cons, hx]
  rw [List.map_congr_left hP, List.map_congr_left hQ]

theorem pairwise_mid {α : Type} (l1 l2 : List α) (x : α) (h : (l1 ++ x :: l2).Pairwise (· ≠ ·)) :
    ∀ y ∈ l1 ++ l2, y ≠ x := by
  rw [List.pairwise_append] at h
  obtain ⟨_, h2, h3⟩ := h
  rw [List.pairwise_cons] at h2
  intro y hy
  rcases List.mem_append.1 hy with hy | hy
  · exact h3 y hy x (by simp)
  · exact fun e => h2.1 y hy e.symm

theorem mkVar_name (h : Hdr) (e : Ent) : (mkVar h e).name = e.name := rfl

theorem declVars_attr (inh : Str) (k r : Str) : declVars inh (.attr k r) = [] := rfl

theorem contrib_decl (cfg : Cfg) (n : Str) (as : List Str) (es : List Ent) : contrib cfg n (.decl as es) = [] := rfl

theorem paramItems_decl (as : List Str) (es : List Ent) : paramItems (.decl as es) = [] := rfl

theorem paramPairs_decl (cfg : Cfg) (as : List Str) (es : List Ent) : paramPairs cfg (.decl as es) = [] := rfl

/-- `T, as :: e` followed anywhere later by `k :: e` is documented exactly as `T, as, k :: e` without the
    statement (plain keyword `k`, no earlier attribute statement names `e`, names pairwise different) -/
theorem stmt_vs_inline (cfg : Cfg) (bd : Bool) (inh : Str) (pre mid post : List Stmt) (as : List Str) (e : Ent)
    (k : Str) (hk : Plain cfg k) (hn : NameOk e.name)
    (hd : ((declared inh (pre ++ .decl as [e] :: (mid ++ .attr k e.name :: post))).map
            fun v => lower v.name).Pairwise (· ≠ ·))
    (hq : named cfg (pre ++ mid) (lower e.name) = []) :
    run cfg bd inh (pre ++ .decl as [e] :: (mid ++ .attr k e.name :: post))
      = run cfg bd inh (pre ++ .decl (as ++ [k]) [e] :: (mid ++ post)) := by
  have hdA : declared inh (pre ++ .decl as [e] :: (mid ++ .attr k e.name :: post))
      = declared inh pre ++ mkVar (hdrOf inh as) e :: (declared inh mid ++ declared inh post) := by
    simp [declared_append, declared_cons, declVars]
  have hdB : declared inh (pre ++ .decl (as ++ [k]) [e] :: (mid ++ post))
      = declared inh pre ++ mkVar (hdrOf inh (as ++ [k])) e :: (declared inh mid ++ declared inh post) := by
    simp [declared_append, declared_cons, declVars]
  have hnames : (declared inh (pre ++ .decl (as ++ [k]) [e] :: (mid ++ post))).map (fun v => lower v.name)
      = (declared inh (pre ++ .decl as [e] :: (mid ++ .attr k e.name :: post))).map (fun v => lower v.name) := by
    rw [hdA, hdB]; simp [mkVar_name]
  have hokEq : paramsOk cfg (pre ++ .decl as [e] :: (mid ++ .attr k e.name :: post))
      = paramsOk cfg (pre ++ .decl (as ++ [k]) [e] :: (mid ++ post)) := by
    simp [paramsOk_append, paramsOk_cons, paramItems_decl, paramItems_plain cfg k _ hk]
  have hpEq : params cfg (pre ++ .decl as [e] :: (mid ++ .attr k e.name :: post))
      = params cfg (pre ++ .decl (as ++ [k]) [e] :: (mid ++ post)) := by
    simp [params_append, params_cons, paramPairs_decl, paramPairs_plain cfg k _ hk]
  cases hok : paramsOk cfg (pre ++ .decl (as ++ [k]) [e] :: (mid ++ post)) with
  | false => simp [run, hok, hokEq]
  | true =>
    rw [run_eq cfg bd inh _ (hokEq.trans hok) (Or.inr hd), run_eq cfg bd inh _ hok (Or.inr (hnames ▸ hd))]
    congr 2
    rw [hdA, hdB, hpEq]
    have hnamedA : ∀ n, named cfg (pre ++ .decl as [e] :: (mid ++ .attr k e.name :: post)) n
        = named cfg pre n ++ (named cfg mid n ++ ((if lower e.name = n then [k] else []) ++ named cfg post n)) := by
      intro n
      simp [named_append, named_cons, contrib_decl, contrib_single cfg n k e.name hk hn]
    have hnamedB : ∀ n, named cfg (pre ++ .decl (as ++ [k]) [e] :: (mid ++ post)) n
        = named cfg pre n ++ (named cfg mid n ++ named cfg post n) := by
      intro n
      simp [named_append, named_cons, contrib_decl]
    have hq' := hq
    rw [named_append, List.append_eq_nil_iff] at hq'
    rw [hdA] at hd
    simp only [List.map_append, List.map_cons, mkVar_name] at hd
    have hne := pairwise_mid _ _ _ hd
    have hother : ∀ v ∈ declared inh pre ++ (declared inh mid ++ declared inh post), lower e.name ≠ lower v.name := by
      intro v hv
      have : lower v.name ∈ (declared inh pre).map (fun v => lower v.name)
          ++ ((declared inh mid).map (fun v => lower v.name) ++ (declared inh post).map (fun v => lower v.name)) := by
        simp only [List.mem_append, List.mem_map] at hv ⊢
        rcases hv with hv | hv | hv
        · exact Or.inl ⟨v, hv, rfl⟩
        · exact Or.inr (Or.inl ⟨v, hv, rfl⟩)
        · exact Or.inr (Or.inr ⟨v, hv, rfl⟩)
      exact fun e' => hne _ this e'.symm
    apply map_congr_mid
    · intro v hv
      rw [hnamedA, hnamedB, if_neg (hother v (by simp [hv]))]
      simp
    · intro v hv
      rw [hnamedA, hnamedB, if_neg (hother v (by simpa using Or.inr (List.mem_append.1 hv)))]
      simp
    · simp only [mkVar_name]
      rw [hnamedA, hnamedB, hq'.1, hq'.2, if_pos rfl]
      simp only [List.nil_append, List.cons_append, applyAll, List.foldl_cons]
      rw [applyAttr_plain cfg _ _ k hk, hdrOf_snoc_plain cfg inh as k hk]
      rfl

/-- a key without parenthesis is the old key -/
theorem attrKey_plain (it : Str) (h : (lower (strip it)).contains '(' = false) : attrKey it = lower (strip it) := by
  unfold attrKey
  simp only [h]
  rfl

/-- blanks are the only thing `_attr_key` removes: a parenthesis in the old key is still in the new one -/
theorem attrKey_keeps_paren (it : Str) (h : (lower (strip it)).contains '(' = true) : (attrKey it).contains '(' = true := by
  unfold attrKey
  simp only [h, if_true]
  simp only [List.contains_iff_mem, List.mem_filter] at h ⊢
  exact ⟨h, by decide⟩

/-- for a name without parenthesis - every variable name - the repaired key selects exactly the items the old key
    selected: the attribute model (`contrib`, which compares `lower (strip it)` with the variable's name) is unchanged
    by repair cbe48be -/
theorem attrKey_same_items (it n : Str) (hn : n.contains '(' = false) :
    (attrKey it = n ↔ lower (strip it) = n) := by
  cases h : (lower (strip it)).contains '('
  · rw [attrKey_plain it h]
  · constructor
    · intro e
      have := attrKey_keeps_paren it h
      rw [e, hn] at this
      cases this
    · intro e
      rw [e, hn] at h
      cases h

end Ford.Attribs
