/-
  C04 - lemmas about the permission model (Access.lean).
-/
import FordModel.AccessSpec
namespace Ford.Access

/-! ### generic list facts -/

theorem eq_of_nodup_map {α β} (f : α → β) : ∀ (l : List α), (l.map f).Nodup →
    ∀ a b, a ∈ l → b ∈ l → f a = f b → a = b := by
  intro l
  induction l with
  | nil => intro _ a b ha; cases ha
  | cons x xs ih =>
    intro h a b ha hb hab
    simp only [List.map_cons, List.nodup_cons, List.mem_map, not_exists, not_and] at h
    rcases List.mem_cons.1 ha with rfl | ha' <;> rcases List.mem_cons.1 hb with rfl | hb'
    · rfl
    · exact absurd hab.symm (h.1 b hb')
    · exact absurd hab (h.1 a ha')
    · exact ih h.2 a b ha' hb' hab

/-! ### the state after a prefix -/

/-- the permission in force after the statements `l`, starting from `p` -/
def lastBare (p : Perm) : List Stmt → Perm
  | [] => p
  | .bare q :: r => lastBare (if q ∈ bareWords then q else p) r
  | _ :: r => lastBare p r

def hasContains (l : List Stmt) : Bool := l.contains .contains

/-- the entities the statements create, threading the permission state only -/
def entsFrom (p : Perm) (inc : Bool) : List Stmt → List Ent
  | [] => []
  | .bare q :: r => entsFrom (if q ∈ bareWords then q else p) inc r
  | .contains :: r => entsFrom p true r
  | .access _ _ :: r => entsFrom p inc r
  | .other :: r => entsFrom p inc r
  | .var ns as :: r => mkEnts p p inc (.var ns as) ++ entsFrom p inc r
  | .typeDef n as b :: r => mkEnts p p inc (.typeDef n as b) ++ entsFrom p inc r
  | .iface k n ps rs :: r => mkEnts p p inc (.iface k n ps rs) ++ entsFrom p inc r
  | .proc f n :: r => mkEnts p p inc (.proc f n) ++ entsFrom p inc r

theorem foldl_step (l : List Stmt) : ∀ (s : St), s.perm = s.child →
    (l.foldl step s).ents = s.ents ++ entsFrom s.perm s.incontains l ∧
    (l.foldl step s).attrs = s.attrs ++ stmtEntries l := by
  induction l with
  | nil => intro s _; simp [entsFrom, stmtEntries]
  | cons x r ih =>
    intro s hs
    cases x with
    | bare q =>
      by_cases hq : q ∈ bareWords
      · have := ih { s with child := q, perm := q } rfl
        simpa [step, hq, bareSetsChild, bareSetsSelf, entsFrom, stmtEntries] using this
      · have := ih s hs
        simpa [step, hq, entsFrom, stmtEntries] using this
    | access a ns =>
      have := ih { s with attrs := s.attrs ++ ns.map (fun n => (n, a)) } hs
      simpa [step, entsFrom, stmtEntries, List.append_assoc] using this
    | contains =>
      have := ih { s with incontains := true } hs
      simpa [step, entsFrom, stmtEntries] using this
    | other =>
      have := ih s hs
      simpa [step, entsFrom, stmtEntries] using this
    | var ns as =>
      have := ih { s with ents := s.ents ++ mkEnts s.perm s.child s.incontains (.var ns as) } hs
      simpa [step, entsFrom, stmtEntries, List.append_assoc, ← hs] using this
    | typeDef n as b =>
      have := ih { s with ents := s.ents ++ mkEnts s.perm s.child s.incontains (.typeDef n as b) } hs
      simpa [step, entsFrom, stmtEntries, List.append_assoc, ← hs] using this
    | iface k n ps rs =>
      have := ih { s with ents := s.ents ++ mkEnts s.perm s.child s.incontains (.iface k n ps rs) } hs
      simpa [step, entsFrom, stmtEntries, List.append_assoc, ← hs] using this
    | proc f n =>
      have := ih { s with ents := s.ents ++ mkEnts s.perm s.child s.incontains (.proc f n) } hs
      simpa [step, entsFrom, stmtEntries, List.append_assoc, ← hs] using this

theorem entsFrom_append (a b : List Stmt) : ∀ (p : Perm) (inc : Bool),
    entsFrom p inc (a ++ b) = entsFrom p inc a ++ entsFrom (lastBare p a) (inc || hasContains a) b := by
  induction a with
  | nil => intro p inc; simp [entsFrom, lastBare, hasContains]
  | cons x r ih =>
    intro p inc
    cases x <;> simp [entsFrom, lastBare, hasContains, ih, List.append_assoc] <;> simp [hasContains]

theorem stmtEntries_append (a b : List Stmt) : stmtEntries (a ++ b) = stmtEntries a ++ stmtEntries b := by
  induction a with
  | nil => rfl
  | cons x r ih => cases x <;> simp [stmtEntries, ih]


/-! ### process_attribs -/

@[simp] theorem upd_cat (a : List (Str × Attr)) (e : Ent) : (upd a e).cat = e.cat := rfl
@[simp] theorem upd_name (a : List (Str × Attr)) (e : Ent) : (upd a e).name = e.name := rfl

theorem applyAttrs_filter (words : List Perm) (n : Str) (keep : Str → Bool) (h : keep n = true) :
    ∀ (a : List (Str × Attr)) (p : Perm),
      applyAttrs words n p (a.filter (fun x => keep x.1)) = applyAttrs words n p a := by
  intro a
  induction a with
  | nil => intro p; rfl
  | cons x r ih =>
    intro p
    obtain ⟨m, att⟩ := x
    by_cases hk : keep m = true
    · have hf : (List.filter (fun x : Str × Attr => keep x.1) ((m, att) :: r)) =
          (m, att) :: List.filter (fun x : Str × Attr => keep x.1) r := by
        simp [List.filter_cons, hk]
      rw [hf]
      cases att with
      | acc q =>
        by_cases hc : m = n ∧ q ∈ words
        · simp only [applyAttrs, hc, and_self, if_true]; exact ih q
        · simp only [applyAttrs, hc, if_false]; exact ih p
      | other => simp only [applyAttrs]; exact ih p
    · have hmn : m ≠ n := by intro e; subst e; exact hk h
      have hf : (List.filter (fun x : Str × Attr => keep x.1) ((m, att) :: r)) =
          List.filter (fun x : Str × Attr => keep x.1) r := by
        simp [List.filter_cons, hk]
      rw [hf]
      cases att with
      | acc q => simp only [applyAttrs, hmn, false_and, if_false]; exact ih p
      | other => simp only [applyAttrs]; exact ih p

theorem pass_fst (c : Cat) (a : List (Str × Attr)) : ∀ (es : List Ent) (keep : Str → Bool),
    (∀ e ∈ es, e.cat = c → keep e.name = true) → (es.map (·.name)).Nodup →
    (pass c es (a.filter (fun x => keep x.1))).1 = es.map (fun e => if e.cat = c then upd a e else e) := by
  intro es
  induction es with
  | nil => intro keep _ _; rfl
  | cons e r ih =>
    intro keep hk hn
    simp only [List.map_cons, List.nodup_cons, List.mem_map, not_exists, not_and] at hn
    by_cases hc : e.cat = c
    · have hke := hk e (List.mem_cons_self) hc
      have := ih (fun n => keep n && decide (n ≠ e.name))
        (by
          intro e' he' hc'
          have h1 := hk e' (List.mem_cons_of_mem _ he') hc'
          have h2 : e'.name ≠ e.name := fun h => hn.1 e' he' h
          simp [h1, h2])
        hn.2
      simp only [pass, hc, if_true, List.map_cons, List.filter_filter]
      rw [show (fun x : Str × Attr => (decide (x.1 ≠ e.name) && keep x.1)) =
            (fun x : Str × Attr => (fun n => keep n && decide (n ≠ e.name)) x.1) from by
            funext x; simp [Bool.and_comm]]
      rw [this]
      simp [upd, hc, applyAttrs_filter _ _ keep hke]
    · have := ih keep (fun e' he' hc' => hk e' (List.mem_cons_of_mem _ he') hc') hn.2
      simp [pass, hc, this]

theorem pass_snd (c : Cat) (a : List (Str × Attr)) : ∀ (es : List Ent) (keep : Str → Bool),
    ∃ keep' : Str → Bool, (pass c es (a.filter (fun x => keep x.1))).2 = a.filter (fun x => keep' x.1) ∧
      ∀ n, keep n = true → (∀ e ∈ es, e.cat = c → e.name ≠ n) → keep' n = true := by
  intro es
  induction es with
  | nil => intro keep; exact ⟨keep, rfl, fun n h _ => h⟩
  | cons e r ih =>
    intro keep
    by_cases hc : e.cat = c
    · obtain ⟨k', h1, h2⟩ := ih (fun n => keep n && decide (n ≠ e.name))
      refine ⟨k', ?_, ?_⟩
      · simp only [pass, hc, if_true, List.filter_filter]
        rw [show (fun x : Str × Attr => (decide (x.1 ≠ e.name) && keep x.1)) =
              (fun x : Str × Attr => (fun n => keep n && decide (n ≠ e.name)) x.1) from by
              funext x; simp [Bool.and_comm]]
        exact h1
      · intro n hk hne
        apply h2 n
        · have : n ≠ e.name := fun h => hne e List.mem_cons_self hc h.symm
          simp [hk, this]
        · intro e' he' hc'; exact hne e' (List.mem_cons_of_mem _ he') hc'
    · obtain ⟨k', h1, h2⟩ := ih keep
      refine ⟨k', ?_, ?_⟩
      · simp only [pass, hc, if_false]; exact h1
      · intro n hk hne
        exact h2 n hk (fun e' he' hc' => hne e' (List.mem_cons_of_mem _ he') hc')

theorem passes_fst (a : List (Str × Attr)) : ∀ (cs : List Cat) (es : List Ent) (keep : Str → Bool),
    cs.Nodup → (es.map (·.name)).Nodup → (∀ e ∈ es, e.cat ∈ cs → keep e.name = true) →
    (passes cs es (a.filter (fun x => keep x.1))).1 = es.map (fun e => if e.cat ∈ cs then upd a e else e) := by
  intro cs
  induction cs with
  | nil => intro es keep _ _ _; simp [passes]
  | cons c cs ih =>
    intro es keep hcs hn hk
    simp only [List.nodup_cons] at hcs
    obtain ⟨k', h1, h2⟩ := pass_snd c a es keep
    have hf := pass_fst c a es keep (fun e he hc => hk e he (by simp [hc])) hn
    simp only [passes]
    rw [h1, hf]
    have hn' : ((es.map (fun e => if e.cat = c then upd a e else e)).map (·.name)).Nodup := by
      rw [List.map_map]
      have : ((fun e : Ent => e.name) ∘ fun e => if e.cat = c then upd a e else e) = (fun e : Ent => e.name) := by
        funext e; by_cases h : e.cat = c <;> simp [h]
      rw [this]; exact hn
    rw [ih _ k' hcs.2 hn']
    · rw [List.map_map]
      apply List.map_congr_left
      intro e he
      by_cases h : e.cat = c
      · have : c ∉ cs := hcs.1
        simp [h, this]
      · simp [h]
    · intro e' he' hc'
      obtain ⟨e, he, rfl⟩ := List.mem_map.1 he'
      have hcat : e.cat ∈ cs := by by_cases h : e.cat = c <;> simpa [h] using hc'
      have hne : e.cat ≠ c := fun h => hcs.1 (h ▸ hcat)
      have hname : (if e.cat = c then upd a e else e).name = e.name := by simp [hne]
      rw [hname]
      apply h2
      · exact hk e he (by simp [hcat])
      · intro e2 he2 hc2 heq
        have := eq_of_nodup_map (·.name) es hn e2 e he2 he heq
        exact hne (this ▸ hc2)

theorem filter_true {α} (a : List α) : a.filter (fun _ => true) = a := by simp

/-- `process_attribs` on entities with pairwise different names: every entity sees the whole `attr_dict` -/
theorem passes_all (es : List Ent) (a : List (Str × Attr)) (hn : (es.map (·.name)).Nodup) :
    (passes attribPasses es a).1 = es.map (upd a) := by
  have h := passes_fst a attribPasses es (fun _ => true) (by decide) hn (fun _ _ _ => rfl)
  simp only [filter_true] at h
  rw [h]
  apply List.map_congr_left
  intro e _
  have : e.cat ∈ attribPasses := by cases e.cat <;> decide
  simp [this]


/-! ### attribute words -/

/-- the attribute words the attribute statements give to the name `n`, in order -/
def entriesFor (n : Str) (a : List (Str × Attr)) : List Attr := (a.filter (fun x => x.1 = n)).map (·.2)

theorem applyAttrs_eq_declPerm (words : List Perm) (n : Str) : ∀ (a : List (Str × Attr)) (p : Perm),
    applyAttrs words n p a = declPerm words p (entriesFor n a) := by
  intro a
  induction a with
  | nil => intro p; rfl
  | cons x r ih =>
    intro p
    obtain ⟨m, att⟩ := x
    by_cases hm : m = n
    · cases att with
      | acc q =>
        by_cases hq : q ∈ words
        · simp [applyAttrs, entriesFor, hm, hq, declPerm]; simpa [entriesFor] using ih q
        · simp [applyAttrs, entriesFor, hm, hq, declPerm]; simpa [entriesFor] using ih p
      | other => simp [applyAttrs, entriesFor, hm, declPerm]; simpa [entriesFor] using ih p
    · cases att with
      | acc q => simp [applyAttrs, entriesFor, hm]; simpa [entriesFor] using ih p
      | other => simp [applyAttrs, entriesFor, hm]; simpa [entriesFor] using ih p

theorem stmtAccess_eq (stmts : List Stmt) (n : Str) :
    stmtAccess stmts n = explicitOf (entriesFor n (stmtEntries stmts)) := by
  unfold stmtAccess explicitOf entriesFor
  generalize stmtEntries stmts = a
  induction a with
  | nil => rfl
  | cons x r ih =>
    obtain ⟨m, att⟩ := x
    by_cases hm : m = n
    · cases h : accessWord att <;> simp [List.findSome?, hm, h, ih]
    · simp [List.findSome?, hm, ih]

theorem accessWord_ne_prot {a : Attr} {q : Perm} (h : accessWord a = some q) : q ≠ .prot := by
  cases a with
  | acc p => cases p <;> simp [accessWord] at h <;> subst h <;> decide
  | other => simp [accessWord] at h

theorem declPerm_none (w : List Perm) : ∀ (A : List Attr) (inh : Perm),
    A.filterMap accessWord = [] → Attr.acc .prot ∉ A → declPerm w inh A = inh := by
  intro A
  induction A with
  | nil => intro inh _ _; rfl
  | cons a r ih =>
    intro inh h hp
    simp only [List.mem_cons, not_or] at hp
    cases a with
    | acc q =>
      cases q with
      | pub => simp [List.filterMap, accessWord] at h
      | priv => simp [List.filterMap, accessWord] at h
      | prot => exact absurd rfl hp.1
    | other =>
      simp only [List.filterMap, accessWord] at h
      simp only [declPerm]; exact ih inh h hp.2

theorem declPerm_one (w : List Perm) (hpub : Perm.pub ∈ w) (hpriv : Perm.priv ∈ w) : ∀ (A : List Attr) (inh q : Perm),
    A.filterMap accessWord = [q] → Attr.acc .prot ∉ A → declPerm w inh A = q := by
  intro A
  induction A with
  | nil => intro inh q h; simp at h
  | cons a r ih =>
    intro inh q h hp
    simp only [List.mem_cons, not_or] at hp
    cases a with
    | acc q' =>
      cases q' with
      | pub =>
        simp only [List.filterMap, accessWord, List.cons.injEq] at h
        simp only [declPerm, hpub, if_true]
        rw [← h.1]; exact declPerm_none w r .pub h.2 hp.2
      | priv =>
        simp only [List.filterMap, accessWord, List.cons.injEq] at h
        simp only [declPerm, hpriv, if_true]
        rw [← h.1]; exact declPerm_none w r .priv h.2 hp.2
      | prot => exact absurd rfl hp.1
    | other =>
      simp only [List.filterMap, accessWord] at h
      simp only [declPerm]; exact ih inh q h hp.2

theorem explicitOf_eq_head (A : List Attr) : explicitOf A = (A.filterMap accessWord).head? := by
  unfold explicitOf
  induction A with
  | nil => rfl
  | cons a r ih =>
    cases h : accessWord a with
    | none => simp only [List.findSome?_cons, h, List.filterMap_cons]; exact ih
    | some q => simp only [List.findSome?_cons, h, List.filterMap_cons, List.head?_cons]

/-- The two loops (declaration attributes, then `attr_dict`) against the standard's rule, on the level of
    attribute-word lists: at most one access-spec in total, no PROTECTED. -/
theorem two_loops (w1 w2 : List Perm) (h1u : Perm.pub ∈ w1) (h1r : Perm.priv ∈ w1) (h2u : Perm.pub ∈ w2)
    (h2r : Perm.priv ∈ w2) (A1 A2 : List Attr) (inh : Perm)
    (hone : ((A1 ++ A2).filterMap accessWord).length ≤ 1)
    (hp1 : Attr.acc .prot ∉ A1) (hp2 : Attr.acc .prot ∉ A2) :
    declPerm w2 (declPerm w1 inh A1) A2 = ((explicitOf A1).orElse (fun _ => explicitOf A2)).getD inh := by
  rw [explicitOf_eq_head, explicitOf_eq_head]
  rw [List.filterMap_append, List.length_append] at hone
  match h1 : A1.filterMap accessWord, h2 : A2.filterMap accessWord with
  | [], [] => simp [declPerm_none w1 A1 inh h1 hp1, declPerm_none w2 A2 inh h2 hp2]
  | [q], [] => simp [declPerm_one w1 h1u h1r A1 inh q h1 hp1, declPerm_none w2 A2 q h2 hp2]
  | [], [q] => simp [declPerm_none w1 A1 inh h1 hp1, declPerm_one w2 h2u h2r A2 inh q h2 hp2]
  | _ :: _ :: _, _ => rw [h1] at hone; simp only [List.length_cons] at hone; omega
  | _ :: _, _ :: _ => rw [h1, h2] at hone; simp only [List.length_cons] at hone; omega
  | [], _ :: _ :: _ => rw [h2] at hone; simp only [List.length_cons] at hone; omega

/-! ### the default in force -/

theorem lastBare_const (p : Perm) : ∀ (l : List Stmt), (∀ r, Stmt.bare r ∈ l → r = p) → lastBare p l = p := by
  intro l
  induction l with
  | nil => intro _; rfl
  | cons x r ih =>
    intro h
    have hr : ∀ q, Stmt.bare q ∈ r → q = p := fun q hq => h q (List.mem_cons_of_mem _ hq)
    cases x with
    | bare q =>
      have : q = p := h q List.mem_cons_self
      subst this
      simp only [lastBare, ite_self]; exact ih hr
    | _ => simp only [lastBare]; exact ih hr

theorem lastBare_priv : ∀ (l : List Stmt) (p : Perm), (∀ r, Stmt.bare r ∈ l → r = .priv) → Stmt.bare .priv ∈ l →
    lastBare p l = .priv := by
  intro l
  induction l with
  | nil => intro p _ h; cases h
  | cons x r ih =>
    intro p h hm
    have hr : ∀ q, Stmt.bare q ∈ r → q = .priv := fun q hq => h q (List.mem_cons_of_mem _ hq)
    cases x with
    | bare q =>
      have : q = .priv := h q List.mem_cons_self
      subst this
      have hw : Perm.priv ∈ bareWords := by decide
      simp only [lastBare, hw, if_true]; exact lastBare_const .priv r hr
    | _ =>
      simp only [lastBare]
      apply ih p hr
      simpa using hm


/-! ### declarations and entities -/

/-- the word list used for the attributes of a declaration of category `c` -/
def declWords (c : Cat) : List Perm := if c = .var then varAttrWords else typeAttrWords

theorem mkEnts_declares (p : Perm) (inc : Bool) (d : Stmt) (hproc : isProc d = true → inc = true) :
    ∀ x ∈ declares d, ∃ e ∈ mkEnts p p inc d, e.cat = x.1 ∧ e.name = x.2.1 ∧
      e.perm = declPerm (declWords x.1) p x.2.2 := by
  intro x hx
  cases d with
  | var ns as =>
    simp only [declares, List.mem_map] at hx
    obtain ⟨n, hn, rfl⟩ := hx
    exact ⟨_, List.mem_map.2 ⟨n, hn, rfl⟩, rfl, rfl, by simp [declWords, pick, srcVariables]⟩
  | typeDef n as b =>
    simp only [declares, List.mem_singleton] at hx
    subst hx
    exact ⟨_, List.mem_singleton.2 rfl, rfl, rfl, by simp [declWords, pick, srcType]⟩
  | iface k n ps rs =>
    cases k with
    | generic =>
      simp only [declares, List.mem_singleton] at hx
      subst hx
      exact ⟨_, List.mem_singleton.2 rfl, rfl, rfl, by simp [declPerm, pick, srcInterface]⟩
    | abstract =>
      simp only [declares, List.mem_map] at hx
      obtain ⟨q, hq, rfl⟩ := hx
      exact ⟨_, List.mem_map.2 ⟨q, hq, rfl⟩, rfl, rfl, by simp [declPerm, pick, srcInterface]⟩
    | plain =>
      simp only [declares, List.mem_map] at hx
      obtain ⟨q, hq, rfl⟩ := hx
      exact ⟨_, List.mem_map.2 ⟨q, hq, rfl⟩, rfl, rfl, by simp [declPerm, pick, srcInterface]⟩
  | proc f n =>
    simp only [declares, List.mem_singleton] at hx
    subst hx
    have hi : inc = true := hproc rfl
    subst hi
    refine ⟨_, by simp only [mkEnts, if_true]; exact List.mem_singleton.2 rfl, rfl, rfl, ?_⟩
    cases f <;> simp [declPerm, pick, srcFunction, srcSubroutine]
  | bare q => simp [declares] at hx
  | access a ns => simp [declares] at hx
  | contains => simp [declares] at hx
  | other => simp [declares] at hx

theorem mkEnts_names_sublist (p : Perm) (inc : Bool) (d : Stmt) :
    ((mkEnts p p inc d).map (·.name)).Sublist ((declares d).map (fun x => x.2.1)) := by
  cases d with
  | var ns as => simp [mkEnts, declares, List.map_map, Function.comp_def]
  | typeDef n as b => simp [mkEnts, declares]
  | iface k n ps rs => cases k <;> simp [mkEnts, declares, List.map_map, Function.comp_def]
  | proc f n => cases inc <;> simp [mkEnts, declares]
  | bare q => simp [mkEnts, declares]
  | access a ns => simp [mkEnts, declares]
  | contains => simp [mkEnts, declares]
  | other => simp [mkEnts, declares]

theorem entsFrom_names_sublist : ∀ (l : List Stmt) (p : Perm) (inc : Bool),
    ((entsFrom p inc l).map (·.name)).Sublist ((l.flatMap declares).map (fun x => x.2.1)) := by
  intro l
  induction l with
  | nil => intro p inc; simp [entsFrom]
  | cons x r ih =>
    intro p inc
    cases x with
    | bare q => simpa [entsFrom, declares] using ih _ inc
    | access a ns => simpa [entsFrom, declares] using ih p inc
    | contains => simpa [entsFrom, declares] using ih p true
    | other => simpa [entsFrom, declares] using ih p inc
    | var ns as =>
      simp only [entsFrom, List.map_append, List.flatMap_cons]
      exact List.Sublist.append (mkEnts_names_sublist p inc _) (ih p inc)
    | typeDef n as b =>
      simp only [entsFrom, List.map_append, List.flatMap_cons]
      exact List.Sublist.append (mkEnts_names_sublist p inc _) (ih p inc)
    | iface k n ps rs =>
      simp only [entsFrom, List.map_append, List.flatMap_cons]
      exact List.Sublist.append (mkEnts_names_sublist p inc _) (ih p inc)
    | proc f n =>
      simp only [entsFrom, List.map_append, List.flatMap_cons]
      exact List.Sublist.append (mkEnts_names_sublist p inc _) (ih p inc)

/-- with pairwise different names no interface is a constructor: the correlate step changes nothing -/
theorem ctorPass_id (es : List Ent) (hn : (es.map (·.name)).Nodup) : ctorPass es = es := by
  unfold ctorPass
  conv => rhs; rw [← List.map_id es]
  apply List.map_congr_left
  intro e he
  by_cases hc : e.cat = .iface
  · simp only [hc, if_true, id]
    cases hf : es.find? (fun t => decide (t.cat = .type ∧ t.name = e.name)) with
    | none => rfl
    | some t =>
      have ht := List.find?_some hf
      have hm := List.mem_of_find?_eq_some hf
      simp only [decide_eq_true_eq] at ht
      have := eq_of_nodup_map (·.name) es hn t e hm he ht.2
      subst this
      rw [hc] at ht
      exact absurd ht.1 (by decide)
  · simp [hc]

theorem readKids_id (e : Ent) : readKids e = e := by simp [readKids, readGeneric]

theorem map_readKids (es : List Ent) : es.map readKids = es := by
  conv => rhs; rw [← List.map_id es]
  exact List.map_congr_left (fun e _ => readKids_id e)

theorem cat_item_or_var (c : Cat) : c ∈ itemPasses ∨ c = .var := by cases c <;> decide

/-- the repaired deletion order on entities with pairwise different names: every entity sees the whole `attr_dict` -/
theorem passesAfter_all (es : List Ent) (a : List (Str × Attr)) (hn : (es.map (·.name)).Nodup) :
    (passesAfter es a).1 = es.map (upd a) := by
  unfold passesAfter
  have hn' : ((es.map (fun e => if e.cat ∈ itemPasses then upd a e else e)).map (·.name)).Nodup := by
    rw [List.map_map]
    have : ((fun e : Ent => e.name) ∘ fun e => if e.cat ∈ itemPasses then upd a e else e) = (fun e : Ent => e.name) := by
      funext e; by_cases h : e.cat ∈ itemPasses <;> simp [h]
    rw [this]; exact hn
  have h := pass_fst .var a (es.map (fun e => if e.cat ∈ itemPasses then upd a e else e))
    (fun n => !(es.any (fun e => decide (e.cat ∈ itemPasses) && decide (e.name = n))))
    (by
      intro e' he' hc'
      obtain ⟨e, he, rfl⟩ := List.mem_map.1 he'
      have hv : e.cat = .var := by by_cases h : e.cat ∈ itemPasses <;> simpa [h] using hc'
      have hni : e.cat ∉ itemPasses := by rw [hv]; decide
      simp only [hni, if_false, Bool.not_eq_true', List.any_eq_false, Bool.and_eq_true, decide_eq_true_eq, not_and]
      intro e2 he2 hc2 heq
      have := eq_of_nodup_map (·.name) es hn e2 e he2 he heq
      subst this
      exact hni hc2)
    hn'
  rw [h, List.map_map]
  apply List.map_congr_left
  intro e _
  rcases cat_item_or_var e.cat with hc | hc
  · have : e.cat ≠ .var := by intro h; rw [h] at hc; revert hc; decide
    simp [hc, this]
  · have hni : Cat.var ∉ itemPasses := by decide
    simp [hni, hc]

theorem passesV_all (v : DelOrder) (es : List Ent) (a : List (Str × Attr)) (hn : (es.map (·.name)).Nodup) :
    (passesV v es a).1 = es.map (upd a) := by
  cases v with
  | perEntity => exact passes_all es a hn
  | afterLoop => exact passesAfter_all es a hn

@[simp] theorem specUpd_cat (on : Bool) (a : List (Str × Attr)) (e : Ent) : (specUpd on a e).cat = e.cat := by
  cases on <;> rfl
@[simp] theorem specUpd_name (on : Bool) (a : List (Str × Attr)) (e : Ent) : (specUpd on a e).name = e.name := by
  cases on <;> rfl
@[simp] theorem specUpd_perm (on : Bool) (a : List (Str × Attr)) (e : Ent) : (specUpd on a e).perm = e.perm := by
  cases on <;> rfl

theorem map_specUpd_names (on : Bool) (a : List (Str × Attr)) (es : List Ent) :
    (es.map (specUpd on a)).map (·.name) = es.map (·.name) := by
  rw [List.map_map]; apply List.map_congr_left; intro e _; simp

/-- the entities of a whole unit, when every name is declared once -/
theorem runUnit_ents (v : Variant) (sub : Bool) (stmts : List Stmt) (hn : NamesOnce stmts) :
    (runUnit v sub stmts).ents =
      (entsFrom (init sub).perm false stmts).map
        (fun e => upd (stmtEntries stmts) (specUpd v.specLoop (stmtEntries stmts) e)) := by
  have h := foldl_step stmts (init sub) rfl
  have hnd : ((entsFrom (init sub).perm false stmts).map (·.name)).Nodup :=
    List.Sublist.nodup (entsFrom_names_sublist stmts _ _) hn
  simp only [runUnit, finish, map_readKids]
  rw [h.1, h.2]
  simp only [init, List.nil_append]
  simp only [init] at hnd
  rw [passesV_all v.del _ _ (by rw [map_specUpd_names]; exact hnd), List.map_map]
  apply ctorPass_id
  rw [List.map_map]
  have : ((fun e : Ent => e.name) ∘ (upd (stmtEntries stmts) ∘ specUpd v.specLoop (stmtEntries stmts))) =
      (fun e : Ent => e.name) := by
    funext e; simp [Function.comp, upd_name]
  rw [this]; exact hnd


theorem runUnit_ents_nodup (v : Variant) (sub : Bool) (stmts : List Stmt) (hn : NamesOnce stmts) :
    ((runUnit v sub stmts).ents.map (·.name)).Nodup := by
  rw [runUnit_ents v sub stmts hn, List.map_map]
  have : ((fun e : Ent => e.name) ∘ fun e => upd (stmtEntries stmts) (specUpd v.specLoop (stmtEntries stmts) e)) =
      (fun e : Ent => e.name) := by
    funext e; simp [Function.comp, upd_name]
  rw [this]
  exact List.Sublist.nodup (entsFrom_names_sublist stmts _ _) hn

/-- when every name is declared once there is no constructor: the entity list the export tables are built from is
    the final one, in every variant -/
theorem runUnit_pre (v : Variant) (sub : Bool) (stmts : List Stmt) (hn : NamesOnce stmts) :
    (runUnit v sub stmts).pre = (runUnit v sub stmts).ents := by
  have hnd := runUnit_ents_nodup v sub stmts hn
  have h := foldl_step stmts (init sub) rfl
  have hnd0 : ((entsFrom (init sub).perm false stmts).map (·.name)).Nodup :=
    List.Sublist.nodup (entsFrom_names_sublist stmts _ _) hn
  simp only [runUnit, finish, map_readKids] at hnd ⊢
  rw [h.1, h.2] at hnd ⊢
  simp only [init, List.nil_append] at hnd hnd0 ⊢
  have hall := passesV_all v.del ((entsFrom (if sub = true then submoduleInit else moduleInit) false stmts).map
      (specUpd v.specLoop (stmtEntries stmts))) (stmtEntries stmts) (by rw [map_specUpd_names]; exact hnd0)
  have hid : ctorPass (passesV v.del ((entsFrom (if sub = true then submoduleInit else moduleInit) false stmts).map
      (specUpd v.specLoop (stmtEntries stmts))) (stmtEntries stmts)).1 =
      (passesV v.del ((entsFrom (if sub = true then submoduleInit else moduleInit) false stmts).map
      (specUpd v.specLoop (stmtEntries stmts))) (stmtEntries stmts)).1 := by
    apply ctorPass_id
    rw [hall, List.map_map]
    have : ((fun e : Ent => e.name) ∘ upd (stmtEntries stmts)) = (fun e : Ent => e.name) := by funext e; rfl
    rw [this, map_specUpd_names]; exact hnd0
  cases v.ctorEarly <;> simp [hid]

theorem mem_exportsOf_nonprocs (es : List Ent) (t : Tab) (n : Str) (ht : t ≠ .procs) :
    (t, n) ∈ exportsOf es ↔ ∃ e ∈ es, tabOf e.cat = t ∧ e.name = n ∧ e.perm ∈ exportWords := by
  unfold exportsOf
  simp only [List.mem_append, List.mem_map, List.mem_filter, Prod.mk.injEq, decide_eq_true_eq]
  constructor
  · rintro (⟨m, _, h1, _⟩ | ⟨e, ⟨he, _, hp⟩, h1, h2⟩)
    · exact absurd h1.symm ht
    · exact ⟨e, he, h1, h2, hp⟩
  · rintro ⟨e, he, h1, h2, hp⟩
    exact Or.inr ⟨e, ⟨he, by rw [h1]; exact ht, hp⟩, h1, h2⟩

theorem mkEnts_sub_entsFrom (p : Perm) (inc : Bool) (d : Stmt) (post : List Stmt) :
    ∀ e ∈ mkEnts p p inc d, e ∈ entsFrom p inc (d :: post) := by
  intro e he
  cases d with
  | var ns as => simp only [entsFrom]; exact List.mem_append_left _ he
  | typeDef n as b => simp only [entsFrom]; exact List.mem_append_left _ he
  | iface k n ps rs => simp only [entsFrom]; exact List.mem_append_left _ he
  | proc f n => simp only [entsFrom]; exact List.mem_append_left _ he
  | bare q => simp [mkEnts] at he
  | access a ns => simp [mkEnts] at he
  | contains => simp [mkEnts] at he
  | other => simp [mkEnts] at he

theorem mem_entriesFor (n : Str) (a : Attr) (E : List (Str × Attr)) : a ∈ entriesFor n E ↔ (n, a) ∈ E := by
  simp only [entriesFor, List.mem_map, List.mem_filter, decide_eq_true_eq]
  constructor
  · rintro ⟨⟨m, b⟩, ⟨hm, h1⟩, h2⟩
    simp only at h1 h2; subst h1; subst h2; exact hm
  · intro h; exact ⟨(n, a), ⟨h, rfl⟩, rfl⟩

theorem explicitOf_ne_prot {A : List Attr} {q : Perm} (h : explicitOf A = some q) : q ≠ .prot := by
  unfold explicitOf at h
  obtain ⟨a, _, ha⟩ := List.exists_of_findSome?_eq_some h
  exact accessWord_ne_prot ha

theorem defaultAccess_ne_prot (stmts : List Stmt) : defaultAccess stmts ≠ .prot := by
  unfold defaultAccess; split <;> decide

/-- the default in force at a declaration is the module's default unless a bare `private` follows -/
theorem default_at_decl (pre post : List Stmt) (d : Stmt) (hd : ∀ q, d ≠ .bare q)
    (hb : BareLegal (pre ++ d :: post)) (hpost : Stmt.bare .priv ∉ post) :
    lastBare moduleInit pre = defaultAccess (pre ++ d :: post) := by
  obtain ⟨hprot, hpub⟩ := hb
  by_cases hp : Stmt.bare .priv ∈ pre
  · have hall : ∀ r, Stmt.bare r ∈ pre → r = .priv := by
      intro r hr
      cases r with
      | priv => rfl
      | prot => exact absurd (List.mem_append_left _ hr) hprot
      | pub => exact absurd (List.mem_append_left _ hp) (hpub (List.mem_append_left _ hr))
    rw [lastBare_priv pre _ hall hp]
    have : (pre ++ d :: post).contains (Stmt.bare .priv) = true := by
      simp only [List.contains_eq_mem, List.mem_append, decide_eq_true_eq]; exact Or.inl hp
    unfold defaultAccess; rw [this]; rfl
  · have hall : ∀ r, Stmt.bare r ∈ pre → r = moduleInit := by
      intro r hr
      cases r with
      | priv => exact absurd hr hp
      | prot => exact absurd (List.mem_append_left _ hr) hprot
      | pub => rfl
    rw [lastBare_const _ pre hall]
    have : (pre ++ d :: post).contains (Stmt.bare .priv) = false := by
      simp only [List.contains_eq_mem, List.mem_append, List.mem_cons, decide_eq_false_iff_not, not_or]
      exact ⟨hp, fun h => hd _ h.symm, hpost⟩
    unfold defaultAccess; rw [this]; rfl

theorem declares_not_bare {d : Stmt} {x : Cat × Str × List Attr} (hx : x ∈ declares d) : ∀ q, d ≠ .bare q := by
  intro q h; subst h; simp [declares] at hx

theorem words_ok (c : Cat) : Perm.pub ∈ declWords c ∧ Perm.priv ∈ declWords c ∧
    Perm.pub ∈ wordsFor c ∧ Perm.priv ∈ wordsFor c := by
  cases c <;> decide


/-! ### access statements commute with everything else -/

def isAccess : Stmt → Bool
  | .access _ _ => true
  | _ => false

theorem step_comm (s : St) (a : Attr) (ns : List Str) (x : Stmt) (hx : isAccess x = false) :
    step (step s (.access a ns)) x = step (step s x) (.access a ns) := by
  cases x with
  | access b ms => simp [isAccess] at hx
  | bare q => by_cases hq : q ∈ bareWords <;> simp [step, hq]
  | contains => simp [step]
  | other => simp [step]
  | var ms as => simp [step]
  | typeDef m as b => simp [step]
  | iface k m ps rs => simp [step]
  | proc f m => simp [step]

theorem foldl_step_comm (a : Attr) (ns : List Str) : ∀ (mid : List Stmt) (s : St),
    (∀ x ∈ mid, isAccess x = false) →
    mid.foldl step (step s (.access a ns)) = step (mid.foldl step s) (.access a ns) := by
  intro mid
  induction mid with
  | nil => intro s _; rfl
  | cons x r ih =>
    intro s h
    simp only [List.foldl_cons]
    rw [step_comm s a ns x (h x List.mem_cons_self)]
    exact ih _ (fun y hy => h y (List.mem_cons_of_mem _ hy))

/-! ### units without access words (submodules) -/

theorem declPerm_other (w : List Perm) (inh : Perm) : ∀ (A : List Attr), (∀ a ∈ A, a = Attr.other) →
    declPerm w inh A = inh := by
  intro A
  induction A with
  | nil => intro _; rfl
  | cons a r ih =>
    intro h
    have ha := h a List.mem_cons_self
    subst ha
    simp only [declPerm]; exact ih (fun b hb => h b (List.mem_cons_of_mem _ hb))

@[simp] theorem pick_same (p : Perm) (s : Src) : pick p p s = p := by cases s <;> rfl

theorem mkEnts_perm_free (p : Perm) (inc : Bool) (d : Stmt)
    (h : match d with | .var _ as => ∀ a ∈ as, a = Attr.other | .typeDef _ as _ => ∀ a ∈ as, a = Attr.other | _ => True) :
    ∀ e ∈ mkEnts p p inc d, e.perm = p := by
  intro e he
  cases d with
  | var ns as =>
    simp only [mkEnts, List.mem_map] at he
    obtain ⟨n, _, rfl⟩ := he
    simp [pick_same, declPerm_other _ _ as h]
  | typeDef n as b =>
    simp only [mkEnts, List.mem_singleton] at he
    subst he
    simp [pick_same, declPerm_other _ _ as h]
  | iface k n ps rs =>
    cases k <;> simp only [mkEnts, List.mem_map, List.mem_singleton] at he
    · subst he; simp [pick_same]
    · obtain ⟨q, _, rfl⟩ := he; simp [pick_same]
    · obtain ⟨q, _, rfl⟩ := he; simp [pick_same]
  | proc f n =>
    cases inc <;> simp only [mkEnts, if_true, List.mem_singleton] at he
    · simp at he
    · subst he; cases f <;> simp [pick_same]
  | bare q => simp [mkEnts] at he
  | access a ns => simp [mkEnts] at he
  | contains => simp [mkEnts] at he
  | other => simp [mkEnts] at he

theorem entsFrom_accessFree : ∀ (l : List Stmt) (p : Perm) (inc : Bool), AccessFree l →
    ∀ e ∈ entsFrom p inc l, e.perm = p := by
  intro l
  induction l with
  | nil => intro p inc _ e he; simp [entsFrom] at he
  | cons x r ih =>
    intro p inc h e he
    cases x with
    | bare q => simp [AccessFree] at h
    | access a ns =>
      cases a with
      | acc q => simp [AccessFree] at h
      | other => exact ih p inc (by simpa [AccessFree] using h) e (by simpa [entsFrom] using he)
    | contains => exact ih p true (by simpa [AccessFree] using h) e (by simpa [entsFrom] using he)
    | other => exact ih p inc (by simpa [AccessFree] using h) e (by simpa [entsFrom] using he)
    | var ns as =>
      simp only [AccessFree] at h
      simp only [entsFrom, List.mem_append] at he
      rcases he with he | he
      · exact mkEnts_perm_free p inc _ h.1 e he
      · exact ih p inc h.2 e he
    | typeDef n as b =>
      simp only [AccessFree] at h
      simp only [entsFrom, List.mem_append] at he
      rcases he with he | he
      · exact mkEnts_perm_free p inc _ h.1 e he
      · exact ih p inc h.2 e he
    | iface k n ps rs =>
      simp only [AccessFree] at h
      simp only [entsFrom, List.mem_append] at he
      rcases he with he | he
      · exact mkEnts_perm_free p inc _ trivial e he
      · exact ih p inc h e he
    | proc f n =>
      simp only [AccessFree] at h
      simp only [entsFrom, List.mem_append] at he
      rcases he with he | he
      · exact mkEnts_perm_free p inc _ trivial e he
      · exact ih p inc h e he

theorem stmtEntries_accessFree : ∀ (l : List Stmt), AccessFree l → ∀ x ∈ stmtEntries l, x.2 = Attr.other := by
  intro l
  induction l with
  | nil => intro _ x hx; simp [stmtEntries] at hx
  | cons s r ih =>
    intro h x hx
    cases s with
    | bare q => simp [AccessFree] at h
    | access a ns =>
      cases a with
      | acc q => simp [AccessFree] at h
      | other =>
        simp only [stmtEntries, List.mem_append, List.mem_map] at hx
        rcases hx with ⟨n, _, rfl⟩ | hx
        · rfl
        · exact ih (by simpa [AccessFree] using h) x hx
    | var ns as => exact ih (by simp only [AccessFree] at h; exact h.2) x (by simpa [stmtEntries] using hx)
    | typeDef n as b => exact ih (by simp only [AccessFree] at h; exact h.2) x (by simpa [stmtEntries] using hx)
    | contains => exact ih (by simpa [AccessFree] using h) x (by simpa [stmtEntries] using hx)
    | other => exact ih (by simpa [AccessFree] using h) x (by simpa [stmtEntries] using hx)
    | iface k n ps rs => exact ih (by simpa [AccessFree] using h) x (by simpa [stmtEntries] using hx)
    | proc f n => exact ih (by simpa [AccessFree] using h) x (by simpa [stmtEntries] using hx)

theorem applyAttrs_noacc (w : List Perm) (n : Str) : ∀ (a : List (Str × Attr)) (p : Perm),
    (∀ x ∈ a, x.2 = Attr.other) → applyAttrs w n p a = p := by
  intro a
  induction a with
  | nil => intro p _; rfl
  | cons x r ih =>
    intro p h
    obtain ⟨m, att⟩ := x
    have : att = .other := h (m, att) List.mem_cons_self
    subst this
    simp only [applyAttrs]; exact ih p (fun y hy => h y (List.mem_cons_of_mem _ hy))

theorem pass_noacc (c : Cat) : ∀ (es : List Ent) (a : List (Str × Attr)), (∀ x ∈ a, x.2 = Attr.other) →
    (pass c es a).1 = es ∧ ∀ x ∈ (pass c es a).2, x.2 = Attr.other := by
  intro es
  induction es with
  | nil => intro a h; exact ⟨rfl, h⟩
  | cons e r ih =>
    intro a h
    by_cases hc : e.cat = c
    · have hf : ∀ x ∈ a.filter (fun x => x.1 ≠ e.name), x.2 = Attr.other :=
        fun x hx => h x (List.mem_filter.1 hx).1
      have := ih _ hf
      simp only [pass, hc, if_true]
      refine ⟨?_, this.2⟩
      rw [this.1, applyAttrs_noacc _ _ a _ h]
      subst hc
      rfl
    · have := ih a h
      simp only [pass, hc, if_false]
      exact ⟨by rw [this.1], this.2⟩

theorem passes_noacc : ∀ (cs : List Cat) (es : List Ent) (a : List (Str × Attr)), (∀ x ∈ a, x.2 = Attr.other) →
    (passes cs es a).1 = es := by
  intro cs
  induction cs with
  | nil => intro es a _; rfl
  | cons c cs ih =>
    intro es a h
    have := pass_noacc c es a h
    simp only [passes]
    rw [this.1]
    exact ih es _ this.2

theorem ctorPass_perm (p : Perm) (es : List Ent) (h : ∀ e ∈ es, e.perm = p) : ∀ e ∈ ctorPass es, e.perm = p := by
  intro e he
  simp only [ctorPass, List.mem_map] at he
  obtain ⟨e0, he0, rfl⟩ := he
  by_cases hc : e0.cat = .iface
  · simp only [hc, if_true]
    cases hf : es.find? (fun t => decide (t.cat = .type ∧ t.name = e0.name)) with
    | none => exact h e0 he0
    | some t => exact h t (List.mem_of_find?_eq_some hf)
  · simp only [hc, if_false]; exact h e0 he0

theorem passesAfter_noacc (es : List Ent) (a : List (Str × Attr)) (h : ∀ x ∈ a, x.2 = Attr.other) :
    (passesAfter es a).1 = es := by
  unfold passesAfter
  have h1 : es.map (fun e => if e.cat ∈ itemPasses then upd a e else e) = es := by
    conv => rhs; rw [← List.map_id es]
    apply List.map_congr_left
    intro e _
    by_cases hc : e.cat ∈ itemPasses
    · simp only [hc, if_true, id, upd, applyAttrs_noacc _ _ a _ h]
    · simp [hc]
  rw [h1]
  exact (pass_noacc .var es _ (fun x hx => h x (List.mem_filter.1 hx).1)).1

theorem passesV_noacc (v : DelOrder) (es : List Ent) (a : List (Str × Attr)) (h : ∀ x ∈ a, x.2 = Attr.other) :
    (passesV v es a).1 = es := by
  cases v with
  | perEntity => exact passes_noacc _ es a h
  | afterLoop => exact passesAfter_noacc es a h

/-! ### PROTECTED -/

theorem declPerm_prot_keep (w : List Perm) : ∀ (A : List Attr), A.filterMap accessWord = [] →
    declPerm w .prot A = .prot := by
  intro A
  induction A with
  | nil => intro _; rfl
  | cons a r ih =>
    intro h
    cases a with
    | acc q =>
      cases q with
      | pub => simp [List.filterMap, accessWord] at h
      | priv => simp [List.filterMap, accessWord] at h
      | prot =>
        simp only [List.filterMap, accessWord] at h
        simp only [declPerm, ite_self]; exact ih h
    | other =>
      simp only [List.filterMap, accessWord] at h
      simp only [declPerm]; exact ih h

theorem declPerm_prot (w : List Perm) (hw : Perm.prot ∈ w) : ∀ (A : List Attr) (inh : Perm),
    A.filterMap accessWord = [] → Attr.acc .prot ∈ A → declPerm w inh A = .prot := by
  intro A
  induction A with
  | nil => intro inh _ h; cases h
  | cons a r ih =>
    intro inh h hm
    cases a with
    | acc q =>
      cases q with
      | pub => simp [List.filterMap, accessWord] at h
      | priv => simp [List.filterMap, accessWord] at h
      | prot =>
        simp only [List.filterMap, accessWord] at h
        simp only [declPerm, hw, if_true]; exact declPerm_prot_keep w r h
    | other =>
      simp only [List.filterMap, accessWord] at h
      simp only [declPerm]
      apply ih inh h
      simpa using hm


/-! ### derived-type bodies -/

/-- the child permission after statements that contain no CONTAINS -/
def tlast (p : Perm) : List TStmt → Perm
  | [] => p
  | .bare q :: r => tlast (if q ∈ bareWords ∧ bareSetsChild then q else p) r
  | _ :: r => tlast p r

theorem tfold_nocontains (self : Perm) : ∀ (l : List TStmt) (s : TSt), TStmt.contains ∉ l →
    (l.foldl (tstep self) s).child = tlast s.child l ∧ (l.foldl (tstep self) s).incontains = s.incontains := by
  intro l
  induction l with
  | nil => intro s _; exact ⟨rfl, rfl⟩
  | cons x r ih =>
    intro s h
    simp only [List.mem_cons, not_or] at h
    have hr := h.2
    cases x with
    | contains => exact absurd rfl h.1
    | bare q =>
      by_cases hq : q ∈ bareWords ∧ bareSetsChild
      · simpa [tstep, hq, tlast] using ih { s with child := q } hr
      · simpa [tstep, hq, tlast] using ih s hr
    | comp ns as => simpa [tstep, tlast] using ih _ hr
    | bind g ns as =>
      by_cases hi : s.incontains = true
      · simpa [tstep, hi, tlast] using ih _ hr
      · simpa [tstep, hi, tlast] using ih s hr
    | other => simpa [tstep, tlast] using ih s hr

theorem tstep_mono (self : Perm) (s : TSt) (x : TStmt) :
    (∀ k ∈ s.comps, k ∈ (tstep self s x).comps) ∧ (∀ k ∈ s.binds, k ∈ (tstep self s x).binds) := by
  cases x with
  | bare q => by_cases hq : q ∈ bareWords ∧ bareSetsChild <;> simp [tstep, hq]
  | contains => by_cases hi : s.incontains = true <;> simp [tstep, hi]
  | comp ns as => exact ⟨fun k hk => by simp [tstep, hk], fun k hk => by simpa [tstep] using hk⟩
  | bind g ns as =>
    by_cases hi : s.incontains = true
    · exact ⟨fun k hk => by simpa [tstep, hi] using hk, fun k hk => by simp [tstep, hi, hk]⟩
    · simp [tstep, hi]
  | other => simp [tstep]

theorem tfold_mono (self : Perm) : ∀ (l : List TStmt) (s : TSt),
    (∀ k ∈ s.comps, k ∈ (l.foldl (tstep self) s).comps) ∧ (∀ k ∈ s.binds, k ∈ (l.foldl (tstep self) s).binds) := by
  intro l
  induction l with
  | nil => intro s; exact ⟨fun _ h => h, fun _ h => h⟩
  | cons x r ih =>
    intro s
    have h1 := tstep_mono self s x
    have h2 := ih (tstep self s x)
    exact ⟨fun k hk => h2.1 k (h1.1 k hk), fun k hk => h2.2 k (h1.2 k hk)⟩

theorem tlast_priv : ∀ (l : List TStmt) (p : Perm), (∀ q, TStmt.bare q ∈ l → q = .priv) →
    tlast p l = if TStmt.bare .priv ∈ l then .priv else p := by
  intro l
  induction l with
  | nil => intro p _; simp [tlast]
  | cons x r ih =>
    intro p h
    have hr : ∀ q, TStmt.bare q ∈ r → q = .priv := fun q hq => h q (List.mem_cons_of_mem _ hq)
    cases x with
    | bare q =>
      have : q = .priv := h q List.mem_cons_self
      subst this
      have hw : Perm.priv ∈ bareWords ∧ bareSetsChild = true := by decide
      simp only [tlast, hw, and_self, if_true, List.mem_cons, true_or]
      rw [ih .priv hr]; simp
    | contains => simp only [tlast]; rw [ih p hr]; simp
    | comp ns as => simp only [tlast]; rw [ih p hr]; simp
    | bind g ns as => simp only [tlast]; rw [ih p hr]; simp
    | other => simp only [tlast]; rw [ih p hr]; simp

theorem takeWhile_append_all {α} (p : α → Bool) : ∀ (l1 l2 : List α), (∀ a ∈ l1, p a = true) →
    (l1 ++ l2).takeWhile p = l1 ++ l2.takeWhile p := by
  intro l1
  induction l1 with
  | nil => intro l2 _; rfl
  | cons x r ih =>
    intro l2 h
    simp only [List.cons_append, List.takeWhile_cons, h x List.mem_cons_self, if_true]
    rw [ih l2 (fun a ha => h a (List.mem_cons_of_mem _ ha))]

theorem dropWhile_append_stop {α} (p : α → Bool) : ∀ (l1 : List α) (x : α) (l2 : List α),
    (∀ a ∈ l1, p a = true) → p x = false → (l1 ++ x :: l2).dropWhile p = x :: l2 := by
  intro l1
  induction l1 with
  | nil => intro x l2 _ hx; simp [List.dropWhile_cons, hx]
  | cons y r ih =>
    intro x l2 h hx
    simp only [List.cons_append, List.dropWhile_cons, h y List.mem_cons_self, if_true]
    exact ih x l2 (fun a ha => h a (List.mem_cons_of_mem _ ha)) hx

theorem ne_contains_of_not_mem {l : List TStmt} (h : TStmt.contains ∉ l) :
    ∀ a ∈ l, (decide (a ≠ TStmt.contains)) = true := by
  intro a ha
  simp only [decide_eq_true_eq]
  intro e; subst e; exact h ha

theorem partDefault_eq (l : List TStmt) : partDefault l = if TStmt.bare .priv ∈ l then .priv else .pub := by
  unfold partDefault
  by_cases h : TStmt.bare .priv ∈ l <;> simp [h]

/-- one access word at most and no PROTECTED: the attribute loop is "the access-spec, else the default" -/
theorem declPerm_spec (w : List Perm) (hu : Perm.pub ∈ w) (hr : Perm.priv ∈ w) (A : List Attr) (inh : Perm)
    (hone : (A.filterMap accessWord).length ≤ 1) (hp : Attr.acc .prot ∉ A) :
    declPerm w inh A = (explicitOf A).getD inh := by
  have := two_loops w w hu hr hu hr A [] inh (by simpa using hone) hp (by simp)
  simpa [declPerm, explicitOf] using this

/-! ### what `process_attribs` / `correlate` never touch: category, name, specific procedures -/

/-- the part of an entity that only its declaration determines -/
def skel (e : Ent) : Cat × Str × List Kid := (e.cat, e.name, e.procs)

@[simp] theorem skel_upd (a : List (Str × Attr)) (e : Ent) : skel (upd a e) = skel e := rfl

theorem pass_skel (c : Cat) : ∀ (es : List Ent) (a : List (Str × Attr)), (pass c es a).1.map skel = es.map skel := by
  intro es
  induction es with
  | nil => intro a; rfl
  | cons e r ih =>
    intro a
    by_cases hc : e.cat = c
    · simp only [pass, hc, if_true, List.map_cons, ih]
      rw [← hc]; rfl
    · simp only [pass, hc, if_false, List.map_cons, ih]

theorem passes_skel : ∀ (cs : List Cat) (es : List Ent) (a : List (Str × Attr)),
    (passes cs es a).1.map skel = es.map skel := by
  intro cs
  induction cs with
  | nil => intro es a; rfl
  | cons c cs ih => intro es a; simp only [passes]; rw [ih, pass_skel]

theorem passesV_skel (v : DelOrder) (es : List Ent) (a : List (Str × Attr)) :
    (passesV v es a).1.map skel = es.map skel := by
  cases v with
  | perEntity => exact passes_skel _ es a
  | afterLoop =>
    simp only [passesV, passesAfter]
    rw [pass_skel, List.map_map]
    apply List.map_congr_left
    intro e _
    by_cases h : e.cat ∈ itemPasses <;> simp [h]

theorem ctorPass_skel (es : List Ent) : (ctorPass es).map skel = es.map skel := by
  unfold ctorPass
  rw [List.map_map]
  apply List.map_congr_left
  intro e _
  by_cases hc : e.cat = .iface
  · simp only [Function.comp, hc, if_true]
    cases es.find? (fun t => decide (t.cat = .type ∧ t.name = e.name)) with
    | none => rfl
    | some t => simp [skel, hc]
  · simp [hc]

/-- whatever the names, the access statements and the deletion order: the entity list of the result has the
    categories, names and specific procedures the declarations created, in the same order -/
theorem runUnit_skel (v : Variant) (sub : Bool) (stmts : List Stmt) :
    (runUnit v sub stmts).ents.map skel =
      (entsFrom (init sub).perm false stmts).map (fun e => skel (specUpd v.specLoop (stmtEntries stmts) e)) := by
  have h := foldl_step stmts (init sub) rfl
  simp only [runUnit, finish, map_readKids]
  rw [ctorPass_skel, passesV_skel, h.1, h.2, List.map_map]
  simp [init, Function.comp_def]

/-! ### the repaired deletion order: every entity of the first loop sees the whole `attr_dict` -/

theorem pass_keeps_other (c : Cat) : ∀ (es : List Ent) (a : List (Str × Attr)) (e : Ent), e ∈ es → e.cat ≠ c →
    e ∈ (pass c es a).1 := by
  intro es
  induction es with
  | nil => intro a e he; cases he
  | cons x r ih =>
    intro a e he hc
    by_cases hx : x.cat = c
    · simp only [pass, hx, if_true]
      rcases List.mem_cons.1 he with rfl | he'
      · exact absurd hx hc
      · exact List.mem_cons_of_mem _ (ih _ e he' hc)
    · simp only [pass, hx, if_false]
      rcases List.mem_cons.1 he with rfl | he'
      · exact List.mem_cons_self
      · exact List.mem_cons_of_mem _ (ih _ e he' hc)

theorem passesAfter_item (es : List Ent) (a : List (Str × Attr)) (e : Ent) (he : e ∈ es) (hc : e.cat ∈ itemPasses) :
    upd a e ∈ (passesAfter es a).1 := by
  unfold passesAfter
  apply pass_keeps_other
  · exact List.mem_map.2 ⟨e, he, by simp [hc]⟩
  · intro h
    have : (upd a e).cat = e.cat := rfl
    rw [this] at h
    rw [h] at hc
    revert hc; decide

/-- every declaration statement of a unit contributes its entities (built with *some* default in force) -/
theorem mem_entsFrom : ∀ (l : List Stmt) (p0 : Perm) (inc0 : Bool) (d : Stmt), d ∈ l →
    ∃ p inc, ∀ e ∈ mkEnts p p inc d, e ∈ entsFrom p0 inc0 l := by
  intro l
  induction l with
  | nil => intro _ _ d hd; cases hd
  | cons x r ih =>
    intro p0 inc0 d hd
    rcases List.mem_cons.1 hd with rfl | hd'
    · exact ⟨p0, inc0, mkEnts_sub_entsFrom p0 inc0 d r⟩
    · have happ := entsFrom_append [x] r p0 inc0
      simp only [List.singleton_append] at happ
      obtain ⟨p, inc, h⟩ := ih (lastBare p0 [x]) (inc0 || hasContains [x]) d hd'
      exact ⟨p, inc, fun e he => by rw [happ]; exact List.mem_append_right _ (h e he)⟩

/-- repaired deletion order: every entity of the first loop that carries the name `n` ends up with the one access
    word the access statements give to `n` -/
theorem afterLoop_same_name (early spec sub : Bool) (stmts : List Stmt) (n : Str) (q : Perm)
    (hstmt : (entriesFor n (stmtEntries stmts)).filterMap accessWord = [q])
    (hprot : Attr.acc .prot ∉ entriesFor n (stmtEntries stmts)) :
    ∀ e0 : Ent, e0 ∈ entsFrom (init sub).perm false stmts → e0.cat ∈ itemPasses → e0.name = n →
      upd (stmtEntries stmts) (specUpd spec (stmtEntries stmts) e0) ∈ (runUnit ⟨.afterLoop, early, spec⟩ sub stmts).attr ∧
      (upd (stmtEntries stmts) (specUpd spec (stmtEntries stmts) e0)).perm = q := by
  have h := foldl_step stmts (init sub) rfl
  have hpre : (runUnit ⟨.afterLoop, early, spec⟩ sub stmts).attr =
      (passesAfter ((entsFrom (init sub).perm false stmts).map (specUpd spec (stmtEntries stmts))) (stmtEntries stmts)).1 := by
    simp only [runUnit, finish, passesV]
    rw [h.1, h.2]; simp [init]
  intro e0 he0 hc hn
  refine ⟨by rw [hpre]; exact passesAfter_item _ _ _ (List.mem_map.2 ⟨e0, he0, rfl⟩) (by simpa using hc), ?_⟩
  have hw : wordsFor e0.cat = applyWords := by
    have : e0.cat ≠ .var := by intro hv; rw [hv] at hc; revert hc; decide
    simp [wordsFor, this]
  simp only [upd, specUpd_cat, specUpd_name, specUpd_perm, applyAttrs_eq_declPerm, hw, hn]
  exact declPerm_one applyWords (by decide) (by decide) _ _ q hstmt hprot

/-- the constructor step: every interface named like a type ends up with the permission of a type of that name -/
theorem ctorPass_takes_type (es : List Ent) :
    ∀ g ∈ ctorPass es, g.cat = .iface → (∃ t ∈ ctorPass es, t.cat = .type ∧ t.name = g.name) →
      ∃ t ∈ ctorPass es, t.cat = .type ∧ t.name = g.name ∧ g.perm = t.perm := by
  have keep : ∀ t ∈ es, t.cat = .type → t ∈ ctorPass es := by
    intro t ht hc
    unfold ctorPass
    refine List.mem_map.2 ⟨t, ht, ?_⟩
    have : t.cat ≠ .iface := by rw [hc]; decide
    simp [this]
  have back : ∀ t ∈ ctorPass es, t.cat = .type → t ∈ es := by
    intro t ht hc
    unfold ctorPass at ht
    obtain ⟨t0, ht0, rfl⟩ := List.mem_map.1 ht
    by_cases h0 : t0.cat = .iface
    · exfalso
      simp only [h0, if_true] at hc
      cases hf : es.find? (fun t => decide (t.cat = .type ∧ t.name = t0.name)) with
      | none => rw [hf] at hc; simp only at hc; rw [h0] at hc; cases hc
      | some t1 => rw [hf] at hc; simp only at hc; cases hc
    · simpa [h0] using ht0
  intro g hg hgc ⟨t, ht, htc, htn⟩
  unfold ctorPass at hg
  obtain ⟨g0, hg0, rfl⟩ := List.mem_map.1 hg
  by_cases h0 : g0.cat = .iface
  · simp only [h0, if_true] at htn hgc ⊢
    cases hf : es.find? (fun t => decide (t.cat = .type ∧ t.name = g0.name)) with
    | none =>
      exfalso
      rw [hf] at htn; simp only at htn
      have := List.find?_eq_none.1 hf t (back t ht htc)
      simp [htc, htn] at this
    | some t1 =>
      have h1 := List.find?_some hf
      simp only [decide_eq_true_eq] at h1
      exact ⟨t1, keep t1 (List.mem_of_find?_eq_some hf) h1.1, h1.1, by simpa using h1.2, rfl⟩
  · exfalso; simp only [h0, if_false] at hgc

end Ford.Access
