import FordModel.ProcPrefix
import FordModel.Lemmas.Split
namespace Ford.ProcPrefix
open Ford

/-! ## startsWith / isInfix / removeAll across a blank -/

theorem startsWith_length : ∀ (s k : Str), startsWith s k = true → k.length ≤ s.length
  | _, [], _ => by simp
  | [], _ :: _, h => by simp [startsWith] at h
  | c :: cs, p :: ps, h => by
    simp only [startsWith, Bool.and_eq_true] at h
    have := startsWith_length cs ps h.2
    simp; omega

theorem startsWith_self : ∀ (k : Str), startsWith k k = true
  | [] => rfl
  | c :: cs => by simp [startsWith, startsWith_self cs]

/-- a keyword without blanks cannot start in one word and end in the next -/
theorem startsWith_append_blank : ∀ (k a b : Str), ' ' ∉ k →
    startsWith (a ++ ' ' :: b) k = startsWith a k
  | [], a, b, _ => by cases a <;> simp [startsWith]
  | x :: k, [], b, h => by
    have hx : (' ' == x) = false := by
      simp only [List.mem_cons, not_or] at h
      simpa using h.1
    simp [startsWith, hx]
  | x :: k, y :: a, b, h => by
    have hk : ' ' ∉ k := fun hm => h (List.mem_cons_of_mem _ hm)
    simp [startsWith, startsWith_append_blank k a b hk]

theorem startsWith_blank (k b : Str) (hne : k ≠ []) (hb : ' ' ∉ k) :
    startsWith (' ' :: b) k = false := by
  have := startsWith_append_blank k [] b hb
  simp only [List.nil_append] at this
  rw [this]
  cases k with
  | nil => exact absurd rfl hne
  | cons x k => rfl

theorem isInfix_nil (k : Str) (hne : k ≠ []) : isInfix k [] = false := by
  cases k with
  | nil => exact absurd rfl hne
  | cons x k => rfl

theorem isInfix_self (k : Str) : isInfix k k = true := by
  cases k with
  | nil => rfl
  | cons c cs => simp [isInfix, startsWith_self]

theorem isInfix_append_blank (k : Str) (hne : k ≠ []) (hb : ' ' ∉ k) (b : Str) :
    ∀ a : Str, isInfix k (a ++ ' ' :: b) = (isInfix k a || isInfix k b)
  | [] => by
    simp [isInfix, startsWith_blank k b hne hb, hne]
  | y :: a => by
    have h1 := startsWith_append_blank k (y :: a) b hb
    simp only [List.cons_append] at h1
    simp [isInfix, h1, isInfix_append_blank k hne hb b a, Bool.or_assoc]

theorem removeGo_short (k : Str) : ∀ (s : Str) (n : Nat), s.length ≤ n → removeGo k n s = []
  | [], n, _ => by cases n <;> simp [removeGo]
  | c :: cs, 0, h => by simp at h
  | c :: cs, n + 1, h => by
    simp only [removeGo]
    exact removeGo_short k cs n (by simp at h; omega)

theorem removeGo_append_blank (k : Str) (hne : k ≠ []) (hb : ' ' ∉ k) (b : Str) :
    ∀ (a : Str) (skip : Nat), skip ≤ a.length →
      removeGo k skip (a ++ ' ' :: b) = removeGo k skip a ++ ' ' :: removeGo k 0 b
  | [], skip, h => by
    have h0 : skip = 0 := by simpa using h
    subst h0
    simp [removeGo, startsWith_blank k b hne hb]
  | c :: a, skip + 1, h => by
    simp only [List.cons_append, removeGo]
    exact removeGo_append_blank k hne hb b a skip (by simp at h; omega)
  | c :: a, 0, _ => by
    have h1 := startsWith_append_blank k (c :: a) b hb
    simp only [List.cons_append] at h1
    simp only [List.cons_append, removeGo, h1]
    by_cases hs : startsWith (c :: a) k = true
    · have hl := startsWith_length _ _ hs
      simp only [hs, if_true]
      exact removeGo_append_blank k hne hb b a (k.length - 1) (by simp at hl; omega)
    · simp only [hs, Bool.false_eq_true, if_false, List.cons_append]
      rw [removeGo_append_blank k hne hb b a 0 (by omega)]

theorem removeAll_append_blank (k : Str) (hne : k ≠ []) (hb : ' ' ∉ k) (a b : Str) :
    removeAll k (a ++ ' ' :: b) = removeAll k a ++ ' ' :: removeAll k b :=
  removeGo_append_blank k hne hb b a 0 (by omega)

theorem removeAll_not_infix (k : Str) : ∀ w : Str, isInfix k w = false → removeAll k w = w
  | [], _ => rfl
  | c :: cs, h => by
    simp only [isInfix, Bool.or_eq_false_iff] at h
    have ih := removeAll_not_infix k cs h.2
    simp only [removeAll] at ih
    simp [removeAll, removeGo, h.1, ih]

theorem removeAll_self (k : Str) (hne : k ≠ []) : removeAll k k = [] := by
  cases k with
  | nil => exact absurd rfl hne
  | cons c cs =>
    simp only [removeAll, removeGo, startsWith_self, if_true]
    exact removeGo_short _ cs _ (by simp)

theorem removeAll_nil (k : Str) : removeAll k [] = [] := rfl

/-! ## over a list of blank-separated words -/

theorem isInfix_joinSep (k : Str) (hne : k ≠ []) (hb : ' ' ∉ k) :
    ∀ ws : List Str, isInfix k (joinSep ' ' ws) = ws.any (isInfix k)
  | [] => by simp [joinSep, isInfix_nil k hne]
  | [x] => by simp [joinSep]
  | x :: y :: r => by
    simp only [joinSep, isInfix_append_blank k hne hb, List.any_cons]
    rw [isInfix_joinSep k hne hb (y :: r)]
    simp

theorem removeAll_joinSep (k : Str) (hne : k ≠ []) (hb : ' ' ∉ k) :
    ∀ ws : List Str, removeAll k (joinSep ' ' ws) = joinSep ' ' (ws.map (removeAll k))
  | [] => rfl
  | [x] => by simp [joinSep]
  | x :: y :: r => by
    simp only [joinSep, List.map_cons, removeAll_append_blank k hne hb]
    rw [removeAll_joinSep k hne hb (y :: r)]
    simp [joinSep]

theorem lower_joinSep : ∀ ws : List Str, lower (joinSep ' ' ws) = joinSep ' ' (ws.map lower)
  | [] => rfl
  | [x] => by simp [joinSep]
  | x :: y :: r => by
    have ih := lower_joinSep (y :: r)
    simp only [lower] at ih
    simp only [joinSep, lower, List.map_append, List.map_cons, ih]
    congr 1

theorem dropBlanks_joinSep : ∀ ws : List Str, dropBlanks (joinSep ' ' ws) = (ws.map dropBlanks).flatten
  | [] => rfl
  | [x] => by simp [joinSep]
  | x :: y :: r => by
    have ih := dropBlanks_joinSep (y :: r)
    simp only [dropBlanks] at ih
    simp [joinSep, dropBlanks, ih]

/-! ## the loop over a sound table -/

theorem orderSound_cons {k : Str} {ks : List Str} (h : orderSound (k :: ks) = true) :
    k ≠ [] ∧ ' ' ∉ k ∧ (∀ k' ∈ ks, isInfix k k' = false) ∧ orderSound ks = true := by
  simp only [orderSound, Bool.and_eq_true, Bool.not_eq_true', List.all_eq_true] at h
  obtain ⟨⟨⟨h1, h2⟩, h3⟩, h4⟩ := h
  refine ⟨?_, ?_, ?_, h4⟩
  · intro hk; subst hk; simp at h1
  · intro hm; simp [List.contains_iff_mem, hm] at h2
  · intro k' hk'; simpa using h3 k' hk'

theorem orderSound_ne_nil : ∀ {ks : List Str}, orderSound ks = true → ∀ k ∈ ks, k ≠ []
  | [], _, k, hk => by simp at hk
  | k0 :: ks, h, k, hk => by
    obtain ⟨h1, _, _, h4⟩ := orderSound_cons h
    rcases List.mem_cons.mp hk with rfl | hk
    · exact h1
    · exact orderSound_ne_nil h4 k hk

/-- The words of the prefix: each one is empty, a keyword of the table, or contains no keyword at all.
    Then the substring loop over a sound table reports exactly the keywords that were written (in table
    order) and leaves every other word as it is. -/
theorem attrsGo_words : ∀ (ks : List Str), orderSound ks = true → ∀ (ws : List Str),
    (∀ w ∈ ws, w = [] ∨ w ∈ ks ∨ noKeyword ks w = true) →
    attrsGo ks (joinSep ' ' ws) =
      (ks.filter (fun k => decide (k ∈ ws)),
       joinSep ' ' (ws.map (fun w => if w ∈ ks then [] else w)))
  | [], _, ws, _ => by simp [attrsGo]
  | k :: ks, hs, ws, hw => by
    obtain ⟨hne, hb, hlater, hs'⟩ := orderSound_cons hs
    -- each word contains `k` only if it is `k`
    have hword : ∀ w ∈ ws, isInfix k w = decide (w = k) := by
      intro w hwm
      rcases hw w hwm with h | h | h
      · subst h
        have : ([] : Str) ≠ k := fun e => hne e.symm
        simp [isInfix_nil k hne, this]
      · rcases List.mem_cons.mp h with h | h
        · subst h; simp [isInfix_self]
        · have h1 := hlater w h
          have : w ≠ k := by
            intro e; subst e; rw [isInfix_self] at h1; cases h1
          simp [h1, this]
      · have h1 : isInfix k w = false := by
          simp only [noKeyword, List.all_eq_true, Bool.not_eq_true'] at h
          exact h k (List.mem_cons_self ..)
        have : w ≠ k := by
          intro e; subst e; rw [isInfix_self] at h1; cases h1
        simp [h1, this]
    have hany : isInfix k (joinSep ' ' ws) = decide (k ∈ ws) := by
      rw [isInfix_joinSep k hne hb]
      by_cases hm : k ∈ ws
      · simp only [hm, decide_true, List.any_eq_true]
        exact ⟨k, hm, isInfix_self k⟩
      · simp only [hm, decide_false]
        rw [Bool.eq_false_iff]
        intro hc
        obtain ⟨w, hwm, hi⟩ := List.any_eq_true.mp hc
        rw [hword w hwm] at hi
        have : w = k := by simpa using hi
        exact hm (this ▸ hwm)
    have hknot : k ∉ ks := by
      intro hm
      have := hlater k hm
      rw [isInfix_self] at this; cases this
    by_cases hm : k ∈ ws
    · -- found: removed from every word
      have hrem : ws.map (removeAll k) = ws.map (fun w => if w = k then [] else w) := by
        apply List.map_congr_left
        intro w hwm
        by_cases e : w = k
        · subst e; simp [removeAll_self w hne]
        · have : isInfix k w = false := by rw [hword w hwm]; simp [e]
          simp [e, removeAll_not_infix k w this]
      have hw' : ∀ w ∈ ws.map (fun w => if w = k then [] else w),
          w = [] ∨ w ∈ ks ∨ noKeyword ks w = true := by
        intro w' hm'
        obtain ⟨w, hwm, rfl⟩ := List.mem_map.mp hm'
        by_cases e : w = k
        · simp [e]
        · simp only [e, if_false]
          rcases hw w hwm with h | h | h
          · exact Or.inl h
          · rcases List.mem_cons.mp h with h | h
            · exact absurd h e
            · exact Or.inr (Or.inl h)
          · right; right
            simp only [noKeyword, List.all_cons, Bool.and_eq_true] at h
            exact h.2
      have ih := attrsGo_words ks hs' _ hw'
      simp only [attrsGo, hany, hm, decide_true, if_true]
      rw [removeAll_joinSep k hne hb, hrem, ih]
      have hf : ks.filter (fun k' => decide (k' ∈ ws.map (fun w => if w = k then [] else w))) =
          ks.filter (fun k' => decide (k' ∈ ws)) := by
        apply List.filter_congr
        intro k' hk'
        have hk'ne : k' ≠ [] := orderSound_ne_nil hs' k' hk'
        have hk'k : k' ≠ k := fun e => hknot (e ▸ hk')
        congr 1
        apply propext
        constructor
        · intro h
          obtain ⟨w, hwm, hwe⟩ := List.mem_map.mp h
          by_cases e : w = k
          · rw [if_pos e] at hwe; exact absurd hwe.symm hk'ne
          · rw [if_neg e] at hwe; exact hwe ▸ hwm
        · intro h
          exact List.mem_map.mpr ⟨k', h, by simp [hk'k]⟩
      have hmap : (ws.map (fun w => if w = k then [] else w)).map (fun w => if w ∈ ks then [] else w) =
          ws.map (fun w => if w ∈ k :: ks then [] else w) := by
        rw [List.map_map]
        apply List.map_congr_left
        intro w _
        by_cases e : w = k
        · simp [e]
        · simp [e]
      rw [hf, hmap, List.filter_cons]
      simp [hm]
    · -- not found: nothing changes
      have hw' : ∀ w ∈ ws, w = [] ∨ w ∈ ks ∨ noKeyword ks w = true := by
        intro w hwm
        have e : w ≠ k := fun e => hm (e ▸ hwm)
        rcases hw w hwm with h | h | h
        · exact Or.inl h
        · rcases List.mem_cons.mp h with h | h
          · exact absurd h e
          · exact Or.inr (Or.inl h)
        · right; right
          simp only [noKeyword, List.all_cons, Bool.and_eq_true] at h
          exact h.2
      have ih := attrsGo_words ks hs' ws hw'
      simp only [attrsGo, hany, hm, decide_false, Bool.false_eq_true, if_false]
      rw [ih]
      have hmap : ws.map (fun w => if w ∈ ks then [] else w) =
          ws.map (fun w => if w ∈ k :: ks then [] else w) := by
        apply List.map_congr_left
        intro w hwm
        have e : w ≠ k := fun e => hm (e ▸ hwm)
        simp [e]
      rw [hmap, List.filter_cons]
      simp [hm]

/-! ## the word variant -/

theorem attrsWordsGo_eq : ∀ (ks ws : List Str), ks.Nodup →
    attrsWordsGo ks ws = (ks.filter (fun k => decide (k ∈ ws)), ws.filter (fun w => decide (w ∉ ks)))
  | [], ws, _ => by
    simp only [attrsWordsGo, List.filter_nil, List.not_mem_nil, not_false_eq_true, decide_true]
    exact Prod.ext rfl (List.filter_eq_self.mpr (by simp)).symm
  | k :: ks, ws, hn => by
    have hknot : k ∉ ks := (List.nodup_cons.mp hn).1
    have hn' := (List.nodup_cons.mp hn).2
    by_cases hm : k ∈ ws
    · have hc : ws.contains k = true := by simpa using hm
      simp only [attrsWordsGo, hc, if_true]
      rw [attrsWordsGo_eq ks _ hn']
      have hf : ks.filter (fun k' => decide (k' ∈ ws.filter (· != k))) = ks.filter (fun k' => decide (k' ∈ ws)) := by
        apply List.filter_congr
        intro k' hk'
        have : k' ≠ k := fun e => hknot (e ▸ hk')
        simp [List.mem_filter, this]
      refine Prod.ext ?_ ?_
      · simp only [List.filter_cons, hm, decide_true, if_true]
        rw [hf]
      · simp only [List.filter_filter]
        apply List.filter_congr
        intro w _
        by_cases e : w = k <;> simp [e]
    · have hc : ws.contains k = false := by simpa using hm
      simp only [attrsWordsGo, hc, Bool.false_eq_true, if_false]
      rw [attrsWordsGo_eq ks ws hn']
      refine Prod.ext ?_ ?_
      · simp [List.filter_cons, hm]
      · apply List.filter_congr
        intro w hwm
        have e : w ≠ k := fun e => hm (e ▸ hwm)
        simp [e]

/-- a well-formed chunk followed by a blank is one piece of `paren_split(" ", ...)` -/
theorem psplitAux_chunk_blank (rest : Str) : ∀ (w : Str) (lv bl : Int) (cur : Str),
    chunkOk w lv bl = true →
    psplitAux ' ' (w ++ ' ' :: rest) lv bl cur = (cur.reverse ++ w) :: psplitAux ' ' rest 0 0 []
  | [], lv, bl, cur, h => by
    simp only [chunkOk, Bool.and_eq_true, beq_iff_eq] at h
    obtain ⟨h1, h2⟩ := h
    subst h1; subst h2
    simp [psplitAux]
  | c :: w, lv, bl, cur, h => by
    simp only [chunkOk] at h
    simp only [List.cons_append, psplitAux]
    split
    · rename_i hc; simp only [hc, if_true] at h
      rw [psplitAux_chunk_blank rest w _ _ _ h]; simp
    · rename_i hc; simp only [hc, if_false] at h
      split
      · rename_i hc2; simp only [hc2, if_true] at h
        rw [psplitAux_chunk_blank rest w _ _ _ h]; simp
      · rename_i hc2; simp only [hc2, if_false] at h
        split
        · rename_i hc3; simp only [hc3, if_true] at h
          rw [psplitAux_chunk_blank rest w _ _ _ h]; simp
        · rename_i hc3; simp only [hc3, if_false] at h
          split
          · rename_i hc4; simp only [hc4, if_true] at h
            rw [psplitAux_chunk_blank rest w _ _ _ h]; simp
          · rename_i hc4; simp only [hc4, if_false] at h
            split
            · rename_i hc5; simp only [hc5, if_true] at h; cases h
            · rename_i hc5; simp only [hc5, if_false] at h
              rw [psplitAux_chunk_blank rest w _ _ _ h]; simp

theorem psplitAux_chunk_end : ∀ (w : Str) (lv bl : Int) (cur : Str),
    chunkOk w lv bl = true → psplitAux ' ' w lv bl cur = [cur.reverse ++ w]
  | [], lv, bl, cur, _ => by simp [psplitAux]
  | c :: w, lv, bl, cur, h => by
    simp only [chunkOk] at h
    simp only [psplitAux]
    split
    · rename_i hc; simp only [hc, if_true] at h
      rw [psplitAux_chunk_end w _ _ _ h]; simp
    · rename_i hc; simp only [hc, if_false] at h
      split
      · rename_i hc2; simp only [hc2, if_true] at h
        rw [psplitAux_chunk_end w _ _ _ h]; simp
      · rename_i hc2; simp only [hc2, if_false] at h
        split
        · rename_i hc3; simp only [hc3, if_true] at h
          rw [psplitAux_chunk_end w _ _ _ h]; simp
        · rename_i hc3; simp only [hc3, if_false] at h
          split
          · rename_i hc4; simp only [hc4, if_true] at h
            rw [psplitAux_chunk_end w _ _ _ h]; simp
          · rename_i hc4; simp only [hc4, if_false] at h
            split
            · rename_i hc5; simp only [hc5, if_true] at h; cases h
            · rename_i hc5; simp only [hc5, if_false] at h
              rw [psplitAux_chunk_end w _ _ _ h]; simp

/-- `paren_split(" ", " ".join(chunks)) == chunks` for well-formed chunks -/
theorem parenSplit_joinSep : ∀ (ws : List Str), ws ≠ [] → (∀ w ∈ ws, chunkOk w 0 0 = true) →
    parenSplit ' ' (joinSep ' ' ws) = ws
  | [], h, _ => absurd rfl h
  | [x], _, hw => by
    simp only [joinSep, parenSplit]
    rw [psplitAux_chunk_end x 0 0 [] (hw x (by simp))]; simp
  | x :: y :: r, _, hw => by
    have ih := parenSplit_joinSep (y :: r) (by simp) (fun w hm => hw w (by simp [hm]))
    simp only [parenSplit] at ih
    simp only [joinSep, parenSplit]
    rw [psplitAux_chunk_blank _ x 0 0 [] (hw x (by simp)), ih]; simp

theorem chunkOk_no_blank (w : Str) (h : ' ' ∉ w) (hp : ∀ c ∈ w, c ≠ '(' ∧ c ≠ ')' ∧ c ≠ '[' ∧ c ≠ ']') :
    chunkOk w 0 0 = true := by
  induction w with
  | nil => rfl
  | cons c w ih =>
    have hc := hp c (by simp)
    have hb : c ≠ ' ' := fun e => h (by simp [e])
    have hb' : (c == ' ') = false := by simpa using hb
    simp only [chunkOk, beq_iff_eq, hc.1, hc.2.1, hc.2.2.1, hc.2.2.2, hb', if_false, Bool.false_and,
      Bool.false_eq_true]
    exact ih (fun hm => h (List.mem_cons_of_mem _ hm)) (fun d hd => hp d (List.mem_cons_of_mem _ hd))

theorem mem_joinSep (c : Char) : ∀ ws : List Str, c ∈ joinSep ' ' ws → c = ' ' ∨ ∃ w ∈ ws, c ∈ w
  | [], h => by simp [joinSep] at h
  | [x], h => by simp only [joinSep] at h; exact Or.inr ⟨x, by simp, h⟩
  | x :: y :: r, h => by
    simp only [joinSep, List.mem_append, List.mem_cons] at h
    rcases h with h | h | h
    · exact Or.inr ⟨x, by simp, h⟩
    · exact Or.inl h
    · rcases mem_joinSep c (y :: r) h with h | ⟨w, hw, hc⟩
      · exact Or.inl h
      · exact Or.inr ⟨w, List.mem_cons_of_mem _ hw, hc⟩

theorem tabsToBlanks_id (s : Str) (h : '\t' ∉ s) : tabsToBlanks s = s := by
  induction s with
  | nil => rfl
  | cons c s ih =>
    have hc : (c == '\t') = false := by
      have : c ≠ '\t' := fun e => h (by simp [e])
      simpa using this
    have := ih (fun hm => h (List.mem_cons_of_mem _ hm))
    simp only [tabsToBlanks] at this
    simp only [tabsToBlanks, List.map_cons, hc, Bool.false_eq_true, if_false, this]

theorem tabsToBlanks_joinSep (ws : List Str) (h : ∀ w ∈ ws, '\t' ∉ w) :
    tabsToBlanks (joinSep ' ' ws) = joinSep ' ' ws := by
  apply tabsToBlanks_id
  intro hm
  rcases mem_joinSep _ ws hm with h1 | ⟨w, hw, hc⟩
  · cases h1
  · exact h w hw hc

theorem dropBlanks_flatten (l : List Str) : dropBlanks l.flatten = (l.map dropBlanks).flatten := by
  induction l with
  | nil => rfl
  | cons x l ih =>
    simp only [dropBlanks] at ih
    simp [dropBlanks, ih]

theorem flatten_map_ite (p : Str → Bool) (f : Str → Str) : ∀ ws : List Str,
    (ws.map (fun w => if p w = true then [] else f w)).flatten = ((ws.filter (fun w => !p w)).map f).flatten
  | [] => rfl
  | w :: ws => by
    by_cases h : p w = true
    · simp [h, flatten_map_ite p f ws]
    · simp [h, flatten_map_ite p f ws]

/-! ## the argument list -/

theorem splitCommas_ne_nil : ∀ s : Str, splitCommas s ≠ []
  | [] => by simp [splitCommas]
  | c :: cs => by
    simp only [splitCommas]
    split
    · simp
    · split <;> simp

theorem splitCommas_plain : ∀ n : Str, ',' ∉ n → splitCommas n = [n]
  | [], _ => rfl
  | c :: cs, h => by
    have hc : (c == ',') = false := by
      have : c ≠ ',' := fun e => h (by simp [e])
      simpa using this
    have ih := splitCommas_plain cs (fun hm => h (List.mem_cons_of_mem _ hm))
    simp [splitCommas, hc, ih]

theorem splitCommas_append : ∀ (n r : Str), ',' ∉ n → splitCommas (n ++ ',' :: r) = n :: splitCommas r
  | [], r, _ => by simp [splitCommas]
  | c :: cs, r, h => by
    have hc : (c == ',') = false := by
      have : c ≠ ',' := fun e => h (by simp [e])
      simpa using this
    have ih := splitCommas_append cs r (fun hm => h (List.mem_cons_of_mem _ hm))
    simp [splitCommas, hc, ih]

theorem lstrip_noSpace (n : Str) (h : ∀ c ∈ n, isSpace c = false) : lstrip n = n := by
  cases n with
  | nil => rfl
  | cons c cs => exact lstrip_of_not_space c cs (h c (by simp))

theorem strip_noSpace (n : Str) (h : ∀ c ∈ n, isSpace c = false) : strip n = n := by
  have hr : ∀ c ∈ n.reverse, isSpace c = false := fun c hc => h c (by simpa using hc)
  simp [strip, rstrip, lstrip_noSpace n h, lstrip_noSpace _ hr]

theorem strip_blank_noSpace (n : Str) (h : ∀ c ∈ n, isSpace c = false) : strip (' ' :: n) = n := by
  have : lstrip (' ' :: n) = n := by simp [lstrip, isSpace, lstrip_noSpace n h]
  have hr : ∀ c ∈ n.reverse, isSpace c = false := fun c hc => h c (by simpa using hc)
  simp [strip, rstrip, this, lstrip_noSpace _ hr]

theorem argOk_spec {n : Str} (h : argOk n = true) : n ≠ [] ∧ ',' ∉ n ∧ ∀ c ∈ n, isSpace c = false := by
  simp only [argOk, Bool.and_eq_true, Bool.not_eq_true', List.all_eq_true, bne_iff_ne, ne_eq] at h
  refine ⟨?_, ?_, ?_⟩
  · intro e; subst e; simp at h
  · intro hm; exact (h.2 ',' hm).1 rfl
  · intro c hc; exact (h.2 c hc).2

/-- `", ".join(names)` split at the commas: the names, all but the first with a blank in front -/
theorem splitCommas_joinStr : ∀ (x : Str) (r : List Str), (∀ n ∈ x :: r, ',' ∉ n) →
    splitCommas (joinStr [',', ' '] (x :: r)) = x :: r.map (' ' :: ·)
  | x, [], h => by simp [joinStr, splitCommas_plain x (h x (by simp))]
  | x, y :: r, h => by
    have ih := splitCommas_joinStr y r (fun n hn => h n (List.mem_cons_of_mem _ hn))
    have hx := h x (by simp)
    simp only [joinStr, List.append_assoc, List.cons_append, List.nil_append]
    rw [splitCommas_append x _ hx]
    simp only [splitCommas, show ((' ' : Char) == ',') = false by decide, Bool.false_eq_true, if_false, ih]
    simp

theorem strip_joinStr_names : ∀ (x : Str) (r : List Str), (∀ n ∈ x :: r, argOk n = true) →
    strip (joinStr [',', ' '] (x :: r)) = joinStr [',', ' '] (x :: r) := by
  intro x r h
  -- first and last character are characters of a name
  have hx := argOk_spec (h x (by simp))
  obtain ⟨c, cs, hc⟩ : ∃ c cs, x = c :: cs := by
    cases x with
    | nil => exact absurd rfl hx.1
    | cons c cs => exact ⟨c, cs, rfl⟩
  have hhead : ∃ t, joinStr [',', ' '] (x :: r) = c :: t := by
    cases r with
    | nil => exact ⟨cs, by simp [joinStr, hc]⟩
    | cons y r => exact ⟨cs ++ ',' :: ' ' :: joinStr [',', ' '] (y :: r), by simp [joinStr, hc]⟩
  have hlast : ∀ (x : Str) (r : List Str), (∀ n ∈ x :: r, argOk n = true) →
      ∃ t d, joinStr [',', ' '] (x :: r) = t ++ [d] ∧ isSpace d = false := by
    intro x r
    induction r generalizing x with
    | nil =>
      intro h
      have hx := argOk_spec (h x (by simp))
      have hne : x ≠ [] := hx.1
      refine ⟨x.dropLast, x.getLast hne, ?_, ?_⟩
      · simp [joinStr, List.dropLast_concat_getLast]
      · exact hx.2.2 _ (List.getLast_mem hne)
    | cons y r ih =>
      intro h
      obtain ⟨t, d, ht, hd⟩ := ih y (fun n hn => h n (List.mem_cons_of_mem _ hn))
      exact ⟨x ++ [',', ' '] ++ t, d, by simp [joinStr, ht], hd⟩
  obtain ⟨t, ht⟩ := hhead
  obtain ⟨u, d, hu, hd⟩ := hlast x r h
  have hcs : isSpace c = false := hx.2.2 c (by simp [hc])
  have h1 : lstrip (joinStr [',', ' '] (x :: r)) = joinStr [',', ' '] (x :: r) := by
    rw [ht]; exact lstrip_of_not_space c t hcs
  have h2 : lstrip (joinStr [',', ' '] (x :: r)).reverse = (joinStr [',', ' '] (x :: r)).reverse := by
    rw [hu]; simp only [List.reverse_append, List.reverse_cons, List.reverse_nil, List.nil_append,
      List.cons_append]
    exact lstrip_of_not_space d _ hd
  simp [strip, rstrip, h1, h2]

/-- the argument names of the heading are the names written between the parentheses of the statement -/
theorem procArgs_names (names : List Str) (h : ∀ n ∈ names, argOk n = true) :
    procArgs ('(' :: joinStr [',', ' '] names ++ [')']) = names := by
  cases names with
  | nil => simp [procArgs, joinStr, strip, rstrip, lstrip, splitCommas]
  | cons x r =>
    have hcomma : ∀ n ∈ x :: r, ',' ∉ n := fun n hn => (argOk_spec (h n hn)).2.1
    have hd : (List.drop 1 ('(' :: joinStr [',', ' '] (x :: r) ++ [')'])).dropLast = joinStr [',', ' '] (x :: r) := by
      simp
    simp only [procArgs]
    rw [hd, strip_joinStr_names x r h, splitCommas_joinStr x r hcomma]
    have hx := argOk_spec (h x (by simp))
    have hmap : (x :: r.map (' ' :: ·)).map strip = x :: r := by
      simp only [List.map_cons, strip_noSpace x hx.2.2, List.map_map]
      congr 1
      have : ∀ n ∈ r, (strip ∘ (' ' :: ·)) n = n := fun n hn =>
        strip_blank_noSpace n (argOk_spec (h n (List.mem_cons_of_mem _ hn))).2.2
      exact (List.map_congr_left this).trans (List.map_id' r)
    rw [hmap]
    apply List.filter_eq_self.mpr
    intro n hn
    have := (argOk_spec (h n hn)).1
    cases n with
    | nil => exact absurd rfl this
    | cons _ _ => rfl

end Ford.ProcPrefix
