/-
  Lemmas about the `include` queue of `FortranReader` (model: FordModel/Include.lean).
-/
import FordModel.Include
namespace Ford.Include
open Ford TypeSpec

/-- What Fortran's INCLUDE means for one statement of the queue: an include statement stands for the
    items of the file it names; every other statement (and an include of a missing `.h` file, which
    FORD keeps with a warning) stands for itself. -/
def expand1 (loose : Bool) (resolve : Str → Res) (p : Str) : List Str :=
  match look loose resolve p with
  | .splice l => l
  | _ => [p]

/-- The statement can be dealt with at all: looking the file up does not fail, and - as the code
    stands (`guarded = false`, finding C02-include-without-statements) - the file gives at least one item. -/
def Expandable (guarded loose : Bool) (resolve : Str → Res) (p : Str) : Prop :=
  match look loose resolve p with
  | .fail _ => False
  | .splice [] => guarded = true
  | _ => True

instance (guarded loose : Bool) (resolve : Str → Res) (p : Str) : Decidable (Expandable guarded loose resolve p) := by
  unfold Expandable; split <;> infer_instance

theorem drain_eq_flatMap (c : Cfg) (resolve : Str → Res) (h1 : c.incPrologue = true)
    (h2 : c.incEpilogue = true) (pending : List Str) (mode : Pop) (hm : mode ≠ .blind)
    (h : ∀ p ∈ pending, Expandable c.guarded c.kwLoose resolve p) :
    drain c resolve mode pending = .ok (pending.flatMap (expand1 c.kwLoose resolve)) := by
  induction pending generalizing mode with
  | nil => cases mode <;> simp_all [drain]
  | cons p rest ih =>
    have hp : Expandable c.guarded c.kwLoose resolve p := h p (by simp)
    have hr : ∀ q ∈ rest, Expandable c.guarded c.kwLoose resolve q := fun q hq => h q (by simp [hq])
    have ihp := ih .prologue (by decide) hr
    have ihe := ih .epilogue (by decide) hr
    unfold Expandable at hp
    cases mode with
    | blind => exact absurd rfl hm
    | epilogue =>
      simp only [drain, h2, ↓reduceIte, List.flatMap_cons, expand1]
      split at hp
      · exact hp.elim
      · next hl => simp [hl, hp, ihe]
      · next hl1 hl2 =>
        cases hl : look c.kwLoose resolve p with
        | keep => simp [ihp, Except.map]
        | fail e => exact absurd hl (hl1 e)
        | splice l =>
          cases l with
          | nil => exact absurd hl hl2
          | cons x l => simp [ihp, Except.map]
    | prologue =>
      simp only [drain, h1, ↓reduceIte, List.flatMap_cons, expand1]
      split at hp
      · exact hp.elim
      · next hl => simp [hl, hp, ihp]
      · next hl1 hl2 =>
        cases hl : look c.kwLoose resolve p with
        | keep => simp [ihp, Except.map]
        | fail e => exact absurd hl (hl1 e)
        | splice l =>
          cases l with
          | nil => exact absurd hl hl2
          | cons x l => simp [ihp, Except.map]

/-- two stretches of the queue drained one after the other give what the whole queue gives -/
theorem drain_append (c : Cfg) (resolve : Str → Res) (h1 : c.incPrologue = true)
    (h2 : c.incEpilogue = true) (a b : List Str)
    (ha : ∀ p ∈ a, Expandable c.guarded c.kwLoose resolve p) (hb : ∀ p ∈ b, Expandable c.guarded c.kwLoose resolve p) :
    drain c resolve .epilogue (a ++ b) =
      (do let x ← drain c resolve .epilogue a; let y ← drain c resolve .epilogue b; pure (x ++ y)) := by
  rw [drain_eq_flatMap c resolve h1 h2 (a ++ b) .epilogue (by decide)
        (fun p hp => by rcases List.mem_append.1 hp with h | h; exact ha p h; exact hb p h),
      drain_eq_flatMap c resolve h1 h2 a .epilogue (by decide) ha,
      drain_eq_flatMap c resolve h1 h2 b .epilogue (by decide) hb]
  simp [List.flatMap_append, bind, Except.bind, pure, Except.pure]

/-- a queue without include statements is returned as it is, wherever `include()` is called -/
theorem drain_no_include (c : Cfg) (resolve : Str → Res) (pending : List Str) (mode : Pop)
    (hm : mode ≠ .blind) (h : ∀ p ∈ pending, isIncludeStmt c.kwLoose p = false) :
    drain c resolve mode pending = .ok pending := by
  induction pending generalizing mode with
  | nil => cases mode <;> simp_all [drain]
  | cons p rest ih =>
    have hp : look c.kwLoose resolve p = .keep := by simp [look, h p (by simp)]
    have ihp := ih .prologue (by decide) (fun q hq => h q (by simp [hq]))
    cases mode with
    | blind => exact absurd rfl hm
    | epilogue => by_cases hc : c.incEpilogue = true <;> simp [drain, hc, hp, ihp, Except.map]
    | prologue => by_cases hc : c.incPrologue = true <;> simp [drain, hc, hp, ihp, Except.map]

theorem lstrip_blank_append (ws : Str) (c : Char) (t : Str) (hws : isBlank ws = true)
    (hc : isSpace c = false) : lstrip (ws ++ c :: t) = c :: t := by
  induction ws with
  | nil => simp [lstrip, hc]
  | cons w ws ih =>
    simp [isBlank] at hws
    simp [lstrip, hws.1]
    exact ih (by simp [isBlank]; exact hws.2)

theorem rstrip_snoc (s : Str) (c : Char) (hc : isSpace c = false) : rstrip (s ++ [c]) = s ++ [c] := by
  simp [rstrip, lstrip, hc]

theorem name_between_quotes (n : Nat) (kw ws name : Str) (q : Char) (hk : kw.length = n)
    (hws : isBlank ws = true) (hq : isQuote q = true) :
    ((strip ((kw ++ ws ++ q :: name ++ [q]).drop n)).drop 1).dropLast = name := by
  have hsp : isSpace q = false := by
    simp [isQuote] at hq
    rcases hq with h | h <;> subst h <;> decide
  have e1 : (kw ++ ws ++ q :: name ++ [q]).drop n = ws ++ q :: (name ++ [q]) := by
    rw [List.append_assoc, List.append_assoc, List.drop_append_of_le_length (by omega), ← hk]
    simp
  have e2 : strip (ws ++ q :: (name ++ [q])) = q :: (name ++ [q]) := by
    unfold strip
    rw [lstrip_blank_append ws q _ hws hsp]
    have := rstrip_snoc (q :: name) q hsp
    simpa using this
  rw [e1, e2]
  show (name ++ [q]).dropLast = name
  simp

theorem lower_append (a b : Str) : lower (a ++ b) = lower a ++ lower b := by simp [lower]

theorem startsWith_append_self (p r : Str) : startsWith (p ++ r) p = true := by
  induction p with
  | nil => cases r <;> rfl
  | cons c cs ih => simp [startsWith, ih]

/-- `include` (any capitalisation), a blank, any further blanks, the name between two equal quote
    characters: an include statement in both variants of the recognition, and the name looked up is
    the text between the delimiters, whatever characters it is made of -/
theorem include_stmt_name (loose : Bool) (kw ws name : Str) (q : Char) (hk : lower kw = chars! "include")
    (hws : isBlank ws = true) (hq : isQuote q = true) :
    isIncludeStmt loose (kw ++ ' ' :: ws ++ q :: name ++ [q]) = true ∧
    includeName loose (kw ++ ' ' :: ws ++ q :: name ++ [q]) = name := by
  have hlen : kw.length = 7 := by
    have := congrArg List.length hk
    simpa [lower] using this
  have hws' : isBlank (' ' :: ws) = true := by
    simp only [isBlank, List.all_cons] at hws ⊢
    simp [hws]
    decide
  cases loose with
  | false =>
    constructor
    · have e : lower (kw ++ ' ' :: ws ++ q :: name ++ [q]) = chars! "include " ++ lower (ws ++ q :: name ++ [q]) := by
        rw [show kw ++ ' ' :: ws ++ q :: name ++ [q] = kw ++ ([' '] ++ (ws ++ q :: name ++ [q])) by simp,
          lower_append, lower_append, hk]
        rfl
      simp only [isIncludeStmt, Bool.false_eq_true, ↓reduceIte, e]
      exact startsWith_append_self _ _
    · have := name_between_quotes 8 (kw ++ [' ']) ws name q (by simp [hlen]) hws hq
      simpa [includeName] using this
  | true =>
    constructor
    · have e : lower (kw ++ ' ' :: ws ++ q :: name ++ [q]) = chars! "include" ++ lower (' ' :: ws ++ q :: name ++ [q]) := by
        rw [show kw ++ ' ' :: ws ++ q :: name ++ [q] = kw ++ (' ' :: ws ++ q :: name ++ [q]) by simp,
          lower_append, hk]
      have hsp : isSpace q = false := by
        simp [isQuote] at hq
        rcases hq with h | h <;> subst h <;> decide
      have ed : (kw ++ ' ' :: ws ++ q :: name ++ [q]).drop 7 = (' ' :: ws) ++ q :: (name ++ [q]) := by
        rw [show kw ++ ' ' :: ws ++ q :: name ++ [q] = kw ++ ((' ' :: ws) ++ q :: (name ++ [q])) by simp,
          List.drop_append_of_le_length (by omega), ← hlen]
        simp
      simp only [isIncludeStmt, ↓reduceIte, e, startsWith_append_self, Bool.true_and, ed, quoteNext,
        lstrip_blank_append (' ' :: ws) q _ hws' hsp, hq]
    · have := name_between_quotes 7 kw (' ' :: ws) name q hlen hws' hq
      simpa [includeName] using this

/-- in the repaired variant the blanks between keyword and name are optional (none, or any white space) -/
theorem include_stmt_name_loose (kw ws name : Str) (q : Char) (hk : lower kw = chars! "include")
    (hws : isBlank ws = true) (hq : isQuote q = true) :
    isIncludeStmt true (kw ++ ws ++ q :: name ++ [q]) = true ∧
    includeName true (kw ++ ws ++ q :: name ++ [q]) = name := by
  have hlen : kw.length = 7 := by
    have := congrArg List.length hk
    simpa [lower] using this
  have hsp : isSpace q = false := by
    simp [isQuote] at hq
    rcases hq with h | h <;> subst h <;> decide
  constructor
  · have e : lower (kw ++ ws ++ q :: name ++ [q]) = chars! "include" ++ lower (ws ++ q :: name ++ [q]) := by
      rw [show kw ++ ws ++ q :: name ++ [q] = kw ++ (ws ++ q :: name ++ [q]) by simp, lower_append, hk]
    have ed : (kw ++ ws ++ q :: name ++ [q]).drop 7 = ws ++ q :: (name ++ [q]) := by
      rw [show kw ++ ws ++ q :: name ++ [q] = kw ++ (ws ++ q :: (name ++ [q])) by simp,
        List.drop_append_of_le_length (by omega), ← hlen]
      simp
    simp only [isIncludeStmt, ↓reduceIte, e, startsWith_append_self, Bool.true_and, ed, quoteNext,
      lstrip_blank_append ws q _ hws hsp, hq]
  · have := name_between_quotes 7 kw ws name q hlen hws hq
    simpa [includeName] using this

end Ford.Include
