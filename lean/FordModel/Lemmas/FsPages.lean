import FordModel.FsPages
import FordModel.Lemmas.Fs
namespace Ford.Fs
open Ford

/-! ### norm on concatenations -/

theorem normAux_append (st a b : List Seg) : normAux st (a ++ b) = normAux (normAux st a).reverse b := by
  induction a generalizing st with
  | nil => simp [normAux]
  | cons s r ih =>
    by_cases h1 : s = dotdot
    · simp [normAux, h1, ih]
    · by_cases h2 : s = dot ∨ s = []
      · simp [normAux, h1, h2, ih]
      · simp [normAux, h1, h2, ih]

theorem norm_append (a b : List Seg) : norm (a ++ b) = normAux (norm a).reverse b := by
  simp [norm, normAux_append]

/-- a clean last component stays the last component -/
theorem norm_snoc_clean (a : List Seg) (x : Seg) (hx : Clean x) : norm (a ++ [x]) = norm a ++ [x] := by
  obtain ⟨h1, h2, h3⟩ := hx
  rw [norm_append]
  simp [normAux, h1, h2, h3]

/-- joining a non-climbing relative path to *any* path stays, lexically, below it -/
theorem norm_append_safe (o x : List Seg) (hx : safe 0 x = true) : norm o <+: norm (o ++ x) := by
  rw [norm_append]
  obtain ⟨z, hz⟩ := normAux_under (norm o) x [] (by simpa using hx)
  exact ⟨z, by simpa using hz.symm⟩

theorem safe_append_left (a b : List Seg) : ∀ k, safe k (a ++ b) = true → safe k a = true := by
  induction a with
  | nil => intro k _; simp [safe]
  | cons s r ih =>
    intro k h
    by_cases h1 : s = dotdot
    · subst h1
      cases k with
      | zero => simp [safe] at h
      | succ k => simp [safe] at h ⊢; exact ih k h
    · by_cases h2 : s = dot ∨ s = []
      · simp [safe, h1, h2] at h ⊢; exact ih k h
      · simp [safe, h1, h2] at h ⊢; exact ih (k + 1) h

theorem safe_of_normal (x : List Seg) (h : Normal x) : ∀ k, safe k x = true := by
  induction x with
  | nil => intro k; simp [safe]
  | cons s r ih =>
    intro k
    obtain ⟨h1, h2, h3⟩ := h s (by simp)
    have hr : Normal r := fun t ht => h t (by simp [ht])
    simp [safe, h1, h2, h3, ih hr]

theorem normal_drop (x : List Seg) (h : Normal x) (n : Nat) : Normal (x.drop n) :=
  fun s hs => h s (List.mem_of_mem_drop hs)

/-! ### os.path.relpath -/

theorem commonLen_le_right (a b : List Seg) : commonLen a b ≤ b.length := by
  fun_induction commonLen a b <;> simp_all <;> omega

theorem commonLen_eq_right (a b : List Seg) (h : commonLen a b = b.length) : b <+: a := by
  induction b generalizing a with
  | nil => exact List.nil_prefix
  | cons y ys ih =>
    cases a with
    | nil => simp [commonLen] at h
    | cons x xs =>
      by_cases hxy : x = y
      · subst hxy
        simp [commonLen] at h
        obtain ⟨z, hz⟩ := ih xs h
        exact ⟨z, by simp [hz]⟩
      · simp [commonLen, hxy] at h

theorem commonLen_append_self (s z : List Seg) : commonLen (s ++ z) s = s.length := by
  induction s with
  | nil => cases z <;> simp [commonLen]
  | cons a r ih => simp [commonLen, ih]

/-- below `start`: the relative path is what remains after it, and it is a normal path -/
theorem relpath_of_prefix (p start : List Seg) (h : norm start <+: norm p) :
    relpath p start = (norm p).drop (norm start).length := by
  obtain ⟨z, hz⟩ := h
  simp [relpath, ← hz, commonLen_append_self]

theorem relpath_normal_of_prefix (p start : List Seg) (h : norm start <+: norm p) : Normal (relpath p start) := by
  rw [relpath_of_prefix p start h]
  exact normal_drop _ (norm_normal p) _

/-- the containment test accepts exactly what lies, lexically, strictly below `start` -/
theorem relOutside_false_iff (p start : List Seg) :
    relOutside p start = false ↔ norm start <+: norm p ∧ norm start ≠ norm p := by
  constructor
  · intro h
    have hle := commonLen_le_right (norm p) (norm start)
    by_cases hc : commonLen (norm p) (norm start) = (norm start).length
    · have hpre := commonLen_eq_right _ _ hc
      refine ⟨hpre, ?_⟩
      intro heq
      rw [relOutside, relpath_of_prefix p start hpre, ← heq] at h
      simp at h
    · exfalso
      have hpos : 0 < (norm start).length - commonLen (norm p) (norm start) := by omega
      obtain ⟨k, hk⟩ : ∃ k, (norm start).length - commonLen (norm p) (norm start) = k + 1 := ⟨_, (Nat.succ_pred_eq_of_pos hpos).symm⟩
      simp [relOutside, relpath, hk, List.replicate_succ] at h
  · rintro ⟨hpre, hne⟩
    obtain ⟨z, hz⟩ := hpre
    have hzne : z ≠ [] := by
      intro h0; subst h0; exact hne (by simpa using hz)
    rw [relOutside, relpath_of_prefix p start ⟨z, hz⟩, ← hz]
    simp
    cases z with
    | nil => exact absurd rfl hzne
    | cons a r =>
      simp
      have : a ∈ norm p := by rw [← hz]; simp
      exact (norm_normal p a this).1

theorem prefix_of_proper_prefix_snoc {α} (a b : List α) (x : α) (h : a <+: b ++ [x]) (hne : a ≠ b ++ [x]) : a <+: b := by
  obtain ⟨z, hz⟩ := h
  rcases List.eq_nil_or_concat z with rfl | ⟨z', y, rfl⟩
  · exact absurd (by simpa using hz) hne
  · have : a ++ z' ++ [y] = b ++ [x] := by simpa [List.append_assoc] using hz
    have := List.append_inj' this rfl
    exact ⟨z', this.1⟩

/-! ### path strings -/

theorem splitSlashAux_slash_free (s cur : Str) (hc : '/' ∉ cur) : ∀ x ∈ splitSlashAux s cur, '/' ∉ x := by
  induction s generalizing cur with
  | nil => intro x hx; simp [splitSlashAux] at hx; subst hx; simpa using hc
  | cons c cs ih =>
    intro x hx
    by_cases h : c = '/'
    · simp [splitSlashAux, h] at hx
      rcases hx with rfl | hx
      · simpa using hc
      · exact ih [] (by simp) x hx
    · simp [splitSlashAux, h] at hx
      exact ih (c :: cur) (by simp [hc, Ne.symm h]) x hx

theorem splitSlash_slash_free (s : Str) : ∀ x ∈ splitSlash s, '/' ∉ x :=
  splitSlashAux_slash_free s [] (by simp)

theorem mem_pathlibSegs (s : Str) (x : Seg) (h : x ∈ pathlibSegs s) : x ≠ [] ∧ x ≠ dot ∧ '/' ∉ x := by
  simp [pathlibSegs] at h
  exact ⟨h.2.1, h.2.2, splitSlash_slash_free s x h.1⟩

theorem isMdName_ne_dotdot (x : Seg) (h : isMdName x = true) : x ≠ dotdot := by
  intro e; subst e; revert h; decide

theorem mem_dedupStr (l : List Str) (x : Str) (h : x ∈ dedupStr l) : x ∈ l := by
  induction l with
  | nil => simp [dedupStr] at h
  | cons a r ih =>
    simp [dedupStr] at h
    rcases h with rfl | h
    · simp
    · exact List.mem_cons_of_mem _ (ih h.1)

theorem mem_mergedNames (ordered names : List Str) (x : Str) (h : x ∈ mergedNames ordered names) :
    x ∈ ordered ∨ x ∈ names := by
  unfold mergedNames at h
  simp only at h
  split at h
  · exact Or.inr (List.mem_of_mem_erase h)
  · have := mem_dedupStr _ _ h
    rcases List.mem_append.1 this with h' | h'
    · exact Or.inl (List.mem_filter.1 h').1
    · exact Or.inr (List.mem_of_mem_erase h')

theorem locate_mem (pin : PageIn) (phys : Path) (name : Str) (p : Path) (nd : FsNode)
    (h : locate pin phys name = some (p, nd)) : (p, nd) ∈ pin.nodes := by
  unfold locate at h
  split at h
  · cases h
  · rename_i q _
    cases hl : pin.nodes.lookup q with
    | none => simp [hl] at h
    | some n =>
      simp [hl] at h
      obtain ⟨rfl, rfl⟩ := h
      exact lookup_mem _ _ _ hl

/-! ### every page of the tree lies, lexically, inside the page directory -/

/-- what is known about a name of the merged list: the containment test is in force, or the name
    is relative and does not climb -/
def NameOk (g : Bool) (name : Str) : Prop := g = true ∨ entryStays name = true

theorem joinLex_dir_inside (g : Bool) (lex : List Seg) (name : Str) (hn : NameOk g name)
    (hg : (g && relOutside (joinLex lex name) lex) = false) : norm lex <+: norm (joinLex lex name) := by
  rcases hn with rfl | hs
  · simp at hg
    exact ((relOutside_false_iff _ _).1 hg).1
  · simp [entryStays] at hs
    simp [joinLex, hs.1]
    exact norm_append_safe _ _ hs.2

theorem joinLex_file_inside (g : Bool) (lex : List Seg) (name : Str) (last : Seg) (hn : NameOk g name)
    (hg : (g && relOutside (joinLex lex name) lex) = false) (hl : (pathlibSegs name).getLast? = some last)
    (hd : last ≠ dotdot) : norm lex <+: norm (joinLex lex name).dropLast := by
  obtain ⟨init, hinit⟩ : ∃ init, pathlibSegs name = init ++ [last] := by
    rw [List.getLast?_eq_some_iff] at hl
    exact hl
  have hmem := mem_pathlibSegs name last (by rw [hinit]; simp)
  have hclean : Clean last := ⟨hd, hmem.2.1, hmem.1⟩
  rcases hn with rfl | hs
  · simp at hg
    obtain ⟨hpre, hne⟩ := (relOutside_false_iff _ _).1 hg
    by_cases ha : isAbs name = true
    · simp [joinLex, ha, hinit] at hpre hne ⊢
      have e : norm (init ++ [last]) = norm init ++ [last] := norm_snoc_clean _ _ hclean
      rw [e] at hpre hne
      exact prefix_of_proper_prefix_snoc _ _ _ hpre hne
    · simp [joinLex, ha, hinit] at hpre hne ⊢
      have e : norm (lex ++ (init ++ [last])) = norm (lex ++ init) ++ [last] := by
        rw [← List.append_assoc]; exact norm_snoc_clean _ _ hclean
      rw [e] at hpre hne
      have := prefix_of_proper_prefix_snoc _ _ _ hpre hne
      simpa [← List.append_assoc] using this
  · simp [entryStays] at hs
    simp [joinLex, hs.1, hinit]
    apply norm_append_safe
    rw [hinit] at hs
    exact safe_append_left _ _ 0 hs.2

theorem entry_locs (g : Bool) (pin : PageIn) (sub : List Seg → Path → List Str → List PNode)
    (lex : List Seg) (phys : Path) (pcopy own : List Str) (name : Str)
    (hsub : ∀ lex' p o, norm pin.pageDir <+: norm lex' → ∀ n ∈ sub lex' p o, Normal n.loc)
    (hlex : norm pin.pageDir <+: norm lex) (hn : NameOk g name) :
    ∀ n ∈ entPages (entry g pin sub lex phys pcopy own name), Normal n.loc := by
  intro n hn'
  unfold entry at hn'
  split at hn'
  · simp [entPages] at hn'
  · simp only at hn'
    split at hn'
    · simp [entPages] at hn'
    · rename_i hg
      have hg' : (g && relOutside (joinLex lex name) lex) = false := by simpa using hg
      split at hn'
      · simp [entPages] at hn'
      · split at hn'
        · simp [entPages] at hn'
        · simp only [entPages] at hn'
          exact hsub _ _ _ (hlex.trans (joinLex_dir_inside g lex name hn hg')) n hn'
      · split at hn'
        · simp [entPages] at hn'
        · rename_i last hlast
          split at hn'
          · rename_i hmd
            split at hn'
            · split at hn'
              · simp only [entPages, List.mem_singleton] at hn'
                subst hn'
                simp only
                apply relpath_normal_of_prefix
                exact hlex.trans (joinLex_file_inside g lex name last hn hg' hlast (isMdName_ne_dotdot _ hmd))
              · simp [entPages] at hn'
            · simp [entPages] at hn'
          · simp [entPages] at hn'

theorem pageTreeAux_locs (g : Bool) (pin : PageIn) (hv : g = true ∨ noSubpageEscape pin = true) :
    ∀ (fuel : Nat) (lex : List Seg) (phys : Path) (pcopy : List Str), norm pin.pageDir <+: norm lex →
      ∀ n ∈ pageTreeAux g pin fuel lex phys pcopy, Normal n.loc := by
  intro fuel
  induction fuel with
  | zero => intro _ _ _ _ n hn; simp [pageTreeAux] at hn
  | succ fuel ih =>
    intro lex phys pcopy hlex n hn
    unfold pageTreeAux at hn
    split at hn
    · rename_i q m hloc
      split at hn
      · cases hn
      · split at hn
        · rename_i names hnames
          simp only [List.mem_cons, List.mem_flatMap, List.mem_map] at hn
          rcases hn with rfl | ⟨e, ⟨name, hname, rfl⟩, hne⟩
          · exact relpath_normal_of_prefix _ _ hlex
          · apply entry_locs g pin (pageTreeAux g pin fuel) lex phys pcopy m.copy name (fun lex' p o h => ih lex' p o h) hlex ?_ n hne
            rcases hv with h | h
            · exact Or.inl h
            · right
              simp only [noSubpageEscape, List.all_eq_true] at h
              rcases mem_mergedNames _ _ _ hname with ho | hl
              · have := h _ (locate_mem pin phys indexMd q _ hloc)
                simp only [List.all_eq_true] at this
                exact this name ho
              · have := h _ (lookup_mem _ _ _ hnames)
                simp only [List.all_eq_true] at this
                exact this name hl
        · cases hn
    · cases hn

theorem pageTree_locs (g : Bool) (pin : PageIn) (hv : g = true ∨ noSubpageEscape pin = true) :
    ∀ n ∈ pageTree g pin, Normal n.loc :=
  pageTreeAux_locs g pin hv _ _ _ _ (List.prefix_refl _)

/-! ### the pages of the write-out -/

/-- names that come from the listings of the directories `copy_subdir` items name do not climb -/
def TreesOk (pin : PageIn) : Prop := ∀ e ∈ pin.trees, ∀ t, e.2 = some t → TreeOk t

theorem fileCopyName_safe (pin : PageIn) (o : Path) (loc : List Seg) (item f : Str)
    (h : fileCopyName pin o loc item = some f) : safeRel f = true := by
  unfold fileCopyName at h
  split at h
  · cases h
  · split at h
    · rename_i last _ hlast
      split at h
      · cases h
      · rename_i hc
        simp at h
        subst h
        have hmem := mem_pathlibSegs item last (List.mem_of_getLast? hlast)
        simp at hc
        exact safeRel_of_no_slash _ hmem.2.2 hc.1
    · cases h

theorem pagesOf_ok (g : Bool) (pin : PageIn) (o : Path) (hv : g = true ∨ noSubpageEscape pin = true)
    (ht : TreesOk pin) : ∀ pg ∈ pagesOf g pin o, safe 0 pg.loc = true ∧ (∀ f ∈ pg.files, safeRel f = true) ∧
      ∀ pc ∈ pg.copies, ∀ t, pc.tree = some t → (∀ e ∈ t.walk, safeRel e.2 = true) ∧ ∀ e ∈ t.touch, safeRel e = true := by
  intro pg hpg
  simp only [pagesOf, List.mem_map] at hpg
  obtain ⟨n, hn, rfl⟩ := hpg
  refine ⟨safe_of_normal _ (pageTree_locs g pin hv n hn) 0, ?_, ?_⟩
  · intro f hf
    simp only [toPage, List.mem_filterMap] at hf
    obtain ⟨item, _, hi⟩ := hf
    exact fileCopyName_safe pin o n.loc item f hi
  · intro pc hpc t htree
    simp only [toPage, List.mem_map] at hpc
    obtain ⟨it, _, rfl⟩ := hpc
    simp only at htree
    cases hl : pin.trees.lookup (joinSlash n.loc, it) with
    | none => simp [hl] at htree
    | some v =>
      simp [hl] at htree
      subst htree
      exact ht _ (lookup_mem _ _ _ hl) t rfl

theorem siteOk_withPages (g : Bool) (o : Path) (s : Site) (pin : Option PageIn) (hs : SiteOk s)
    (hp : ∀ p, pin = some p → (g = true ∨ noSubpageEscape p = true) ∧ TreesOk p) : SiteOk (withPages g o s pin) := by
  cases pin with
  | none =>
    exact { libs := hs.libs, search := hs.search, media := hs.media, docs := hs.docs, lists := hs.lists,
            graphs := hs.graphs, pages := by intro pg hpg; simp [withPages] at hpg }
  | some p =>
    obtain ⟨hv, ht⟩ := hp p rfl
    exact { libs := hs.libs, search := hs.search, media := hs.media, docs := hs.docs, lists := hs.lists,
            graphs := hs.graphs, pages := pagesOf_ok g p o hv ht }

end Ford.Fs
