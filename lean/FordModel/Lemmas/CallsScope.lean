/-
  Lemmas about `FordModel/CallsScope.lean` (which names are variables of a scope and what
  `correlate` removes), used by `Props/C08.lean`.
-/
import FordModel.CallsScope
import FordModel.CallsTable
namespace Ford.Calls.Scope
open Ford Ford.Calls

/-! ### lower-casing -/

theorem lowerChar_big (c : Char) (h : ¬ c.toNat < 128) : lowerChar c = c := by
  unfold lowerChar
  have : ¬ ('A' ≤ c ∧ c ≤ 'Z') := by
    intro ⟨_, h2⟩
    apply h
    have h3 : c.val.toNat ≤ ('Z' : Char).val.toNat := UInt32.le_iff_toNat_le.1 (Char.le_def.1 h2)
    have h4 : ('Z' : Char).val.toNat = 90 := by decide
    have h5 : c.toNat = c.val.toNat := rfl
    omega
  simp [this]

theorem lowerChar_idem_ascii : ∀ m, m < 128 →
    lowerChar (lowerChar (Char.ofNat m)) = lowerChar (Char.ofNat m) := by decide

theorem lowerChar_idem (c : Char) : lowerChar (lowerChar c) = lowerChar c := by
  by_cases h : c.toNat < 128
  · have := lowerChar_idem_ascii c.toNat h
    rw [Char.ofNat_toNat] at this
    exact this
  · rw [lowerChar_big c h, lowerChar_big c h]

theorem lowerChar_blank_ascii : ∀ m, m < 128 →
    (lowerChar (Char.ofNat m) != ' ') = (Char.ofNat m != ' ') := by decide

theorem lowerChar_blank (c : Char) : (lowerChar c != ' ') = (c != ' ') := by
  by_cases h : c.toNat < 128
  · have := lowerChar_blank_ascii c.toNat h
    rw [Char.ofNat_toNat] at this
    exact this
  · rw [lowerChar_big c h]

theorem lower_lower (s : Str) : lower (lower s) = lower s := by
  induction s with
  | nil => rfl
  | cons c cs ih =>
    simp only [lower, List.map_cons, List.cons.injEq] at ih ⊢
    exact ⟨lowerChar_idem c, ih⟩

theorem lower_dropBlanks (s : Str) : lower (dropBlanks s) = dropBlanks (lower s) := by
  induction s with
  | nil => rfl
  | cons c cs ih =>
    simp only [lower, dropBlanks, List.map_cons, List.filter_cons] at ih ⊢
    rw [lowerChar_blank c]
    split
    · simp only [List.map_cons, List.cons.injEq, true_and]; exact ih
    · exact ih

/-- the key the ATTRIB_RE branch stores is already in lower case -/
theorem lower_attrKey (kw : Str) : lower (attrKey kw) = attrKey kw := by
  simp only [attrKey, lower_dropBlanks, lower_lower]

/-! ### `line_to_variables` -/

theorem mem_declVars {stmts : List SpecStmt} {v : Var} (h : v ∈ declVars stmts) :
    ∃ attrs ents, SpecStmt.tdecl attrs ents ∈ stmts ∧ v.name ∈ ents ∧ v.attribs = attrs.filter keptByDecl := by
  induction stmts with
  | nil => simp [declVars] at h
  | cons s rest ih =>
    cases s with
    | tdecl attrs ents =>
      simp only [declVars, List.mem_append, List.mem_map] at h
      rcases h with ⟨e, he, rfl⟩ | h
      · exact ⟨attrs, ents, by simp, he, rfl⟩
      · obtain ⟨a, e, h1, h2, h3⟩ := ih h
        exact ⟨a, e, by simp [h1], h2, h3⟩
    | astmt kw names =>
      simp only [declVars] at h
      obtain ⟨a, e, h1, h2, h3⟩ := ih h
      exact ⟨a, e, by simp [h1], h2, h3⟩

theorem declVars_mem {stmts : List SpecStmt} {attrs ents : List Str} {e : Str}
    (h : SpecStmt.tdecl attrs ents ∈ stmts) (he : e ∈ ents) :
    (⟨e, attrs.filter keptByDecl⟩ : Var) ∈ declVars stmts := by
  induction stmts with
  | nil => simp at h
  | cons s rest ih =>
    simp only [List.mem_cons] at h
    rcases h with h | h
    · subst h
      simp only [declVars, List.mem_append, List.mem_map]
      exact Or.inl ⟨e, he, rfl⟩
    · cases s with
      | tdecl a b => simp only [declVars, List.mem_append]; exact Or.inr (ih h)
      | astmt a b => simp only [declVars]; exact ih h

/-! ### attribute statements and `process_attribs` -/

theorem mem_attrDict {stmts : List SpecStmt} {kw : Str} {names : List Str} {n : Str}
    (h : SpecStmt.astmt kw names ∈ stmts) (hd : attrKey kw ≠ chars! "data")
    (hn : n ∈ names.map (fun x => lower (strip x))) : attrKey kw ∈ attrDict stmts n := by
  induction stmts with
  | nil => simp at h
  | cons s rest ih =>
    simp only [List.mem_cons] at h
    rcases h with h | h
    · subst h
      have hn' : ∃ a ∈ names, lower (strip a) = n := by simpa using hn
      simp [attrDict, hd, hn']
    · cases s with
      | tdecl a b => simp only [attrDict]; exact ih h
      | astmt a b => simp only [attrDict, List.mem_append]; exact Or.inr (ih h)

theorem attrDict_mem {stmts : List SpecStmt} {k n : Str} (h : k ∈ attrDict stmts n) :
    ∃ kw names, SpecStmt.astmt kw names ∈ stmts ∧ k = attrKey kw ∧ n ∈ names.map (fun x => lower (strip x)) := by
  induction stmts with
  | nil => simp [attrDict] at h
  | cons s rest ih =>
    cases s with
    | tdecl a b =>
      simp only [attrDict] at h
      obtain ⟨kw, names, h1, h2, h3⟩ := ih h
      exact ⟨kw, names, by simp [h1], h2, h3⟩
    | astmt kw names =>
      simp only [attrDict, List.mem_append] at h
      rcases h with h | h
      · split at h
        · rename_i hc
          simp only [List.mem_singleton] at h
          simp only [Bool.and_eq_true, List.contains_eq_mem, decide_eq_true_eq] at hc
          exact ⟨kw, names, by simp, h, hc.2⟩
        · simp at h
      · obtain ⟨kw', names', h1, h2, h3⟩ := ih h
        exact ⟨kw', names', by simp [h1], h2, h3⟩

/-- the attributes of a processed variable are declared ones or entries of `attr_dict` -/
theorem mem_processVars_attribs {stmts : List SpecStmt} {vs : List Var} {seen : List Str} {v : Var}
    (h : v ∈ processVars stmts vs seen) :
    ∃ v0 ∈ vs, v.name = v0.name ∧ ∀ a ∈ v.attribs, a ∈ v0.attribs ∨ a ∈ attrDict stmts (lower v0.name) := by
  induction vs generalizing seen with
  | nil => simp [processVars] at h
  | cons w ws ih =>
    simp only [processVars, List.mem_cons] at h
    rcases h with h | h
    · subst h
      refine ⟨w, by simp, rfl, fun a ha => ?_⟩
      simp only [List.mem_append] at ha
      rcases ha with ha | ha
      · exact Or.inl ha
      · split at ha
        · simp at ha
        · exact Or.inr (List.mem_filter.1 ha).1
    · obtain ⟨v0, h0, h1, h2⟩ := ih h
      exact ⟨v0, by simp [h0], h1, h2⟩

/-- every processed variable comes from a declared one and keeps its attributes -/
theorem mem_processVars {stmts : List SpecStmt} {vs : List Var} {seen : List Str} {v : Var}
    (h : v ∈ processVars stmts vs seen) :
    ∃ v0 ∈ vs, v.name = v0.name ∧ ∀ a ∈ v0.attribs, a ∈ v.attribs := by
  induction vs generalizing seen with
  | nil => simp [processVars] at h
  | cons w ws ih =>
    simp only [processVars, List.mem_cons] at h
    rcases h with h | h
    · subst h
      exact ⟨w, by simp, rfl, fun a ha => by simp [ha]⟩
    · obtain ⟨v0, h0, h1, h2⟩ := ih h
      exact ⟨v0, by simp [h0], h1, h2⟩

/-- a declared variable is still there after `process_attribs` (under its name) -/
theorem processVars_mem {stmts : List SpecStmt} {vs : List Var} {seen : List Str} {v0 : Var}
    (h : v0 ∈ vs) : ∃ v ∈ processVars stmts vs seen, v.name = v0.name := by
  induction vs generalizing seen with
  | nil => simp at h
  | cons w ws ih =>
    simp only [List.mem_cons] at h
    rcases h with h | h
    · subst h
      simp only [processVars]
      exact ⟨_, List.mem_cons_self, rfl⟩
    · obtain ⟨v, hv, hn⟩ := ih (seen := lower w.name :: seen) h
      exact ⟨v, by simp [processVars, hv], hn⟩

/-- when every name is declared once, each variable receives all entries of `attr_dict` under
    its name that `process_attribs` appends -/
theorem processVars_attribs {stmts : List SpecStmt} {vs : List Var} {seen : List Str}
    (hnd : (vs.map (fun v => lower v.name)).Nodup) (hdis : ∀ v ∈ vs, lower v.name ∉ seen) :
    ∀ v ∈ processVars stmts vs seen, ∀ k ∈ attrDict stmts (lower v.name), appendedKey k = true → k ∈ v.attribs := by
  induction vs generalizing seen with
  | nil => simp [processVars]
  | cons w ws ih =>
    intro v hv k hk hak
    simp only [processVars, List.mem_cons] at hv
    simp only [List.map_cons, List.nodup_cons] at hnd
    rcases hv with hv | hv
    · subst hv
      have hs : lower w.name ∉ seen := hdis w (by simp)
      simp only at hk
      simp [hs, hk, hak]
    · refine ih hnd.2 ?_ v hv k hk hak
      intro x hx
      simp only [List.mem_cons, not_or]
      refine ⟨?_, hdis x (by simp [hx])⟩
      intro heq
      exact hnd.1 (by simp only [List.mem_map]; exact ⟨x, hx, heq⟩)

/-! ### `_cleanup` -/

theorem takeArgs_subset (args : List Str) (vs : List Var) : ∀ v ∈ takeArgs args vs, v ∈ vs := by
  induction args generalizing vs with
  | nil => simp [takeArgs]
  | cons a as ih =>
    intro v hv
    simp only [takeArgs, List.foldl_cons] at hv
    have := ih (vs.eraseP (named a)) v (by simpa [takeArgs] using hv)
    exact (List.eraseP_sublist).subset this

theorem mem_takeArgs_of_not_named {args : List Str} {vs : List Var} {v : Var}
    (hv : v ∈ vs) (h : ∀ a ∈ args, named a v = false) : v ∈ takeArgs args vs := by
  induction args generalizing vs with
  | nil => simpa [takeArgs] using hv
  | cons a as ih =>
    simp only [takeArgs, List.foldl_cons]
    have h1 : v ∈ vs.eraseP (named a) :=
      (List.mem_eraseP_of_neg (by simp [h a (by simp)])).2 hv
    exact ih h1 (fun b hb => h b (by simp [hb]))

theorem scopeVars_subset (f : List Char × List String) (u : Unit) :
    ∀ v ∈ scopeVars f u, v ∈ cleanupVars f (processVars u.stmts (declVars u.stmts) []) := by
  intro v hv
  unfold scopeVars at hv
  simp only at hv
  split at hv
  · split at hv
    · exact takeArgs_subset _ _ v hv
    · exact takeArgs_subset _ _ v ((List.eraseP_sublist).subset hv)
  · exact takeArgs_subset _ _ v hv

theorem lower_external_kept {a : Str} (h : lower a = chars! "external") : keptByDecl a = true := by
  simp only [keptByDecl, h]
  decide

/-- **EXTERNAL attribute.**  If every type declaration statement that declares `n` carries an
    attribute that the filter's normalisation maps to the filter's keyword, `n` is no variable of
    the scope. -/
theorem not_scopeVar_of_attr (f : List Char × List String) (u : Unit) (n : Str) (p : Str → Prop)
    (hf : ∀ a, p a → normAttr f.2 a = f.1 ∧ keptByDecl a = true)
    (h : ∀ attrs ents, SpecStmt.tdecl attrs ents ∈ u.stmts → (∃ e ∈ ents, lower e = n) → ∃ a ∈ attrs, p a) :
    n ∉ scopeVarNames f u := by
  intro hmem
  simp only [scopeVarNames, List.mem_map] at hmem
  obtain ⟨v, hv, hvn⟩ := hmem
  have hc := scopeVars_subset f u v hv
  simp only [cleanupVars, List.mem_filter] at hc
  obtain ⟨hp, hk⟩ := hc
  obtain ⟨v0, hv0, hname, hattrs⟩ := mem_processVars hp
  obtain ⟨attrs, ents, hst, hent, hat⟩ := mem_declVars hv0
  obtain ⟨a, ha, hpa⟩ := h attrs ents hst ⟨v0.name, hent, by rw [← hname]; exact hvn⟩
  obtain ⟨hn, hkept⟩ := hf a hpa
  have ha0 : a ∈ v0.attribs := by rw [hat]; simp [ha, hkept]
  have : hasKw f v = true := by
    simp only [hasKw, List.contains_eq_mem, List.mem_map, decide_eq_true_eq]
    exact ⟨a, hattrs a ha0, hn⟩
  simp [this] at hk

/-- **EXTERNAL statement.**  If an attribute statement whose keyword the filter recognises names
    `n` (and no name is declared twice), `n` is no variable of the scope. -/
theorem not_scopeVar_of_stmt (f : List Char × List String) (u : Unit) (n : Str)
    (hnd : ((declVars u.stmts).map (fun v => lower v.name)).Nodup)
    (kw : Str) (names : List Str) (hst : SpecStmt.astmt kw names ∈ u.stmts)
    (hn : n ∈ names.map (fun x => lower (strip x)))
    (hd : attrKey kw ≠ chars! "data") (hap : appendedKey (attrKey kw) = true)
    (hf : normAttr f.2 (attrKey kw) = f.1) :
    n ∉ scopeVarNames f u := by
  intro hmem
  simp only [scopeVarNames, List.mem_map] at hmem
  obtain ⟨v, hv, hvn⟩ := hmem
  have hc := scopeVars_subset f u v hv
  simp only [cleanupVars, List.mem_filter] at hc
  obtain ⟨hp, hk⟩ := hc
  have hk' := processVars_attribs (stmts := u.stmts) (seen := []) hnd (by simp) v hp (attrKey kw)
    (by rw [hvn]; exact mem_attrDict hst hd hn) hap
  have : hasKw f v = true := by
    simp only [hasKw, List.contains_eq_mem, List.mem_map, decide_eq_true_eq]
    exact ⟨attrKey kw, hk', hf⟩
  simp [this] at hk

/-- **A declared variable stays a variable.**  An entity of a type declaration statement that is
    neither a dummy argument nor the result variable, none of whose attributes (declared or given
    by attribute statements) the filter recognises, is a variable of the scope. -/
theorem scopeVar_of_declared (f : List Char × List String) (u : Unit) (attrs ents : List Str) (e : Str)
    (hst : SpecStmt.tdecl attrs ents ∈ u.stmts) (he : e ∈ ents)
    (hargs : ∀ a ∈ u.args, lower a ≠ lower e) (hret : ∀ r, u.ret = some r → lower r ≠ lower e)
    (hno : ∀ v ∈ processVars u.stmts (declVars u.stmts) [], v.name = e → hasKw f v = false) :
    lower e ∈ scopeVarNames f u := by
  obtain ⟨v, hv, hvn⟩ := processVars_mem (stmts := u.stmts) (seen := []) (declVars_mem hst he)
  simp only at hvn
  have hclean : v ∈ cleanupVars f (processVars u.stmts (declVars u.stmts) []) := by
    simp only [cleanupVars, List.mem_filter]
    exact ⟨hv, by simp [hno v hv hvn]⟩
  have hta : v ∈ takeArgs u.args (cleanupVars f (processVars u.stmts (declVars u.stmts) [])) :=
    mem_takeArgs_of_not_named hclean (fun a ha => by
      have := hargs a ha
      simp only [named, hvn, beq_eq_false_iff_ne, ne_eq]
      exact fun h => this h.symm)
  simp only [scopeVarNames, List.mem_map]
  refine ⟨v, ?_, by rw [hvn]⟩
  unfold scopeVars
  simp only
  split
  · rename_i r hr
    split
    · exact hta
    · refine (List.mem_eraseP_of_neg ?_).2 hta
      have := hret r hr
      simp only [named, hvn, beq_iff_eq]
      exact fun h => this h.symm
  · exact hta

/-! ### `get_label_item` and `correlate`, over the generated tables -/

theorem lookup_variables (tab : String → List Str) (n : Str) (h : n ∈ tab "variables") :
    lookupKind Generated.C08.labelOrder tab n = .var := by
  simp [lookupKind, Generated.C08.labelOrder, kindOfLayer, h]

theorem lookup_args (tab : String → List Str) (n : Str) (h : n ∈ tab "args") :
    lookupKind Generated.C08.labelOrder tab n = .var := by
  simp [lookupKind, Generated.C08.labelOrder, kindOfLayer, h]

theorem lookup_retvar (tab : String → List Str) (n : Str) (h : n ∈ tab "retvar") :
    lookupKind Generated.C08.labelOrder tab n = .var := by
  simp [lookupKind, Generated.C08.labelOrder, kindOfLayer, h]

theorem lookup_all_vars (tab : String → List Str) (n : Str) (h : n ∈ tab "all_vars") :
    lookupKind Generated.C08.labelOrder tab n = .var := by
  simp [lookupKind, Generated.C08.labelOrder, kindOfLayer, h]

/-- a name that is in none of the variable and type tables is a procedure or unknown -/
theorem lookup_not_var (tab : String → List Str) (n : Str)
    (h1 : n ∉ tab "all_types") (h2 : n ∉ tab "extends") (h3 : n ∉ tab "all_vars")
    (h4 : n ∉ tab "args") (h5 : n ∉ tab "retvar") (h6 : n ∉ tab "variables") :
    lookupKind Generated.C08.labelOrder tab n = .proc ∨ lookupKind Generated.C08.labelOrder tab n = .unknown := by
  by_cases hb : n ∈ tab "boundprocs" <;> by_cases hp : n ∈ tab "all_procs" <;>
    simp [lookupKind, Generated.C08.labelOrder, kindOfLayer, h1, h2, h3, h4, h5, h6, hb, hp]

/-- a name of `all_procs` that no type or variable table holds is looked up as that procedure -/
theorem lookup_proc (tab : String → List Str) (n : Str) (hp : n ∈ tab "all_procs")
    (h1 : n ∉ tab "all_types") (h2 : n ∉ tab "extends") (h3 : n ∉ tab "all_vars")
    (h4 : n ∉ tab "args") (h5 : n ∉ tab "retvar") (h6 : n ∉ tab "variables") :
    lookupKind Generated.C08.labelOrder tab n = .proc := by
  by_cases hb : n ∈ tab "boundprocs" <;>
    simp [lookupKind, Generated.C08.labelOrder, kindOfLayer, h1, h2, h3, h4, h5, h6, hb, hp]

theorem removed_var : isRemoved Generated.C08.removedKinds .var = true := by decide
theorem removed_type : isRemoved Generated.C08.removedKinds .type = true := by decide
theorem kept_proc : isRemoved Generated.C08.removedKinds .proc = false := by decide

theorem not_mem_resolve_of_removed (order removed : List String) (tab : String → List Str)
    (calls : List Chain) (n : Str) (h : isRemoved removed (lookupKind order tab n) = true) :
    n ∉ resolveScope order removed tab calls := by
  intro hm
  simp only [resolveScope, List.mem_filterMap] at hm
  obtain ⟨ch, _, hch⟩ := hm
  split at hch
  · rename_i m
    split at hch
    · simp at hch
    · rename_i hnr
      simp only [Option.some.injEq] at hch
      subst hch
      exact hnr h
  · simp at hch

theorem mem_resolve_of_kept (order removed : List String) (tab : String → List Str)
    (calls : List Chain) (n : Str) (hc : [n] ∈ calls) (h : isRemoved removed (lookupKind order tab n) = false) :
    n ∈ resolveScope order removed tab calls := by
  simp only [resolveScope, List.mem_filterMap]
  exact ⟨[n], hc, by simp [h]⟩

end Ford.Calls.Scope
