/-
  Lemmas for C03: when is the statement collected so far "inside a character literal"
  (`_contains_unterminated_string`, model `unterminated`) - read declaratively: the text is cut into closed
  literals (from a quote character to the next occurrence of the SAME character, whatever lies between - the
  other quote character in particular) and other characters; it is inside a literal exactly when that cutting
  leaves a literal open.  How many quote characters of either kind occur is not the criterion.
-/
import FordModel.Reader
import FordModel.Lemmas.Reader
import FordModel.Lemmas.ReaderLayout
namespace Ford

/-- a text made of closed character literals and other characters (`!` included) -/
inductive Lits : Str → Prop
  | nil : Lits []
  | plain (c : Char) (rest : Str) : isQuote c = false → Lits rest → Lits (c :: rest)
  | quoted (q : Char) (body rest : Str) : isQuote q = true → q ∉ body → Lits rest →
      Lits (q :: body ++ q :: rest)

theorem qscan_append (s : QSt) (a b : Str) : qscan s (a ++ b) = qscan (qscan s a) b := by
  simp [qscan, List.foldl_append]

theorem qscan_inq_body (q : Char) (body : Str) (h : q ∉ body) : qscan (.inq q) body = .inq q := by
  induction body with
  | nil => rfl
  | cons c cs ih =>
    have hc : (c == q) = false := by
      have : c ≠ q := fun e => h (by simp [e])
      simpa using this
    have hq : q ∉ cs := fun e => h (by simp [e])
    simp only [qscan, List.foldl_cons, qstep, hc, Bool.false_eq_true, ↓reduceIte]
    exact ih hq

theorem qscan_lits (P : Str) (h : Lits P) (t : Str) : qscan .out (P ++ t) = qscan .out t := by
  induction h with
  | nil => rfl
  | plain c rest hc _ ih =>
    simp only [List.cons_append, qscan, List.foldl_cons, qstep, hc, Bool.false_eq_true, ↓reduceIte]
    exact ih
  | quoted q body rest hq hb _ ih =>
    have e : q :: body ++ q :: rest ++ t = q :: (body ++ q :: (rest ++ t)) := by simp
    rw [e]
    have h1 : qscan .out (q :: (body ++ q :: (rest ++ t))) = qscan (.inq q) (body ++ q :: (rest ++ t)) := by
      simp [qscan, qstep, hq]
    rw [h1, qscan_append, qscan_inq_body q body hb]
    have h2 : qscan (.inq q) (q :: (rest ++ t)) = qscan .out (rest ++ t) := by
      simp [qscan, qstep]
    rw [h2]
    exact ih

/-- closed literals only: not inside a literal, whatever the literals contain -/
theorem unterminated_lits (P : Str) (h : Lits P) : unterminated P = false := by
  have h1 := qscan_lits P h []
  simp only [List.append_nil] at h1
  have h2 : qscan .out ([] : Str) = .out := rfl
  simp [unterminated, h1, h2]

/-- closed literals, then a quote character with no partner after it: inside a literal -/
theorem unterminated_lits_open (P : Str) (q : Char) (body : Str) (h : Lits P) (hq : isQuote q = true)
    (hb : q ∉ body) : unterminated (P ++ q :: body) = true := by
  have h1 : qscan .out (q :: body) = .inq q := by
    have : qscan .out (q :: body) = qscan (.inq q) body := by simp [qscan, qstep, hq]
    rw [this, qscan_inq_body q body hb]
  simp [unterminated, qscan_lits P h, h1]

theorem lits_blank_cons (P : Str) (h : Lits P) : Lits (' ' :: P) := .plain ' ' P (by decide) h

/-- **The continuation line of an open literal.**  First line `l0` (no doc comment on it) whose code part is
    `x r &`, where `x r` = closed literals and other text `P`, then a literal opened by `q` and not closed; second line `ln`:
    ANY text whose stripped form is `& b` (b not blank, not ending in `&`), in particular text with `!` followed
    by any of the four markers.  The reader emits the statement(s) of the joined text `x r b` and nothing else:
    no character of `ln` becomes a doc item, and the reader is between logical lines again. -/
theorem readFrom_open_literal (m : Marks) (l0 : Str) (x : Char) (r P : Str) (q : Char) (body ln b : Str)
    (rest : List Str)
    (h0 : NoDoc m false l0) (hc0 : codeOf false l0 = x :: r ++ ['&']) (hx : x ≠ '&')
    (hP : x :: r = P ++ q :: body) (hl : Lits P) (hq : isQuote q = true) (hbq : q ∉ body)
    (hfirst : firstStripped ln ≠ some '#') (hln : strip ln = '&' :: b)
    (hb : isBlank b = false) (hlast : b.getLast? ≠ some '&')
    (hJ : itemsOf (' ' :: x :: r ++ b) ≠ []) :
    readFrom m (qs [] false) (l0 :: ln :: rest) =
      match readFrom m (qs [] false) rest with
      | .error e => .error e
      | .ok more => .ok (itemsOf (' ' :: x :: r ++ b) ++ more) := by
  have hopen : unterminated (' ' :: x :: r) = true := by
    rw [hP]
    exact unterminated_lits_open (' ' :: P) q body (lits_blank_cons P hl) hq hbq
  have hj : Mid.join (' ' :: x :: r) (.cont true b) = ' ' :: x :: r ++ b := rfl
  have key := continuation_join m l0 x r [] [] ln true b rest h0 hc0 hx trivial
    (by simpa [hopen] using noDoc_inside m ln hfirst)
    (by simp [hopen, codeOf_inside, hln, lastCode])
    hb hlast (by intro h; cases h) (by rw [List.foldl_nil, hj]; exact hJ)
  rw [List.foldl_nil, hj] at key
  exact key

end Ford
