import FordModel.Graph
import FordModel.Lemmas.Graph
namespace Ford.Graph

/-! ### forward / inverse sets stay inverse of each other -/

def Consistent (nd : NodeData) : Prop :=
  ∀ a r t, (⟨a, r, t⟩ : Link) ∈ nd.fwd ↔ (⟨t, r, a⟩ : Link) ∈ nd.inv

theorem mem_insertLink {x l : Link} {ls : List Link} : x ∈ insertLink l ls ↔ x = l ∨ x ∈ ls := by
  unfold insertLink
  by_cases h : l ∈ ls
  · simp only [List.contains_eq_mem, h, decide_true, if_true]
    constructor
    · exact Or.inr
    · rintro (rfl | h') <;> assumption
  · simp [h, or_comm]

theorem link_consistent {nd : NodeData} (h : Consistent nd) (a : Node) (rt : Rel × Node) :
    Consistent (link nd a rt) := by
  intro x r t
  simp only [link, mem_insertLink, Link.mk.injEq]
  rw [h x r t]
  constructor
  · rintro (⟨rfl, rfl, rfl⟩ | h') <;> simp_all
  · rintro (⟨rfl, rfl, rfl⟩ | h') <;> simp_all

theorem link_created (nd : NodeData) (a : Node) (rt : Rel × Node) : (link nd a rt).created = nd.created := rfl

theorem foldl_link_consistent (ts : List (Rel × Node)) (e : Node) (nd : NodeData) (h : Consistent nd) :
    Consistent (ts.foldl (fun nd rt => link nd e rt) nd) := by
  induction ts generalizing nd with
  | nil => exact h
  | cons t r ih => exact ih _ (link_consistent h e t)

theorem foldl_link_created (ts : List (Rel × Node)) (e : Node) (nd : NodeData) :
    (ts.foldl (fun nd rt => link nd e rt) nd).created = nd.created := by
  induction ts generalizing nd with
  | nil => rfl
  | cons t r ih => rw [List.foldl_cons, ih, link_created]

/-- Node creation keeps every forward set and its inverse set mirror images of each other. -/
theorem create_consistent (tab : Table) (fuel : Nat) (stack : List Node) (nd nd' : NodeData)
    (h : Consistent nd) (hc : create tab fuel stack nd = some nd') : Consistent nd' := by
  fun_induction create tab fuel stack nd
  case case1 => simp at hc; exact hc ▸ h
  case case2 => simp at hc
  case case3 ih => exact ih h hc
  case case4 ih =>
    apply ih _ hc
    apply foldl_link_consistent
    intro a r t; exact h a r t

theorem consistent_empty : Consistent {} := by intro a r t; simp

theorem mem_fwdOf {nd : NodeData} {a t : Node} {r : Rel} : t ∈ fwdOf nd a r ↔ (⟨a, r, t⟩ : Link) ∈ nd.fwd := by
  simp only [fwdOf, List.mem_map, List.mem_filter, Bool.and_eq_true, beq_iff_eq]
  constructor
  · rintro ⟨⟨s, r', d⟩, ⟨hm, h1, h2⟩, h3⟩
    simp at h1 h2 h3; subst h1 h2 h3; exact hm
  · intro h; exact ⟨⟨a, r, t⟩, ⟨h, by simp⟩, rfl⟩

theorem mem_invOf {nd : NodeData} {a t : Node} {r : Rel} : a ∈ invOf nd t r ↔ (⟨t, r, a⟩ : Link) ∈ nd.inv := by
  simp only [invOf, List.mem_map, List.mem_filter, Bool.and_eq_true, beq_iff_eq]
  constructor
  · rintro ⟨⟨s, r', d⟩, ⟨hm, h1, h2⟩, h3⟩
    simp at h1 h2 h3; subst h1 h2 h3; exact hm
  · intro h; exact ⟨⟨t, r, a⟩, ⟨h, by simp⟩, rfl⟩

theorem inv_iff_fwd {nd : NodeData} (h : Consistent nd) (a t : Node) (r : Rel) :
    a ∈ invOf nd t r ↔ t ∈ fwdOf nd a r := by
  rw [mem_invOf, mem_fwdOf, h a r t]

theorem mem_map_pair {l : List Node} {f : Node → Edge} {c : Node} {e : Edge} :
    (c, e) ∈ l.map (fun u => (u, f u)) ↔ c ∈ l ∧ e = f c := by
  simp only [List.mem_map, Prod.mk.injEq]
  constructor
  · rintro ⟨y, hy, rfl, rfl⟩; exact ⟨hy, rfl⟩
  · rintro ⟨h, rfl⟩; exact ⟨c, h, rfl, rfl⟩

/-! ### the per-class `add_node` only produces edges between the node and its candidate -/

theorem succOf_wf (tab : Table) (nd : NodeData) (c : GClass) : WF (succOf tab nd c) := by
  intro n x e h
  cases c <;> simp only [succOf] at h
  all_goals first
    | (split at h
       · simp at h
       · simp only [List.mem_append, List.mem_map] at h
         rcases h with ⟨y, _, hy⟩ | ⟨y, _, hy⟩ <;> (simp only [Prod.mk.injEq] at hy; obtain ⟨rfl, rfl⟩ := hy; simp))
    | (simp only [List.mem_append, List.mem_map] at h
       rcases h with ⟨y, _, hy⟩ | ⟨y, _, hy⟩ <;> (simp only [Prod.mk.injEq] at hy; obtain ⟨rfl, rfl⟩ := hy; simp))
    | (simp only [List.mem_map] at h
       obtain ⟨y, _, hy⟩ := h
       simp only [Prod.mk.injEq] at hy; obtain ⟨rfl, rfl⟩ := hy; simp)

/-! ### `get_call_nodes` -/

/-- `Nearest tab c x`: `x` is shown for the call `c`: `c` itself when it is kept, otherwise
    what is shown for the calls / bindings of `c`. -/
inductive Nearest (tab : Table) : Node → Node → Prop
  | here {c : Node} : keep tab c = true → Nearest tab c c
  | skip {c d x : Node} : keep tab c = false → d ∈ callChildren tab c → Nearest tab d x → Nearest tab c x

theorem callNodesAux_sound (tab : Table) (P : Node → Prop) (fuel : Nat) (stack vis res r : List Node)
    (hres : ∀ x ∈ res, P x) (hst : ∀ c ∈ stack, ∀ x, Nearest tab c x → P x)
    (h : callNodesAux tab fuel stack vis res = some r) : ∀ x ∈ r, P x := by
  fun_induction callNodesAux tab fuel stack vis res
  case case1 => simp at h; exact h ▸ hres
  case case2 => simp at h
  case case3 ih => exact ih hres (fun c hc => hst c (List.mem_cons_of_mem _ hc)) h
  case case4 f c rest vis res hv hk ih =>
    refine ih ?_ (fun d hd => hst d (List.mem_cons_of_mem _ hd)) h
    intro x hx
    rcases List.mem_append.1 hx with hx | hx
    · exact hres x hx
    · simp at hx; subst hx; exact hst x (List.mem_cons_self ..) x (.here hk)
  case case5 f c rest vis res hv hk ih =>
    refine ih hres ?_ h
    intro d hd x hn
    rcases List.mem_append.1 hd with hd | hd
    · exact hst c (List.mem_cons_self ..) x (.skip (by simpa using hk) hd hn)
    · exact hst d (List.mem_cons_of_mem _ hd) x hn

structure CallInv (tab : Table) (stack vis res : List Node) : Prop where
  kept : ∀ v ∈ vis, keep tab v = true → v ∈ res
  closed : ∀ v ∈ vis, keep tab v = false → ∀ d ∈ callChildren tab v, d ∈ vis ∨ d ∈ stack

theorem callNodesAux_complete (tab : Table) (fuel : Nat) (stack vis res r : List Node)
    (inv : CallInv tab stack vis res)
    (h : callNodesAux tab fuel stack vis res = some r) :
    ∀ c x, (c ∈ vis ∨ c ∈ stack) → Nearest tab c x → x ∈ r := by
  fun_induction callNodesAux tab fuel stack vis res
  case case1 vis res =>
    simp at h; subst h
    intro c x hc hn
    have hcv : c ∈ vis := by simpa using hc
    clear hc
    induction hn with
    | here hk => exact inv.kept _ hcv hk
    | skip hk hd _ ih =>
      rcases inv.closed _ hcv hk _ hd with h' | h'
      · exact ih h'
      · simp at h'
  case case2 => simp at h
  case case3 f c rest vis res hv ih =>
    have hcv : c ∈ vis := by simpa using hv
    refine fun c' x hc' hn => ih ⟨inv.kept, ?_⟩ h c' x ?_ hn
    · intro v hvv hk d hd
      rcases inv.closed v hvv hk d hd with h' | h'
      · exact Or.inl h'
      · rcases List.mem_cons.1 h' with rfl | h''
        · exact Or.inl hcv
        · exact Or.inr h''
    · rcases hc' with h' | h'
      · exact Or.inl h'
      · rcases List.mem_cons.1 h' with rfl | h''
        · exact Or.inl hcv
        · exact Or.inr h''
  case case4 f c rest vis res hv hk ih =>
    refine fun c' x hc' hn => ih ⟨?_, ?_⟩ h c' x ?_ hn
    · intro v hvv hkv
      rcases List.mem_cons.1 hvv with rfl | h'
      · simp
      · exact List.mem_append.2 (Or.inl (inv.kept v h' hkv))
    · intro v hvv hkv d hd
      rcases List.mem_cons.1 hvv with rfl | h'
      · simp [hk] at hkv
      · rcases inv.closed v h' hkv d hd with h'' | h''
        · exact Or.inl (List.mem_cons_of_mem _ h'')
        · rcases List.mem_cons.1 h'' with rfl | h3
          · exact Or.inl (List.mem_cons_self ..)
          · exact Or.inr h3
    · rcases hc' with h' | h'
      · exact Or.inl (List.mem_cons_of_mem _ h')
      · rcases List.mem_cons.1 h' with rfl | h''
        · exact Or.inl (List.mem_cons_self ..)
        · exact Or.inr h''
  case case5 f c rest vis res hv hk ih =>
    refine fun c' x hc' hn => ih ⟨?_, ?_⟩ h c' x ?_ hn
    · intro v hvv hkv
      rcases List.mem_cons.1 hvv with rfl | h'
      · simp [hkv] at hk
      · exact inv.kept v h' hkv
    · intro v hvv hkv d hd
      rcases List.mem_cons.1 hvv with rfl | h'
      · exact Or.inr (List.mem_append.2 (Or.inl hd))
      · rcases inv.closed v h' hkv d hd with h'' | h''
        · exact Or.inl (List.mem_cons_of_mem _ h'')
        · rcases List.mem_cons.1 h'' with rfl | h3
          · exact Or.inl (List.mem_cons_self ..)
          · exact Or.inr (List.mem_append.2 (Or.inr h3))
    · rcases hc' with h' | h'
      · exact Or.inl (List.mem_cons_of_mem _ h')
      · rcases List.mem_cons.1 h' with rfl | h''
        · exact Or.inl (List.mem_cons_self ..)
        · exact Or.inr (List.mem_append.2 (Or.inr h''))

/-! ### the stored relation is exactly the declared one -/

/-- every forward set holds exactly what the table declares for the entities that have a node -/
def LinksExact (tab : Table) (nd : NodeData) : Prop :=
  ∀ a r t, (⟨a, r, t⟩ : Link) ∈ nd.fwd ↔ a ∈ nd.created ∧ (r, t) ∈ targets tab a

theorem linksExact_empty (tab : Table) : LinksExact tab {} := by intro a r t; simp

theorem foldl_link_fwd (ts : List (Rel × Node)) (e : Node) (nd : NodeData) (x : Link) :
    x ∈ (ts.foldl (fun nd rt => link nd e rt) nd).fwd ↔ x ∈ nd.fwd ∨ ∃ rt ∈ ts, x = ⟨e, rt.1, rt.2⟩ := by
  induction ts generalizing nd with
  | nil => simp
  | cons t r ih =>
    rw [List.foldl_cons, ih]
    simp only [link, mem_insertLink, List.mem_cons]
    constructor
    · rintro ((rfl | h) | ⟨rt, hrt, rfl⟩)
      · exact Or.inr ⟨t, Or.inl rfl, rfl⟩
      · exact Or.inl h
      · exact Or.inr ⟨rt, Or.inr hrt, rfl⟩
    · rintro (h | ⟨rt, (rfl | hrt), rfl⟩)
      · exact Or.inl (Or.inr h)
      · exact Or.inl (Or.inl rfl)
      · exact Or.inr ⟨rt, hrt, rfl⟩

/-- Node creation stores, for every node it makes, exactly the links `targets` lists — no link is
    lost and none is invented, whatever the order of creation and however the relation loops. -/
theorem create_exact (tab : Table) (fuel : Nat) (stack : List Node) (nd nd' : NodeData)
    (h : LinksExact tab nd) (hc : create tab fuel stack nd = some nd') : LinksExact tab nd' := by
  fun_induction create tab fuel stack nd
  case case1 => simp at hc; exact hc ▸ h
  case case2 => simp at hc
  case case3 ih => exact ih h hc
  case case4 f e rest nd hnot ts ih =>
    apply ih _ hc
    intro a r t
    rw [foldl_link_fwd, foldl_link_created]
    simp only [List.mem_append, List.mem_singleton]
    rw [h a r t]
    constructor
    · rintro (⟨ha, ht⟩ | ⟨rt, hrt, heq⟩)
      · exact ⟨Or.inl ha, ht⟩
      · simp only [Link.mk.injEq] at heq
        obtain ⟨rfl, rfl, rfl⟩ := heq
        exact ⟨Or.inr rfl, hrt⟩
    · rintro ⟨ha | rfl, ht⟩
      · exact Or.inl ⟨ha, ht⟩
      · exact Or.inr ⟨(r, t), ht, rfl⟩

/-- every entity handed to `register` / `get_node` has a node afterwards (and nodes are never removed) -/
theorem create_created (tab : Table) (fuel : Nat) (stack : List Node) (nd nd' : NodeData)
    (hc : create tab fuel stack nd = some nd') :
    (∀ x ∈ nd.created, x ∈ nd'.created) ∧ ∀ x ∈ stack, x ∈ nd'.created := by
  fun_induction create tab fuel stack nd
  case case1 => simp at hc; subst hc; simp
  case case2 => simp at hc
  case case3 f e rest nd hin ih =>
    obtain ⟨h1, h2⟩ := ih hc
    refine ⟨h1, fun x hx => ?_⟩
    rcases List.mem_cons.1 hx with rfl | hx
    · exact h1 _ (by simpa using hin)
    · exact h2 x hx
  case case4 f e rest nd hnot ts ih =>
    obtain ⟨h1, h2⟩ := ih hc
    rw [foldl_link_created] at h1
    refine ⟨fun x hx => h1 x (List.mem_append.2 (Or.inl hx)), fun x hx => ?_⟩
    rcases List.mem_cons.1 hx with rfl | hx
    · exact h1 _ (by simp)
    · exact h2 x (List.mem_append.2 (Or.inr hx))

/-! ### the decision table of the interface links -/

theorem ruleOfIn_cases (rules : List C13Gen.IfaceRule) (c : Nat) :
    ruleOfIn rules c ∈ rules ∨ ruleOfIn rules c = { name := "" } := by
  unfold ruleOfIn
  rw [List.getD_eq_getElem?_getD]
  cases h : rules[c]? with
  | none => right; simp
  | some r => left; simpa using List.mem_of_getElem? h

/-- a property of every row (and of the default row) holds for the row of every class index -/
theorem ruleOfIn_all (rules : List C13Gen.IfaceRule) (P : C13Gen.IfaceRule → Prop)
    (hall : ∀ r ∈ rules, P r) (hdef : P { name := "" }) (c : Nat) : P (ruleOfIn rules c) := by
  rcases ruleOfIn_cases rules c with h | h
  · exact hall _ h
  · rw [h]; exact hdef

theorem mem_targets_iface {tab : Table} {i m : Node}
    (hk : (ent tab i).kind = .proc) (hi : (ent tab i).isIface = true) :
    (Rel.iface, m) ∈ targets tab i ↔ m ∈ ifaceTargets C13Gen.ifaceRules tab i := by
  simp only [targets, hk, hi, if_true, List.mem_append, List.mem_map]
  constructor
  · rintro ((⟨u, _, h⟩ | ⟨u, _, h⟩) | ⟨u, hu, h⟩)
    · cases h
    · cases h
    · cases h; exact hu
  · intro h; exact Or.inr ⟨m, h, rfl⟩

end Ford.Graph
