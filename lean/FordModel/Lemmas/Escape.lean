/-
  Lemmas about `escape`, `decode` and the tokenizer (C18).
-/
import FordModel.Escape
namespace Ford.Html

theorem decode_cons_ne (c : Char) (r : Str) (h : c ≠ '&') : decode (c :: r) = c :: decode r := by
  rw [decode.eq_def]
  split <;> simp_all

theorem decode_escapeChar (c : Char) (r : Str) : decode (escapeChar c ++ r) = c :: decode r := by
  unfold escapeChar
  split
  · simp_all [decode]
  · split
    · simp_all [decode]
    · split
      · simp_all [decode]
      · split
        · simp_all [decode]
        · split
          · simp_all [decode]
          · rename_i h _ _ _ _
            simp only [List.cons_append, List.nil_append]
            exact decode_cons_ne c r (by simpa using h)

theorem decode_escape_append (s r : Str) : decode (escape s ++ r) = s ++ decode r := by
  induction s with
  | nil => simp [escape]
  | cons c cs ih =>
    simp only [escape, List.append_assoc, List.cons_append]
    rw [decode_escapeChar, ih]

theorem escapeChar_safe (c : Char) : ∀ d ∈ escapeChar c, htmlSpecial d = false := by
  unfold escapeChar
  intro d hd
  split at hd
  · simp at hd; rcases hd with h | h | h | h | h <;> subst h <;> decide
  · split at hd
    · simp at hd; rcases hd with h | h | h | h <;> subst h <;> decide
    · split at hd
      · simp at hd; rcases hd with h | h | h | h <;> subst h <;> decide
      · split at hd
        · simp at hd; rcases hd with h | h | h | h | h <;> subst h <;> decide
        · split at hd
          · simp at hd; rcases hd with h | h | h | h | h <;> subst h <;> decide
          · simp at hd; subst hd
            simp_all [htmlSpecial]

theorem escape_safe (s : Str) : ∀ d ∈ escape s, htmlSpecial d = false := by
  induction s with
  | nil => simp [escape]
  | cons c cs ih =>
    intro d hd
    simp only [escape, List.mem_append] at hd
    rcases hd with h | h
    · exact escapeChar_safe c d h
    · exact ih d h

theorem hstep_safe (st : HSt) (c : Char) (hst : st.stable = true) (hc : htmlSpecial c = false) :
    (hstep st c).1 = st ∧ evTags (hstep st c).2 = [] ∧ (st = .text → (hstep st c).2 = [.ch c]) := by
  simp only [htmlSpecial, Bool.or_eq_false_iff] at hc
  obtain ⟨⟨⟨h1, h2⟩, h3⟩, h4⟩ := hc
  cases st <;> simp_all [HSt.stable, hstep, textStep, evTags]

theorem hrun_safe (s : Str) (hs : ∀ d ∈ s, htmlSpecial d = false) (st : HSt) (hst : st.stable = true) :
    (hrun st s).1 = st ∧ evTags (hrun st s).2 = [] ∧ (st = .text → evChars (hrun st s).2 = s) := by
  induction s with
  | nil => simp [hrun, evTags, evChars]
  | cons c cs ih =>
    have hc := hs c (by simp)
    have hcs : ∀ d ∈ cs, htmlSpecial d = false := fun d hd => hs d (by simp [hd])
    obtain ⟨e1, e2, e3⟩ := hstep_safe st c hst hc
    obtain ⟨i1, i2, i3⟩ := ih hcs
    simp only [hrun, e1]
    refine ⟨i1, ?_, ?_⟩
    · rw [evTags_append, e2, i2]; rfl
    · intro ht
      rw [e3 ht]
      simp [evChars, i3 ht]
where
  evTags_append : ∀ (a b : List Ev), evTags (a ++ b) = evTags a ++ evTags b := by
    intro a b
    induction a with
    | nil => rfl
    | cons x xs ih => cases x <;> simp [evTags, ih]

theorem evTags_append (a b : List Ev) : evTags (a ++ b) = evTags a ++ evTags b := by
  induction a with
  | nil => rfl
  | cons x xs ih => cases x <;> simp [evTags, ih]

theorem evChars_append (a b : List Ev) : evChars (a ++ b) = evChars a ++ evChars b := by
  induction a with
  | nil => rfl
  | cons x xs ih => cases x <;> simp [evChars, ih]

theorem hrun_append (a b : Str) (st : HSt) :
    hrun st (a ++ b) = ((hrun (hrun st a).1 b).1, (hrun st a).2 ++ (hrun (hrun st a).1 b).2) := by
  induction a generalizing st with
  | nil => simp [hrun]
  | cons c cs ih => simp [hrun, ih]

/-- inserting escaped text in a stable state leaves the state and the tags alone -/
theorem hscanFrom_escape (st : HSt) (hst : st.stable = true) (s r : Str) :
    evTags (hscanFrom st (escape s ++ r)) = evTags (hscanFrom st r) ∧
    (st = .text → evChars (hscanFrom st (escape s ++ r)) = escape s ++ evChars (hscanFrom st r)) := by
  obtain ⟨h1, h2, h3⟩ := hrun_safe (escape s) (escape_safe s) st hst
  simp only [hscanFrom, hrun_append, h1]
  constructor
  · simp [evTags_append, h2]
  · intro ht
    simp [evChars_append, h3 ht]

end Ford.Html
