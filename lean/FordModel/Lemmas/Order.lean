import FordModel.Order
namespace Ford.Order
open Ford

/-! ### `strLe` is a total order -/

theorem strLe_refl (a : Str) : strLe a a = true := by
  induction a with
  | nil => rfl
  | cons c cs ih => simp [strLe, ih]

theorem strLe_total (a b : Str) : (strLe a b || strLe b a) = true := by
  induction a generalizing b with
  | nil => simp [strLe]
  | cons c cs ih =>
    cases b with
    | nil => simp [strLe]
    | cons d ds =>
      simp only [strLe]
      by_cases h1 : c.toNat < d.toNat
      · simp [h1]
      · by_cases h2 : d.toNat < c.toNat
        · simp [h1, h2]
        · simp [h1, h2]
          have := ih ds
          simpa using this

theorem strLe_trans (a b c : Str) : strLe a b = true → strLe b c = true → strLe a c = true := by
  induction a generalizing b c with
  | nil => intro _ _; simp [strLe]
  | cons x xs ih =>
    cases b with
    | nil => simp [strLe]
    | cons y ys =>
      cases c with
      | nil => simp [strLe]
      | cons z zs =>
        simp only [strLe]
        intro h1 h2
        by_cases hxy : x.toNat < y.toNat
        · by_cases hyz : y.toNat < z.toNat
          · have : x.toNat < z.toNat := by omega
            simp [this]
          · by_cases hzy : z.toNat < y.toNat
            · simp [hyz, hzy] at h2
            · have : x.toNat < z.toNat := by omega
              simp [this]
        · by_cases hyx : y.toNat < x.toNat
          · simp [hxy, hyx] at h1
          · simp [hxy, hyx] at h1
            by_cases hyz : y.toNat < z.toNat
            · have : x.toNat < z.toNat := by omega
              simp [this]
            · by_cases hzy : z.toNat < y.toNat
              · simp [hyz, hzy] at h2
              · simp [hyz, hzy] at h2
                have h3 : ¬ x.toNat < z.toNat := by omega
                have h4 : ¬ z.toNat < x.toNat := by omega
                simp [h3, h4]
                exact ih ys zs h1 h2

theorem strLe_antisymm (a b : Str) : strLe a b = true → strLe b a = true → a = b := by
  induction a generalizing b with
  | nil =>
    cases b with
    | nil => intros; rfl
    | cons d ds => simp [strLe]
  | cons c cs ih =>
    cases b with
    | nil => simp [strLe]
    | cons d ds =>
      simp only [strLe]
      intro h1 h2
      by_cases hcd : c.toNat < d.toNat
      · have : ¬ d.toNat < c.toNat := by omega
        simp [hcd, this] at h2
      · by_cases hdc : d.toNat < c.toNat
        · simp [hcd, hdc] at h1
        · simp [hcd, hdc] at h1 h2
          have hn : c.toNat = d.toNat := by omega
          have hc : c = d := Char.toNat_inj.mp hn
          rw [hc, ih ds h1 h2]

/-! ### `sorted` forgets the order of its input -/

theorem eq_of_nodup_map {α β : Type} (f : α → β) :
    ∀ (l : List α), (l.map f).Nodup → ∀ a b, a ∈ l → b ∈ l → f a = f b → a = b := by
  intro l
  induction l with
  | nil => intro _ a b ha; cases ha
  | cons x xs ih =>
    intro hnd a b ha hb hab
    simp only [List.map_cons, List.nodup_cons, List.mem_map, not_exists, not_and] at hnd
    rcases List.mem_cons.mp ha with rfl | ha'
    · rcases List.mem_cons.mp hb with rfl | hb'
      · rfl
      · exact absurd hab.symm (hnd.1 b hb')
    · rcases List.mem_cons.mp hb with rfl | hb'
      · exact absurd hab (hnd.1 a ha')
      · exact ih hnd.2 a b ha' hb' hab

theorem nodup_map_inj {α β : Type} (f : α → β) (hf : ∀ a b, f a = f b → a = b) :
    ∀ (l : List α), l.Nodup → (l.map f).Nodup := by
  intro l
  induction l with
  | nil => intro _; simp
  | cons x xs ih =>
    intro h
    simp only [List.nodup_cons] at h
    simp only [List.map_cons, List.nodup_cons, List.mem_map, not_exists, not_and]
    refine ⟨?_, ih h.2⟩
    intro y hy hxy
    have := hf _ _ hxy
    subst this
    exact h.1 hy

/-- Two lists with the same elements and pairwise different keys sort to the same list. -/
theorem sortOn_perm {α : Type} (key : α → Str) (l₁ l₂ : List α) (hp : l₁.Perm l₂)
    (hinj : ∀ a b, a ∈ l₁ → b ∈ l₁ → key a = key b → a = b) :
    sortOn key l₁ = sortOn key l₂ := by
  unfold sortOn
  have tr : ∀ a b c : α, strLe (key a) (key b) = true → strLe (key b) (key c) = true →
      strLe (key a) (key c) = true := fun a b c => strLe_trans _ _ _
  have tot : ∀ a b : α, (strLe (key a) (key b) || strLe (key b) (key a)) = true :=
    fun a b => strLe_total _ _
  have s1 := List.pairwise_mergeSort (le := fun a b => strLe (key a) (key b)) tr tot l₁
  have s2 := List.pairwise_mergeSort (le := fun a b => strLe (key a) (key b)) tr tot l₂
  have p1 := List.mergeSort_perm l₁ (fun a b => strLe (key a) (key b))
  have p2 := List.mergeSort_perm l₂ (fun a b => strLe (key a) (key b))
  refine List.Perm.eq_of_pairwise ?_ s1 s2 (p1.trans (hp.trans p2.symm))
  intro a b ha hb hab hba
  have ha' : a ∈ l₁ := p1.mem_iff.mp ha
  have hb' : b ∈ l₁ := hp.mem_iff.mpr (p2.mem_iff.mp hb)
  exact hinj a b ha' hb' (strLe_antisymm _ _ hab hba)

theorem sortOn_perm_of_nodup {α : Type} (key : α → Str) (l₁ l₂ : List α) (hp : l₁.Perm l₂)
    (hnd : (l₁.map key).Nodup) : sortOn key l₁ = sortOn key l₂ :=
  sortOn_perm key l₁ l₂ hp (eq_of_nodup_map key l₁ hnd)

/-- a list that is already ordered by the key is left as it is (the sort is stable: ties keep their order) -/
theorem sortOn_of_sorted {α : Type} (key : α → Str) (l : List α)
    (h : l.Pairwise (fun a b => strLe (key a) (key b) = true)) : sortOn key l = l := by
  unfold sortOn
  exact List.mergeSort_of_pairwise h

theorem sortOn_sorted {α : Type} (key : α → Str) (l : List α) :
    (sortOn key l).Pairwise (fun a b => strLe (key a) (key b) = true) := by
  unfold sortOn
  exact List.pairwise_mergeSort (le := fun a b => strLe (key a) (key b))
    (fun a b c => strLe_trans _ _ _) (fun a b => strLe_total _ _) l

theorem sortOn_perm_self {α : Type} (key : α → Str) (l : List α) : (sortOn key l).Perm l :=
  List.mergeSort_perm l _

/-! ### NameSelector -/

theorem numberAux_nil {lk : Bool} (seen : List Ent) : numberAux lk seen [] = [] := by simp [numberAux]

theorem numberAux_seen {lk : Bool} (seen rest : List Ent) (e : Ent) (h : seen.any (fun s => s.uid == e.uid) = true) :
    numberAux lk seen (e :: rest) = numberAux lk seen rest := by
  rw [numberAux]; simp only [h, if_true]

theorem numberAux_new {lk : Bool} (seen rest : List Ent) (e : Ent) (h : seen.any (fun s => s.uid == e.uid) = false) :
    numberAux lk seen (e :: rest) =
      (e, (seen.filter (fun s => s.keyAs lk == e.keyAs lk)).length + 1) :: numberAux lk (e :: seen) rest := by
  rw [numberAux]; simp only [h]; rfl

/-- Under pairwise different keys every new item is the first of its key. -/
theorem numberAux_unique {lk : Bool} (seen reqs : List Ent)
    (hinj : ∀ a b, a ∈ seen ++ reqs → b ∈ seen ++ reqs → a.keyAs lk = b.keyAs lk → a.uid = b.uid) :
    ∀ p, p ∈ numberAux lk seen reqs → p.2 = 1 := by
  induction reqs generalizing seen with
  | nil => intro p hp; simp [numberAux] at hp
  | cons e rest ih =>
    intro p hp
    unfold numberAux at hp
    split at hp
    · apply ih seen _ p hp
      intro a b ha hb
      apply hinj a b <;> simp_all <;> grind
    · rename_i hnot
      rcases List.mem_cons.mp hp with rfl | hp'
      · simp only [Nat.add_eq_right, List.length_eq_zero_iff, List.filter_eq_nil_iff]
        intro s hs hk
        have hk' : s.keyAs lk = e.keyAs lk := by simpa using hk
        have : s.uid = e.uid := hinj s e (by simp [hs]) (by simp) hk'
        apply hnot
        simp only [List.any_eq_true]
        exact ⟨s, hs, by simp [this]⟩
      · apply ih (e :: seen) _ p hp'
        intro a b ha hb
        apply hinj a b <;> simp_all <;> grind

/-- every requested item not yet seen gets a number -/
theorem numberAux_mem {lk : Bool} (seen reqs : List Ent) (e : Ent) (he : e ∈ reqs)
    (hns : seen.any (fun s => s.uid == e.uid) = false) :
    ∃ p, p ∈ numberAux lk seen reqs ∧ p.1.uid = e.uid := by
  induction reqs generalizing seen with
  | nil => cases he
  | cons x rest ih =>
    unfold numberAux
    split
    · rename_i hx
      rcases List.mem_cons.mp he with rfl | he'
      · simp_all
      · exact ih seen he' hns
    · rename_i hx
      by_cases hxe : x.uid = e.uid
      · exact ⟨_, List.mem_cons_self, hxe⟩
      · rcases List.mem_cons.mp he with rfl | he'
        · exact absurd rfl hxe
        · have : (x :: seen).any (fun s => s.uid == e.uid) = false := by
            simp [List.any_cons, hns, hxe]
          obtain ⟨p, hp, hpe⟩ := ih (x :: seen) he' this
          exact ⟨p, List.mem_cons_of_mem _ hp, hpe⟩

/-- numbering never revisits an item: the first components have pairwise different uids,
    all different from the uids already seen -/
theorem numberAux_fresh {lk : Bool} (seen reqs : List Ent) :
    ∀ p, p ∈ numberAux lk seen reqs → seen.any (fun s => s.uid == p.1.uid) = false := by
  induction reqs generalizing seen with
  | nil => intro p hp; simp [numberAux] at hp
  | cons x rest ih =>
    intro p hp
    by_cases hx : seen.any (fun s => s.uid == x.uid) = true
    · rw [numberAux_seen _ _ _ hx] at hp
      exact ih seen p hp
    · have hx' : seen.any (fun s => s.uid == x.uid) = false := by simpa using hx
      rw [numberAux_new _ _ _ hx'] at hp
      rcases List.mem_cons.mp hp with rfl | hp'
      · exact hx'
      · have := ih (x :: seen) p hp'
        rw [List.any_cons, Bool.or_eq_false_iff] at this
        exact this.2

/-- later requests do not change what earlier ones were given -/
theorem numberAux_append {lk : Bool} (seen r₁ r₂ : List Ent) :
    ∃ seen', numberAux lk seen (r₁ ++ r₂) = numberAux lk seen r₁ ++ numberAux lk seen' r₂ := by
  induction r₁ generalizing seen with
  | nil => exact ⟨seen, by simp [numberAux_nil]⟩
  | cons x rest ih =>
    rw [List.cons_append]
    by_cases hx : seen.any (fun s => s.uid == x.uid) = true
    · rw [numberAux_seen _ _ _ hx, numberAux_seen _ _ _ hx]
      exact ih seen
    · have hx' : seen.any (fun s => s.uid == x.uid) = false := by simpa using hx
      rw [numberAux_new _ _ _ hx', numberAux_new _ _ _ hx']
      obtain ⟨s', hs'⟩ := ih (x :: seen)
      exact ⟨s', by rw [hs', List.cons_append]⟩

/-- a number handed out exceeds the number of items already seen under the same key -/
theorem numberAux_gt {lk : Bool} (seen reqs : List Ent) :
    ∀ p, p ∈ numberAux lk seen reqs →
      (seen.filter (fun s => s.keyAs lk == p.1.keyAs lk)).length < p.2 := by
  induction reqs generalizing seen with
  | nil => intro p hp; simp [numberAux] at hp
  | cons x rest ih =>
    intro p hp
    by_cases hx : seen.any (fun s => s.uid == x.uid) = true
    · rw [numberAux_seen _ _ _ hx] at hp
      exact ih seen p hp
    · have hx' : seen.any (fun s => s.uid == x.uid) = false := by simpa using hx
      rw [numberAux_new _ _ _ hx'] at hp
      rcases List.mem_cons.mp hp with rfl | hp'
      · simp
      · have := ih (x :: seen) p hp'
        rw [List.filter_cons] at this
        split at this
        · simp only [List.length_cons] at this; omega
        · exact this

/-- two different items never get the same number under the same key -/
theorem numberAux_distinct {lk : Bool} (seen reqs : List Ent) :
    ∀ p q, p ∈ numberAux lk seen reqs → q ∈ numberAux lk seen reqs →
      p.1.keyAs lk = q.1.keyAs lk → p.2 = q.2 → p = q := by
  induction reqs generalizing seen with
  | nil => intro p q hp; simp [numberAux] at hp
  | cons x rest ih =>
    intro p q hp hq hk hn
    by_cases hx : seen.any (fun s => s.uid == x.uid) = true
    · rw [numberAux_seen _ _ _ hx] at hp hq
      exact ih seen p q hp hq hk hn
    · have hx' : seen.any (fun s => s.uid == x.uid) = false := by simpa using hx
      rw [numberAux_new _ _ _ hx'] at hp hq
      rcases List.mem_cons.mp hp with rfl | hp'
      · rcases List.mem_cons.mp hq with rfl | hq'
        · rfl
        · have := numberAux_gt (x :: seen) rest q hq'
          rw [List.filter_cons] at this
          have hb : (x.keyAs lk == q.1.keyAs lk) = true := by simpa using hk
          simp only [hb, if_true, List.length_cons] at this
          simp only at hn hk
          rw [← hk] at this
          omega
      · rcases List.mem_cons.mp hq with rfl | hq'
        · have := numberAux_gt (x :: seen) rest p hp'
          rw [List.filter_cons] at this
          have hb : (x.keyAs lk == p.1.keyAs lk) = true := by simpa using hk.symm
          simp only [hb, if_true, List.length_cons] at this
          simp only at hn hk
          rw [hk] at this
          omega
        · exact ih (x :: seen) p q hp' hq' hk hn

/-! ### file-system operation lists -/

theorem look_filter (fs : FS) (q : Path → Bool) (p : Path) :
    look (fs.filter (fun e => q e.1)) p = if q p then look fs p else none := by
  induction fs with
  | nil => simp [look]
  | cons e es ih =>
    unfold look at ih ⊢
    rw [List.filter_cons]
    by_cases hq : q e.1 = true
    · rw [if_pos hq]
      by_cases hp : e.1 = p
      · subst hp
        simp only [List.find?_cons, beq_self_eq_true, hq, if_true]
      · have hp' : (e.1 == p) = false := by simpa using hp
        simp only [List.find?_cons, hp']
        exact ih
    · rw [if_neg hq]
      by_cases hp : e.1 = p
      · subst hp
        rw [ih]
        simp only [hq, if_false, Bool.false_eq_true]
      · have hp' : (e.1 == p) = false := by simpa using hp
        simp only [List.find?_cons, hp']
        exact ih

theorem look_apply_rmtree (d : Path) (fs : FS) (p : Path) :
    look (apply (.rmtree d) fs) p = if isUnder d p then none else look fs p := by
  simp only [apply]
  rw [look_filter fs (fun x => !isUnder d x) p]
  cases isUnder d p <;> simp

theorem look_apply_write (q : Path) (c : Str) (fs : FS) (p : Path) :
    look (apply (.write q c) fs) p = if q = p then some c else look fs p := by
  simp only [apply]
  by_cases h : q = p
  · subst h; simp [look, List.find?_cons]
  · have hb : (q == p) = false := by simpa using h
    have := look_filter fs (fun x => !(x == q)) p
    simp only [look, List.find?_cons, hb] at this ⊢
    rw [this]
    have : (p == q) = false := by simpa using (fun h' => h h'.symm)
    simp [h, this]

/-- what an operation does at `p` depends only on what was at `p` before -/
theorem look_apply_congr (op : Op) (fs₁ fs₂ : FS) (p : Path) (h : look fs₁ p = look fs₂ p) :
    look (apply op fs₁) p = look (apply op fs₂) p := by
  cases op with
  | rmtree d => simp [look_apply_rmtree, h]
  | write q c => simp [look_apply_write, h]

theorem look_run_congr (ops : List Op) (fs₁ fs₂ : FS) (p : Path) (h : look fs₁ p = look fs₂ p) :
    look (run ops fs₁) p = look (run ops fs₂) p := by
  induction ops generalizing fs₁ fs₂ with
  | nil => simpa [run] using h
  | cons op rest ih =>
    simp only [run, List.foldl_cons]
    exact ih _ _ (look_apply_congr op fs₁ fs₂ p h)

/-- an operation whose target is not under `d` … leaves alone what is not its target -/
def Op.touches (op : Op) (p : Path) : Bool :=
  match op with
  | .rmtree d => isUnder d p
  | .write q _ => q == p

theorem look_apply_untouched (op : Op) (fs : FS) (p : Path) (h : op.touches p = false) :
    look (apply op fs) p = look fs p := by
  cases op with
  | rmtree d => simp [Op.touches] at h; simp [look_apply_rmtree, h]
  | write q c =>
    have : ¬ q = p := by simpa [Op.touches] using h
    simp [look_apply_write, this]

theorem look_run_untouched (ops : List Op) (fs : FS) (p : Path)
    (h : ∀ op ∈ ops, op.touches p = false) : look (run ops fs) p = look fs p := by
  induction ops generalizing fs with
  | nil => rfl
  | cons op rest ih =>
    simp only [run, List.foldl_cons]
    have := ih (apply op fs) (fun o ho => h o (List.mem_cons_of_mem _ ho))
    simp only [run] at this
    rw [this, look_apply_untouched op fs p (h op List.mem_cons_self)]

/-- last write wins -/
theorem look_run_writes (ws : List (Path × Str)) (fs : FS) (p : Path) :
    look (run (ws.map (fun w => Op.write w.1 w.2)) fs) p =
      match ws.reverse.find? (fun w => w.1 == p) with
      | some w => some w.2
      | none => look fs p := by
  induction ws generalizing fs with
  | nil => simp [run]
  | cons w rest ih =>
    simp only [List.map_cons, run, List.foldl_cons, List.reverse_cons]
    have := ih (apply (.write w.1 w.2) fs)
    simp only [run] at this
    rw [this, List.find?_append]
    cases hf : rest.reverse.find? (fun w => w.1 == p) with
    | some x => simp
    | none =>
      by_cases hw : w.1 = p
      · simp [look_apply_write, hw]
      · have : (w.1 == p) = false := by simpa using hw
        simp [look_apply_write, hw, this]

theorem find?_of_mem_nodup {α β : Type} [BEq α] [LawfulBEq α] (l : List (α × β)) (hnd : (l.map (·.1)).Nodup)
    (x : α × β) (hx : x ∈ l) : l.find? (fun w => w.1 == x.1) = some x := by
  induction l with
  | nil => cases hx
  | cons y ys ih =>
    simp only [List.map_cons, List.nodup_cons, List.mem_map, not_exists, not_and] at hnd
    rcases List.mem_cons.mp hx with rfl | hx'
    · simp [List.find?_cons]
    · have : ¬ y.1 = x.1 := fun h => hnd.1 x hx' h.symm
      have hb : (y.1 == x.1) = false := by simpa using this
      simp [List.find?_cons, hb, ih hnd.2 hx']

theorem find?_perm_nodup {α β : Type} [BEq α] [LawfulBEq α] (l₁ l₂ : List (α × β)) (hp : l₁.Perm l₂)
    (hnd : (l₁.map (·.1)).Nodup) (k : α) :
    l₁.find? (fun w => w.1 == k) = l₂.find? (fun w => w.1 == k) := by
  have hnd2 : (l₂.map (·.1)).Nodup := (hp.map _).nodup_iff.mp hnd
  cases h1 : l₁.find? (fun w => w.1 == k) with
  | some x =>
    have hx := List.mem_of_find?_eq_some h1
    have hk : x.1 = k := by simpa using List.find?_some h1
    have := find?_of_mem_nodup l₂ hnd2 x (hp.mem_iff.mp hx)
    rw [hk] at this
    exact this.symm
  | none =>
    cases h2 : l₂.find? (fun w => w.1 == k) with
    | none => rfl
    | some y =>
      have hy := List.mem_of_find?_eq_some h2
      have hk : y.1 = k := by simpa using List.find?_some h2
      have := find?_of_mem_nodup l₁ hnd y (hp.mem_iff.mpr hy)
      rw [hk, h1] at this
      cases this

/-! ### first hit of a probe sequence, sublists of a duplicate-free list -/

/-- `find?` does not see the order of the list when at most one element satisfies the predicate -/
theorem find?_perm_unique {α : Type} (p : α → Bool) (l₁ l₂ : List α) (hp : l₁.Perm l₂)
    (hu : ∀ a b, a ∈ l₁ → b ∈ l₁ → p a = true → p b = true → a = b) : l₁.find? p = l₂.find? p := by
  induction hp with
  | nil => rfl
  | cons x _ ih =>
    simp only [List.find?_cons]
    cases p x with
    | true => rfl
    | false =>
      exact ih (fun a b ha hb => hu a b (List.mem_cons_of_mem _ ha) (List.mem_cons_of_mem _ hb))
  | swap x y l =>
    simp only [List.find?_cons]
    cases hx : p x with
    | false => rfl
    | true =>
      cases hy : p y with
      | false => rfl
      | true =>
        have : y = x := hu y x (by simp) (by simp) hy hx
        rw [this]
  | trans h₁ _ ih₁ ih₂ =>
    rw [ih₁ hu]
    exact ih₂ (fun a b ha hb => hu a b (h₁.mem_iff.mpr ha) (h₁.mem_iff.mpr hb))

/-- a sublist of a duplicate-free list is determined by its elements -/
theorem sublist_eq_filter_mem {α : Type} [DecidableEq α] {l p : List α} (h : l.Sublist p) (hn : p.Nodup) :
    l = p.filter (fun x => decide (x ∈ l)) := by
  induction h with
  | slnil => rfl
  | @cons l' p' a hs ih =>
    have hn' := (List.nodup_cons.mp hn)
    have ha : a ∉ l' := fun hm => hn'.1 (hs.subset hm)
    rw [List.filter_cons]
    simp only [ha, decide_false, Bool.false_eq_true, if_false]
    exact ih hn'.2
  | @cons_cons l' p' a hs ih =>
    have hn' := (List.nodup_cons.mp hn)
    rw [List.filter_cons]
    simp only [List.mem_cons, true_or, decide_true, if_true]
    congr 1
    have e : p'.filter (fun x => decide (x = a ∨ x ∈ l')) = p'.filter (fun x => decide (x ∈ l')) := by
      apply List.filter_congr
      intro x hx
      have : x ≠ a := fun h => hn'.1 (h ▸ hx)
      simp [this]
    rw [e]
    exact ih hn'.2

/-- two sublists of a duplicate-free list with the same elements are the same list -/
theorem sublist_perm_eq {α : Type} [DecidableEq α] {l₁ l₂ p : List α} (h₁ : l₁.Sublist p) (h₂ : l₂.Sublist p)
    (hp : l₁.Perm l₂) (hn : p.Nodup) : l₁ = l₂ := by
  rw [sublist_eq_filter_mem h₁ hn, sublist_eq_filter_mem h₂ hn]
  apply List.filter_congr
  intro x _
  simp [hp.mem_iff]

/-! ### `find_all_files` / kind of a file -/

/-- what lies below an excluded directory is invisible to `findSources` -/
theorem findSources_eq_filter_notBelow (srcDirs excl : List Path) (exts : List Str) (out : Path) (h : out ∈ excl)
    (fs : FS) :
    findSources srcDirs excl exts fs =
      ((fs.map (·.1)).filter (fun p => !isBelow out p)).filter
        (fun p => srcDirs.any (isBelow · p) && !excl.any (isBelow · p) && hasSourceName exts p) := by
  unfold findSources
  rw [List.filter_filter]
  apply List.filter_congr
  intro p _
  by_cases hb : isBelow out p = true
  · have : excl.any (isBelow · p) = true := List.any_eq_true.mpr ⟨out, h, hb⟩
    simp [this]
  · simp [hb]

/-- membership tests do not see the order of a list -/
theorem contains_perm {l₁ l₂ : List Str} (hp : l₁.Perm l₂) (x : Str) : l₁.contains x = l₂.contains x := by
  cases h : l₂.contains x with
  | true => exact List.contains_iff_mem.mpr (hp.mem_iff.mpr (List.contains_iff_mem.mp h))
  | false =>
    cases h' : l₁.contains x with
    | false => rfl
    | true =>
      have := List.contains_iff_mem.mpr (hp.mem_iff.mp (List.contains_iff_mem.mp h'))
      rw [h] at this
      exact absurd this (by simp)

end Ford.Order
