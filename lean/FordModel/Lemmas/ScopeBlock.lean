import FordModel.ScopeBlock
import FordModel.Lemmas.Scope
namespace Ford.Scope
open Ford

/-! ### nothing is registered when the declaring branches are guarded -/

theorem filter_regDecl_none (reg : BlockReg) (ht : reg.ty = false) (hi : reg.ifc = false) (ds : List Decl) :
    ds.filter (regDecl reg) = [] := by
  induction ds with
  | nil => rfl
  | cons d ds ih =>
    have : regDecl reg d = false := by
      unfold regDecl; cases d.ns <;> simp [ht, hi]
    simp [List.filter, this, ih]

mutual
theorem blockDecls_none (reg : BlockReg) (ht : reg.ty = false) (hi : reg.ifc = false) (b : Block) :
    blockDecls reg b = [] := by
  match b with
  | .mk us ds inner =>
    simp only [blockDecls, filter_regDecl_none reg ht hi ds, blocksDecls_none reg ht hi inner, List.append_nil]
theorem blocksDecls_none (reg : BlockReg) (ht : reg.ty = false) (hi : reg.ifc = false) (bs : Blocks) :
    blocksDecls reg bs = [] := by
  match bs with
  | .nil => rfl
  | .cons b r =>
    simp only [blocksDecls, blockDecls_none reg ht hi b, blocksDecls_none reg ht hi r, List.append_nil]
end

mutual
theorem blockUses_noUse (b : Block) (h : blockNoUse b = true) : blockUses b = [] := by
  match b with
  | .mk us ds inner =>
    simp only [blockNoUse, Bool.and_eq_true, List.isEmpty_iff] at h
    simp only [blockUses, h.1, blocksUses_noUse inner h.2, List.append_nil]
theorem blocksUses_noUse (bs : Blocks) (h : blocksNoUse bs = true) : blocksUses bs = [] := by
  match bs with
  | .nil => rfl
  | .cons b r =>
    simp only [blocksNoUse, Bool.and_eq_true] at h
    simp only [blocksUses, blockUses_noUse b h.1, blocksUses_noUse r h.2, List.append_nil]
end

/-! ### flatten = erase -/

mutual
/-- every branch guarded: the parser builds the object tree of the program without its BLOCKs -/
theorem flatten_none (reg : BlockReg) (hu : reg.use = false) (ht : reg.ty = false) (hi : reg.ifc = false)
    (s : BScope) : flatten reg s = eraseBlocks s := by
  match s with
  | .mk n e f us ds ss bs ks =>
    simp only [flatten, eraseBlocks, hu, Bool.false_eq_true, ↓reduceIte, List.append_nil,
      blocksDecls_none reg ht hi bs, flattenKids_none reg hu ht hi ks]
theorem flattenKids_none (reg : BlockReg) (hu : reg.use = false) (ht : reg.ty = false) (hi : reg.ifc = false)
    (ks : BKids) : flattenKids reg ks = eraseKids ks := by
  match ks with
  | .nil => rfl
  | .cons s r =>
    simp only [flattenKids, eraseKids, flatten_none reg hu ht hi s, flattenKids_none reg hu ht hi r]
end

mutual
/-- USE branch unguarded or not: without a USE statement in any BLOCK of the tree the parser
    builds the object tree of the program without its BLOCKs -/
theorem flatten_noBlockUse (reg : BlockReg) (ht : reg.ty = false) (hi : reg.ifc = false)
    (s : BScope) (h : noBlockUse s = true) : flatten reg s = eraseBlocks s := by
  match s with
  | .mk n e f us ds ss bs ks =>
    simp only [noBlockUse, Bool.and_eq_true] at h
    simp only [flatten, eraseBlocks, blocksUses_noUse bs h.1, ite_self, List.append_nil,
      blocksDecls_none reg ht hi bs, flattenKids_noBlockUse reg ht hi ks h.2]
theorem flattenKids_noBlockUse (reg : BlockReg) (ht : reg.ty = false) (hi : reg.ifc = false)
    (ks : BKids) (h : kidsNoBlockUse ks = true) : flattenKids reg ks = eraseKids ks := by
  match ks with
  | .nil => rfl
  | .cons s r =>
    simp only [kidsNoBlockUse, Bool.and_eq_true] at h
    simp only [flattenKids, eraseKids, flatten_noBlockUse reg ht hi s h.1, flattenKids_noBlockUse reg ht hi r h.2]
end

mutual
theorem registered_none (reg : BlockReg) (ht : reg.ty = false) (hi : reg.ifc = false) (s : BScope) :
    registered reg s = [] := by
  match s with
  | .mk n e f us ds ss bs ks =>
    simp only [registered, blocksDecls_none reg ht hi bs, List.map_nil, List.nil_append,
      registeredKids_none reg ht hi ks]
theorem registeredKids_none (reg : BlockReg) (ht : reg.ty = false) (hi : reg.ifc = false) (ks : BKids) :
    registeredKids reg ks = [] := by
  match ks with
  | .nil => rfl
  | .cons s r =>
    simp only [registeredKids, registered_none reg ht hi s, registeredKids_none reg ht hi r, List.append_nil]
end

end Ford.Scope
