import FordModel.Scope
import FordModel.ScopeSpec
namespace Ford.Scope
open Ford

/-! ### tables -/

theorem tget_append (u d : Table) (k : Str) :
    tget (u ++ d) k = match tget u k with
      | some e => some e
      | none => tget d k := by
  induction u with
  | nil => simp [tget]
  | cons x xs ih =>
    obtain ⟨k', e⟩ := x
    by_cases h : k' = k <;> simp [tget, h, ih]

/-- two tables that answer every lookup alike -/
def Same (x y : Table) : Prop := ∀ k, tget x k = tget y k

theorem Same.append {x y : Table} (u : Table) (h : Same x y) : Same (u ++ x) (u ++ y) := by
  intro k; simp [tget_append, h k]

/-! ### USE -/

theorem applyUses_append (env : ModEnv) (us : List Use) (x y z hp ha ht : Table) :
    applyUses env us ⟨x ++ hp, y ++ ha, z ++ ht⟩ =
      ⟨(applyUses env us ⟨x, y, z⟩).p ++ hp, (applyUses env us ⟨x, y, z⟩).a ++ ha,
       (applyUses env us ⟨x, y, z⟩).t ++ ht⟩ := by
  induction us generalizing x y z with
  | nil => simp [applyUses]
  | cons u us ih =>
    simp only [applyUses]
    cases findMod env (lower u.mod) with
    | none => simpa using ih x y z
    | some ex =>
      simp only
      rw [← List.append_assoc, ← List.append_assoc, ← List.append_assoc]
      exact ih _ _ _

/-! ### the chain of frames represented by merged tables -/

/-- the merged tables of a unit answer like the innermost-first search of the chain -/
structure Rep (hostP a t : Table) (ch : List Frame) : Prop where
  p : ∀ n, tget hostP n = chainGet (·.p) ch n
  a : ∀ n, tget a n = chainGet (·.a) ch n
  t : ∀ n, tget t n = chainGet (·.t) ch n

theorem Rep.nil : Rep [] [] [] [] := ⟨fun _ => rfl, fun _ => rfl, fun _ => rfl⟩

/-- exclusion for procedure prototypes: no abstract interface of an inner frame
    has the name of a procedure of an outer frame -/
def paOK : List Frame → Str → Bool
  | [], _ => true
  | f :: r, n =>
    if (tget f.p n).isSome then true
    else if (tget f.a n).isSome then (chainGet (·.p) r n).isNone
    else paOK r n

theorem pa_lookup (ch : List Frame) (n : Str) (h : paOK ch n = true) :
    (match chainGet (·.p) ch n with
      | some e => some e
      | none => chainGet (·.a) ch n) = chainGetPA ch n := by
  induction ch with
  | nil => simp [chainGet, chainGetPA]
  | cons f r ih =>
    simp only [paOK] at h
    simp only [chainGet, chainGetPA]
    cases hp : tget f.p n with
    | some e => simp
    | none =>
      simp only [hp, Option.isSome_none, Bool.false_eq_true, ↓reduceIte] at h
      cases ha : tget f.a n with
      | some e =>
        simp only [ha, Option.isSome_some, ↓reduceIte, Option.isNone_iff_eq_none] at h
        simp [h]
      | none =>
        simp only [ha, Option.isSome_none, Bool.false_eq_true, ↓reduceIte] at h
        simpa using ih h

/-- every prototype slot of the list satisfies the exclusion -/
def slotsOK (ch : List Frame) : List Slot → Bool
  | [] => true
  | s :: ss => (if s.kind = .pa then paOK ch (lower s.name) else true) && slotsOK ch ss

theorem lookup_rep (tb : Tabs) (ch : List Frame) (h : Rep tb.p tb.a tb.t ch) (s : Slot)
    (hs : (if s.kind = .pa then paOK ch (lower s.name) else true) = true) :
    lookupSlot tb s = specLookup ch s := by
  unfold lookupSlot specLookup
  cases hk : s.kind with
  | ty => simp [h.t]
  | pr => simp [h.p]
  | pa =>
    simp only [hk, ↓reduceIte] at hs
    simp only [h.p, h.a]
    exact pa_lookup ch _ hs
  | bn => simp

theorem resolvePhase_rep (ph : Phase) (tb : Tabs) (ch : List Frame) (h : Rep tb.p tb.a tb.t ch)
    (ss : List Slot) (hs : slotsOK ch ss = true) :
    resolvePhase ph tb ss = specPhase ph ch ss := by
  induction ss with
  | nil => rfl
  | cons s ss ih =>
    simp only [slotsOK, Bool.and_eq_true] at hs
    simp only [resolvePhase, specPhase, lookup_rep tb ch h s hs.1, ih hs.2]

theorem resolvePhase_eta (ph : Phase) (tb : Tabs) (ss : List Slot) :
    resolvePhase ph ⟨tb.p, tb.a, tb.t⟩ ss = resolvePhase ph tb ss := rfl

mutual
/-- exclusion of the prototype shadowing class over a whole scope tree -/
def treeOK (env : ModEnv) (ch : List Frame) : Scope → Bool
  | .mk n e f uses decls slots kids =>
    slotsOK (frameOf env (.mk n e f uses decls slots kids) :: ch) slots &&
      kidsOK env (frameOf env (.mk n e f uses decls slots kids) :: ch) kids
def kidsOK (env : ModEnv) (ch : List Frame) : Kids → Bool
  | .nil => true
  | .cons s rest => treeOK env ch s && kidsOK env ch rest
end

/-- tables of a unit in the repaired variant represent the chain extended by the unit's frame -/
theorem unitTabs_rep (env : ModEnv) (hostP a t : Table) (ch : List Frame) (h : Rep hostP a t ch)
    (n : Str) (e : Ent) (f : Bool) (uses : List Use) (decls : List Decl) (slots : List Slot) (kids : Kids) :
    Rep (unitTabs repaired env hostP a t uses decls kids).p (unitTabs repaired env hostP a t uses decls kids).a
      (unitTabs repaired env hostP a t uses decls kids).t
      (frameOf env (.mk n e f uses decls slots kids) :: ch) := by
  simp only [unitTabs, repaired, Bool.false_eq_true, ↓reduceIte, applyUses_append, frameOf]
  constructor <;> intro k <;> simp only [tget_append, chainGet]
  · rw [h.p]; split <;> rename_i hh <;> simp [hh]
  · rw [h.a]; split <;> rename_i hh <;> simp [hh]
  · rw [h.t]; split <;> rename_i hh <;> simp [hh]

mutual
theorem corr_repaired (env : ModEnv) (s : Scope) (hostP a t : Table) (ch : List Frame)
    (h : Rep hostP a t ch) (ok : treeOK env ch s = true) :
    corr repaired env hostP a t s = (a, t, specScope env ch s) := by
  match s with
  | .mk n e f uses decls slots kids =>
    simp only [treeOK, Bool.and_eq_true] at ok
    have hr := unitTabs_rep env hostP a t ch h n e f uses decls slots kids
    simp only [corr, specScope]
    rw [corrKids_repaired env kids _ _ _ _ true hr ok.2]
    simp only
    rw [corrKids_repaired env kids _ _ _ _ false hr ok.2]
    simp only [show repaired.alias = false from rfl, Bool.false_eq_true, ↓reduceIte]
    rw [resolvePhase_eta, resolvePhase_rep .early _ _ hr slots ok.1, resolvePhase_rep .late _ _ hr slots ok.1]

theorem corrKids_repaired (env : ModEnv) (ks : Kids) (hostP a t : Table) (ch : List Frame) (wf : Bool)
    (h : Rep hostP a t ch) (ok : kidsOK env ch ks = true) :
    corrKids repaired env hostP wf a t ks = (a, t, specKids env ch wf ks) := by
  match ks with
  | .nil => simp [corrKids, specKids]
  | .cons (.mk n e f us ds ss kk) rest =>
    simp only [kidsOK, Bool.and_eq_true] at ok
    simp only [corrKids, specKids]
    by_cases hf : f = wf
    · simp only [hf, ↓reduceIte]
      have h1 := corr_repaired env (.mk n e f us ds ss kk) hostP a t ch h ok.1
      rw [hf] at h1
      rw [h1]
      simp only
      rw [corrKids_repaired env rest hostP a t ch wf h ok.2]
    · simp only [hf, ↓reduceIte]
      exact corrKids_repaired env rest hostP a t ch wf h ok.2
end


/-! ### shared tables: nested scopes that declare no type / abstract interface and use nothing -/

mutual
/-- the scope and everything nested in it declares no derived type, no abstract
    interface and has no USE statement -/
def quiet : Scope → Bool
  | .mk _ _ _ uses decls _ kids =>
    uses.isEmpty && (declsOf .ty decls).isEmpty && (declsOf .ab decls).isEmpty && quietKids kids
def quietKids : Kids → Bool
  | .nil => true
  | .cons s rest => quiet s && quietKids rest
end

theorem corr_copy_tables (h : Bool) (env : ModEnv) (hostP a t : Table) (s : Scope) :
    (corr ⟨false, h⟩ env hostP a t s).1 = a ∧ (corr ⟨false, h⟩ env hostP a t s).2.1 = t := by
  cases s with
  | mk n e f us ds ss ks => simp [corr]

theorem corrKids_copy_tables (h : Bool) (env : ModEnv) (hostP : Table) (wf : Bool) (ks : Kids) (a t : Table) :
    (corrKids ⟨false, h⟩ env hostP wf a t ks).1 = a ∧ (corrKids ⟨false, h⟩ env hostP wf a t ks).2.1 = t := by
  match ks with
  | .nil => simp [corrKids]
  | .cons (.mk n e f us ds ss kk) rest =>
    simp only [corrKids]
    by_cases hf : f = wf
    · simp only [hf, ↓reduceIte]
      have h1 := corr_copy_tables h env hostP a t (.mk n e wf us ds ss kk)
      have h2 := corrKids_copy_tables h env hostP wf rest
        (corr ⟨false, h⟩ env hostP a t (.mk n e wf us ds ss kk)).1
        (corr ⟨false, h⟩ env hostP a t (.mk n e wf us ds ss kk)).2.1
      rw [h2.1, h2.2, h1.1, h1.2]; exact ⟨rfl, rfl⟩
    · simp only [hf, ↓reduceIte]
      exact corrKids_copy_tables h env hostP wf rest a t

theorem unitTabs_alias (al h : Bool) (env : ModEnv) (hostP a t : Table) (us : List Use) (ds : List Decl) (ks : Kids) :
    unitTabs ⟨al, h⟩ env hostP a t us ds ks = unitTabs ⟨false, h⟩ env hostP a t us ds ks := rfl

theorem unitTabs_quiet (v : Variant) (env : ModEnv) (hostP a t : Table) (us : List Use) (ds : List Decl) (ks : Kids)
    (hu : us.isEmpty = true) (ht : (declsOf .ty ds).isEmpty = true) (ha : (declsOf .ab ds).isEmpty = true) :
    (unitTabs v env hostP a t us ds ks).a = a ∧ (unitTabs v env hostP a t us ds ks).t = t := by
  simp only [List.isEmpty_iff] at hu ht ha
  simp [unitTabs, hu, ht, ha, applyUses]

mutual
theorem corr_quiet (h : Bool) (env : ModEnv) (s : Scope) (hostP a t : Table) (hq : quiet s = true) :
    corr ⟨true, h⟩ env hostP a t s = corr ⟨false, h⟩ env hostP a t s := by
  match s with
  | .mk n e f us ds ss ks =>
    simp only [quiet, Bool.and_eq_true] at hq
    obtain ⟨⟨⟨hu, ht⟩, ha⟩, hk⟩ := hq
    have hq2 := unitTabs_quiet ⟨false, h⟩ env hostP a t us ds ks hu ht ha
    simp only [corr, unitTabs_alias true h]
    rw [corrKids_quiet h env ks _ _ _ true hk]
    rw [corrKids_quiet h env ks _ _ _ false hk]
    have c1 := corrKids_copy_tables h env (unitTabs ⟨false, h⟩ env hostP a t us ds ks).p true ks
      (unitTabs ⟨false, h⟩ env hostP a t us ds ks).a (unitTabs ⟨false, h⟩ env hostP a t us ds ks).t
    have c2 := corrKids_copy_tables h env (unitTabs ⟨false, h⟩ env hostP a t us ds ks).p false ks
      (corrKids ⟨false, h⟩ env (unitTabs ⟨false, h⟩ env hostP a t us ds ks).p true
        (unitTabs ⟨false, h⟩ env hostP a t us ds ks).a (unitTabs ⟨false, h⟩ env hostP a t us ds ks).t ks).1
      (corrKids ⟨false, h⟩ env (unitTabs ⟨false, h⟩ env hostP a t us ds ks).p true
        (unitTabs ⟨false, h⟩ env hostP a t us ds ks).a (unitTabs ⟨false, h⟩ env hostP a t us ds ks).t ks).2.1
    simp only [↓reduceIte, Bool.false_eq_true]
    rw [c2.1, c2.2, c1.1, c1.2, hq2.1, hq2.2]

theorem corrKids_quiet (h : Bool) (env : ModEnv) (ks : Kids) (hostP a t : Table) (wf : Bool)
    (hq : quietKids ks = true) :
    corrKids ⟨true, h⟩ env hostP wf a t ks = corrKids ⟨false, h⟩ env hostP wf a t ks := by
  match ks with
  | .nil => simp [corrKids]
  | .cons (.mk n e f us ds ss kk) rest =>
    simp only [quietKids, Bool.and_eq_true] at hq
    simp only [corrKids]
    by_cases hf : f = wf
    · simp only [hf, ↓reduceIte]
      have h1 := corr_quiet h env (.mk n e f us ds ss kk) hostP a t hq.1
      rw [hf] at h1
      rw [h1, corrKids_quiet h env rest hostP _ _ wf hq.2]
    · simp only [hf, ↓reduceIte]
      exact corrKids_quiet h env rest hostP a t wf hq.2
end

/-- a unit whose nested scopes are all quiet: sharing or copying the host tables
    gives the same content in every slot -/
theorem corr_quietKids (h : Bool) (env : ModEnv) (hostP a t : Table)
    (n : Str) (e : Ent) (f : Bool) (us : List Use) (ds : List Decl) (ss : List Slot) (ks : Kids)
    (hk : quietKids ks = true) :
    (corr ⟨true, h⟩ env hostP a t (.mk n e f us ds ss ks)).2.2 =
      (corr ⟨false, h⟩ env hostP a t (.mk n e f us ds ss ks)).2.2 := by
  simp only [corr, unitTabs_alias true h]
  rw [corrKids_quiet h env ks _ _ _ true hk]
  rw [corrKids_quiet h env ks _ _ _ false hk]

end Ford.Scope
