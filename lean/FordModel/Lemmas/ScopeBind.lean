import FordModel.ScopeBind
import FordModel.Lemmas.Scope
namespace Ford.Scope
open Ford

/-! ### generic bindings: the store of correlated types answers like the chain of ancestor tables -/

/-- slot ids of the cells of the generic bindings the records declare -/
def recIds : List TypeRec → List Nat
  | [] => []
  | r :: rs => r.gens.map (·.1) ++ recIds rs

theorem recIds_append (a b : List TypeRec) : recIds (a ++ b) = recIds a ++ recIds b := by
  induction a with
  | nil => rfl
  | cons r rs ih => simp [recIds, ih]

/-- for every correlated type, `boundprocs` by name answers like the innermost-first search of the
    own binding tables along its chain of parent types -/
def StoreOK (st : TStore) (earlier : List TypeRec) : Prop :=
  ∀ e n, tget (stateTable (storeGet st e)) n = firstGet (ancestorTables earlier (some e)) n

theorem StoreOK.nil : StoreOK [] [] := by
  intro e n; simp [storeGet, stateTable, tget, ancestorTables, firstGet]

/-- the table a type's generic bindings are resolved in = own bindings, then the ancestors' -/
theorem tab_spec (st : TStore) (earlier : List TypeRec) (h : StoreOK st earlier) (r : TypeRec) (n : Str) :
    tget (r.own ++ stateTable (parentState st r)) n = firstGet (r.own :: ancestorTables earlier r.parent) n := by
  simp only [tget_append, firstGet]
  cases tget r.own n with
  | some e => rfl
  | none =>
    simp only
    cases hp : r.parent with
    | none => simp [parentState, hp, stateTable, tget, ancestorTables, firstGet]
    | some p => simpa [parentState, hp] using h p n

theorem StoreOK.step (sh : Bool) (st : TStore) (cells : Cells) (earlier : List TypeRec)
    (h : StoreOK st earlier) (r : TypeRec) : StoreOK (stepType sh st cells r).1 (r :: earlier) := by
  intro e n
  simp only [stepType, storeGet, ancestorTables]
  by_cases he : r.ent = e
  · simp only [he, ↓reduceIte, stateTable]
    exact tab_spec st earlier h r n
  · simp only [he, ↓reduceIte]
    exact h e n

/-! ### the write log of the cells -/

theorem cellGet_append (w cells : Cells) (i : Nat) :
    cellGet (w ++ cells) i = match cellGet w i with
      | some e => some e
      | none => cellGet cells i := by
  induction w with
  | nil => simp [cellGet]
  | cons x xs ih =>
    obtain ⟨k, e⟩ := x
    by_cases h : k = i <;> simp [cellGet, h, ih]

theorem cellWrites_miss (tab : Table) (cs : List (Nat × Str)) (i : Nat) (h : i ∉ cs.map (·.1)) :
    cellGet (cellWrites tab cs) i = none := by
  induction cs with
  | nil => simp [cellWrites, cellGet]
  | cons c cs ih =>
    simp only [List.map_cons, List.mem_cons, not_or] at h
    simp only [cellWrites]
    cases tget tab (lower c.2) with
    | none => exact ih h.2
    | some e =>
      simp only [cellGet]
      rw [if_neg (fun hh => h.1 hh.symm)]
      exact ih h.2

theorem cellWrites_hit (tab : Table) (cs : List (Nat × Str)) (c : Nat × Str) (hc : c ∈ cs)
    (nd : (cs.map (·.1)).Nodup) : cellGet (cellWrites tab cs) c.1 = tget tab (lower c.2) := by
  induction cs with
  | nil => cases hc
  | cons d ds ih =>
    simp only [List.map_cons, List.nodup_cons] at nd
    simp only [cellWrites]
    rcases List.mem_cons.mp hc with rfl | hd
    · cases ht : tget tab (lower c.2) with
      | none => simpa [ht] using cellWrites_miss tab ds c.1 nd.1
      | some e => simp [cellGet]
    · have hne : d.1 ≠ c.1 := by
        intro heq
        exact nd.1 (heq ▸ List.mem_map_of_mem (f := (·.1)) hd)
      cases tget tab (lower d.2) with
      | none => exact ih hd nd.2
      | some e =>
        simp only [cellGet, hne, ↓reduceIte]
        exact ih hd nd.2

/-- correlating further types leaves a cell alone that none of them declares (own lists of specifics) -/
theorem runTypes_miss (rest : List TypeRec) (st : TStore) (cells : Cells) (i : Nat) (h : i ∉ recIds rest) :
    cellGet (runTypes false st cells rest) i = cellGet cells i := by
  induction rest generalizing st cells with
  | nil => rfl
  | cons r rs ih =>
    simp only [recIds, List.mem_append, not_or] at h
    simp only [runTypes]
    rw [ih _ _ h.2]
    simp only [stepType, Bool.false_eq_true, ↓reduceIte, cellGet_append]
    rw [cellWrites_miss _ _ _ h.1]

/-- **the repaired mechanism resolves every specific of every generic binding as Fortran says**,
    whatever was correlated before (`earlier`, represented by `st`) and whatever comes after -/
theorem runTypes_spec (pre : List TypeRec) (r : TypeRec) (post : List TypeRec) (c : Nat × Str) (hc : c ∈ r.gens)
    (st : TStore) (cells : Cells) (earlier : List TypeRec) (h : StoreOK st earlier)
    (fresh : ∀ i ∈ recIds (pre ++ r :: post), cellGet cells i = none)
    (nd : (recIds (pre ++ r :: post)).Nodup) :
    cellGet (runTypes false st cells (pre ++ r :: post)) c.1 = specGeneric (pre.reverse ++ earlier) r c.2 := by
  induction pre generalizing st cells earlier with
  | nil =>
    simp only [List.nil_append, recIds] at nd fresh
    have nd' := List.nodup_append.mp nd
    simp only [List.nil_append, runTypes, List.reverse_nil]
    have hmem : c.1 ∈ r.gens.map (·.1) := List.mem_map_of_mem (f := (·.1)) hc
    have hpost : c.1 ∉ recIds post := fun hh => nd'.2.2 _ hmem _ hh rfl
    rw [runTypes_miss post _ _ _ hpost]
    simp only [stepType, Bool.false_eq_true, ↓reduceIte, cellGet_append]
    rw [cellWrites_hit _ _ c hc nd'.1, tab_spec st earlier h r, fresh _ (List.mem_append_left _ hmem)]
    simp only [specGeneric]
    cases firstGet (r.own :: ancestorTables earlier r.parent) (lower c.2) <;> rfl
  | cons q pre ih =>
    simp only [List.cons_append, recIds] at nd fresh
    have nd' := List.nodup_append.mp nd
    simp only [List.cons_append, runTypes, List.reverse_cons, List.append_assoc]
    apply ih _ _ (q :: earlier) (StoreOK.step false st cells earlier h q)
    · intro i hi
      simp only [stepType, Bool.false_eq_true, ↓reduceIte, cellGet_append]
      have hq : i ∉ q.gens.map (·.1) := fun hh => nd'.2.2 _ hh _ hi rfl
      rw [cellWrites_miss _ _ _ hq]
      exact fresh i (List.mem_append_right _ hi)
    · exact nd'.2.1

/-! ### shared lists of specifics are unobservable without type extension -/

theorem stepType_noParent (sh : Bool) (st : TStore) (cells : Cells) (r : TypeRec) (h : r.parent = none) :
    stepType sh st cells r = stepType false st cells r := by
  cases sh <;> simp [stepType, parentState, h, stateCells]

theorem runTypes_noParent (sh : Bool) (rs : List TypeRec) (st : TStore) (cells : Cells)
    (h : ∀ r ∈ rs, r.parent = none) : runTypes sh st cells rs = runTypes false st cells rs := by
  induction rs generalizing st cells with
  | nil => rfl
  | cons r rs ih =>
    simp only [runTypes]
    rw [stepType_noParent sh st cells r (h r (by simp))]
    exact ih _ _ (fun x hx => h x (by simp [hx]))

/-! ### PRIVATE bindings -/

theorem stepTypeD_false (sh : Bool) (st : TStore) (cells : Cells) (r : TypeRec) :
    stepTypeD false sh st cells r = stepType sh st cells r := by
  simp [stepTypeD, stepType, inheritTable]

theorem runTypesD_false (sh : Bool) (rs : List TypeRec) (st : TStore) (cells : Cells) :
    runTypesD false sh st cells rs = runTypes sh st cells rs := by
  induction rs generalizing st cells with
  | nil => rfl
  | cons r rs ih => simp only [runTypesD, runTypes, stepTypeD_false, ih]

/-- without PRIVATE bindings anywhere (in the records and in the store) skipping them changes nothing -/
theorem runTypesD_noPrivs (sh : Bool) (rs : List TypeRec) (st : TStore) (cells : Cells)
    (h : ∀ r ∈ rs, r.privs = []) (hst : ∀ e s, storeGet st e = some s → s.privs = []) :
    runTypesD true sh st cells rs = runTypes sh st cells rs := by
  induction rs generalizing st cells with
  | nil => rfl
  | cons r rs ih =>
    have hp : statePrivs (parentState st r) = [] := by
      unfold parentState
      cases hr : r.parent with
      | none => rfl
      | some p =>
        simp only
        cases hs : storeGet st p with
        | none => rfl
        | some s => simpa [statePrivs] using hst p s hs
    have hstep : stepTypeD true sh st cells r = stepType sh st cells r := by
      simp [stepTypeD, stepType, inheritTable, hp]
    simp only [runTypesD, runTypes, hstep]
    apply ih _ _ (fun x hx => h x (List.mem_cons_of_mem _ hx))
    intro e s hs
    simp only [stepType, storeGet] at hs
    by_cases he : r.ent = e
    · simp only [he, ↓reduceIte, Option.some.injEq] at hs
      subst hs
      simp [hp, h r List.mem_cons_self]
    · simp only [he, ↓reduceIte] at hs
      exact hst e s hs

end Ford.Scope
