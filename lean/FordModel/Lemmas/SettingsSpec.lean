import FordModel.SettingsSpec
import FordModel.Lemmas.Settings
namespace Ford.Settings

theorem splitOnce_sep (sep : Char) (k v : Str) (h : sep ∉ k) : splitOnce sep (k ++ sep :: v) = some (k, v) := by
  induction k with
  | nil => simp [splitOnce]
  | cons x r ih =>
    simp at h
    have hx : x ≠ sep := fun hh => h.1 hh.symm
    simp [splitOnce, hx, ih h.2]

theorem aset_not_mem {α : Type} (k : Str) (v : α) (l : List (Str × α)) (h : k ∉ l.map (·.1)) :
    aset k v l = l ++ [(k, v)] := by
  induction l with
  | nil => rfl
  | cons e r ih =>
    obtain ⟨k2, v2⟩ := e
    simp at h
    have h1 : k2 ≠ k := fun hh => h.1 hh.symm
    simp [aset, h1]
    exact ih (by simpa using h.2)

theorem parseToDict_enc (sep : Char) (key : Str) (kvs : List (Str × Str)) (acc : List (Str × Atom))
    (hnd : (kvs.map (·.1)).Nodup) (hacc : ∀ kv ∈ kvs, kv.1 ∉ acc.map (·.1))
    (h : ∀ kv ∈ kvs, sep ∉ kv.1 ∧ strip kv.1 = kv.1 ∧ strip kv.2 = kv.2) :
    parseToDict sep key (kvs.map (fun kv => kv.1 ++ sep :: kv.2)) acc
      = .ok (acc ++ kvs.map (fun kv => (kv.1, Atom.str kv.2))) := by
  induction kvs generalizing acc with
  | nil => simp [parseToDict]
  | cons e r ih =>
    obtain ⟨k, v⟩ := e
    have he := h (k, v) (by simp)
    rw [List.map_cons, List.nodup_cons] at hnd
    simp only [List.map_cons, parseToDict, splitOnce_sep sep k v he.1, he.2.1, he.2.2]
    rw [aset_not_mem _ _ _ (hacc (k, v) (by simp))]
    rw [ih _ hnd.2 ?_ (fun kv hkv => h kv (by simp [hkv]))]
    · simp
    · intro kv hkv
      simp only [List.map_append, List.map_cons, List.map_nil, List.mem_append, List.mem_singleton, not_or]
      refine ⟨hacc kv (by simp [hkv]), ?_⟩
      intro hh
      apply hnd.1
      rw [← hh]
      exact List.mem_map.2 ⟨kv, hkv, rfl⟩

/-! ### `str.split()` on space-free words -/

theorem splitWsAux_word (w rest cur : Str) (h : w.all (fun c => !isSpace c) = true) :
    splitWsAux (w ++ rest) cur = splitWsAux rest (w.reverse ++ cur) := by
  induction w generalizing cur with
  | nil => simp
  | cons x r ih =>
    simp at h
    simp [splitWsAux, h.1, ih _ (by simpa using h.2)]

theorem splitWs_two (a b : Str) (ha : noSpace a = true) (hb : noSpace b = true) :
    splitWs (a ++ ' ' :: b) = [a, b] := by
  simp [noSpace] at ha hb
  have h1 := splitWsAux_word a (' ' :: b) [] (by simpa using ha.2)
  have h2 := splitWsAux_word b [] [] (by simpa using hb.2)
  simp only [List.append_nil] at h1 h2
  rw [splitWs, h1]
  have : (a.reverse).isEmpty = false := by
    cases a with
    | nil => simp at ha
    | cons x r => simp
  have hb' : (b.reverse).isEmpty = false := by
    cases b with
    | nil => simp at hb
    | cons x r => simp
  simp only [splitWsAux, isSpace, beq_self_eq_true, Bool.true_or, if_true, this]
  have h3 := h2
  rw [show b = b ++ [] from by simp] at h3
  simp at h3
  simp [h3, splitWsAux, hb']

theorem splitWs_three (a b c : Str) (ha : noSpace a = true) (hb : noSpace b = true) (hc : noSpace c = true) :
    splitWs (a ++ ' ' :: b ++ ' ' :: c) = [a, b, c] := by
  simp [noSpace] at ha hb hc
  have h1 := splitWsAux_word a (' ' :: b ++ ' ' :: c) [] (by simpa using ha.2)
  have h2 := splitWsAux_word b (' ' :: c) [] (by simpa using hb.2)
  have h3 := splitWsAux_word c [] [] (by simpa using hc.2)
  simp only [List.append_nil] at h1 h2 h3
  have ea : (a.reverse).isEmpty = false := by
    cases a with
    | nil => simp at ha
    | cons x r => simp
  have eb : (b.reverse).isEmpty = false := by
    cases b with
    | nil => simp at hb
    | cons x r => simp
  have ec : (c.reverse).isEmpty = false := by
    cases c with
    | nil => simp at hc
    | cons x r => simp
  rw [splitWs, show a ++ ' ' :: b ++ ' ' :: c = a ++ (' ' :: b ++ ' ' :: c) from by simp, h1]
  simp only [List.cons_append]
  simp only [splitWsAux, isSpace, beq_self_eq_true, Bool.true_or, if_true, ea]
  rw [show b ++ ' ' :: c = b ++ (' ' :: c) from rfl, h2]
  simp only [splitWsAux, isSpace, beq_self_eq_true, Bool.true_or, if_true, eb]
  simp [h3, splitWsAux, ec]


def encEft (ft : Eft) : Str :=
  ft.ext ++ ' ' :: ft.comment ++ (match ft.lexer with | some l => ' ' :: l | none => [])

def eftOk (ft : Eft) : Prop :=
  noSpace ft.ext = true ∧ noSpace ft.comment = true ∧ (∀ l, ft.lexer = some l → noSpace l = true)

theorem eftFromString_enc (ft : Eft) (h : eftOk ft) : eftFromString (encEft ft) = .ok ft := by
  obtain ⟨e, c, l⟩ := ft
  obtain ⟨h1, h2, h3⟩ := h
  cases l with
  | none => simp [encEft, eftFromString, splitWs_two e c h1 h2]
  | some l =>
    have h := splitWs_three e c l h1 h2 (h3 l rfl)
    simp only [List.append_assoc, List.cons_append] at h
    simp [encEft, eftFromString, h]

theorem eftDict_enc (fts : List Eft) (acc : List (Str × Atom))
    (hnd : (fts.map (·.ext)).Nodup) (hacc : ∀ ft ∈ fts, ft.ext ∉ acc.map (·.1))
    (h : ∀ ft ∈ fts, eftOk ft) :
    eftDict (fts.map encEft) acc = .ok (acc ++ fts.map (fun ft => (ft.ext, Atom.eft ft))) := by
  induction fts generalizing acc with
  | nil => simp [eftDict]
  | cons ft r ih =>
    rw [List.map_cons, List.nodup_cons] at hnd
    simp only [List.map_cons, eftDict, eftFromString_enc ft (h ft (by simp))]
    rw [aset_not_mem _ _ _ (hacc ft (by simp))]
    rw [ih _ hnd.2 ?_ (fun f hf => h f (by simp [hf]))]
    · simp
    · intro f hf
      simp only [List.map_append, List.map_cons, List.map_nil, List.mem_append, List.mem_singleton, not_or]
      refine ⟨hacc f (by simp [hf]), ?_⟩
      intro hh
      apply hnd.1
      rw [← hh]
      exact List.mem_map.2 ⟨f, hf, rfl⟩

theorem eftOfTbl_eftTable (ft : Eft) : eftOfTbl (eftTable ft) = some ft := by
  obtain ⟨e, c, l⟩ := ft
  have h1 : ("comment".toList == "extension".toList) = false := by decide
  have h2 : ("lexer".toList == "extension".toList) = false := by decide
  have h3 : ("extension".toList == "comment".toList) = false := by decide
  have h4 : ("lexer".toList == "comment".toList) = false := by decide
  have h5 : ("extension".toList == "lexer".toList) = false := by decide
  have h6 : ("comment".toList == "lexer".toList) = false := by decide
  cases l with
  | none => simp [eftTable, eftOfTbl, aget, h1, h2, h3, h4, h5, h6]
  | some l => simp [eftTable, eftOfTbl, aget, h1, h2, h3, h4, h5, h6]

theorem eftsOfList_enc (fts : List Eft) (acc : List (Str × Atom))
    (hnd : (fts.map (·.ext)).Nodup) (hacc : ∀ ft ∈ fts, ft.ext ∉ acc.map (·.1)) :
    eftsOfList (fts.map (fun ft => Atom.tbl (eftTable ft))) acc
      = some (acc ++ fts.map (fun ft => (ft.ext, Atom.eft ft))) := by
  induction fts generalizing acc with
  | nil => simp [eftsOfList]
  | cons ft r ih =>
    rw [List.map_cons, List.nodup_cons] at hnd
    simp only [List.map_cons, eftsOfList, eftOfTbl_eftTable]
    rw [aset_not_mem _ _ _ (hacc ft (by simp))]
    rw [ih _ hnd.2 ?_]
    · simp
    · intro f hf
      simp only [List.map_append, List.map_cons, List.map_nil, List.mem_append, List.mem_singleton, not_or]
      refine ⟨hacc f (by simp [hf]), ?_⟩
      intro hh
      apply hnd.1
      rw [← hh]
      exact List.mem_map.2 ⟨f, hf, rfl⟩

/-- a list of tables is not a list of `ExtraFileType` objects: the `try` branch of `__post_init__` fails -/
theorem efts_tbl_none (ft : Eft) (r : List Eft) (acc : List (Str × Atom)) :
    efts ((ft :: r).map (fun ft => Atom.tbl (eftTable ft))) acc = none := by
  simp [efts]


theorem encMd_filetypes (sep : Char) (spell : Str) (fts : List Eft) :
    encMd sep spell (.filetypes fts) = fts.map encEft := rfl

theorem convertSetting_dictStr_md (seps : List (Str × Str)) (key : Str) (xs : List Str) :
    convertSetting seps .dictStr key (mdVal xs) = convertDict seps .dictStr key xs := by
  simp [convertSetting, sameType, mdVal, allStrs_map_str]

theorem convertSetting_dictEft_md (seps : List (Str × Str)) (key : Str) (xs : List Str) :
    convertSetting seps .dictEft key (mdVal xs) = convertDict seps .dictEft key xs := by
  simp [convertSetting, sameType, mdVal, allStrs_map_str]

theorem convert_md_eq_denote (seps : List (Str × Str)) (t : Tag) (key : Str) (sep : Char) (spell : Str) (a : AVal)
    (hsep : t = .dictStr → aget key seps = some [sep]) (hwf : wellFormed t sep spell a) :
    convertSetting seps t key (mdVal (encMd sep spell a)) = .ok (denote a) := by
  cases a with
  | bool b =>
    obtain ⟨ht, hs⟩ := hwf
    subst ht
    simp [convertSetting, sameType, mdVal, encMd, convertToBool, hs, denote, encToml]
  | int i =>
    obtain ⟨ht, hs⟩ := hwf
    subst ht
    simp [convertSetting, sameType, mdVal, encMd, hs, denote, encToml]
  | text lines =>
    obtain ⟨ht, _⟩ := hwf
    have := allStrs_map_str lines
    rcases ht with ht | ht | ht | ht <;> subst ht <;>
      simp [convertSetting, sameType, mdVal, encMd, this, denote, encToml]
  | list xs =>
    obtain ⟨ht, _⟩ := hwf
    rcases ht with ht | ht | ht <;> subst ht <;>
      simp [convertSetting, sameType, mdVal, encMd, denote, encToml]
  | table kvs =>
    obtain ⟨ht, _, hnd, hk⟩ := hwf
    subst ht
    have hf : (List.map (fun kv : Str × Str => kv.1 ++ sep :: kv.2) kvs).filter (fun s => !s.isEmpty)
        = List.map (fun kv => kv.1 ++ sep :: kv.2) kvs := by
      rw [List.filter_eq_self]
      intro x hx
      obtain ⟨kv, _, rfl⟩ := List.mem_map.1 hx
      simp
    have hp := parseToDict_enc sep key kvs [] hnd (by simp) hk
    simp only [List.nil_append] at hp
    rw [convertSetting_dictStr_md]
    simp [encMd, convertDict, convertDictF, hf, hsep rfl, hp, denote, encToml]
  | filetypes fts =>
    obtain ⟨ht, _, hnd, hk⟩ := hwf
    subst ht
    have hf : (fts.map encEft).filter (fun s => !s.isEmpty) = fts.map encEft := by
      rw [List.filter_eq_self]
      intro x hx
      obtain ⟨ft, hft, rfl⟩ := List.mem_map.1 hx
      have := (hk ft hft).1
      simp [noSpace] at this
      cases he : ft.ext with
      | nil => simp [he] at this
      | cons c r => simp [encEft, he]
    have hp := eftDict_enc fts [] hnd (by simp) (fun ft hft => hk ft hft)
    simp only [List.nil_append] at hp
    rw [convertSetting_dictEft_md]
    simp [encMd_filetypes, convertDict, convertDictF, hf, hp, denote]


/-! ### `meta_preprocessor` reads back what the user guide's layout writes -/

theorem appendVal_new (k v : Str) (pre : List (Str × List Str)) (h : k ∉ pre.map (·.1)) :
    appendVal k v pre = pre ++ [(k, [v])] := by
  induction pre with
  | nil => rfl
  | cons e r ih =>
    obtain ⟨k2, v2⟩ := e
    simp at h
    have h1 : k2 ≠ k := fun hh => h.1 hh.symm
    simp [appendVal, h1]
    exact ih (by simpa using h.2)

theorem appendVal_last (k v : Str) (vs : List Str) (pre : List (Str × List Str)) (h : k ∉ pre.map (·.1)) :
    appendVal k v (pre ++ [(k, vs)]) = pre ++ [(k, vs ++ [v])] := by
  induction pre with
  | nil => simp [appendVal]
  | cons e r ih =>
    obtain ⟨k2, v2⟩ := e
    simp at h
    have h1 : k2 ≠ k := fun hh => h.1 hh.symm
    simp [appendVal, h1]
    exact ih (by simpa using h.2)

theorem strip_space_cons (s : Str) : strip (' ' :: s) = strip s := by
  simp [strip, lstrip, isSpace]

theorem not_blank_of_goodCont (x : Str) (h : goodCont x = true) : isBlank x = false := by
  simp [goodCont] at h
  cases hb : isBlank x with
  | false => rfl
  | true =>
    have := lstrip_blank_nil x hb
    have h1 := h.1
    simp [strip, this, rstrip, lstrip] at h1
    exact absurd h1 h.2

theorem metaLoop_conts (k : Str) (xs : List Str) (rest : List Str) (pre : List (Str × List Str)) (vs : List Str)
    (hk : k ∉ pre.map (·.1)) (hx : ∀ x ∈ xs, goodCont x = true) :
    metaLoop (xs.map indent4 ++ rest) (some k) (pre ++ [(k, vs)])
      = metaLoop rest (some k) (pre ++ [(k, vs ++ xs)]) := by
  induction xs generalizing vs with
  | nil => simp
  | cons x r ih =>
    have hgx := hx x (by simp)
    have hb : isBlank (indent4 x) = false := by
      have := not_blank_of_goodCont x hgx
      simp [isBlank] at this ⊢
      obtain ⟨c, hc, hs⟩ := this
      exact ⟨c, by simp [indent4, hc], hs⟩
    have he : isEnd (indent4 x) = false := by
      simp [isEnd, indent4, startsWith]
    have hm : metaMatch (indent4 x) = none := by
      simp [metaMatch, indent4, leadingSpaces]
    have hl : leadingSpaces (indent4 x) ≥ 4 := by
      simp [indent4, leadingSpaces]
    have hs : strip (indent4 x) = x := by
      simp [goodCont] at hgx
      simp [indent4, strip_space_cons, hgx.1]
    simp only [List.map_cons, List.cons_append, metaLoop, hb, he, hm, hl, hs, Bool.or_self,
      Bool.false_eq_true, if_false, if_true, ge_iff_le]
    rw [appendVal_last _ _ _ _ hk, ih _ (fun y hy => hx y (by simp [hy]))]
    simp

theorem takeWhile_key (k r : Str) (h : k.all (fun c => isKeyChar c && !isSpace c) = true) :
    (k ++ ':' :: r).takeWhile isKeyChar = k ∧ (k ++ ':' :: r).dropWhile isKeyChar = ':' :: r := by
  induction k with
  | nil => exact ⟨by simp [List.takeWhile, show isKeyChar ':' = false by decide],
                  by simp [List.dropWhile, show isKeyChar ':' = false by decide]⟩
  | cons c k' ih =>
    simp at h
    obtain ⟨i1, i2⟩ := ih (by simpa using h.2)
    exact ⟨by simp [List.takeWhile, h.1.1, i1], by simp [List.dropWhile, h.1.1, i2]⟩

theorem leadingSpaces_cons_ne (c : Char) (r : Str) (h : c ≠ ' ') : leadingSpaces (c :: r) = 0 := by
  unfold leadingSpaces
  split
  · rename_i heq
    simp at heq
    exact absurd heq.1 h
  · rfl

theorem metaLoop_keyline (k v : Str) (rest : List Str) (key0 : Option Str) (acc : List (Str × List Str))
    (hk : goodKey k = true) (hv : goodVal v = true) :
    metaLoop ((k ++ ':' :: ' ' :: v) :: rest) key0 acc = metaLoop rest (some k) (appendVal k v acc) := by
  cases k with
  | nil => simp [goodKey] at hk
  | cons c k' =>
    simp only [goodKey, Bool.and_eq_true, bne_iff_ne, ne_eq, beq_iff_eq] at hk
    obtain ⟨⟨⟨hc1, hc2⟩, hall⟩, hstrip⟩ := hk
    have hc : isKeyChar c = true ∧ isSpace c = false := by
      simp at hall; exact ⟨hall.1.1, hall.1.2⟩
    have hcs : c ≠ ' ' := by
      intro hh; subst hh; simp [isSpace] at hc
    have hb : isBlank ((c :: k') ++ ':' :: ' ' :: v) = false := by simp [isBlank, hc.2]
    have he : isEnd ((c :: k') ++ ':' :: ' ' :: v) = false := by simp [isEnd, startsWith, hc1, hc2]
    have hls : leadingSpaces ((c :: k') ++ ':' :: ' ' :: v) = 0 := leadingSpaces_cons_ne c _ hcs
    obtain ⟨t1, t2⟩ := takeWhile_key (c :: k') (' ' :: v) hall
    have hm : metaMatch ((c :: k') ++ ':' :: ' ' :: v) = some (c :: k', v) := by
      simp only [goodVal, beq_iff_eq] at hv
      simp only [metaMatch, hls, List.drop_zero, t1, t2, hstrip, strip_space_cons, hv]
      simp
    simp only [metaLoop, hb, he, hm, Bool.or_self, Bool.false_eq_true, if_false]

theorem metaLoop_encBlock (opts : List (Str × List Str)) (body : List Str) (acc : List (Str × List Str))
    (key0 : Option Str) (hg : ∀ o ∈ opts, goodOpt o = true) (hnd : (opts.map (·.1)).Nodup)
    (hacc : ∀ o ∈ opts, o.1 ∉ acc.map (·.1)) :
    metaLoop (encBlock opts ++ [] :: body) key0 acc = (acc ++ opts, body) := by
  induction opts generalizing acc key0 with
  | nil => simp [encBlock, metaLoop, isBlank]
  | cons o r ih =>
    obtain ⟨k, vs⟩ := o
    rw [List.map_cons, List.nodup_cons] at hnd
    have hgo := hg (k, vs) (by simp)
    simp only [goodOpt, Bool.and_eq_true] at hgo
    cases vs with
    | nil => simp at hgo
    | cons v xs =>
      simp only [Bool.and_eq_true, List.all_eq_true] at hgo
      obtain ⟨hk, hv, hx⟩ := hgo
      have hka : k ∉ acc.map (·.1) := hacc (k, v :: xs) (by simp)
      simp only [encBlock, encLines, List.cons_append, List.append_assoc]
      rw [metaLoop_keyline k v _ key0 acc hk hv, appendVal_new _ _ _ hka,
        metaLoop_conts k xs _ acc [v] hka hx]
      rw [ih (acc ++ [(k, [v] ++ xs)]) (some k) (fun o ho => hg o (by simp [ho])) hnd.2 ?_]
      · simp
      · intro o ho
        simp only [List.map_append, List.map_cons, List.map_nil, List.mem_append, List.mem_singleton, not_or]
        refine ⟨hacc o (by simp [ho]), ?_⟩
        intro hh
        apply hnd.1
        rw [← hh]
        exact List.mem_map.2 ⟨o, ho, rfl⟩

end Ford.Settings
