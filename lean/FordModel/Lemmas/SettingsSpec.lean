import FordModel.SettingsSpec
import FordModel.Lemmas.Settings
namespace Ford.Settings

theorem splitOnce_sep (sep : Char) (k v : Str) (h : sep ∉ k) : splitOnce sep (k ++ sep :: v) = some (k, v) := by
  induction k with
  | nil => simp [splitOnce]
  | cons x r ih =>
    simp at h
    have hx : x ≠ sep := fun hh => h.1 hh.symm
    simp [splitOnce, hx, ih h.2]

theorem aset_not_mem {α : Type} (k : Str) (v : α) (l : List (Str × α)) (h : k ∉ l.map (·.1)) :
    aset k v l = l ++ [(k, v)] := by
  induction l with
  | nil => rfl
  | cons e r ih =>
    obtain ⟨k2, v2⟩ := e
    simp at h
    have h1 : k2 ≠ k := fun hh => h.1 hh.symm
    simp [aset, h1]
    exact ih (by simpa using h.2)

theorem parseToDict_enc (sep : Char) (key : Str) (kvs : List (Str × Str)) (acc : List (Str × Atom))
    (hnd : (kvs.map (·.1)).Nodup) (hacc : ∀ kv ∈ kvs, kv.1 ∉ acc.map (·.1))
    (h : ∀ kv ∈ kvs, sep ∉ kv.1 ∧ strip kv.1 = kv.1 ∧ strip kv.2 = kv.2) :
    parseToDict sep key (kvs.map (fun kv => kv.1 ++ sep :: kv.2)) acc
      = .ok (acc ++ kvs.map (fun kv => (kv.1, Atom.str kv.2))) := by
  induction kvs generalizing acc with
  | nil => simp [parseToDict]
  | cons e r ih =>
    obtain ⟨k, v⟩ := e
    have he := h (k, v) (by simp)
    rw [List.map_cons, List.nodup_cons] at hnd
    simp only [List.map_cons, parseToDict, splitOnce_sep sep k v he.1, he.2.1, he.2.2]
    rw [aset_not_mem _ _ _ (hacc (k, v) (by simp))]
    rw [ih _ hnd.2 ?_ (fun kv hkv => h kv (by simp [hkv]))]
    · simp
    · intro kv hkv
      simp only [List.map_append, List.map_cons, List.map_nil, List.mem_append, List.mem_singleton, not_or]
      refine ⟨hacc kv (by simp [hkv]), ?_⟩
      intro hh
      apply hnd.1
      rw [← hh]
      exact List.mem_map.2 ⟨kv, hkv, rfl⟩

/-! ### `str.split()` on space-free words -/

theorem splitWsAux_word (w rest cur : Str) (h : w.all (fun c => !isSpace c) = true) :
    splitWsAux (w ++ rest) cur = splitWsAux rest (w.reverse ++ cur) := by
  induction w generalizing cur with
  | nil => simp
  | cons x r ih =>
    simp at h
    simp [splitWsAux, h.1, ih _ (by simpa using h.2)]

theorem splitWs_two (a b : Str) (ha : noSpace a = true) (hb : noSpace b = true) :
    splitWs (a ++ ' ' :: b) = [a, b] := by
  simp [noSpace] at ha hb
  have h1 := splitWsAux_word a (' ' :: b) [] (by simpa using ha.2)
  have h2 := splitWsAux_word b [] [] (by simpa using hb.2)
  simp only [List.append_nil] at h1 h2
  rw [splitWs, h1]
  have : (a.reverse).isEmpty = false := by
    cases a with
    | nil => simp at ha
    | cons x r => simp
  have hb' : (b.reverse).isEmpty = false := by
    cases b with
    | nil => simp at hb
    | cons x r => simp
  simp only [splitWsAux, isSpace, beq_self_eq_true, Bool.true_or, if_true, this]
  have h3 := h2
  rw [show b = b ++ [] from by simp] at h3
  simp at h3
  simp [h3, splitWsAux, hb']

theorem splitWs_three (a b c : Str) (ha : noSpace a = true) (hb : noSpace b = true) (hc : noSpace c = true) :
    splitWs (a ++ ' ' :: b ++ ' ' :: c) = [a, b, c] := by
  simp [noSpace] at ha hb hc
  have h1 := splitWsAux_word a (' ' :: b ++ ' ' :: c) [] (by simpa using ha.2)
  have h2 := splitWsAux_word b (' ' :: c) [] (by simpa using hb.2)
  have h3 := splitWsAux_word c [] [] (by simpa using hc.2)
  simp only [List.append_nil] at h1 h2 h3
  have ea : (a.reverse).isEmpty = false := by
    cases a with
    | nil => simp at ha
    | cons x r => simp
  have eb : (b.reverse).isEmpty = false := by
    cases b with
    | nil => simp at hb
    | cons x r => simp
  have ec : (c.reverse).isEmpty = false := by
    cases c with
    | nil => simp at hc
    | cons x r => simp
  rw [splitWs, show a ++ ' ' :: b ++ ' ' :: c = a ++ (' ' :: b ++ ' ' :: c) from by simp, h1]
  simp only [List.cons_append]
  simp only [splitWsAux, isSpace, beq_self_eq_true, Bool.true_or, if_true, ea]
  rw [show b ++ ' ' :: c = b ++ (' ' :: c) from rfl, h2]
  simp only [splitWsAux, isSpace, beq_self_eq_true, Bool.true_or, if_true, eb]
  simp [h3, splitWsAux, ec]


def encEft (ft : Eft) : Str :=
  ft.ext ++ ' ' :: ft.comment ++ (match ft.lexer with | some l => ' ' :: l | none => [])

def eftOk (ft : Eft) : Prop :=
  noSpace ft.ext = true ∧ noSpace ft.comment = true ∧ (∀ l, ft.lexer = some l → noSpace l = true)

theorem eftFromString_enc (ft : Eft) (h : eftOk ft) : eftFromString (encEft ft) = .ok ft := by
  obtain ⟨e, c, l⟩ := ft
  obtain ⟨h1, h2, h3⟩ := h
  cases l with
  | none => simp [encEft, eftFromString, splitWs_two e c h1 h2]
  | some l =>
    have h := splitWs_three e c l h1 h2 (h3 l rfl)
    simp only [List.append_assoc, List.cons_append] at h
    simp [encEft, eftFromString, h]

theorem eftDict_enc (fts : List Eft) (acc : List (Str × Atom))
    (hnd : (fts.map (·.ext)).Nodup) (hacc : ∀ ft ∈ fts, ft.ext ∉ acc.map (·.1))
    (h : ∀ ft ∈ fts, eftOk ft) :
    eftDict (fts.map encEft) acc = .ok (acc ++ fts.map (fun ft => (ft.ext, Atom.eft ft))) := by
  induction fts generalizing acc with
  | nil => simp [eftDict]
  | cons ft r ih =>
    rw [List.map_cons, List.nodup_cons] at hnd
    simp only [List.map_cons, eftDict, eftFromString_enc ft (h ft (by simp))]
    rw [aset_not_mem _ _ _ (hacc ft (by simp))]
    rw [ih _ hnd.2 ?_ (fun f hf => h f (by simp [hf]))]
    · simp
    · intro f hf
      simp only [List.map_append, List.map_cons, List.map_nil, List.mem_append, List.mem_singleton, not_or]
      refine ⟨hacc f (by simp [hf]), ?_⟩
      intro hh
      apply hnd.1
      rw [← hh]
      exact List.mem_map.2 ⟨f, hf, rfl⟩

theorem eftOfTbl_eftTable (ft : Eft) : eftOfTbl (eftTable ft) = some ft := by
  obtain ⟨e, c, l⟩ := ft
  have h1 : ("comment".toList == "extension".toList) = false := by decide
  have h2 : ("lexer".toList == "extension".toList) = false := by decide
  have h3 : ("extension".toList == "comment".toList) = false := by decide
  have h4 : ("lexer".toList == "comment".toList) = false := by decide
  have h5 : ("extension".toList == "lexer".toList) = false := by decide
  have h6 : ("comment".toList == "lexer".toList) = false := by decide
  cases l with
  | none => simp [eftTable, eftOfTbl, aget, h1, h2, h3, h4, h5, h6]
  | some l => simp [eftTable, eftOfTbl, aget, h1, h2, h3, h4, h5, h6]

theorem eftsOfList_enc (fts : List Eft) (acc : List (Str × Atom))
    (hnd : (fts.map (·.ext)).Nodup) (hacc : ∀ ft ∈ fts, ft.ext ∉ acc.map (·.1)) :
    eftsOfList (fts.map (fun ft => Atom.tbl (eftTable ft))) acc
      = some (acc ++ fts.map (fun ft => (ft.ext, Atom.eft ft))) := by
  induction fts generalizing acc with
  | nil => simp [eftsOfList]
  | cons ft r ih =>
    rw [List.map_cons, List.nodup_cons] at hnd
    simp only [List.map_cons, eftsOfList, eftOfTbl_eftTable]
    rw [aset_not_mem _ _ _ (hacc ft (by simp))]
    rw [ih _ hnd.2 ?_]
    · simp
    · intro f hf
      simp only [List.map_append, List.map_cons, List.map_nil, List.mem_append, List.mem_singleton, not_or]
      refine ⟨hacc f (by simp [hf]), ?_⟩
      intro hh
      apply hnd.1
      rw [← hh]
      exact List.mem_map.2 ⟨f, hf, rfl⟩

/-- a list of tables is not a list of `ExtraFileType` objects: the `try` branch of `__post_init__` fails -/
theorem efts_tbl_none (ft : Eft) (r : List Eft) (acc : List (Str × Atom)) :
    efts ((ft :: r).map (fun ft => Atom.tbl (eftTable ft))) acc = none := by
  simp [efts]


theorem encMd_filetypes (sep : Char) (spell : Str) (fts : List Eft) :
    encMd sep spell (.filetypes fts) = fts.map encEft := rfl

theorem convertSetting_dictStr_md (seps : List (Str × Str)) (key : Str) (xs : List Str) :
    convertSetting seps .dictStr key (mdVal xs) = convertDict seps .dictStr key xs := by
  simp [convertSetting, sameType, mdVal, allStrs_map_str]

theorem convertSetting_dictEft_md (seps : List (Str × Str)) (key : Str) (xs : List Str) :
    convertSetting seps .dictEft key (mdVal xs) = convertDict seps .dictEft key xs := by
  simp [convertSetting, sameType, mdVal, allStrs_map_str]

theorem convert_md_eq_denote (seps : List (Str × Str)) (t : Tag) (key : Str) (sep : Char) (spell : Str) (a : AVal)
    (hsep : t = .dictStr → aget key seps = some [sep]) (hwf : wellFormed t sep spell a) :
    convertSetting seps t key (mdVal (encMd sep spell a)) = .ok (denote a) := by
  cases a with
  | bool b =>
    obtain ⟨ht, hs⟩ := hwf
    subst ht
    simp [convertSetting, sameType, mdVal, encMd, convertToBool, hs, denote, encToml]
  | int i =>
    obtain ⟨ht, hs⟩ := hwf
    subst ht
    simp [convertSetting, sameType, mdVal, encMd, hs, denote, encToml]
  | text lines =>
    obtain ⟨ht, _⟩ := hwf
    have := allStrs_map_str lines
    rcases ht with ht | ht | ht | ht <;> subst ht <;>
      simp [convertSetting, sameType, mdVal, encMd, this, denote, encToml]
  | list xs =>
    obtain ⟨ht, _⟩ := hwf
    rcases ht with ht | ht | ht <;> subst ht <;>
      simp [convertSetting, sameType, mdVal, encMd, denote, encToml]
  | table kvs =>
    obtain ⟨ht, _, hnd, hk⟩ := hwf
    subst ht
    have hf : (List.map (fun kv : Str × Str => kv.1 ++ sep :: kv.2) kvs).filter (fun s => !s.isEmpty)
        = List.map (fun kv => kv.1 ++ sep :: kv.2) kvs := by
      rw [List.filter_eq_self]
      intro x hx
      obtain ⟨kv, _, rfl⟩ := List.mem_map.1 hx
      simp
    have hp := parseToDict_enc sep key kvs [] hnd (by simp) hk
    simp only [List.nil_append] at hp
    rw [convertSetting_dictStr_md]
    simp [encMd, convertDict, convertDictF, hf, hsep rfl, hp, denote, encToml]
  | filetypes fts =>
    obtain ⟨ht, _, hnd, hk⟩ := hwf
    subst ht
    have hf : (fts.map encEft).filter (fun s => !s.isEmpty) = fts.map encEft := by
      rw [List.filter_eq_self]
      intro x hx
      obtain ⟨ft, hft, rfl⟩ := List.mem_map.1 hx
      have := (hk ft hft).1
      simp [noSpace] at this
      cases he : ft.ext with
      | nil => simp [he] at this
      | cons c r => simp [encEft, he]
    have hp := eftDict_enc fts [] hnd (by simp) (fun ft hft => hk ft hft)
    simp only [List.nil_append] at hp
    rw [convertSetting_dictEft_md]
    simp [encMd_filetypes, convertDict, convertDictF, hf, hp, denote]

end Ford.Settings
