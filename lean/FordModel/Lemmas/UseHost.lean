import FordModel.Lemmas.Use
set_option linter.unusedVariables false
namespace Ford.Use

/-! ### `dict.update` read through `aget` -/

theorem aget_update_of_not_hasKey {α : Type} (t o : AList α) (l : Str) (h : ¬ hasKey o l) :
    aget (update t o) l = aget t l := by
  induction o generalizing t with
  | nil => rfl
  | cons p o ih =>
    obtain ⟨k, v⟩ := p
    have hk : k ≠ l := by
      intro hk; apply h; simp [hasKey, aget, hk]
    have ho : ¬ hasKey o l := by
      intro ho; apply h; simpa [hasKey, aget, hk] using ho
    have : update t ((k, v) :: o) = update (aset t k v) o := rfl
    rw [this, ih _ ho, aget_aset]
    simp [hk]

theorem aget_update_of_hasKey {α : Type} (t o : AList α) (l : Str) (h : hasKey o l) :
    ∃ e, (l, e) ∈ o ∧ aget (update t o) l = some e := by
  induction o generalizing t with
  | nil => simp [hasKey, aget] at h
  | cons p o ih =>
    obtain ⟨k, v⟩ := p
    have hup : update t ((k, v) :: o) = update (aset t k v) o := rfl
    by_cases ho : hasKey o l
    · obtain ⟨e, he, hg⟩ := ih (aset t k v) ho
      exact ⟨e, List.mem_cons_of_mem _ he, by rw [hup]; exact hg⟩
    · have hk : k = l := by
        by_cases hk : k = l
        · exact hk
        · exact absurd (by simpa [hasKey, aget, hk] using h) ho
      refine ⟨v, by simp [hk], ?_⟩
      rw [hup, aget_update_of_not_hasKey _ _ _ ho, aget_aset]
      simp [hk]

/-! ### the USE loop read through `aget` -/

/-- what one USE statement contributes to `all_*` -/
def impTable (g : List Scope) (st : State) (u : UseA) : Table :=
  match findMod g u.mod with
  | none => []
  | some n => getUsed u (getTabs st n.name).pub

theorem useStep_all (g : List Scope) (st : State) (m : Scope) (t : Tabs) (u : UseA) :
    (useStep g st m t u).all = update t.all (impTable g st u) := by
  unfold useStep impTable
  cases findMod g u.mod <;> rfl

theorem aget_useFold_none (g : List Scope) (st : State) (m : Scope) (us : List UseA) (t : Tabs) (l : Str)
    (h : ∀ u ∈ us, ¬ hasKey (impTable g st u) l) :
    aget (us.foldl (useStep g st m) t).all l = aget t.all l := by
  induction us generalizing t with
  | nil => rfl
  | cons a us ih =>
    simp only [List.foldl_cons]
    rw [ih _ (fun u hu => h u (List.mem_cons_of_mem _ hu)), useStep_all,
      aget_update_of_not_hasKey _ _ _ (h a (by simp))]

/-- the last USE statement that supplies `l` decides what `l` denotes, whatever the table held -/
theorem aget_useFold_some (g : List Scope) (st : State) (m : Scope) (us : List UseA) (t : Tabs) (l : Str)
    (h : ∃ u ∈ us, hasKey (impTable g st u) l) :
    ∃ u' ∈ us, ∃ e, (l, e) ∈ impTable g st u' ∧ aget (us.foldl (useStep g st m) t).all l = some e := by
  induction us generalizing t with
  | nil => obtain ⟨u, hu, _⟩ := h; simp at hu
  | cons a us ih =>
    simp only [List.foldl_cons]
    by_cases hl : ∃ u' ∈ us, hasKey (impTable g st u') l
    · obtain ⟨u'', hu'', e, he, hg⟩ := ih (useStep g st m t a) hl
      exact ⟨u'', List.mem_cons_of_mem _ hu'', e, he, hg⟩
    · have hnone : ∀ u' ∈ us, ¬ hasKey (impTable g st u') l := fun u' hu' hk' => hl ⟨u', hu', hk'⟩
      obtain ⟨u, hu, hk⟩ := h
      have hua : u = a := by
        rcases List.mem_cons.1 hu with h | h
        · exact h
        · exact absurd hk (hnone u h)
      subst hua
      obtain ⟨e, he, hg⟩ := aget_update_of_hasKey t.all _ l hk
      refine ⟨u, by simp, e, he, ?_⟩
      rw [aget_useFold_none g st m us _ l hnone, useStep_all]
      exact hg

/-! ### imports of a contained procedure against the specification -/

theorem importsU_of_mem (g : List Scope) (k : Nat) (st : State) (us : List UseA)
    (hb : ∀ u ∈ us, u.only = false → u.items = [])
    (hsd : ∀ u ∈ us, ∀ n, findMod g u.mod = some n → ∀ q ∈ (getTabs st n.name).pub, Exports g k n q.1 q.2)
    (u : UseA) (hu : u ∈ us) (l : Str) (e : Ent) (h : (l, e) ∈ impTable g st u) : ImportsU g k us l e := by
  unfold impTable at h
  cases hf : findMod g u.mod with
  | none => simp [hf] at h
  | some n =>
    simp only [hf] at h
    obtain ⟨hng, hnmod, hnname⟩ := findMod_some g _ _ hf
    obtain ⟨r, hr, hadm⟩ := mem_getUsed _ _ _ h
    exact ImportsU.mk hu hng hnmod hnname (hsd u hu n hf (r, e) hr) (admits_of_code u r l (hb u hu) hadm)

theorem hasKey_of_importsU (g : List Scope) (k : Nat) (st : State) (us : List UseA) (hun : UniqueNames g)
    (hb : ∀ u ∈ us, u.only = false → u.items = [])
    (hr : ∀ u ∈ us, u.only = true → (u.items.map UItem.remote).Nodup)
    (hcp : ∀ u ∈ us, ∀ n, findMod g u.mod = some n → ∀ r e, Exports g k n r e → hasKey (getTabs st n.name).pub r)
    (l : Str) (e : Ent) (h : ImportsU g k us l e) : ∃ u ∈ us, hasKey (impTable g st u) l := by
  cases h with
  | mk hu hng hnmod hnname hex hadm =>
    rename_i n u r
    have hfm : findMod g u.mod = some n := hnname ▸ findMod_of_mem g hun n hng hnmod
    obtain ⟨e', he', _⟩ := hasKey_mem _ _ (hcp u hu n hfm r e hex)
    refine ⟨u, hu, ?_⟩
    unfold impTable
    simp only [hfm]
    exact hasKey_getUsed u _ r l e' he' (code_of_admits u r l (hb u hu) (hr u hu) hadm)

/-- own declarations of kind `k` as a table -/
theorem aget_ownTable (k : Nat) (p : Scope) (l : Str) (e : Ent)
    (h : aget (tableOf p (declsOf k p)) l = some e) : ∃ d ∈ p.decls, d.kind = k ∧ d.name = l ∧ e = (p.name, d.name) := by
  obtain ⟨d, hd, hp⟩ := mem_tableOf _ _ _ (aget_mem _ _ _ h)
  rw [mem_declsOf] at hd
  cases hp
  exact ⟨d, hd.1, hd.2, rfl, rfl⟩

/-- **Exactness of a contained procedure's table relative to its host's** -/
theorem nested_exact (g : List Scope) (k : Nat) (st : State) (hostAll : Table) (p : Scope)
    (hun : UniqueNames g)
    (hb : ∀ u ∈ p.uses, u.only = false → u.items = [])
    (hr : ∀ u ∈ p.uses, u.only = true → (u.items.map UItem.remote).Nodup)
    (hsd : ∀ u ∈ p.uses, ∀ n, findMod g u.mod = some n → ∀ q ∈ (getTabs st n.name).pub, Exports g k n q.1 q.2)
    (hcp : ∀ u ∈ p.uses, ∀ n, findMod g u.mod = some n → ∀ r e, Exports g k n r e → hasKey (getTabs st n.name).pub r)
    (hs : ∀ l e, ImportsU g k p.uses l e → ∀ d ∈ p.decls, d.name ≠ l)
    (hamb : ∀ l e e', ImportsU g k p.uses l e → ImportsU g k p.uses l e' → e = e')
    (hx : SameKindHiding g k hostAll p) (l : Str) (e : Ent) :
    aget (correlateNested g st k hostAll p).all l = some e ↔
      SeesIn g k (fun l e => aget hostAll l = some e) p l e := by
  unfold correlateNested
  -- no USE statement supplies `l` exactly when the specification imports nothing under `l`
  have hnoimp : (∀ e', ¬ ImportsU g k p.uses l e') → ∀ u ∈ p.uses, ¬ hasKey (impTable g st u) l := by
    intro hno u hu hk
    obtain ⟨e', he', _⟩ := hasKey_mem _ _ hk
    exact hno e' (importsU_of_mem g k st p.uses hb hsd u hu l e' he')
  have hfwd : ∀ e, aget (p.uses.foldl (useStep g st p) (nestedStart k hostAll p)).all l = some e →
      SeesIn g k (fun l e => aget hostAll l = some e) p l e := by
    intro e h
    by_cases hl : ∃ u ∈ p.uses, hasKey (impTable g st u) l
    · obtain ⟨u', hu', e', he', hg⟩ := aget_useFold_some g st p p.uses (nestedStart k hostAll p) l hl
      rw [hg] at h
      have hee : e' = e := Option.some.inj h
      subst hee
      exact SeesIn.imp (importsU_of_mem g k st p.uses hb hsd u' hu' l e' he')
    · have hnone : ∀ u ∈ p.uses, ¬ hasKey (impTable g st u) l := fun u hu hk => hl ⟨u, hu, hk⟩
      rw [aget_useFold_none g st p p.uses _ l hnone] at h
      have hnoI : ∀ e', ¬ ImportsU g k p.uses l e' := by
        intro e' hi
        obtain ⟨u, hu, hk⟩ := hasKey_of_importsU g k st p.uses hun hb hr hcp l e' hi
        exact hnone u hu hk
      simp only [nestedStart] at h
      by_cases hown : hasKey (tableOf p (declsOf k p)) l
      · obtain ⟨e', he', hg⟩ := aget_update_of_hasKey hostAll _ l hown
        rw [hg] at h
        have hee : e' = e := Option.some.inj h
        subst hee
        obtain ⟨d, hd, hp⟩ := mem_tableOf _ _ _ he'
        rw [mem_declsOf] at hd
        obtain ⟨h1, h2⟩ := Prod.mk.inj hp
        rw [h1, h2]
        exact SeesIn.decl hd.1 hd.2
      · rw [aget_update_of_not_hasKey _ _ _ hown] at h
        have hsome : (aget hostAll l).isSome = true := by simp [h]
        obtain ⟨hx1, hx2⟩ := hx l hsome
        refine SeesIn.host h ?_ ?_
        · intro d hd hdl
          apply hown
          have := hasKey_tableOf p (declsOf k p) d ((mem_declsOf k p d).2 ⟨hd, hx1 d hd hdl⟩)
          rwa [hdl] at this
        · intro k' e' hi
          obtain ⟨e'', hi'⟩ := hx2 k' e' hi
          exact hnoI e'' hi'
  constructor
  · exact hfwd e
  · intro h
    cases h with
    | decl hd hk =>
      rename_i d
      have hnoI : ∀ e', ¬ ImportsU g k p.uses d.name e' := fun e' hi => hs d.name e' hi d hd rfl
      rw [aget_useFold_none g st p p.uses _ d.name (fun u hu hk' => by
        obtain ⟨e', he', _⟩ := hasKey_mem _ _ hk'
        exact hnoI e' (importsU_of_mem g k st p.uses hb hsd u hu d.name e' he'))]
      simp only [nestedStart]
      have hown := hasKey_tableOf p (declsOf k p) d ((mem_declsOf k p d).2 ⟨hd, hk⟩)
      obtain ⟨e', he', hg⟩ := aget_update_of_hasKey hostAll _ d.name hown
      rw [hg]
      obtain ⟨d', hd', hp⟩ := mem_tableOf _ _ _ he'
      obtain ⟨h1, h2⟩ := Prod.mk.inj hp
      rw [h2, ← h1]
    | imp hi =>
      obtain ⟨u', hu', e', he', hg⟩ := aget_useFold_some g st p p.uses (nestedStart k hostAll p) l
        (hasKey_of_importsU g k st p.uses hun hb hr hcp l e hi)
      rw [hg, hamb l e e' hi (importsU_of_mem g k st p.uses hb hsd u' hu' l e' he')]
    | host hh hd hi =>
      rw [aget_useFold_none g st p p.uses _ l (hnoimp (fun e' => hi k e'))]
      simp only [nestedStart]
      rw [aget_update_of_not_hasKey]
      · exact hh
      · intro hown
        obtain ⟨e', he', _⟩ := hasKey_mem _ _ hown
        obtain ⟨d, hd', hp⟩ := mem_tableOf _ _ _ he'
        rw [mem_declsOf] at hd'
        exact hd d hd'.1 (Prod.mk.inj hp).1.symm

/-- a name obtained by USE denotes the used module's entity whatever the host's table holds
    under that name (needs neither `NoShadow` nor `SameKindHiding`) -/
theorem nested_import_wins (g : List Scope) (k : Nat) (st : State) (hostAll : Table) (p : Scope)
    (hun : UniqueNames g)
    (hb : ∀ u ∈ p.uses, u.only = false → u.items = [])
    (hr : ∀ u ∈ p.uses, u.only = true → (u.items.map UItem.remote).Nodup)
    (hsd : ∀ u ∈ p.uses, ∀ n, findMod g u.mod = some n → ∀ q ∈ (getTabs st n.name).pub, Exports g k n q.1 q.2)
    (hcp : ∀ u ∈ p.uses, ∀ n, findMod g u.mod = some n → ∀ r e, Exports g k n r e → hasKey (getTabs st n.name).pub r)
    (hamb : ∀ l e e', ImportsU g k p.uses l e → ImportsU g k p.uses l e' → e = e')
    (l : Str) (e : Ent) (hi : ImportsU g k p.uses l e) :
    aget (correlateNested g st k hostAll p).all l = some e := by
  unfold correlateNested
  obtain ⟨u', hu', e', he', hg⟩ := aget_useFold_some g st p p.uses (nestedStart k hostAll p) l
    (hasKey_of_importsU g k st p.uses hun hb hr hcp l e hi)
  rw [hg, hamb l e e' hi (importsU_of_mem g k st p.uses hb hsd u' hu' l e' he')]

/-! ### contained procedures do not disturb the tables of modules and programs -/

/-- two states give every scope of `g` the same tables -/
def AgreeOn (g : List Scope) (st st' : State) : Prop := ∀ m ∈ g, getTabs st m.name = getTabs st' m.name

/-- names of contained procedures are not names of modules or programs -/
def NestedDisjoint (g : List Scope) (ns : List Nested) : Prop := ∀ x ∈ ns, ∀ m ∈ g, x.scope.name ≠ m.name

theorem useStep_congr (g : List Scope) (st st' : State) (h : AgreeOn g st st') (m : Scope) (t : Tabs) (u : UseA) :
    useStep g st m t u = useStep g st' m t u := by
  unfold useStep
  cases hf : findMod g u.mod with
  | none => rfl
  | some n => simp only [h n (findMod_some g _ _ hf).1]

theorem useFold_congr (g : List Scope) (st st' : State) (h : AgreeOn g st st') (m : Scope) (us : List UseA) (t : Tabs) :
    us.foldl (useStep g st m) t = us.foldl (useStep g st' m) t := by
  induction us generalizing t with
  | nil => rfl
  | cons a us ih => simp only [List.foldl_cons]; rw [useStep_congr g st st' h, ih]

theorem step_agree (g : List Scope) (st st' : State) (h : AgreeOn g st st') (n : Str) :
    AgreeOn g (step g st n) (step g st' n) := by
  unfold step
  cases hf : findScope g n with
  | none => exact h
  | some m0 =>
    obtain ⟨hm0, hnm⟩ := findScope_some g _ _ hf
    intro m hm
    simp only
    rw [getTabs_aset, getTabs_aset]
    by_cases heq : n = m.name
    · simp only [heq, if_true]
      unfold correlate
      rw [useFold_congr g st st' h, h m0 hm0]
    · simp only [heq, if_false]
      exact h m hm

theorem stepNested_agree (g : List Scope) (k : Nat) (st : State) (x : Nested)
    (hx : ∀ m ∈ g, x.scope.name ≠ m.name) : AgreeOn g (stepNested g k st x) st := by
  intro m hm
  unfold stepNested
  rw [getTabs_aset]
  simp [hx m hm]

theorem nestedFold_agree (g : List Scope) (k : Nat) (xs : List Nested) (st : State)
    (hx : ∀ x ∈ xs, ∀ m ∈ g, x.scope.name ≠ m.name) : AgreeOn g (xs.foldl (stepNested g k) st) st := by
  induction xs generalizing st with
  | nil => intro m _; rfl
  | cons a xs ih =>
    simp only [List.foldl_cons]
    intro m hm
    rw [ih _ (fun x hx' => hx x (List.mem_cons_of_mem _ hx')) m hm]
    exact stepNested_agree g k st a (hx a (by simp)) m hm

theorem stepN_agree (g : List Scope) (ns : List Nested) (k : Nat) (hd : NestedDisjoint g ns)
    (st st' : State) (h : AgreeOn g st st') (n : Str) : AgreeOn g (stepN g ns k st n) (step g st' n) := by
  intro m hm
  unfold stepN
  rw [nestedFold_agree g k _ _ (fun x hx => hd x (List.mem_filter.1 hx).1) m hm]
  exact step_agree g st st' h n m hm

theorem runN_agree (g : List Scope) (ns : List Nested) (k : Nat) (hd : NestedDisjoint g ns) (order : List Str) :
    AgreeOn g (runN k g ns order) (run k g order) := by
  unfold runN run
  have : ∀ st st', AgreeOn g st st' →
      AgreeOn g (order.foldl (stepN g ns k) st) (order.foldl (step g) st') := by
    induction order with
    | nil => intro st st' h; exact h
    | cons a as ih => intro st st' h; exact ih _ _ (stepN_agree g ns k hd st st' h a)
  exact this _ _ (fun m _ => rfl)

/-! ### who writes which entry of the state -/

theorem getTabs_step_ne (g : List Scope) (st : State) (n z : Str) (h : n ≠ z) :
    getTabs (step g st n) z = getTabs st z := by
  unfold step
  cases findScope g n with
  | none => rfl
  | some m => simp only; rw [getTabs_aset]; simp [h]

theorem getTabs_step_notScope (g : List Scope) (st : State) (n z : Str) (h : ∀ m ∈ g, m.name ≠ z) :
    getTabs (step g st n) z = getTabs st z := by
  unfold step
  cases hf : findScope g n with
  | none => rfl
  | some m =>
    obtain ⟨hm, hnm⟩ := findScope_some g _ _ hf
    simp only; rw [getTabs_aset]
    have : n ≠ z := fun e => h m hm (hnm.trans e)
    simp [this]

theorem getTabs_nestedFold_other (g : List Scope) (k : Nat) (ys : List Nested) (st : State) (z : Str)
    (h : ∀ y ∈ ys, y.scope.name ≠ z) : getTabs (ys.foldl (stepNested g k) st) z = getTabs st z := by
  induction ys generalizing st with
  | nil => rfl
  | cons a ys ih =>
    simp only [List.foldl_cons]
    rw [ih _ (fun y hy => h y (List.mem_cons_of_mem _ hy))]
    unfold stepNested
    rw [getTabs_aset]
    simp [h a (by simp)]

/-- a later `stepN` leaves entry `z` alone when `z` is neither the container correlated nor one
    of its contained procedures -/
theorem getTabs_stepN_other (g : List Scope) (ns : List Nested) (k : Nat) (st : State) (n z : Str)
    (h1 : n ≠ z ∨ ∀ m ∈ g, m.name ≠ z) (h2 : ∀ y ∈ ns, y.root = n → y.scope.name ≠ z) :
    getTabs (stepN g ns k st n) z = getTabs st z := by
  unfold stepN
  rw [getTabs_nestedFold_other g k _ _ z (fun y hy => by
    rw [List.mem_filter] at hy
    exact h2 y hy.1 (by simpa using hy.2))]
  rcases h1 with h1 | h1
  · exact getTabs_step_ne g st n z h1
  · exact getTabs_step_notScope g st n z h1

theorem getTabs_stepNFold_other (g : List Scope) (ns : List Nested) (k : Nat) (post : List Str) (st : State) (z : Str)
    (h1 : z ∉ post ∨ ∀ m ∈ g, m.name ≠ z) (h2 : ∀ y ∈ ns, y.root ∈ post → y.scope.name ≠ z) :
    getTabs (post.foldl (stepN g ns k) st) z = getTabs st z := by
  induction post generalizing st with
  | nil => rfl
  | cons a post ih =>
    simp only [List.foldl_cons]
    rw [ih _ (by
        rcases h1 with h1 | h1
        · exact Or.inl (fun hz => h1 (List.mem_cons_of_mem _ hz))
        · exact Or.inr h1) (fun y hy hr => h2 y hy (List.mem_cons_of_mem _ hr))]
    exact getTabs_stepN_other g ns k st a z (by
        rcases h1 with h1 | h1
        · exact Or.inl (fun e => h1 (by simp [e]))
        · exact Or.inr h1) (fun y hy hr => h2 y hy (by simp [hr]))

/-! ### topological orders -/

theorem isTopo_of_isTopoN (g : List Scope) (ns : List Nested) (order done : List Str)
    (h : isTopoN g ns done order = true) : isTopo g done order = true := by
  induction order generalizing done with
  | nil => rfl
  | cons a rest ih =>
    simp only [isTopoN, Bool.and_eq_true] at h
    simp only [isTopo, Bool.and_eq_true]
    refine ⟨?_, ih _ h.2⟩
    cases hf : findScope g a with
    | none => rfl
    | some m =>
      have h1 := h.1
      simp only [hf, Bool.and_eq_true] at h1
      simp only [Bool.and_eq_true]
      exact h1.1

theorem isTopoN_append (g : List Scope) (ns : List Nested) (a b done : List Str)
    (h : isTopoN g ns done (a ++ b) = true) :
    isTopoN g ns done a = true ∧ isTopoN g ns (a.reverse ++ done) b = true := by
  induction a generalizing done with
  | nil => exact ⟨rfl, by simpa using h⟩
  | cons x a ih =>
    simp only [List.cons_append, isTopoN, Bool.and_eq_true] at h
    obtain ⟨h1, h2⟩ := ih _ h.2
    refine ⟨by simp only [isTopoN, Bool.and_eq_true]; exact ⟨h.1, h1⟩, ?_⟩
    simpa [List.reverse_cons, List.append_assoc] using h2

theorem isTopoN_not_mem (g : List Scope) (ns : List Nested) (l done : List Str) (n : Str) (m : Scope)
    (hf : findScope g n = some m) (hn : n ∈ done) (h : isTopoN g ns done l = true) : n ∉ l := by
  induction l generalizing done with
  | nil => simp
  | cons a l ih =>
    simp only [isTopoN, Bool.and_eq_true] at h
    intro hmem
    rcases List.mem_cons.1 hmem with e | hl
    · subst e
      have h1 := h.1
      simp only [hf, Bool.and_eq_true] at h1
      have := h1.1.2
      simp [hn] at this
    · exact ih (a :: done) (List.mem_cons_of_mem _ hn) h.2 hl

/-! ### the table of a contained procedure after the whole run -/

/-- names of contained procedures are pairwise different -/
def NestedNamesDistinct (ns : List Nested) : Prop := ns.Pairwise (fun y z => y.scope.name ≠ z.scope.name)

theorem pw_names_inj (l : List Nested) (h : NestedNamesDistinct l) (y z : Nested) (hy : y ∈ l) (hz : z ∈ l)
    (e : y.scope.name = z.scope.name) : y = z := by
  unfold NestedNamesDistinct at h
  induction l with
  | nil => simp at hy
  | cons c l ih =>
    rw [List.pairwise_cons] at h
    rcases List.mem_cons.1 hy with hy1 | hy1
    · rcases List.mem_cons.1 hz with hz1 | hz1
      · rw [hy1, hz1]
      · exact absurd (hy1 ▸ e) (h.1 z hz1)
    · rcases List.mem_cons.1 hz with hz1 | hz1
      · exact absurd (hz1 ▸ e.symm) (h.1 y hy1)
      · exact ih h.2 hy1 hz1

theorem hostsFirst_split (seen : List Str) (a : List Nested) (x : Nested) (b : List Nested)
    (h : hostsFirst seen (a ++ x :: b)) : x.host ∈ seen ∨ ∃ z ∈ a, z.scope.name = x.host := by
  induction a generalizing seen with
  | nil => exact Or.inl h.1
  | cons c a ih =>
    have h' : c.host ∈ seen ∧ hostsFirst (c.scope.name :: seen) (a ++ x :: b) := h
    rcases ih _ h'.2 with h1 | ⟨z, hz, hzn⟩
    · rcases List.mem_cons.1 h1 with h1 | h1
      · exact Or.inr ⟨c, by simp, h1.symm⟩
      · exact Or.inl h1
    · exact Or.inr ⟨z, List.mem_cons_of_mem _ hz, hzn⟩

/-- **End to end**: after the whole ranklist loop, the table of a contained procedure is the
    standard's `SeesIn` over the final table of its host. -/
theorem nested_run_exact (g : List Scope) (ns : List Nested) (k : Nat) (order : List Str)
    (hu : UniqueNames g) (hb : NoBareRename g) (hr : NoRepeatedRemote g) (hp : NoEffectivePrivate g)
    (hs : NoShadow g k) (hl : LegalAccess g) (hq : NoProtectedOverPrivate g) (hd : NestedDisjoint g ns) (hpw : NestedNamesDistinct ns)
    (ht : isTopoN g ns [] order = true)
    (x : Nested) (hx : x ∈ ns) (m : Scope) (hm : m ∈ g) (hroot : m.name = x.root) (hin : x.root ∈ order)
    (hhf : hostsFirst [x.root] (ns.filter (fun y => y.root == x.root)))
    (hb' : ∀ u ∈ x.scope.uses, u.only = false → u.items = [])
    (hr' : ∀ u ∈ x.scope.uses, u.only = true → (u.items.map UItem.remote).Nodup)
    (hs' : ∀ l e, ImportsU g k x.scope.uses l e → ∀ d ∈ x.scope.decls, d.name ≠ l)
    (hamb : ∀ l e e', ImportsU g k x.scope.uses l e → ImportsU g k x.scope.uses l e' → e = e')
    (hk : SameKindHiding g k (getTabs (runN k g ns order) x.host).all x.scope) (l : Str) (e : Ent) :
    aget (getTabs (runN k g ns order) x.scope.name).all l = some e ↔
      SeesIn g k (fun l e => aget (getTabs (runN k g ns order) x.host).all l = some e) x.scope l e := by
  obtain ⟨pre, post, ho⟩ := List.append_of_mem hin
  subst ho
  have hfs : findScope g x.root = some m := hroot ▸ findScope_of_mem g hu m hm
  obtain ⟨htpre, ht2⟩ := isTopoN_append g ns pre (x.root :: post) [] ht
  simp only [isTopoN, hfs, Bool.and_eq_true, List.append_nil] at ht2
  obtain ⟨⟨⟨_, hnotdone⟩, hnd⟩, htpost⟩ := ht2
  have hroot_post : x.root ∉ post := isTopoN_not_mem g ns post _ x.root m hfs (by simp) htpost
  have hroot_pre : x.root ∉ pre := by simpa using hnotdone
  have hxdone : usesDone g pre.reverse x.scope = true := by
    unfold nestedDone at hnd
    rw [List.all_eq_true] at hnd
    simpa using hnd x hx
  -- the states around the moment `x` is correlated
  have hF : runN k g ns (pre ++ x.root :: post)
      = post.foldl (stepN g ns k) (stepN g ns k (runN k g ns pre) x.root) := by
    unfold runN; rw [List.foldl_append, List.foldl_cons]
  have hxf : x ∈ ns.filter (fun y => y.root == x.root) := List.mem_filter.2 ⟨hx, by simp⟩
  obtain ⟨a, b, hab⟩ := List.append_of_mem hxf
  have hsub : ∀ y, y ∈ a ∨ y ∈ b → y ∈ ns ∧ y.root = x.root := by
    intro y hy
    have : y ∈ ns.filter (fun y => y.root == x.root) := by
      rw [hab]; rcases hy with hy | hy <;> simp [hy]
    rw [List.mem_filter] at this
    exact ⟨this.1, by simpa using this.2⟩
  have hpwf : NestedNamesDistinct (a ++ x :: b) := by
    unfold NestedNamesDistinct; rw [← hab]; exact hpw.filter _
  have hpwf' := hpwf
  unfold NestedNamesDistinct at hpwf'
  rw [List.pairwise_append] at hpwf'
  obtain ⟨_, hpxb, hpab⟩ := hpwf'
  rw [List.pairwise_cons] at hpxb
  have hothers : ∀ y ∈ ns, y.root ∈ post → ∀ z ∈ ns, z.root = x.root → y.scope.name ≠ z.scope.name := by
    intro y hy hyr z hz hzr e
    have := pw_names_inj ns hpw y z hy hz e
    subst this
    exact hroot_post (hzr ▸ hyr)
  obtain ⟨S0, hS0⟩ : ∃ S, S = runN k g ns pre := ⟨_, rfl⟩
  obtain ⟨S2, hS2⟩ : ∃ S, S = a.foldl (stepNested g k) (step g S0 x.root) := ⟨_, rfl⟩
  have hstepN : stepN g ns k S0 x.root = b.foldl (stepNested g k) (stepNested g k S2 x) := by
    unfold stepN; rw [hab, List.foldl_append, List.foldl_cons, hS2]
  have hlater : ∀ z, (z ∉ post ∨ ∀ m ∈ g, m.name ≠ z) → (∀ y ∈ ns, y.root ∈ post → y.scope.name ≠ z) →
      (∀ y ∈ b, y.scope.name ≠ z) →
      getTabs (runN k g ns (pre ++ x.root :: post)) z = getTabs (stepNested g k S2 x) z := by
    intro z h1 h2 h3
    rw [hF, getTabs_stepNFold_other g ns k post _ z h1 h2, ← hS0, hstepN,
      getTabs_nestedFold_other g k b _ z h3]
  have hself : getTabs (runN k g ns (pre ++ x.root :: post)) x.scope.name
      = correlateNested g S2 k (getTabs S2 x.host).all x.scope := by
    rw [hlater x.scope.name (Or.inr (fun m' hm' => (hd x hx m' hm').symm))
      (fun y hy hyr => hothers y hy hyr x hx rfl) (fun y hy => (hpxb.1 y hy).symm)]
    unfold stepNested
    rw [getTabs_aset]; simp
  have hhost : getTabs (runN k g ns (pre ++ x.root :: post)) x.host = getTabs S2 x.host := by
    rcases hostsFirst_split [x.root] a x b (hab ▸ hhf) with h1 | ⟨z, hz, hzn⟩
    · have h1 : x.host = x.root := by simpa using h1
      have hne : ∀ y ∈ ns, y.scope.name ≠ x.host := fun y hy => by rw [h1, ← hroot]; exact hd y hy m hm
      rw [hlater x.host (Or.inl (h1 ▸ hroot_post)) (fun y hy _ => hne y hy)
        (fun y hy => hne y (hsub y (Or.inr hy)).1)]
      unfold stepNested
      rw [getTabs_aset]; simp [hne x hx]
    · obtain ⟨hzns, hzr⟩ := hsub z (Or.inl hz)
      rw [← hzn]
      rw [hlater z.scope.name (Or.inr (fun m' hm' => (hd z hzns m' hm').symm))
        (fun y hy hyr => hothers y hy hyr z hzns hzr) (fun y hy => (hpab z hz y (by simp [hy])).symm)]
      unfold stepNested
      rw [getTabs_aset]; simp [(hpab z hz x (by simp)).symm]
  have hmods : ∀ u ∈ x.scope.uses, ∀ n, findMod g u.mod = some n →
      n ∈ g ∧ n.name ∈ pre ∧ getTabs S2 n.name = getTabs (run k g pre) n.name := by
    intro u hu' n hn
    obtain ⟨hng, _, _⟩ := findMod_some g _ _ hn
    have hpre : n.name ∈ pre := by simpa using usesDone_spec g pre.reverse x.scope hxdone u hu' n hn
    refine ⟨hng, hpre, ?_⟩
    rw [hS2, getTabs_nestedFold_other g k a _ n.name (fun y hy => hd y (hsub y (Or.inl hy)).1 n hng),
      getTabs_step_ne g _ x.root n.name (fun e => hroot_pre (e ▸ hpre)), hS0]
    exact runN_agree g ns k hd pre n hng
  rw [hhost] at hk
  rw [hself, hhost]
  refine nested_exact g k S2 _ x.scope hu hb' hr' ?_ ?_ hs' hamb hk l e
  · intro u hu' n hn q hq'
    obtain ⟨hng, hpre, heq⟩ := hmods u hu' n hn
    rw [heq] at hq'
    exact (sound_run g k hu hb hp hs hq pre n hng).1 q hq'
  · intro u hu' n hn r e' hex
    obtain ⟨hng, hpre, heq⟩ := hmods u hu' n hn
    rw [heq]
    exact (complete_run g k hu hb hr hl pre (isTopo_of_isTopoN g ns pre [] htpre) n hng hpre).1 r e' hex

end Ford.Use
