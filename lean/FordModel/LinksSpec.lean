/-
  C11 - the documented lookup, written without exceptions and without the
  control flow of `convert_link`: one prioritised candidate list per level and a
  first-match search.  (Specification side; the mechanism is FordModel/Links.lean.)
-/
import FordModel.Links
namespace Ford.Links

/-- first of two optional answers -/
def orElse' (a b : Option Nat) : Option Nat :=
  match a with
  | some x => some x
  | none => b

/-- what an item-kind qualifier designates inside entity `e`: the list attribute SUBLINK_TYPES
    names (nothing if `e` has no such list); no qualifier: every child, in `children` order -/
def itemsOf (e : Ent) : Option Str → List Item
  | none => children e
  | some k =>
    match sublinkTypes.lookup (kindKey k) with
    | some attr =>
      (match e.attrs.lookup attr with
       | some (.many l) => l
       | _ => [])
    | none => []

/-- what a component-kind qualifier designates project-wide -/
def projItems (P : Project) : Option Str → List Item
  | none => linkTypes.flatMap fun kv => P.coll kv.2
  | some k =>
    match linkTypes.lookup (kindKey k) with
    | some attr => P.coll attr
    | none => []

/-- candidates near the documented entity: its own contents, then its parent's -/
def localCandidates (P : Project) (ctx : Option Nat) (kind : Option Str) : List Item :=
  match ctx.bind P.get with
  | none => []
  | some c =>
    itemsOf c kind ++
      (match c.parent.bind P.get with
       | some p => itemsOf p kind
       | none => [])

/-- the item part, looked up inside a component -/
def childIn (P : Project) (comp : Option Nat) (ch : Str) (ck : Option Str) : Option Nat :=
  match comp.bind P.get with
  | some e => findInList P ch (itemsOf e ck)
  | none => none

/-- **the documented lookup**: nearest level first (own contents, parent's contents, whole project);
    with an item part, the item inside the nearest component, else inside the project-wide
    component, else (with a warning) the project-wide component itself -/
def lookupSpec (P : Project) (ctx : Option Nat) (r : Ref) : Option Nat :=
  let loc := findInList P r.name (localCandidates P ctx r.kind)
  let proj := findInList P r.name (projItems P r.kind)
  match r.child with
  | none => orElse' loc proj
  | some ch => orElse' (childIn P loc ch r.childKind) (orElse' (childIn P proj ch r.childKind) proj)

/-- a kind qualifier that makes `list(getattr(e, ...))` raise TypeError on `e`
    (SUBLINK_TYPES maps it to an attribute holding a single object or None) -/
def raisesTypeError (e : Ent) : Option Str → Bool
  | none => false
  | some k =>
    match sublinkTypes.lookup (kindKey k) with
    | some attr =>
      (match e.attrs.lookup attr with
       | some (.one _) => true
       | some .noneVal => true
       | _ => false)
    | none => false

/-- an item-kind qualifier that `e` can hold (documented item kind + the list exists) -/
def canHold (e : Ent) : Option Str → Bool
  | none => true
  | some k =>
    match sublinkTypes.lookup (kindKey k) with
    | some attr => (e.attrs.lookup attr).isSome
    | none => false

/-- a component-kind qualifier LINK_TYPES knows -/
def knownComponentKind : Option Str → Bool
  | none => true
  | some k => (linkTypes.lookup (kindKey k)).isSome

/-- entity `id` is an element of some collection the lookup can search -/
def Listed (P : Project) (id : Nat) : Prop :=
  (∃ e ∈ P.ents, ∃ a l, (a, AttrVal.many l) ∈ e.attrs ∧ Item.ent id ∈ l) ∨
  (∃ e ∈ P.ents, ∃ a, (a, AttrVal.one id) ∈ e.attrs) ∨
  (∃ a l, (a, l) ∈ P.lists ∧ Item.ent id ∈ l)

end Ford.Links

namespace Ford.Links

/-- entity `e` with the class / `obj` / identifier information of its parent chain replaced -/
def reclassEnt (f : List Anc → List Anc) (e : Ent) : Ent := { e with chain := f e.chain }

/-- the same project - names, attributes, parents, collections - where every entity is of
    another class (`f` rewrites what `get_dir`/`get_url` and `.obj` see) -/
def reclass (f : List Anc → List Anc) (P : Project) : Project :=
  { P with ents := P.ents.map (reclassEnt f) }

end Ford.Links
