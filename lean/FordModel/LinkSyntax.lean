/-
  C11 (round 3) - the *surface syntax* of `[[name(kind):item(kind)]]` references: how a reference
  is recognised in a documentation text before `convert_link` looks anything up.

  Mechanism mirrored (ford/_markdown.py):
    `FordLinkProcessor.LINK_RE`
        \[\[ (?P<name>\w+(?:<sep>\w+)<?|*>) (?:\((?P<entity>\w+)\))?
             (?::(?P<child_name>\w+)(?:\((?P<child_entity>\w+)\))?)? \]\]
    (`re.UNICODE`), `getCompiledRegExp` / `handleMatch` (the match is replaced from `m.start(0)` to
    `m.end(0)`), and Python-Markdown's `__applyPattern` loop: `finditer` = leftmost match, the
    pattern is applied again to what follows until nothing matches.

  The separator characters of the `name` group and whether the `(?:<sep>\w+)` part may repeat are
  the two parameters `NameCfg`; the values of the working tree are read from the compiled pattern on
  every run (`Generated.C11.linkNameSeps`, `linkNameMany`), the rest of the pattern is pinned by the
  theorem `link_pattern_modelled`.

  The pattern needs no backtracking: every piece is delimited by a character outside `\w` and
  outside the separators, so the greedy left-to-right scan below is the only way it can match.
-/
import FordModel.Links
import FordModel.TypeSpec
namespace Ford.Links
open Ford

/-- `\w` of Python's `re` for `str` patterns (`re.UNICODE`), exact for code points below U+0250
    (ASCII, Latin-1 Supplement, Latin Extended-A/B); the harness generates nothing above and compares
    this table with `re.fullmatch(r"\w", chr(c))` for every such code point on every run. -/
def isWordU (c : Char) : Bool :=
  isWord c ||
  (let n := c.toNat
   n == 0xAA || n == 0xB2 || n == 0xB3 || n == 0xB5 || n == 0xB9 || n == 0xBA ||
   (0xBC ≤ n && n ≤ 0xBE) || (0xC0 ≤ n && n ≤ 0xD6) || (0xD8 ≤ n && n ≤ 0xF6) || (0xF8 ≤ n && n ≤ 0x24F))

/-- the shape of the `name` group: `\w+ (?: [seps] \w+ )?` or, with `many`, `( ... )*` -/
structure NameCfg where
  seps : List Char
  many : Bool
  deriving Repr, DecidableEq, Inhabited

/-- the pattern of the working tree -/
def linkCfg : NameCfg := { seps := Generated.C11.linkNameSeps, many := Generated.C11.linkNameMany }

/-- `\w+` at the start of the string: (the run, the remainder) -/
def takeWord : Str → Str × Str
  | [] => ([], [])
  | c :: cs => if isWordU c then (c :: (takeWord cs).1, (takeWord cs).2) else ([], c :: cs)

/-- may the separator `c`, followed by `d`, continue the name? -/
def sepOk (cfg : NameCfg) (used : Bool) (c d : Char) : Bool :=
  cfg.seps.contains c && (cfg.many || !used) && isWordU d

/-- the rest of the `name` group after its first character: word characters, and a separator when it
    is followed by a word character (and, unless `many`, no separator was taken before);
    `used` = a separator has been taken -/
def scanName (cfg : NameCfg) : Bool → Str → Str × Str
  | _, [] => ([], [])
  | _, [c] => if isWordU c then ([c], []) else ([], [c])
  | used, c :: d :: rest =>
    if isWordU c then (c :: (scanName cfg used (d :: rest)).1, (scanName cfg used (d :: rest)).2)
    else if sepOk cfg used c d then
      (c :: (scanName cfg true (d :: rest)).1, (scanName cfg true (d :: rest)).2)
    else ([], c :: d :: rest)

/-- the `name` group: must start with a word character -/
def matchName (cfg : NameCfg) (s : Str) : Option (Str × Str) :=
  match s with
  | c :: _ => if isWordU c then some (scanName cfg false s) else none
  | [] => none

/-- `(?:\((\w+)\))?` -/
def optQual (s : Str) : Option Str × Str :=
  match s with
  | '(' :: t =>
    match takeWord t with
    | ([], _) => (none, s)
    | (w, ')' :: r) => (some w, r)
    | _ => (none, s)
  | _ => (none, s)

/-- `(?::(\w+)(?:\((\w+)\))?)?` -/
def optChild (s : Str) : Option Str × Option Str × Str :=
  match s with
  | ':' :: t =>
    match takeWord t with
    | ([], _) => (none, none, s)
    | (w, r) => (some w, (optQual r).1, (optQual r).2)
  | _ => (none, none, s)

/-- `LINK_RE.match(s)`: the groups and what follows the match -/
def matchLinkAt (cfg : NameCfg) (s : Str) : Option (Ref × Str) :=
  match s with
  | '[' :: '[' :: s1 =>
    match matchName cfg s1 with
    | none => none
    | some (name, r1) =>
      let q := optQual r1
      let c := optChild q.2
      match c.2.2 with
      | ']' :: ']' :: rest => some ({ name := name, kind := q.1, child := c.1, childKind := c.2.1 }, rest)
      | _ => none
  | _ => none

/-- `LINK_RE.search(s)` (what `finditer` yields first): text before, groups, text after -/
def findLink (cfg : NameCfg) : Str → Option (Str × Ref × Str)
  | [] => none
  | c :: cs =>
    match matchLinkAt cfg (c :: cs) with
    | some (r, rest) => some ([], r, rest)
    | none => (findLink cfg cs).map fun x => (c :: x.1, x.2)

/-- a piece of a documentation text -/
inductive Seg where
  | plain (s : Str)   -- left as written
  | ref (r : Ref)     -- a recognised reference
  deriving Repr, DecidableEq, Inhabited

def flush (acc : Str) : List Seg := if acc.isEmpty then [] else [.plain acc.reverse]

/-- the inline-pattern loop: the leftmost match is taken out, the pattern is applied again to what
    follows.  `skip` = characters of the current match still to pass over, `acc` = plain text so far
    (reversed). -/
def segGo (cfg : NameCfg) : Str → Nat → Str → List Seg
  | [], _, acc => flush acc
  | _ :: cs, skip + 1, acc => segGo cfg cs skip acc
  | c :: cs, 0, acc =>
    match matchLinkAt cfg (c :: cs) with
    | some (r, rest) => flush acc ++ .ref r :: segGo cfg cs (cs.length - rest.length) []
    | none => segGo cfg cs 0 (c :: acc)

/-- a documentation text cut into plain text and references -/
def segments (cfg : NameCfg) (s : Str) : List Seg := segGo cfg s 0 []

/-- a piece of converted text -/
inductive OutSeg where
  | plain (s : Str)
  | link (text href : Str)   -- `<a href=...>text</a>`
  | text (t : Str)           -- `<a>name</a>`: nothing to link to (a warning is printed)
  deriving Repr, DecidableEq, Inhabited

def convertSegs (env : Env) (P : Project) (ctx : Option Nat) (path : Option Path) : List Seg → Except Err (List OutSeg)
  | [] => .ok []
  | .plain s :: rest =>
    match convertSegs env P ctx path rest with
    | .ok l => .ok (.plain s :: l)
    | .error e => .error e
  | .ref r :: rest =>
    match convertLink env P ctx path r with
    | .err e => .error e          -- the first exception aborts the conversion of the text
    | .link t h =>
      match convertSegs env P ctx path rest with
      | .ok l => .ok (.link t h :: l)
      | .error e => .error e
    | .text t =>
      match convertSegs env P ctx path rest with
      | .ok l => .ok (.text t :: l)
      | .error e => .error e

/-- `MetaMarkdown.convert(text, context, path)` as far as the `[[...]]` references are concerned -/
def convertText (cfg : NameCfg) (env : Env) (P : Project) (ctx : Option Nat) (path : Option Path) (text : Str) :
    Except Err (List OutSeg) :=
  convertSegs env P ctx path (segments cfg text)

/-! ### Specification side: how a documented reference is written -/

/-- a non-empty run of word characters (a Fortran name, a kind name, a file stem or extension -
    digits and the underscore included, in any position) -/
def WordStr (w : Str) : Prop := w ≠ [] ∧ ∀ c ∈ w, isWordU c = true

/-- the parts of a reference as the user guide writes them: `component` is a name or `stem.ext`
    (a source file), the qualifiers and the item are names; an item kind needs an item -/
def Ref.Documented (r : Ref) : Prop :=
  (WordStr r.name ∨ ∃ a b, WordStr a ∧ WordStr b ∧ r.name = a ++ '.' :: b) ∧
  (∀ k, r.kind = some k → WordStr k) ∧ (∀ c, r.child = some c → WordStr c) ∧
  (∀ k, r.childKind = some k → WordStr k) ∧ (r.child = none → r.childKind = none)

/-- the general shape of a component name the pattern with configuration `cfg` accepts: word runs
    joined by single separator characters (decidable: the tokenizer consumes the whole name) -/
def nameAccepted (cfg : NameCfg) (n : Str) : Bool :=
  match matchName cfg n with
  | some (m, []) => m == n
  | _ => false

/-- a text written as `pre₁ [[r₁]] pre₂ [[r₂]] ... post` -/
def renderParts : List (Str × Ref) → Str → Str
  | [], post => post
  | (pre, r) :: rest, post => pre ++ r.render ++ renderParts rest post

/-- ... and the pieces it consists of -/
def partsSegs : List (Str × Ref) → Str → List Seg
  | [], post => flush post.reverse
  | (pre, r) :: rest, post => flush pre.reverse ++ .ref r :: partsSegs rest post

end Ford.Links
