/-
  C07 - specification of name resolution, written from Fortran's scoping rules
  (not from FORD's mechanism): every scope has a FRAME = the names it declares
  or use-associates; a reference in a scope denotes the entity of the innermost
  enclosing frame that has the name; frames of sibling and nested scopes are
  never consulted; no frame has the name => the reference stays text.
  (A local declaration and a use-associated entity of the same name in one
  scope is a clash - not Fortran; see `NoClash` in the harness oracle.)
-/
import FordModel.Scope
namespace Ford.Scope
open Ford

structure Frame where
  p : Table
  a : Table
  t : Table
  deriving Repr

/-- names a scope declares (nested procedures, interfaces, abstract interfaces,
    derived types) or use-associates -/
def frameOf (env : ModEnv) : Scope → Frame
  | .mk _ _ _ uses decls _ kids =>
    let tb := applyUses env uses ⟨localProcs decls kids, declsOf .ab decls, declsOf .ty decls⟩
    ⟨tb.p, tb.a, tb.t⟩

/-- innermost frame (head of the chain) that has the name -/
def chainGet (sel : Frame → Table) : List Frame → Str → Option Ent
  | [], _ => none
  | f :: r, n => match tget (sel f) n with
    | some e => some e
    | none => chainGet sel r n

/-- procedure prototypes: procedures and abstract interfaces are one class of
    names - innermost frame that has the name as either -/
def chainGetPA : List Frame → Str → Option Ent
  | [], _ => none
  | f :: r, n => match tget f.p n with
    | some e => some e
    | none => match tget f.a n with
      | some e => some e
      | none => chainGetPA r n

def specLookup (ch : List Frame) (s : Slot) : Option Ent :=
  match s.kind with
  | .ty => chainGet (·.t) ch (lower s.name)
  | .pr => chainGet (·.p) ch (lower s.name)
  | .pa => chainGetPA ch (lower s.name)

def specPhase (ph : Phase) (ch : List Frame) : List Slot → Res
  | [] => []
  | s :: ss => if s.phase = ph then (s, specLookup ch s) :: specPhase ph ch ss else specPhase ph ch ss

mutual
/-- expected content of every slot of a scope and its nested scopes; `ch` are
    the frames of the enclosing scopes, innermost first -/
def specScope (env : ModEnv) (ch : List Frame) : Scope → Res
  | .mk n e f uses decls slots kids =>
    let ch' := frameOf env (.mk n e f uses decls slots kids) :: ch
    specPhase .early ch' slots ++ (specKids env ch' true kids ++ (specKids env ch' false kids ++
      specPhase .late ch' slots))
def specKids (env : ModEnv) (ch : List Frame) (wantFunc : Bool) : Kids → Res
  | .nil => []
  | .cons (.mk n e f us ds ss ks) rest =>
    if f = wantFunc then specScope env ch (.mk n e f us ds ss ks) ++ specKids env ch wantFunc rest
    else specKids env ch wantFunc rest
end

/-- a module exports what is visible at its top level (all abstract modules are PUBLIC) -/
def specProject : ModEnv → List (Bool × Scope) → Res
  | _, [] => []
  | env, (isMod, s) :: us =>
    specScope env [] s ++
      specProject (if isMod then
        (lower (scopeName s), (let f := frameOf env s; ⟨f.p, f.a, f.t⟩)) :: env else env) us

end Ford.Scope
