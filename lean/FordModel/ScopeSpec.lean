/-
  C07 - specification of name resolution, written from Fortran's scoping rules
  (not from FORD's mechanism): every scope has a FRAME = the names it declares
  or use-associates; a reference in a scope denotes the entity of the innermost
  enclosing frame that has the name; frames of sibling and nested scopes are
  never consulted; no frame has the name => the reference stays text.
  (A local declaration and a use-associated entity of the same name in one
  scope is a clash - not Fortran; see `NoClash` in the harness oracle.)
-/
import FordModel.Scope
namespace Ford.Scope
open Ford

/-! ### use association (one USE statement, one class of names) -/

/-- the items of a USE statement with both names lower-cased: (local name, name in the module) -/
def useItems (u : Use) : List (Str × Str) := u.items.map fun lr => (lower lr.1, lower lr.2)

/-- Fortran's rule (F2018 14.2.2): what the name `n` denotes in a scope by virtue of the USE
    statement `u` of a module whose public entities are `pub`:
    * `n` is a local name on the statement (`n => r`, or `r` itself in an ONLY list): the
      module's entity `r`;
    * otherwise with ONLY: nothing;
    * otherwise without ONLY: nothing if `n` is the module's name of a renamed entity (that
      entity is accessible by its local name only), else the module's entity `n`. -/
def useDenotes (pub : Table) (u : Use) (n : Str) : Option Ent :=
  match (useItems u).find? (fun lr => decide (lr.1 = n)) with
  | some lr => tget pub lr.2
  | none =>
    if u.only then none
    else if (useItems u).any (fun lr => decide (lr.2 = n)) then none
    else tget pub n

/-- the statement is one the rule above gives a unique answer for: no entity of the module is
    given two local names, no local name is given to two entities, and (without ONLY) no local
    name of a rename is also the name of another accessible public entity of the module -/
def useOK (pub : Table) (u : Use) : Bool :=
  decide ((useItems u).map (·.2)).Nodup && decide ((useItems u).map (·.1)).Nodup &&
    (u.only || (useItems u).all fun lr =>
      (tget pub lr.1).isNone || (useItems u).any fun lr' => decide (lr'.2 = lr.1))

structure Frame where
  p : Table
  a : Table
  t : Table
  deriving Repr

/-- names a scope declares (nested procedures, interfaces, abstract interfaces,
    derived types) or use-associates -/
def frameOf (env : ModEnv) : Scope → Frame
  | .mk _ _ _ uses decls _ kids =>
    let tb := applyUses env uses ⟨localProcs decls kids, declsOf .ab decls, declsOf .ty decls⟩
    ⟨tb.p, tb.a, tb.t⟩

/-- innermost frame (head of the chain) that has the name -/
def chainGet (sel : Frame → Table) : List Frame → Str → Option Ent
  | [], _ => none
  | f :: r, n => match tget (sel f) n with
    | some e => some e
    | none => chainGet sel r n

/-- procedure prototypes: procedures and abstract interfaces are one class of
    names - innermost frame that has the name as either -/
def chainGetPA : List Frame → Str → Option Ent
  | [], _ => none
  | f :: r, n => match tget f.p n with
    | some e => some e
    | none => match tget f.a n with
      | some e => some e
      | none => chainGetPA r n

def specLookup (ch : List Frame) (s : Slot) : Option Ent :=
  match s.kind with
  | .ty => chainGet (·.t) ch (lower s.name)
  | .pr => chainGet (·.p) ch (lower s.name)
  | .pa => chainGetPA ch (lower s.name)
  -- the name of a deferred binding is a binding name (local to the type); it has no
  -- implementation in that type and denotes no procedure, whatever is visible under the name
  | .bn => none

def specPhase (ph : Phase) (ch : List Frame) : List Slot → Res
  | [] => []
  | s :: ss => if s.phase = ph then (s, specLookup ch s) :: specPhase ph ch ss else specPhase ph ch ss

mutual
/-- expected content of every slot of a scope and its nested scopes; `ch` are
    the frames of the enclosing scopes, innermost first -/
def specScope (env : ModEnv) (ch : List Frame) : Scope → Res
  | .mk n e f uses decls slots kids =>
    let ch' := frameOf env (.mk n e f uses decls slots kids) :: ch
    specPhase .early ch' slots ++ (specKids env ch' true kids ++ (specKids env ch' false kids ++
      specPhase .late ch' slots))
def specKids (env : ModEnv) (ch : List Frame) (wantFunc : Bool) : Kids → Res
  | .nil => []
  | .cons (.mk n e f us ds ss ks) rest =>
    if f = wantFunc then specScope env ch (.mk n e f us ds ss ks) ++ specKids env ch wantFunc rest
    else specKids env ch wantFunc rest
end

/-- a module exports what is visible at its top level (all abstract modules are PUBLIC) -/
def specProject : ModEnv → List (Bool × Scope) → Res
  | _, [] => []
  | env, (isMod, s) :: us =>
    specScope env [] s ++
      specProject (if isMod then
        (lower (scopeName s), (let f := frameOf env s; ⟨f.p, f.a, f.t⟩)) :: env else env) us

end Ford.Scope
