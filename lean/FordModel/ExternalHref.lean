/-
  C16, round 6 - the `href` of a textual `[[...]]` reference that resolved to an *imported* entity
  (ford/_markdown.py): `MetaMarkdown.convert` (the page directory a reference is made relative to),
  the tail of `FordLinkProcessor.convert_link` (`get_url()` = `external_url`, `startswith("http")`,
  `base_url / url`, `os.path.relpath`) and `RelativeLinksTreeProcessor._fix_attrib` (every `href` of the
  converted text is looked at once more: resolved against the working directory, re-made relative when it
  lies below the output directory).  Paths are lists of segments below the root (FordModel/Path.lean:
  `norm` = normpath, `relpathPy` = os.path.relpath, `resolve` = following a relative reference from a page
  directory); no symbolic links (the harness's directories have none).
-/
import FordModel.Path
import FordModel.External
namespace Ford.Ext
open Ford Ford.Path

/-- the placeholder directory (`non-existent dir`), probed from `MetaMarkdown.convert` -/
def kNonExistent : Seg := Gen.siblingDir
def kHttp : Str := ['h', 't', 't', 'p']

/-- `self.current_path` of `MetaMarkdown.convert(source, context)` without a `path`:
    `base_url / Path(url).parent.parent / "non-existent dir"` for the context's `get_url()` -/
def currentPath (base ctxUrl : List Seg) : List Seg := base ++ ctxUrl.dropLast.dropLast ++ [kNonExistent]

/-- segments of a `pathlib` path given as text: empty and `.` segments dropped, `..` kept -/
def pathSegs (s : Str) : List Seg := (Path.splitSlash s).filter (fun x => !x.isEmpty && x != cur)

/-- what `convert_link` writes into `href` for an item whose `get_url()` prints as `itemUrl`:
    the URL itself when it starts with `http`, else `relpath(base_url / url, current_path)` (an absolute
    `url` - an entity imported from a local path - wins the join) -/
def linkTarget (base : List Seg) (itemUrl : Str) : List Seg :=
  if isAbs itemUrl then pathSegs itemUrl else base ++ pathSegs itemUrl

/-- the relative reference, as segments -/
def linkRel (base cur : List Seg) (itemUrl : Str) : List Seg := relpathPy (linkTarget base itemUrl) cur

def linkHref (base cur : List Seg) (itemUrl : Str) : Str :=
  if startsWith itemUrl kHttp then itemUrl else Path.render (linkRel base cur itemUrl)

def properPrefix (a b : List Seg) : Bool := a.isPrefixOf b && a.length < b.length

/-- `RelativeLinksTreeProcessor._fix_attrib`: `Path(href).resolve()` is taken against the working directory;
    when the output directory is among its parents the `href` is replaced by the path relative to the page
    directory.  Whether a *relative* `href` is read that way at all is probed (`Gen.treeProcessorReadsRelative`). -/
def fixHref (base cwd cur : List Seg) (href : Str) : Str :=
  if !Gen.treeProcessorReadsRelative && !isAbs href then href else
  let tag := if isAbs href then norm (pathSegs href) else norm (cwd ++ pathSegs href)
  if properPrefix base tag then Path.render (relpathPy tag cur) else href

/-- the `href` that ends up in the converted text -/
def pageHref (base cwd cur : List Seg) (itemUrl : Str) : Str := fixHref base cwd cur (linkHref base cur itemUrl)

/-- where the page being converted is, as `convert` is told: the context's URL (no `path`), an explicit
    `path`, or neither (`current_path = None`: `relpath` falls back on the working directory and the tree
    processor does nothing) -/
inductive PageOf where
  | context (url : List Seg)
  | path (p : List Seg)
  | unknown

def hrefOf (base cwd : List Seg) (pg : PageOf) (itemUrl : Str) : Str :=
  match pg with
  | .context u => pageHref base cwd (currentPath base u) itemUrl
  | .path p => pageHref base cwd p itemUrl
  | .unknown => linkHref base cwd itemUrl

end Ford.Ext
