/-
  Line protocol helpers for the driver: one request per line, fields separated
  by TAB; inside a field `\\`, `\t`, `\n`, `\r` are backslash-escaped.
-/
import FordModel.Basic.Chars
namespace Ford.Proto

def escape : Str → Str
  | [] => []
  | c :: cs =>
    if c == '\\' then '\\' :: '\\' :: escape cs
    else if c == '\t' then '\\' :: 't' :: escape cs
    else if c == '\n' then '\\' :: 'n' :: escape cs
    else if c == '\r' then '\\' :: 'r' :: escape cs
    else c :: escape cs

def unescape : Str → Str
  | [] => []
  | [c] => [c]
  | c :: d :: cs =>
    if c == '\\' then
      (if d == 't' then '\t' else if d == 'n' then '\n' else if d == 'r' then '\r' else d) :: unescape cs
    else c :: unescape (d :: cs)

def splitTabs (s : Str) : List Str :=
  let rec go : Str → Str → List Str
    | [], cur => [cur.reverse]
    | c :: cs, cur => if c == '\t' then cur.reverse :: go cs [] else go cs (c :: cur)
  go s []

def fields (line : String) : List Str :=
  (splitTabs line.toList).map unescape

def out (fs : List Str) : String :=
  String.ofList (joinSep '\t' (fs.map escape))

def natOf (s : Str) : Nat := (String.ofList s).toNat?.getD 0

def showNat (n : Nat) : Str := (toString n).toList

end Ford.Proto
