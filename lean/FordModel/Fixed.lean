/-
  Model of ford/fixed2free2.py: `FortranLine.__analyse`, `__convert`,
  `continueLine` and `convertToFree` (the `linestack` hold-back), as the code is.

  A physical line is a `Str` that normally ends in '\n' (the Python iterates a
  text stream, so every line but possibly the last carries its newline and
  `len(line)` counts it).  Not modelled: non-ASCII `str.lower`/`str.isspace`
  (the harness generates ASCII only; Python also treats \x1c-\x1f as blanks).
-/
import FordModel.Basic.Chars
namespace Ford.Fixed
open Ford

/-- `s.ljust(n)` -/
def ljust (n : Nat) (s : Str) : Str := s ++ List.replicate (n - s.length) ' '

/-- `firstchar in "cC*!"`; for the empty line `firstchar == ""` and `"" in "cC*!"` holds. -/
def commentHead : Option Char → Bool
  | none => true
  | some c => c == 'c' || c == 'C' || c == '*' || c == '!'

/-- Which of the three edits of the candidate repair the code under test has
    (all `false` = the code as it is). -/
structure Variant where
  /-- `isShort = len(line) <= 6 or not line.strip()`: a line of blanks only is a
      (held-back) comment line whatever its length -/
  blankShort : Bool := false
  /-- `isNewComment` also when columns 1-6 are blank and the first non-blank
      character from column 7 on is `!` -/
  col7Comment : Bool := false
  /-- `excess_line = "! " + line[72:]` instead of `"!" + line[72:]` -/
  spacedExcess : Bool := false
  deriving Repr, DecidableEq

/-- the code as it is -/
def Variant.asIs : Variant := {}
/-- the code with `fixes/C14-comment-lines-and-overflow-mark.diff` applied -/
def Variant.repaired : Variant := { blankShort := true, col7Comment := true, spacedExcess := true }

/-- `self.isShort` -/
def isShortLine (v : Variant) (line : Str) : Bool :=
  decide (line.length ≤ 6) || (v.blankShort && isBlank line)

/-- `"!" in fivechars`, or (repaired) `not line[:6].strip() and line[6:].lstrip()[:1] == "!"` -/
def bangLine (v : Variant) (line : Str) : Bool :=
  ((line.drop 1).take 4).contains '!' ||
    (v.col7Comment && isBlank (line.take 6) && (lstrip (line.drop 6)).head? == some '!')

/-- what is put in front of the text beyond column 72 -/
def excessMark (v : Variant) : Str := if v.spacedExcess then ['!', ' '] else ['!']

/-- One analysed fixed-form line (the attributes of `FortranLine` that
    `convertToFree` and `continueLine` look at afterwards). -/
structure FLine where
  conv : Str            -- `line_conv`
  regular : Bool        -- `is_regular`
  cont : Bool           -- `isContinuation`
  long : Bool           -- `isLong and is_regular`
  excess : Str          -- `excess_line`
  deriving Repr, DecidableEq

/-- the label text that `__convert` puts in front of the code: `label` when it
    is not all blanks (and not reset by the `$omp` branch), else nothing -/
def labelText (line : Str) (omp : Bool) : Str :=
  if line.length > 1 && !omp then
    let x := lower (strip (line.take 5))
    if x.isEmpty then [] else x ++ [' ']
  else []

/-- `FortranLine(line, length_limit)`: `__analyse` followed by `__convert`. -/
def analyse (v : Variant) (lim : Bool) (line : Str) : FLine :=
  let n := line.length
  let five := (line.drop 1).take 4                  -- line[1:5]
  let isShort := isShortLine v line
  let isLong := decide (n > 73) && lim
  let isComment0 := commentHead line.head?
  let isNewComment := bangLine v line && !isComment0
  let isOMP := isComment0 && lower five == ['$', 'o', 'm', 'p']
  let isComment := isComment0 && !isOMP
  let isCpp := line.head? == some '#'
  let regular := !(isComment || isNewComment || isCpp || isShort)
  let cont := match line.drop 5 with
    | c :: _ => regular && !(isSpace c || c == '0')
    | [] => false
  let long := isLong && regular
  let excess := if long then excessMark v ++ line.drop 72 else []
  let line' := if long then line.take 72 ++ ['\n'] else line
  let code := if line'.length > 6 then line'.drop 6 else ['\n']
  let conv0 :=
    if isComment then '!' :: line'.drop 1
    else if isNewComment || isCpp then line'
    else if isOMP then '!' :: (line'.drop 1).take 4 ++ ' ' :: code
    else labelText line false ++ code
  let conv := if long then ljust 72 (rstrip conv0) ++ excess else conv0
  { conv := conv, regular := regular, cont := cont, long := long, excess := excess }

/-- `FortranLine.continueLine` -/
def continueLine (f : FLine) : FLine :=
  if !f.long then { f with conv := rstrip f.conv ++ [' ', '&', '\n'] }
  else { f with conv := ljust 72 (rstrip (f.conv.take 72) ++ [' ', '&']) ++ f.excess }

/-- `linestack[0].continueLine()` when the stack is not empty -/
def contHead : List FLine → List FLine
  | [] => []
  | h :: t => continueLine h :: t

/-- The `for line in stream` loop of `convertToFree` with `linestack` as an
    explicit argument; what is yielded, in order. -/
def convGo (v : Variant) (lim : Bool) : List FLine → List Str → List Str
  | stack, [] => stack.map (·.conv)
  | stack, l :: ls =>
    let f := analyse v lim l
    if f.regular then
      (if f.cont then contHead stack else stack).map (·.conv) ++ convGo v lim [f] ls
    else convGo v lim (stack ++ [f]) ls

/-- `list(convertToFree(lines, length_limit))` -/
def convertToFree (v : Variant) (lim : Bool) (lines : List Str) : List Str := convGo v lim [] lines

/-- the line as `FortranReader` sees it apart from the line terminator -/
def dropNL (l : Str) : Str :=
  if l.getLast? == some '\n' then l.dropLast else l

end Ford.Fixed
