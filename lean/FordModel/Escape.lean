/-
  C18 - HTML side of the model.

  * `escape`      : MarkupSafe's `escape` (Jinja's `|e` filter): the five characters
                    `& < > ' "` become `&amp; &lt; &gt; &#39; &#34;`.
  * `decode`      : character-reference decoding of text (the five references above).
  * `hstep`/`hrun`: a character-at-a-time HTML tokenizer (the fragment of the HTML5
                    tokenizer that FORD's pages exercise): text, `<` + letter opens a start
                    tag, `</` + letter an end tag, attribute values in single or double
                    quotes, `>` closes the tag.  A `<` that is not followed by a letter or
                    `/` is text.
  * `textContent` : what a reader sees; `elements`: the tag skeleton of a fragment.
  * `Site`/`renderSite`: one `{{ expr | filters }}` output expression of a template and what
                    it writes for a value.

  Import-free (compiled into the driver).
-/
import FordModel.Basic.Chars
namespace Ford.Html

/-! ## escape (markupsafe.escape) -/

def escapeChar (c : Char) : Str :=
  if c == '&' then ['&', 'a', 'm', 'p', ';']
  else if c == '<' then ['&', 'l', 't', ';']
  else if c == '>' then ['&', 'g', 't', ';']
  else if c == '\'' then ['&', '#', '3', '9', ';']
  else if c == '"' then ['&', '#', '3', '4', ';']
  else [c]

def escape : Str → Str
  | [] => []
  | c :: cs => escapeChar c ++ escape cs

/-- the characters whose presence in a cell can change the structure of the page -/
def htmlSpecial (c : Char) : Bool := c == '<' || c == '>' || c == '"' || c == '\''

/-! ## character references -/

def decode : Str → Str
  | [] => []
  | '&' :: 'a' :: 'm' :: 'p' :: ';' :: r => '&' :: decode r
  | '&' :: 'l' :: 't' :: ';' :: r => '<' :: decode r
  | '&' :: 'g' :: 't' :: ';' :: r => '>' :: decode r
  | '&' :: '#' :: '3' :: '9' :: ';' :: r => '\'' :: decode r
  | '&' :: '#' :: '3' :: '4' :: ';' :: r => '"' :: decode r
  | c :: r => c :: decode r

/-! ## tokenizer -/

inductive HSt where
  | text
  | lt                                  -- saw `<`
  | ltSlash                             -- saw `</`
  | name (closing : Bool) (acc : Str)   -- inside a tag name (acc reversed)
  | rest                                -- inside a tag, after the name
  | dq                                  -- inside a double-quoted attribute value
  | sq                                  -- inside a single-quoted attribute value
  deriving DecidableEq, Repr

inductive Ev where
  | ch (c : Char)
  | tag (closing : Bool) (name : Str)
  deriving DecidableEq, Repr

/-- the states in which inserted text cannot be mistaken for a tag name -/
def HSt.stable : HSt → Bool
  | .text | .rest | .dq | .sq => true
  | _ => false

def textStep (c : Char) : HSt × List Ev :=
  if c == '<' then (.lt, []) else (.text, [.ch c])

def hstep : HSt → Char → HSt × List Ev
  | .text, c => textStep c
  | .lt, c =>
    if isAlpha c then (.name false [c], [])
    else if c == '/' then (.ltSlash, [])
    else ((textStep c).1, .ch '<' :: (textStep c).2)
  | .ltSlash, c =>
    if isAlpha c then (.name true [c], [])
    else ((textStep c).1, .ch '<' :: .ch '/' :: (textStep c).2)
  | .name cl acc, c =>
    if c == '>' then (.text, [.tag cl (lower acc.reverse)])
    else if isSpace c || c == '/' then (.rest, [.tag cl (lower acc.reverse)])
    else (.name cl (c :: acc), [])
  | .rest, c =>
    if c == '>' then (.text, [])
    else if c == '"' then (.dq, [])
    else if c == '\'' then (.sq, [])
    else (.rest, [])
  | .dq, c => if c == '"' then (.rest, []) else (.dq, [])
  | .sq, c => if c == '\'' then (.rest, []) else (.sq, [])

/-- run the tokenizer from a state; returns the final state and the events -/
def hrun : HSt → Str → HSt × List Ev
  | st, [] => (st, [])
  | st, c :: cs =>
    let r := hrun (hstep st c).1 cs
    (r.1, (hstep st c).2 ++ r.2)

/-- pending text at end of input -/
def hflush : HSt → List Ev
  | .lt => [.ch '<']
  | .ltSlash => [.ch '<', .ch '/']
  | _ => []

def hscanFrom (st : HSt) (s : Str) : List Ev := (hrun st s).2 ++ hflush (hrun st s).1
def hscan (s : Str) : List Ev := hscanFrom .text s

def evChars : List Ev → Str
  | [] => []
  | .ch c :: r => c :: evChars r
  | .tag _ _ :: r => evChars r

def evTags : List Ev → List (Bool × Str)
  | [] => []
  | .ch _ :: r => evTags r
  | .tag cl n :: r => (cl, n) :: evTags r

/-- raw character data of a fragment (tags removed, references not yet decoded) -/
def rawText (s : Str) : Str := evChars (hscan s)
/-- what a reader sees -/
def textContent (s : Str) : Str := decode (rawText s)
/-- the element skeleton: start and end tags in document order -/
def elements (s : Str) : List (Bool × Str) := evTags (hscan s)
def elementsFrom (st : HSt) (s : Str) : List (Bool × Str) := evTags (hscanFrom st s)
def stateAfter (s : Str) : HSt := (hrun .text s).1

/-! ## template output expressions -/

/-- One `{{ expr | f1 | f2 … }}` of a template: the macro (or block) it stands in, the
    expression with attribute access spelled `a.b`, the last attribute read, its filter chain. -/
structure Site where
  tmpl : String
  scope : String
  line : Nat
  expr : String
  attr : String
  filters : List String
  deriving DecidableEq, Repr

def Site.escaped (s : Site) : Bool := s.filters.contains "e" || s.filters.contains "escape"

/-- what the site writes into the page for the string value `v` (filters that do not
    change plain text, such as `relurl`, are the identity on text without links) -/
def renderSite (s : Site) (v : Str) : Str := if s.escaped then escape v else v

/-- Jinja's `join(sep)` followed by output -/
def renderJoin (s : Site) (sep : Str) (vs : List Str) : Str :=
  if s.escaped then escape (joinStr sep vs) else joinStr sep vs

/-- attributes whose value is a plain piece of source text -/
def rawSourceAttr (s : Site) : Bool :=
  ["initial", "dimension", "attribs", "kind", "strlen", "bindC", "proto[1]"].contains s.attr

/-- the output expressions that write source text unescaped today (finding
    C18-unescaped-source-text); a repaired template only shrinks this set -/
def knownUnescaped : List (String × String) :=
  [("variable_list", "var.attribs"), ("variable_list", "var.dimension"),
   ("proc_line", "proc.attribs"), ("proc_line", "proc.bindC"),
   ("type_summary", "dtype.attribs"), ("type_summary", "proc.attribs"),
   ("type_summary", "proc.bindC"), ("enum_entry", "var.initial"),
   ("block:body", "var.kind"), ("block:body", "var.strlen"), ("block:body", "var.proto[1]"),
   ("block:body", "var.dimension"), ("block:body", "dtype.attribs")]

end Ford.Html
