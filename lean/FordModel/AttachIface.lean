/-
  Interface blocks with procedure bodies (`FortranInterface._cleanup`,
  `FortranModuleProcedureInterface.__init__` in ford/sourceform.py), on top of `Attach.lean`.

  * An `interface` block without a generic name, and every `abstract interface` block, does not
    show up as an entity of its own: at its END, `_cleanup` creates one wrapper entity
    (`FortranModuleProcedureInterface`) per procedure declared directly in the block — functions
    first, then subroutines, each group in source order — which is what the enclosing scope
    lists in `interfaces` / `absinterfaces`.  The wrapper is named like its procedure, is
    registered for conversion when it is created (so after everything declared inside the block) and
    is constructed with **the block's `doc_list` object**: the block's comment documents each of them.
  * Every wrapper runs `read_metadata` on that shared list again; `meta_preprocessor` works in
    place, so the lists of the block and of all its wrappers are one object whose final content
    is what the last `read_metadata` left.
  * The `FortranInterface` object of an `abstract interface` removes itself from the registration
    list (`_initialize`); the one of a plain `interface` block stays registered.

  The pass below runs next to `attachStep` (it never changes what `attachStep` computes, see
  `wFrom_a`) and records for each such block: the index of its entity, its procedures and where
  it ended.  `entDocsW` then inserts the wrappers into `entDocs`' answer.
-/
import FordModel.Attach
namespace Ford

structure IfRec where
  idx : Nat                 -- index (in `ents`) of the block's own entity
  abstr : Bool
  funs : List Str := []     -- functions declared directly in the block, in source order
  subs : List Str := []     -- subroutines
  stop : Option Nat := none -- `ents.length` when the block ended
  deriving Repr, DecidableEq

/-- the statement opens a block that gets wrappers: `some false` for `interface` without a name,
    `some true` for `abstract interface` -/
def ifaceOpen (line : Str) : Option Bool :=
  let l := lower line
  let (w, r) := firstWord l
  if w == "abstract".toList then
    if (firstWord (lstrip r)).1 == "interface".toList then some true else none
  else if w == "interface".toList then
    if (firstWord (lstrip r)).1.isEmpty then some false else none
  else none

def procKindCore (w r : Str) : Option Bool :=
  if w == "subroutine".toList then some false
  else if w == "function".toList then some true
  else if typeKeywords.contains w && (firstWord (lstrip r)).1 == "function".toList then some true
  else none

/-- `some true` = the statement opens a function, `some false` = a subroutine (same reading of the
    statement as `classify`: up to two prefix words) -/
def procKind (line : Str) : Option Bool :=
  let l := lower line
  let (w, r) := firstWord l
  if prefixKeywords.contains w then
    let (w1, r1) := firstWord (lstrip r)
    if prefixKeywords.contains w1 then
      let (w2, r2) := firstWord (lstrip r1)
      procKindCore w2 r2
    else procKindCore w1 r1
  else procKindCore w r

def modifyRec (f : IfRec → IfRec) : Nat → List IfRec → List IfRec
  | _, [] => []
  | 0, r :: rs => f r :: rs
  | i + 1, r :: rs => r :: modifyRec f i rs

structure WSt where
  a : ASt
  kstack : List (Option Nat) := []   -- parallel to `a.stack`: `some k` = the container is block number `k`
  recs : List IfRec := []
  deriving Repr

/-- one reader item: `attachStep`, plus the bookkeeping of interface blocks -/
def wStep (mark : Str) (w : WSt) (it : Str) : WSt :=
  let a' := attachStep mark w.a it
  if (w.a.reading > 0 && startsWith it ('!' :: mark)) || it.take 2 == '!' :: mark then { w with a := a' }
  else
    match classify it with
    | .openE n =>
      let recs1 :=
        match w.kstack.head?, procKind it with
        | some (some k), some true => modifyRec (fun r => { r with funs := r.funs ++ [n] }) k w.recs
        | some (some k), some false => modifyRec (fun r => { r with subs := r.subs ++ [n] }) k w.recs
        | _, _ => w.recs
      match ifaceOpen it with
      | some ab => { a := a', kstack := some recs1.length :: w.kstack,
                     recs := recs1 ++ [{ idx := w.a.ents.length, abstr := ab }] }
      | none => { a := a', kstack := none :: w.kstack, recs := recs1 }
    | .close =>
      match w.kstack with
      | some k :: rest =>
        { a := a', kstack := rest, recs := modifyRec (fun r => { r with stop := some a'.ents.length }) k w.recs }
      | _ => { a := a', kstack := w.kstack.drop 1, recs := w.recs }
    | _ => { w with a := a' }

def wFrom (mark : Str) : WSt → List Str → WSt
  | w, [] => w
  | w, it :: rest => wFrom mark (wStep mark w it) rest

/-- the wrappers of one block, created one after the other on the shared list `L`:
    (name, metadata) of each, and the final content of the list.  `wfix = false`: as the code
    is, each wrapper runs `read_metadata` on the shared list (what the block's own
    `read_metadata` left), so the metadata of the block's comment (`bm`) does not reach the
    wrappers and the remaining text is searched for metadata again — finding
    C03-interface-block-metadata-not-applied; `wfix = true`: with
    fixes/C03-interface-block-metadata.diff each wrapper takes a copy of the block's metadata
    and the list is left alone. -/
def wrapFold (wfix tb : Bool) (fields : List Str) (bm : MetaDict) : List Str → List Str → List (Str × MetaDict) × List Str
  | [], L => ([], L)
  | n :: ns, L =>
    if wfix then
      let rest := wrapFold wfix tb fields bm ns L
      ((n, bm) :: rest.1, rest.2)
    else
      let r := readMetadata tb fields L
      let rest := wrapFold wfix tb fields bm ns r.2
      ((n, r.1) :: rest.1, rest.2)

abbrev EntDoc := Str × MetaDict × List Str

/-- the wrapper entities of one block: each with its own metadata and the shared list -/
def wrappersOf (wfix tb : Bool) (fields : List Str) (base : List EntDoc) (r : IfRec) : List EntDoc :=
  match base[r.idx]? with
  | none => []
  | some b =>
    let f := wrapFold wfix tb fields b.2.1 (r.funs ++ r.subs) b.2.2
    f.1.map (fun nm => (nm.1, nm.2, f.2))

/-- `entDocs` with the wrappers inserted where they are registered (when their block ends), the
    shared doc list written back to the block's own entity, and the entities of
    `abstract interface` blocks dropped -/
def insertWrappers (wfix tb : Bool) (fields : List Str) (recs : List IfRec) (base : List EntDoc) :
    Nat → List EntDoc → List EntDoc
  | _, [] => []
  | i, x :: xs =>
    let own :=
      match recs.find? (fun r => r.idx == i) with
      | some r =>
        if r.abstr then [] else [(x.1, x.2.1, (wrapFold wfix tb fields x.2.1 (r.funs ++ r.subs) x.2.2).2)]
      | none => [x]
    own ++ (recs.filter (fun r => r.stop == some (i + 1))).flatMap (wrappersOf wfix tb fields base)
      ++ insertWrappers wfix tb fields recs base (i + 1) xs

/-- (name, metadata, final doc_list) of every registered entity of a file, in registration order -/
def attachW (mark : Str) (items : List Str) : WSt :=
  wFrom mark { a := { ents := [⟨fileName, true, [], []⟩] } } items

def entDocsW (wfix tb : Bool) (fields : List Str) (rep : Bool) (w : WSt) : List EntDoc :=
  let base := entDocs tb fields rep w.a.ents
  insertWrappers wfix tb fields w.recs base 0 base

end Ford
