/-
  Model of the string-literal masking of `FortranContainer.__init__`
  (ford/sourceform.py, "Temporarily replace all strings to make the parsing
  simpler") and of the loop that puts the literals back into an initial value
  (`line_to_variables`), character level.

  `QUOTES_RE = "([^"]|"")*"|'([^']|'')*'` is given a deterministic scanner that
  follows Python's backtracking order (`scanBody`); `re.search` is the leftmost
  such match (`search`).  Both loops are mirrored statement by statement:

      self.strings = []; search_from = 0
      while quote := QUOTES_RE.search(line[search_from:]):
          self.strings.append(quote.group())
          line = line[0:search_from] + QUOTES_RE.sub(f'"{len(self.strings) - 1}"', line[search_from:], count=1)
          search_from += QUOTES_RE.search(line[search_from:]).end(0)

      search_from = 0
      while quote := QUOTES_RE.search(initial[search_from:]):
          num = int(quote.group()[1:-1])
          string = NBSP_RE.sub("\xa0", parent.strings[num]); string = string.replace("\\", "\\\\")
          initial = initial[0:search_from] + QUOTES_RE.sub(string, initial[search_from:], count=1)
          search_from += QUOTES_RE.search(initial[search_from:]).end(0)

  The state of a loop is (`line[0:search_from]`, `line[search_from:]`).  The loops
  are not obviously terminating on ill-quoted text (a placeholder can be longer
  than the literal it replaces), so they carry a fuel (length of the text + 1)
  and answer `.fuel` when it runs out (never seen; counted by the harness).
  Import-free on purpose (compiled driver).
-/
import FordModel.Basic.Chars
namespace Ford.Mask

/-! ## QUOTES_RE -/

/-- After an opening quote `q`: `([^q]|qq)*q` with Python's backtracking (greedy star, alternatives in
    order; when the continuation after a doubled quote fails the first of the two closes the literal).
    Answer: number of characters consumed, closing quote included. -/
def scanBody (q : Char) : Str → Option Nat
  | [] => none
  | [c] => if c == q then some 1 else none
  | c :: d :: ds =>
    if c == q then
      if d == q then
        match scanBody q ds with
        | some n => some (n + 2)
        | none => some 1
      else some 1
    else
      match scanBody q (d :: ds) with
      | some n => some (n + 1)
      | none => none

/-- `QUOTES_RE.match`: length of the match that starts at the head of the text -/
def matchAt : Str → Option Nat
  | [] => none
  | c :: cs =>
    if c == '"' then
      match scanBody '"' cs with
      | some n => some (n + 1)
      | none => none
    else if c == '\'' then
      match scanBody '\'' cs with
      | some n => some (n + 1)
      | none => none
    else none

/-- `QUOTES_RE.search`: (start, length) of the leftmost match -/
def search : Str → Option (Nat × Nat)
  | [] => none
  | c :: cs =>
    match matchAt (c :: cs) with
    | some n => some (0, n)
    | none =>
      match search cs with
      | some (s, n) => some (s + 1, n)
      | none => none

/-! ## decimal numbers (`f"{n}"`, `int(text)`) -/

def digitChar : Nat → Char
  | 0 => '0' | 1 => '1' | 2 => '2' | 3 => '3' | 4 => '4' | 5 => '5' | 6 => '6' | 7 => '7' | 8 => '8' | _ => '9'

def digitVal (c : Char) : Nat := c.toNat - 48

def natDigitsAux : Nat → Nat → Str → Str
  | 0, _, acc => acc
  | f + 1, n, acc => if n < 10 then digitChar n :: acc else natDigitsAux f (n / 10) (digitChar (n % 10) :: acc)

/-- `str(n)` -/
def natDigits (n : Nat) : Str := natDigitsAux (n + 1) n []

def digitsVal (s : Str) : Nat := s.foldl (fun a c => a * 10 + digitVal c) 0

/-- the placeholder `f'"{k}"'` -/
def ph (k : Nat) : Str := '"' :: (natDigits k ++ ['"'])

inductive Err where
  | valueErr     -- ValueError: int() of something that is not a number
  | indexErr     -- IndexError: no such captured string
  | attrErr      -- AttributeError: the second `QUOTES_RE.search(...)` found nothing
  | fuel         -- the model's iteration bound ran out
  | unmodelled   -- int() of a text with sign / blanks / underscores / non-ASCII characters
  deriving DecidableEq, Repr

def isIntExtra (c : Char) : Bool :=
  c == '+' || c == '-' || c == '_' || isSpace c || c.toNat ≥ 128 || (28 ≤ c.toNat && c.toNat ≤ 31)

/-- Python `int(s)` for the texts the model covers: a non-empty run of ASCII digits is its value, a text
    with any other plain ASCII character is a ValueError; signs, blanks, underscores are not modelled -/
def pyInt (s : Str) : Except Err Nat :=
  if s.isEmpty then .error .valueErr
  else if s.all isDigit then .ok (digitsVal s)
  else if s.any (fun c => !isDigit c && !isIntExtra c) then .error .valueErr
  else .error .unmodelled

/-! ## the loops -/

/-- `rest[:s] + rep + rest[s+n:]` -/
def splice (rest : Str) (s n : Nat) (rep : Str) : Str := rest.take s ++ (rep ++ rest.drop (s + n))

/-- the masking loop; `pre = line[0:search_from]`, `rest = line[search_from:]` -/
def maskLoop : Nat → Str → Str → List Str → Except Err (Str × List Str)
  | 0, _, _, _ => .error .fuel
  | fuel + 1, pre, rest, strs =>
    match search rest with
    | none => .ok (pre ++ rest, strs)
    | some (s, n) =>
      let rest' := splice rest s n (ph strs.length)
      match search rest' with
      | none => .error .attrErr
      | some (s2, n2) =>
        maskLoop fuel (pre ++ rest'.take (s2 + n2)) (rest'.drop (s2 + n2)) (strs ++ [(rest.drop s).take n])

/-- masked line and `self.strings` -/
def mask (line : Str) : Except Err (Str × List Str) := maskLoop (line.length + 1) [] line []

def nbspChar : Char := Char.ofNat 160

/-- `NBSP_RE.sub("\xa0", s)` with `NBSP_RE = " (?= )|(?<= ) "`: every blank next to a blank -/
def nbspAux (prevSp : Bool) : Str → Str
  | [] => []
  | [c] => [if c == ' ' && prevSp then nbspChar else c]
  | c :: d :: ds =>
    (if c == ' ' && (prevSp || d == ' ') then nbspChar else c) :: nbspAux (c == ' ') (d :: ds)

def nbsp (s : Str) : Str := nbspAux false s

/-- the restoring loop with the string transformation `g` (`nbsp` in `line_to_variables`; the backslash
    doubling there cancels against the template processing of `re.sub`) -/
def restoreLoop (g : Str → Str) : Nat → Str → Str → List Str → Except Err Str
  | 0, _, _, _ => .error .fuel
  | fuel + 1, pre, rest, strs =>
    match search rest with
    | none => .ok (pre ++ rest)
    | some (s, n) =>
      match pyInt ((((rest.drop s).take n).drop 1).dropLast) with
      | .error e => .error e
      | .ok k =>
        match strs[k]? with
        | none => .error .indexErr
        | some str =>
          let rest' := splice rest s n (g str)
          match search rest' with
          | none => .error .attrErr
          | some (s2, n2) => restoreLoop g fuel (pre ++ rest'.take (s2 + n2)) (rest'.drop (s2 + n2)) strs

def restore (g : Str → Str) (text : Str) (strs : List Str) : Except Err Str :=
  restoreLoop g (text.length + 1) [] text strs

end Ford.Mask
