/-
  C09 — the URLs of graph nodes (`ford/graphs.py: BaseNode.__init__`, `ford/output.py: Documentation.__init__`).

  Every graph FORD draws (module use, type inheritance, call, file dependency graphs; as inline SVG, as a saved SVG
  file, or as the table that replaces a graph that is too large) gets the clickable area of a node from
  `attribs["URL"]`:

      self.url = obj.get_url()                      -- or the hyperlink found in the text of an external entity
      shown = getattr(obj, "visible", True)
      if isinstance(obj, FortranBoundProcedure): shown = shown and getattr(obj.parent, "visible", True)
      if self.url and shown:
          if self.fromstr or hasattr(obj, "external_url"): URL = self.url
          else:                                           URL = graph_data.parent_dir + self.url

  `parent_dir` is one fixed string for the whole run (`graphparent = "../"` when `settings.relative`), so the URL is
  right only on pages that lie exactly one directory below the root.  Which templates print a graph, and how deep the
  pages rendered through them lie, is regenerated (`Generated/C09.lean: graphTables`).

  Import-free (driver).
-/
import FordModel.Path
namespace Ford.GraphUrl
open Ford Ford.Path

/-- how many directories below the output root the pages rendered through a template lie -/
inductive Depth where
  | zero
  | one
  | other
  deriving Repr, DecidableEq

/-- what `BaseNode.__init__` looks at -/
structure Node where
  /-- the node is made from text (an external entity, a name that was not resolved) -/
  fromStr : Bool
  /-- `hasattr(obj, "external_url")` -/
  external : Bool
  /-- the hyperlink in the text / `obj.get_url()`, as path segments; `none`: no URL -/
  url : Option (List Seg)
  /-- `getattr(obj, "visible", True)` -/
  visible : Bool
  /-- `isinstance(obj, FortranBoundProcedure)` and `getattr(obj.parent, "visible", True)` -/
  bound : Bool
  parentVisible : Bool
  deriving Repr, DecidableEq

structure Tables where
  /-- `graphparent` of a relative run, as path segments (`"../"` = `[".."]`) -/
  parentDir : List Seg
  /-- the URL is given only to nodes of visible entities -/
  visibleGate : Bool
  /-- a binding also needs its type to be visible -/
  boundGate : Bool
  /-- a node made from text / of an external entity keeps its URL as it is -/
  keepsForeign : Bool
  /-- templates that print a graph (directly or through a macro they call), with the depth of their pages -/
  hosts : List (Str × Depth)
  deriving Repr, DecidableEq

def shown (T : Tables) (n : Node) : Bool :=
  (!T.visibleGate || n.visible) && (!T.boundGate || !n.bound || n.parentVisible)

/-- `attribs["URL"]` of the node (`none`: the node is not clickable) -/
def nodeUrl (T : Tables) (n : Node) : Option (List Seg) :=
  match n.url with
  | none => none
  | some u =>
    if u = [] then none
    else if shown T n then
      (if T.keepsForeign && (n.fromStr || n.external) then some u else some (T.parentDir ++ u))
    else none

/-- every template that prints a graph renders pages exactly one directory below the root, the prefix is one step
    up, and the gates are in place -/
def tablesOk (T : Tables) : Bool :=
  decide (T.parentDir = [up]) && T.visibleGate && T.boundGate && T.keepsForeign && T.hosts.all fun h => decide (h.2 = .one)

def depthStr : Depth → Str
  | .zero => "0".toList
  | .one => "1".toList
  | .other => "other".toList

end Ford.GraphUrl
