/-
  The configuration of the naming model that corresponds to the working tree:
  the literals are the generated constants (translate/c10.py).
-/
import FordModel.Names
import FordModel.Generated.C10
namespace Ford.Names

def cfg : Cfg :=
  { table := Ford.Generated.C10.symbolTable
    sep := Ford.Generated.C10.suffixSep
    unnamed := Ford.Generated.C10.unnamedStem }

end Ford.Names
