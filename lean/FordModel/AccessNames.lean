/-
  C04 - the *name keying* of FORD's permission mechanism as the code is: under which key an access statement
  files a name in `attr_dict`, and under which key `process_attribs` looks an entity up.

    declaration side   `line_to_variables`: the entity list is split at top-level commas (`paren_split`),
                       every entity-decl loses the characters of `declDropChars` (`re.sub(" ", "", dec)`),
                       is split at its first top-level `=`; `FortranVariable.__init__` cuts the name at the
                       first `(`, `[`, `*` (`cutChars`; a character found at index 0 does not count);
                       `process_attribs` looks up `var.name.lower()`.
    statement side     `FortranContainer.__init__` (ATTRIB_RE branch): `paren_split(",", names)`, every name
                       `.strip().lower()`.
    interface side     `FortranInterface._initialize`: the generic-spec is everything after `interface`,
                       looked up as `item.name.lower()`.

  `declDropChars` and `cutChars` are measured on the code under test by the translator (Generated/C04.lean).
  `RStmt` is a statement of a specification part with these three name lists *as written*; `keyed` turns it into
  the abstract `Stmt` of Access.lean whose names are the keys.  `normGeneric` is the candidate repair
  fixes/C04-generic-spec-spelling.diff (a key that contains `(` loses all its blanks on both sides).
-/
import FordModel.Access
import FordModel.Basic.Split
import FordModel.TypeSpec
namespace Ford.Access

/-- `re.sub(" ", "", dec)` of `line_to_variables` (the characters are measured: `declDropChars`) -/
def dropBlanks (d : Str) : Str := d.filter (fun c => !(declDropChars.contains c))

/-- `indexlist` of `FortranVariable.__init__`: for each cut character the index of its first occurrence,
    when that is positive -/
def cutCands (s : Str) : List Nat :=
  cutChars.filterMap (fun c => let i := s.idxOf c; if 0 < i ∧ i < s.length then some i else none)

/-- `min(indexlist)` (the whole name when the list is empty) -/
def cutIdx (s : Str) : Nat := (cutCands s).foldl min s.length

/-- `self.name = self.name[0:min(indexlist)]` -/
def cutName (s : Str) : Str := s.take (cutIdx s)

/-- the name `line_to_variables` + `FortranVariable.__init__` give one entity-decl -/
def declName (d : Str) : Str :=
  let dec := dropBlanks d
  match parenSplit '=' dec with
  | nm :: _ :: _ => cutName nm
  | _ => cutName (strip dec)

/-- the `attr_dict` keys under which the entities of one entity list are looked up, in order -/
def declKeys (raw : Str) : List Str := (parenSplit ',' raw).map (fun d => lower (declName d))

/-- candidate repair: a generic-spec is one identifier however its tokens are spaced -/
def normKey (g : Bool) (y : Str) : Str :=
  if g && y.contains '(' then y.filter (fun c => !isSpace c) else y

/-- key of one name of an attribute statement: `name.strip().lower()` -/
def nameKey (g : Bool) (x : Str) : Str := normKey g (lower (strip x))

/-- the keys an attribute statement files its names under, in order -/
def stmtKeys (g : Bool) (raw : Str) : List Str := (parenSplit ',' raw).map (nameKey g)

/-- key under which a generic interface is looked up: `item.name.lower()` -/
def ifaceKey (g : Bool) (raw : Str) : Str := normKey g (lower raw)

/-- a statement of a specification part with its name lists as they are written in the source -/
inductive RStmt
  /-- a statement whose names need no keying here (type, procedure, bare statement ...) -/
  | plain (s : Stmt)
  /-- attribute statement: the attribute and the text of its name list -/
  | accessR (a : Attr) (raw : Str)
  /-- type declaration statement: the text of its entity list and its attribute words -/
  | varR (raw : Str) (attrs : List Attr)
  /-- generic interface: the text of its generic-spec, its interface bodies and `module procedure` references -/
  | genericR (raw : Str) (procs refs : List Str)
  deriving DecidableEq, Repr

def keyed (g : Bool) : RStmt → Stmt
  | .plain s => s
  | .accessR a raw => .access a (stmtKeys g raw)
  | .varR raw attrs => .var (declKeys raw) attrs
  | .genericR raw ps rs => .iface .generic (ifaceKey g raw) ps rs

/-- a module / submodule from its statements as written -/
def runRaw (v : Variant) (g : Bool) (submodule : Bool) (rs : List RStmt) : Out :=
  runUnit v submodule (rs.map (keyed g))

/-! ### vocabulary of the theorem statements: how Fortran lets these names be spelled -/

/-- a Fortran name: letters, digits, underscores -/
def IsIdent (n : Str) : Prop := n ≠ [] ∧ ∀ c ∈ n, isWord c = true

instance (n : Str) : Decidable (IsIdent n) := by unfold IsIdent; infer_instance

def blanks (k : Nat) : Str := List.replicate k ' '

/-- levels of `paren_split` after a text in which no top-level separator occurs (`none`: it would split) -/
def scanLv (sep : Char) : Str → Int → Int → Option (Int × Int)
  | [], l, b => some (l, b)
  | c :: r, l, b =>
    if c == '(' then scanLv sep r (l + 1) b
    else if c == ')' then scanLv sep r (l - 1) b
    else if c == '[' then scanLv sep r l (b + 1)
    else if c == ']' then scanLv sep r l (b - 1)
    else if c == sep && l == 0 && b == 0 then none
    else scanLv sep r l b

/-- the text has balanced parentheses / brackets and no separator outside them -/
def Closed (sep : Char) (t : Str) : Prop := scanLv sep t 0 0 = some (0, 0)

instance (sep : Char) (t : Str) : Decidable (Closed sep t) := by unfold Closed; infer_instance

/-- One entity-decl (F2018 R803) as written: blanks, the object name in any letter case, blanks, and then
    nothing, or an array-spec `(`, a coarray-spec `[`, a char-length `*` or an initialisation `=` with
    whatever follows. -/
structure DeclSp where
  lead : Nat
  name : Str
  gap : Nat
  rest : Str
  deriving Repr

def DeclSp.text (d : DeclSp) : Str := blanks d.lead ++ d.name ++ blanks d.gap ++ d.rest

/-- literal Fortran syntax - nothing here refers to a generated table -/
def DeclSp.Ok (d : DeclSp) : Prop :=
  IsIdent d.name
  ∧ (d.rest = [] ∨ d.rest.head? = some '(' ∨ d.rest.head? = some '[' ∨ d.rest.head? = some '*'
      ∨ d.rest.head? = some '=')
  ∧ (∀ c ∈ d.rest, isSpace c = true → c = ' ')
  ∧ Closed ',' d.rest

instance (d : DeclSp) : Decidable d.Ok := by unfold DeclSp.Ok; infer_instance

/-- one name of an access statement as written: blanks, the name in any letter case, blanks -/
structure NameSp where
  lead : Nat
  name : Str
  trail : Nat
  deriving Repr

def NameSp.text (d : NameSp) : Str := blanks d.lead ++ d.name ++ blanks d.trail

/-- `r` is a spelling of the abstract statement `s` (names = lower-cased identifiers) -/
inductive Spells : RStmt → Stmt → Prop
  | plain (s : Stmt) : Spells (.plain s) s
  | var (ds : List DeclSp) (attrs : List Attr) (hne : ds ≠ []) (h : ∀ d ∈ ds, d.Ok) :
      Spells (.varR (joinSep ',' (ds.map DeclSp.text)) attrs) (.var (ds.map (fun d => lower d.name)) attrs)
  | access (a : Attr) (ns : List NameSp) (hne : ns ≠ []) (h : ∀ d ∈ ns, IsIdent d.name) :
      Spells (.accessR a (joinSep ',' (ns.map NameSp.text))) (.access a (ns.map (fun d => lower d.name)))
  | generic (n : Str) (ps rs : List Str) (h : IsIdent n) :
      Spells (.genericR n ps rs) (.iface .generic (lower n) ps rs)

/-- statement by statement -/
inductive SpellsAll : List RStmt → List Stmt → Prop
  | nil : SpellsAll [] []
  | cons {r s rs ss} (h : Spells r s) (t : SpellsAll rs ss) : SpellsAll (r :: rs) (s :: ss)

end Ford.Access
