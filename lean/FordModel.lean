import FordModel.Basic.Chars
import FordModel.Basic.Split
import FordModel.Proto
import FordModel.Reader
import FordModel.Dispatch
