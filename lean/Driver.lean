/-
  Line-protocol driver: executes the Lean models on inputs supplied by the
  Python harness.  `driver` reads requests on stdin, one per line, and prints
  one response line per request.
-/
import FordModel.Dispatch
open Ford

partial def loop (h : IO.FS.Stream) (out : IO.FS.Stream) : IO Unit := do
  let line ← h.getLine
  if line.isEmpty then return ()
  let line := if line.endsWith "\n" then (line.dropEnd 1).toString else line
  out.putStrLn (Ford.dispatch line)
  loop h out

def main : IO Unit := do
  let stdin ← IO.getStdin
  let stdout ← IO.getStdout
  loop stdin stdout
  stdout.flush
