#!/venv/bin/python
"""tools/screen_ties.py <dir: benign|seeded> <id> [<id> ...]

Cheap cross-property screening of a stored change: apply it to a FORD tree (EVAL_REPO, default /repo - must be
clean), regenerate EVERY property's tables from that tree and build EVERY Props module, then undo.  Reports, per
change, the properties whose translator raises or whose pinned theorems no longer check - i.e. the ties that the
change breaks anywhere, not only in the check of the property it was written for.  (No harness stream runs: this
sees proof/table ties only; the full check of a property sees the correspondence and the oracles too.)

For a behaviour-preserving change every entry is an alarm on code where the properties hold; for a seeded change it
shows which neighbouring properties would also report it.  Results go to <dir>/<id>/meta.json under `tie_screen`.
"""
import json
import os
import subprocess
import sys
from pathlib import Path

V = Path(__file__).resolve().parent.parent
REPO = os.environ.get("EVAL_REPO", "/repo")
ENV = dict(os.environ, FORD_VERIF_REPO=REPO)
kind, ids = sys.argv[1], sys.argv[2:]
props = ["C%02d" % i for i in range(1, 21)]


def sh(cmd, cwd, **kw):
    return subprocess.run(cmd, shell=True, cwd=cwd, capture_output=True, text=True, env=ENV, **kw)


if sh("git status --porcelain", REPO).stdout.strip():
    sys.exit(REPO + " is not clean")
for i in ids:
    d = V / kind / i
    meta = json.loads((d / "meta.json").read_text())
    r = sh(f"git apply {d}/patch.diff", REPO)
    if r.returncode != 0:
        print(i, "patch does not apply")
        continue
    broken = {}
    try:
        t = sh("/venv/bin/python tools/translate_all.py", V)
        for ln in t.stdout.splitlines():
            if "translator failed" in ln:
                broken["C" + ln.split()[0][1:]] = "translator: " + ln.split("translator failed:", 1)[1].strip()[:200]
        b = sh("lake build " + " ".join(f"FordModel.Props.{p}" for p in props), V / "lean", timeout=3600)
        if b.returncode != 0:
            for ln in (b.stdout + b.stderr).splitlines():
                if ln.startswith("error: FordModel/Props/"):
                    p = ln.split("/")[2].split(".")[0]
                    broken.setdefault(p, "proof: " + ln[:200])
                elif ln.startswith("- FordModel.Props."):
                    broken.setdefault(ln.split(".")[-1], "proof: build failed")
    finally:
        sh("git checkout -- . && git clean -fdq", REPO)
    meta["tie_screen"] = broken
    (d / "meta.json").write_text(json.dumps(meta, indent=1))
    print(i, "breaks ties of:", ", ".join(f"{k} ({v[:70]})" for k, v in sorted(broken.items())) or "none")
# leave the tables of the clean tree behind
sh("/venv/bin/python tools/translate_all.py", V)
