#!/usr/bin/env python3
"""tools/eval_seeds.py [seed-id ...] [--also C02,C01]

For every stored seeded change (seeded/<id>/patch.diff): apply it to /repo, run the
quick check of the property it breaks (and of any extra properties given with --also),
undo it, and record the outcome in seeded/<id>/meta.json under `check_results`:
  failing-input : exit 1, VIOLATION with a concrete failing input as replay
  tie-only      : exit 1, VIOLATION ... no-failing-input-found
  missed        : exit 0
  infra         : exit 2
/repo must be clean; it is restored with `git checkout -- .` after every seed.
"""
import json
import subprocess
import sys
from pathlib import Path

import os

V = Path(__file__).resolve().parent.parent
# EVAL_REPO: the FORD tree the patches are applied to and the checks run against (default /repo); with a
# scratch copy of /verif and a scratch worktree of /repo several evaluations can run side by side
REPO = os.environ.get("EVAL_REPO", "/repo")
ENV = dict(os.environ, FORD_VERIF_REPO=REPO)
args = [a for a in sys.argv[1:] if not a.startswith("--")]
also = []
for a in sys.argv[1:]:
    if a.startswith("--also"):
        also = a.split("=", 1)[1].split(",") if "=" in a else []
claimed = {c["property_id"] for c in json.loads((V / "MANIFEST.json").read_text())["checks"]}
# EVAL_DIR: "seeded" (property-breaking changes) or "benign" (behaviour-preserving changes, expected outcome: missed)
seeds = sorted(p.parent for p in (V / os.environ.get("EVAL_DIR", "seeded")).glob("*/patch.diff"))
if args:
    seeds = [s for s in seeds if s.name in args]
if subprocess.run("git status --porcelain", shell=True, cwd=REPO, capture_output=True, text=True).stdout.strip():
    sys.exit(REPO + " is not clean")
for s in seeds:
    meta = json.loads((s / "meta.json").read_text())
    prop = meta.get("breaks_property") or meta["property"]
    targets = [p for p in [prop] + also if p in claimed]
    if not targets:
        print(s.name, "property not claimed yet")
        continue
    r = subprocess.run(["git", "apply", str(s / "patch.diff")], cwd=REPO, capture_output=True, text=True)
    if r.returncode != 0:
        print(s.name, "patch does not apply to the current /repo:", r.stderr.strip()[:100])
        meta.setdefault("check_results", {})[prop] = {"outcome": "patch-does-not-apply"}
        (s / "meta.json").write_text(json.dumps(meta, indent=1))
        continue
    try:
        for t in targets:
            p = subprocess.run(["./check", t, "--tier", "quick"], cwd=V, capture_output=True, text=True, timeout=1800, env=ENV)
            line = next((l for l in p.stdout.splitlines() if l.startswith("VIOLATION")), "")
            outcome = {0: "missed", 2: "infra"}.get(p.returncode, "tie-only" if "no-failing-input-found" in line else "failing-input")
            meta.setdefault("check_results", {})[t] = {"outcome": outcome, "exit": p.returncode, "line": line.replace(str(V) + "/", "")}
            print(s.name, t, outcome)
    finally:
        subprocess.run("git checkout -- . && git clean -fdq", shell=True, cwd=REPO)
    (s / "meta.json").write_text(json.dumps(meta, indent=1))
