#!/bin/bash
# tools/confirm_round.sh Cxx [Cyy ...] : confirm seeds m3/m4 (or $MS) of the given properties in parallel
cd /verif
for p in "$@"; do (for m in ${MS:-m3 m4}; do /venv/bin/python tools/confirm_seed.py $p $m 2>&1 | tail -1 | sed "s/^/$p $m /"; done) & done
wait
