#!/bin/bash
# setup_cmd: regenerate the tables from /repo, build the driver and pre-build every claimed
# property module (a property module that does not build is reported by its own check).
cd "$(dirname "$0")/.."
/venv/bin/python tools/translate_all.py || true
cd lean || exit 1
lake build driver || exit 1
ids=$(python3 -c "import json;print(' '.join('FordModel.Props.'+c['property_id'] for c in json.load(open('../MANIFEST.json'))['checks']))")
lake build $ids || true
exit 0
