#!/usr/bin/env python3
"""Rewrite the generated block of DESIGN.md (between the STATUS markers) from the files
that are the source of truth: Props/*.lean (theorem names), known_findings/*.json,
seeded/*/meta.json, tools/manifest/*.json, evidence/*.json."""
import json
import re
from pathlib import Path

V = Path(__file__).resolve().parent.parent
props = [json.loads(l) for l in (V / "properties.jsonl").read_text().splitlines() if l.strip()]
THM = re.compile(r"^\s*theorem\s+([A-Za-z0-9_.']+)", re.M)


def fix_commit(e):
    m = re.search(r"fixed: property=\w+ ([0-9a-f]{7,})", e.get("what", ""))
    return e.get("commit") or (m.group(1) if m else "?")


def strip_comments(text):
    text = re.sub(r"/-.*?-/", "", text, flags=re.S)
    return re.sub(r"--.*", "", text)


out = []
out.append("| id | claimed | theorems (Props/Cxx.lean) | open findings | repaired by `fix:` commits | seeded changes caught |")
out.append("|---|---|---|---|---|---|")
seed_rows = []
for p in props:
    pid = p["id"]
    claimed = (V / "tools" / "manifest" / f"{pid}.json").exists()
    pf = V / "lean" / "FordModel" / "Props" / f"{pid}.lean"
    thms = THM.findall(strip_comments(pf.read_text())) if pf.exists() else []
    kf = V / "known_findings" / f"{pid}.json"
    openf, fixedf = [], []
    if kf.exists():
        for e in json.loads(kf.read_text()).get("findings", []):
            (fixedf if e.get("status") == "fixed" else openf).append(e)
    seeds = sorted((V / "seeded").glob(f"{pid}-*/meta.json"))
    caught = []
    for s in seeds:
        m = json.loads(s.read_text())
        res = m.get("check_results", {})
        own = res.get(pid, {})
        mark = {"failing-input": "caught", "tie-only": "tie", "missed": "MISSED", "neutralised": "neutralised", "infra": "infra"}.get(own.get("outcome"), "?")
        caught.append(f"{m['id'].split('-')[1]}:{mark}")
        seed_rows.append((m["id"], pid, m.get("needs_to_manifest", "").replace("\n", " ")[:150], res))
    out.append("| %s | %s | %d | %s | %s | %s |" % (
        pid, "yes" if claimed else "no", len(thms),
        ", ".join(e["id"].replace(pid + "-", "") for e in openf) or "-",
        ", ".join(f"{e['id'].replace(pid + '-', '')} ({fix_commit(e)})" for e in fixedf) or "-",
        " ".join(caught) or "-"))
out.append("")
out.append("Seeded changes (each written by a fresh sub-agent that saw only the property text and a scratch worktree; "
           "confirmed with tools/confirm_seed.py; evaluated with tools/eval_seeds.py = apply to /repo, run the quick check, undo):")
out.append("")
out.append("| seed | outcome of its property's check | also caught by | what it needs to manifest |")
out.append("|---|---|---|---|")
for sid, pid, needs, res in seed_rows:
    own = res.get(pid, {})
    others = [k for k, v in res.items() if k != pid and v.get("outcome") in ("failing-input", "tie-only")]
    out.append("| %s | %s | %s | %s |" % (sid, own.get("outcome", "not evaluated") + (" (" + own.get("line", "")[:60] + ")" if own.get("line") else ""),
                                       ", ".join(others) or "-", needs.replace("|", "/")))
# ---- inventory: what each property's theorems are built on (from the import closure of Props/Cxx.lean)
IMP = re.compile(r"^import\s+(FordModel[\w.]*)", re.M)


def closure(mod, seen):
    f = V / "lean" / (mod.replace(".", "/") + ".lean")
    if mod in seen or not f.exists():
        return
    seen.add(mod)
    for m in IMP.findall(f.read_text()):
        closure(m, seen)


def loc(mods):
    return sum(len((V / "lean" / (m.replace(".", "/") + ".lean")).read_text().splitlines()) for m in mods)


inv = ["| id | models (import closure of Props/Cxx.lean) | lemma files | regenerated tables | lines model / lemmas / props | harness + translator |",
       "|---|---|---|---|---|---|"]
for p in props:
    pid = p["id"]
    seen = set()
    closure(f"FordModel.Props.{pid}", seen)
    mods = sorted(seen)
    lem = [m for m in mods if ".Lemmas." in m]
    gen = [m for m in mods if ".Generated." in m]
    prp = [m for m in mods if ".Props." in m]
    mdl = [m for m in mods if m not in lem + gen + prp and not m.startswith("FordModel.Basic") and m != "FordModel.Proto"]
    hs = sorted(f.name for f in (V / "harness").glob(f"{pid.lower()}*.py")) + sorted("translate/" + f.name for f in (V / "translate").glob(f"{pid.lower()}*.py"))
    short = lambda ms: ", ".join(m.split(".")[-1] for m in ms) or "-"  # noqa
    inv.append("| %s | %s | %s | %s | %d / %d / %d | %s |" % (pid, short(mdl), short(lem), short(gen), loc(mdl), loc(lem), loc(prp), ", ".join(hs)))
invblock = "\n".join(inv)
block = "\n".join(out)
d = V / "DESIGN.md"
text = d.read_text()
a, b = "<!-- BEGIN GENERATED STATUS -->", "<!-- END GENERATED STATUS -->"
if a in text:
    text = text[: text.index(a) + len(a)] + "\n" + block + "\n" + text[text.index(b):]
    # ---- fix: commits of /repo with the findings they repaired
    import subprocess
    log = subprocess.run("git -C /repo log --reverse --format='%h\t%s'", shell=True, capture_output=True, text=True).stdout
    byhash = {}
    for pp in props:
        kf = V / "known_findings" / f"{pp['id']}.json"
        if kf.exists():
            for e in json.loads(kf.read_text()).get("findings", []):
                if e.get("status") == "fixed":
                    h = fix_commit(e)
                    byhash.setdefault(h[:7], []).append(e["id"])
    rows = ["| commit | repaired findings | subject |", "|---|---|---|"]
    nfix = 0
    for line in log.splitlines():
        h, subj = line.split("\t", 1)
        if subj.startswith("fix:"):
            nfix += 1
            rows.append("| %s | %s | %s |" % (h, ", ".join(byhash.get(h[:7], [])) or "-", subj[4:].strip().replace("|", "/")))
    fixblock = "\n".join(rows) + "\n\n%d `fix:` commits." % nfix
    fa, fb = "<!-- BEGIN GENERATED FIXES -->", "<!-- END GENERATED FIXES -->"
    if fa in text:
        text = text[: text.index(fa) + len(fa)] + "\n" + fixblock + "\n" + text[text.index(fb):]
    ia, ib = "<!-- BEGIN GENERATED INVENTORY -->", "<!-- END GENERATED INVENTORY -->"
    if ia in text:
        text = text[: text.index(ia) + len(ia)] + "\n" + invblock + "\n" + text[text.index(ib):]
    d.write_text(text)
    print("DESIGN.md status block rewritten")
else:
    print(block)
