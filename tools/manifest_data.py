"""Per-property MANIFEST entries (edited by hand as checks are built)."""
PENDING_REASON = {}
CHECKS = {
    "C02": {
        "text": "Lean 4 theorems about a character-level model of FortranReader (quote_split round trip and literal integrity, uniqueness of the comment-start match, layout invariance of the extracted statements for all continuation layouts) proved for all inputs; the model is tied to /repo on every run by exact differential comparison of list(FortranReader(file)) with the model's readAll on generated layouts and junk, and the property oracle (squeezed token sequences, verbatim literals, docs) is evaluated on the real reader.",
        "note": "Trusted: Lean kernel; axioms propext/Quot.sound/Classical.choice only; the correspondence harness (generator coverage is recorded in the evidence). CPython re, include expansion, preprocessor and decoding are on the implementation side only. Known finding C02-comment-while-literal-continued is excluded by an explicit hypothesis of the layout theorem.",
        "technique": "Lean 4 proof over an executable model + differential correspondence with the implementation",
    },
}
