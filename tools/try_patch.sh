#!/bin/bash
# tools/try_patch.sh <patch.diff> <prop> [tier]  : apply a seeded change to /repo, run the check, undo.
set -u
patch=$1; prop=$2; tier=${3:-quick}
cd /repo || exit 2
if [ -n "$(git status --porcelain)" ]; then echo "repo not clean"; exit 2; fi
git apply "$patch" || { echo "patch does not apply"; exit 2; }
cd /verif
timeout 3000 ./check "$prop" --tier "$tier" 2>&1 | grep -E "VIOLATION|KNOWN|INFRA|^\[" 
rc=${PIPESTATUS[0]}
git -C /repo checkout -- . 
echo "exit=$rc"
