#!/usr/bin/env python3
"""Regenerate /verif/MANIFEST.json from tools/manifest/Cxx.json (keeps it valid at all times)."""
import json
from pathlib import Path


V = Path(__file__).resolve().parent.parent
CHECKS = {f.stem: json.loads(f.read_text()) for f in sorted((V / "tools" / "manifest").glob("C*.json"))}
PENDING_REASON = {}
props = [json.loads(l)["id"] for l in (V / "properties.jsonl").read_text().splitlines() if l.strip()]
import re


def findings_sentence(pid):
    f = V / "known_findings" / f"{pid}.json"
    if not f.exists():
        return ""
    es = json.loads(f.read_text()).get("findings", [])
    op = [e["id"].replace(pid + "-", "") for e in es if e.get("status") == "open"]
    fx = []
    for e in es:
        if e.get("status") == "fixed":
            m = re.search(r"fixed: property=\w+ ([0-9a-f]{7,})", e.get("what", ""))
            fx.append(e["id"].replace(pid + "-", "") + (f" ({m.group(1)})" if m else ""))
    return (" Current state of known_findings/%s.json (generated): open = %s; repaired by fix: commits = %s."
            % (pid, ", ".join(op) or "none", ", ".join(fx) or "none"))


checks = []
for pid in props:
    if pid not in CHECKS:
        continue
    c = CHECKS[pid]
    checks.append(
        {
            "property_id": pid,
            "quick_cmd": f"./check {pid} --tier quick",
            "thorough_cmd": f"./check {pid} --tier thorough",
            "evidence_file": f"evidence/{pid}.json",
            "replay_cmd_template": f"./check {pid} --replay {{path}}",
            "engine": "lean4-model+correspondence",
            "level_claimed": {"category": "proof", "text": c["text"], "design_ref": c.get("design_ref", f"DESIGN.md section 5 {pid}")},
            "level_note": c["note"] + findings_sentence(pid),
            "technique": c["technique"],
        }
    )
na = [{"property_id": p, "reason": PENDING_REASON.get(p, "check not built yet in this round; see DESIGN.md section 5 for the planned model and theorems")} for p in props if p not in CHECKS]
man = {
    "version": 1,
    "setup_cmd": "tools/setup.sh",
    "hooks": {
        "guard": "FORD_VERIF",
        "enable": "no source hooks are needed: the harness imports /repo's ford in-process and observes it through wrappers installed in the harness process",
        "baseline_off_cmd": "cd /repo && /venv/bin/python -m pytest -ra -q -p no:cacheprovider --timeout=900 --continue-on-collection-errors",
        "source_commits": [],
        "add_only": True,
    },
    "engines": [
        {
            "name": "lean4-model+correspondence",
            "path": "lean/ (models, lemmas, Props/Cxx.lean theorems, compiled driver) + harness/ (generators, differential execution against /repo, property oracles) + translate/ (tables regenerated from /repo)",
            "serves_properties": sorted(CHECKS),
            "kind_free_text": "machine-checked proof in Lean 4 of theorems about hand-written executable models; model tied to /repo on every run by regenerated tables and differential correspondence",
        }
    ],
    "checks": checks,
    "notes": "See DESIGN.md. Exit 0 held / 1 violation / 2 infrastructure failure. known_findings/CNN.json lists genuine defects: status open entries are reported as KNOWN-FINDING (exit 0) when the check meets a failing input of exactly that class, status fixed entries suppress nothing.",
    "not_applicable": na,
}
(V / "MANIFEST.json").write_text(json.dumps(man, indent=1) + "\n")
print(f"{len(checks)} checks, {len(na)} not claimed")
