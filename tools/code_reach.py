#!/venv/bin/python
"""tools/code_reach.py [Cxx ...]

Measure which statements of /repo/ford the quick check of each claimed property actually executes
(correspondence streams, oracles and probing translators together), with coverage.py in the harness process.
Writes notes/code_reach.json (per property: executed / total statements per ford module; union over all
properties; per function of ford the properties that reach it, and the functions nobody reaches) and prints
a summary.  This is an instrument for the *tie*: code that no check executes is code whose change can only
be seen by a regenerated table or not at all.  It is not evidence for any property.

Sub-processes started by a harness (`python -m ford` end-to-end runs) are not traced; the numbers are
therefore a lower bound for the properties that run FORD as a subprocess (listed in the output).
"""
import ast
import json
import os
import subprocess
import sys
import tempfile
from pathlib import Path

V = Path(__file__).resolve().parent.parent
REPO = Path(os.environ.get("FORD_VERIF_REPO", "/repo"))
claimed = [c["property_id"] for c in json.loads((V / "MANIFEST.json").read_text())["checks"]]
props = [a for a in sys.argv[1:] if not a.startswith("-")] or claimed


def functions(path):
    """(qualified name, first line, last line) of every function / method of a module"""
    out = []
    tree = ast.parse(path.read_text())

    def walk(node, prefix):
        for ch in ast.iter_child_nodes(node):
            if isinstance(ch, (ast.FunctionDef, ast.AsyncFunctionDef)):
                out.append((prefix + ch.name, ch.lineno, ch.end_lineno))
                walk(ch, prefix + ch.name + ".")
            elif isinstance(ch, ast.ClassDef):
                walk(ch, prefix + ch.name + ".")
            else:
                walk(ch, prefix)

    walk(tree, "")
    return out


def one(prop):
    with tempfile.TemporaryDirectory(prefix="ford-reach-") as td:
        data = Path(td) / "cov"
        env = dict(os.environ, COVERAGE_FILE=str(data))
        p = subprocess.run(
            ["/venv/bin/python", "-m", "coverage", "run", f"--source={REPO / 'ford'}", "-m", "harness.main", prop,
             "--tier", "quick"], cwd=V, env=env, capture_output=True, text=True)
        js = Path(td) / "cov.json"
        subprocess.run(["/venv/bin/python", "-m", "coverage", "json", "-q", "-o", str(js)], cwd=V, env=env,
                       capture_output=True, text=True)
        rep = json.loads(js.read_text()) if js.exists() else {"files": {}}
    files = {}
    for f, d in rep["files"].items():
        name = Path(f).name
        files[name] = {"executed": sorted(d["executed_lines"]), "missing": sorted(d["missing_lines"])}
    return p.returncode, files


result = {"properties": {}, "note": __doc__.strip().split("\n\n")[1]}
union = {}
for prop in props:
    rc, files = one(prop)
    per = {}
    for name, d in files.items():
        per[name] = [len(d["executed"]), len(d["executed"]) + len(d["missing"])]
        u = union.setdefault(name, {"executed": set(), "all": set()})
        u["executed"] |= set(d["executed"])
        u["all"] |= set(d["executed"]) | set(d["missing"])
    result["properties"][prop] = {"exit": rc, "statements": per, "_lines": {n: d["executed"] for n, d in files.items()}}
    tot_e = sum(v[0] for v in per.values())
    tot_a = sum(v[1] for v in per.values())
    print(f"{prop} exit={rc} executes {tot_e}/{tot_a} statements of ford/", flush=True)

result["union"] = {n: [len(u["executed"]), len(u["all"])] for n, u in sorted(union.items())}
# per function: who reaches it
reach = {}
unreached = []
for name, u in sorted(union.items()):
    path = REPO / "ford" / name
    if not path.exists():
        continue
    for q, lo, hi in functions(path):
        body = {l for l in u["all"] if lo < l <= hi}
        if not body:
            continue
        who = [p for p in props if any(lo < l <= hi for l in result["properties"][p]["_lines"].get(name, []))]
        hit = len(body & u["executed"])
        reach[f"{name}:{q}"] = {"by": who, "executed": hit, "statements": len(body)}
        if not who:
            unreached.append(f"{name}:{q} ({len(body)} statements)")
for p in result["properties"].values():
    del p["_lines"]
result["functions"] = reach
result["unreached_functions"] = unreached
(V / "notes" / "code_reach.json").write_text(json.dumps(result, indent=1))
te = sum(v[0] for v in result["union"].values())
ta = sum(v[1] for v in result["union"].values())
print(f"union: {te}/{ta} statements of ford/ executed by at least one check; {len(unreached)} functions reached by none")
for u in unreached:
    print("  unreached:", u)
