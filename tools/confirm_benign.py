#!/usr/bin/env python3
"""tools/confirm_benign.py <Cxx> <rK>

Confirm a behaviour-preserving change produced by a sub-agent (in /tmp/ben/out/<Cxx>/<rK>/) in the
scratch worktree /tmp/ben/<Cxx> and, when confirmed, store it under /verif/benign/<Cxx>-<rK>/
(patch.diff, notes.md, meta.json).

Confirmed means: (1) the patch applies, (2) the pinned test suite still passes with it, (3) the bundled
example project builds to a byte-identical output tree with and without it.  That is evidence, not proof, of
equivalence; the author's argument is in notes.md.  The expected outcome of the property's check on such a
change is exit 0, or at most a broken tie reported with `no-failing-input-found` - never a failing input.
"""
import json
import os
import re
import shutil
import subprocess
import sys
import tempfile
from pathlib import Path

prop, m = sys.argv[1], sys.argv[2]
wt = Path(f"/tmp/ben/{prop}")
src = Path(f"/tmp/ben/out/{prop}/{m}")
dst = Path(f"/verif/benign/{prop}-{m}")
env = dict(os.environ, PATH="/venv/bin:" + os.environ["PATH"], FORD_DEBUGGING="1", PYTHONHASHSEED="0",
           PYTHONPATH=str(wt))  # from example/ `ford` would otherwise resolve to the installed /repo/ford


def sh(cmd, cwd=wt, **kw):
    p = subprocess.run(cmd, shell=True, cwd=cwd, env=env, capture_output=True, text=True, **kw)
    return p.returncode, (p.stdout + p.stderr)


def build(out):
    # always build into the same directory (its absolute path ends up in the pages), then move the result
    r = sh(f"/venv/bin/python -c 'import ford,sys; assert ford.__file__.startswith(\"{wt}/\"), ford.__file__' && "
           f"/venv/bin/python -m ford example-project-file.md -o {tmp}/out", cwd=wt / "example")
    os.rename(tmp / "out", out)
    return r


tmp = Path(tempfile.mkdtemp(prefix="ben"))
sh("git checkout -- . && git clean -fdq")
ran = {}
try:
    rc, o = build(tmp / "ref")
    ran["example_build_clean_exit"] = rc
    rc, out = sh(f"git apply {src}/patch.diff")
    if rc != 0:
        print("patch does not apply:", out)
        sys.exit(1)
    rc, out = sh("/venv/bin/python -m pytest -q -p no:cacheprovider --timeout=900 --continue-on-collection-errors -x 2>&1 | tail -3")
    mm = re.search(r"(\d+) passed", out)
    failed = re.search(r"(\d+) failed|(\d+) error", out)
    ran["suite_with_patch"] = out.strip().splitlines()[-1] if out.strip() else ""
    rc, o = build(tmp / "new")
    ran["example_build_patched_exit"] = rc
    # the clean tree itself orders the 'Uses' list of a page by object address (open finding C12-uses-set-order),
    # so files that differ are compared again as multisets of lines (of words: the search index is one line)
    diffs = []
    names = lambda r: sorted(str(q.relative_to(r)) for q in r.rglob("*") if q.is_file())  # noqa
    if names(tmp / "ref") != names(tmp / "new"):
        diffs.append("different sets of files")
    for n in names(tmp / "ref"):
        a, b = (tmp / "ref" / n).read_bytes(), (tmp / "new" / n).read_bytes() if (tmp / "new" / n).exists() else b""
        if a != b and sorted(a.splitlines()) != sorted(b.splitlines()) and sorted(a.split()) != sorted(b.split()):
            diffs.append(n)
    ran["example_output_diff"] = diffs[:5]
    rc, stat = sh(f"git diff --shortstat")
    ran["size"] = stat.strip()
finally:
    sh("git checkout -- . && git clean -fdq")
    shutil.rmtree(tmp, ignore_errors=True)
ok = (mm and int(mm.group(1)) >= 288 and not failed and ran["example_build_clean_exit"] == 0
      and ran["example_build_patched_exit"] == 0 and not ran["example_output_diff"])
print(json.dumps(ran, indent=1))
print("CONFIRMED" if ok else "NOT CONFIRMED")
if ok:
    dst.mkdir(parents=True, exist_ok=True)
    for f in ("patch.diff", "notes.md"):
        if (src / f).exists():
            shutil.copy(src / f, dst / f)
    notes = (src / "notes.md").read_text() if (src / "notes.md").exists() else ""
    meta = {
        "id": f"{prop}-{m}",
        "property": prop,
        "kind": "behaviour-preserving",
        "origin": "fresh sub-agent given only the property text and a scratch worktree of /repo, asked for a realistic refactoring that changes no behaviour",
        "summary": notes.strip().split("\n")[0][:300],
        "confirmed": ran,
        "confirmed_how": "tools/confirm_benign.py: pinned pytest suite passes with the patch; example project output byte-identical with and without it",
        "base_commit": subprocess.run("git rev-parse HEAD", shell=True, cwd=wt, capture_output=True, text=True).stdout.strip(),
    }
    (dst / "meta.json").write_text(json.dumps(meta, indent=1))
sys.exit(0 if ok else 1)
