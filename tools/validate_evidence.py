#!/usr/bin/env python3
"""Validate every evidence/Cxx.json against /root/.vp/EVIDENCE.schema.json and check that it is a
clean-tree record (all obligations discharged, no violation recorded).  Run with python3-vt."""
import json
import sys
from pathlib import Path

import jsonschema

V = Path(__file__).resolve().parent.parent
schema = json.loads(Path("/root/.vp/EVIDENCE.schema.json").read_text())
bad = 0
for f in sorted((V / "evidence").glob("C*.json")):
    d = json.loads(f.read_text())
    try:
        jsonschema.validate(d, schema)
    except jsonschema.ValidationError as e:
        print(f.name, "SCHEMA:", e.message[:200])
        bad += 1
        continue
    c = d.get("coverage", {})
    if c.get("obligations") != c.get("discharged") or not c.get("discharged"):
        print(f.name, "not a clean-tree record: obligations", c.get("obligations"), "discharged", c.get("discharged"))
        bad += 1
print("evidence files checked:", len(list((V / "evidence").glob("C*.json"))), "bad:", bad)
sys.exit(1 if bad else 0)
