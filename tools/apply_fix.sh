#!/bin/bash
# tools/apply_fix.sh <fixes/X.diff> "<subject after 'fix: '>" ["body"] : apply a repair to /repo, run the pinned suite, commit if it passes
set -e
cd /repo
test -z "$(git status --porcelain)" || { echo "/repo not clean"; exit 1; }
git apply "/verif/$1"
out=$(PATH=/venv/bin:$PATH /venv/bin/python -m pytest -q -p no:cacheprovider --timeout=900 --continue-on-collection-errors 2>&1 | tail -1)
echo "$out"
case "$out" in
  *"288 passed"*) case "$out" in *failed*|*error*) git checkout -- .; echo "NOT APPLIED"; exit 1;; esac ;;
  *) git checkout -- .; echo "NOT APPLIED"; exit 1;;
esac
git add -A
git commit -qm "fix: $2" ${3:+-m "$3"}
git log --oneline -1
