#!/bin/bash
# tools/run_all.sh [tier] : run every claimed check (4 at a time), print one summary line each
tier=${1:-quick}
cd /verif
ids=$(python3 -c "import json;print(' '.join(c['property_id'] for c in json.load(open('MANIFEST.json'))['checks']))")
mkdir -p /tmp/runall
printf '%s\n' $ids | xargs -P 4 -I{} sh -c "./check {} --tier $tier > /tmp/runall/{}.log 2>&1; echo {} exit=\$? \$(grep -c KNOWN-FINDING /tmp/runall/{}.log) known \$(grep -E 'VIOLATION|INFRA' /tmp/runall/{}.log | head -1 | cut -c1-100) \$(grep -oE 'wall=[0-9.]+s' /tmp/runall/{}.log)"
