#!/bin/bash
# tools/eval_parallel.sh N seed-id ... : evaluate the given seeds in N scratch copies of /verif (with their own
# Lean build output) and N scratch worktrees of /repo, then copy the meta.json results back and clean up.
N=$1; shift
seeds=("$@")
mkdir -p /tmp/ev
for i in $(seq 1 $N); do
  rm -rf /tmp/ev/$i; mkdir -p /tmp/ev/$i
  rsync -a --exclude .git --exclude evidence/replays /verif/ /tmp/ev/$i/verif/
  git -C /repo worktree add -q --detach /tmp/ev/$i/repo HEAD
done
for i in $(seq 1 $N); do
  mine=()
  for k in "${!seeds[@]}"; do if [ $((k % N + 1)) -eq $i ]; then mine+=("${seeds[$k]}"); fi; done
  printf '%s\n' "${mine[@]}" > /tmp/ev/$i/mine
  ( cd /tmp/ev/$i/verif && EVAL_REPO=/tmp/ev/$i/repo /venv/bin/python tools/eval_seeds.py "${mine[@]}" > /tmp/ev/$i/log 2>&1 ) &
done
wait
for i in $(seq 1 $N); do
  cat /tmp/ev/$i/log
  while read id; do [ -n "$id" ] && cp /tmp/ev/$i/verif/${EVAL_DIR:-seeded}/$id/meta.json /verif/${EVAL_DIR:-seeded}/$id/meta.json; done < /tmp/ev/$i/mine
  git -C /repo worktree remove --force /tmp/ev/$i/repo
done
rm -rf /tmp/ev
