#!/venv/bin/python
"""Regenerate every lean/FordModel/Generated/*.lean from the current /repo working tree
(what each check does on its own run, collected for setup_cmd so that a fresh
`lake build` of the whole library sees tables that match the tree)."""
import importlib
import sys
from pathlib import Path

V = Path(__file__).resolve().parent.parent
sys.path.insert(0, str(V))
from harness import common  # noqa


class Done(Exception):
    pass


def fake(prop, translate=None, thorough=False):
    if translate is not None:
        with common.lean_lock():
            translate()
    raise Done


common.lean_prove = fake
ok = True
for f in sorted((V / "harness").glob("c[0-9][0-9].py")):
    mod = importlib.import_module("harness." + f.stem)
    if hasattr(mod, "lean_prove"):
        mod.lean_prove = fake
    try:
        mod.run("quick", 0, None)
        print(f.stem, "did not call lean_prove")
    except Done:
        print(f.stem, "tables regenerated")
    except Exception as e:  # noqa
        ok = False
        print(f.stem, "translator failed:", type(e).__name__, e)
sys.exit(0 if ok else 1)
