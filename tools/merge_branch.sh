#!/bin/bash
# tools/merge_branch.sh <branch>: merge a builder branch; generated files are regenerated, not merged.
set -u
cd /verif
# a builder that committed on a detached HEAD leaves its branch where it started: nothing to merge is an error
if [ -z "$(git rev-list HEAD.."$1" 2>/dev/null)" ]; then echo "NOTHING TO MERGE: $1 has no commit that main lacks (did the builder commit elsewhere? see git fsck --lost-found)"; exit 1; fi
git merge --no-commit --no-ff "$1" >/dev/null 2>&1
# evidence files are rewritten by every run: take the branch's copy
for f in $(git diff --name-only --diff-filter=U | grep "^evidence/"); do git checkout --theirs -- "$f"; done
for f in lean/FordModel.lean lean/FordModel/Dispatch.lean MANIFEST.json; do
  git checkout --ours -- "$f" 2>/dev/null
done
python3 tools/gen_dispatch.py >/dev/null && (cd tools && python3 gen_manifest.py)
git add -A
if git grep --cached -lE '^(<<<<<<<|>>>>>>>) ' -- . ':!tools/merge_branch.sh' ':!DESIGN.md' | grep -q .; then echo "CONFLICT MARKERS in:"; git grep --cached -lE '^(<<<<<<<|>>>>>>>) ' -- . ':!tools/merge_branch.sh' ':!DESIGN.md'; exit 1; fi
if git diff --cached --name-only --diff-filter=U | grep -q .; then echo "UNRESOLVED:"; git diff --name-only --diff-filter=U; exit 1; fi
git commit -qm "Merge $1" && echo merged
