#!/usr/bin/env python3
"""tools/confirm_seed.py <Cxx> <mK> [--needs "..."]

Confirm a seeded change produced by a sub-agent (in /tmp/seed/out/<Cxx>/<mK>/)
in the scratch worktree /tmp/seed/<Cxx> and, when confirmed, store it under
/verif/seeded/<Cxx>-<mK>/ (patch.diff, demo.py, notes.md, meta.json).

Confirmed means: (1) demo exits 0 on the clean worktree, (2) patch applies,
(3) the pinned test suite still passes with the patch (same number of passes
as on the clean tree, no failures), (4) demo exits 1 with the patch.
"""
import json
import os
import re
import shutil
import subprocess
import sys
from pathlib import Path

prop, m = sys.argv[1], sys.argv[2]
wt = Path(f"/tmp/seed/{prop}")
src = Path(f"/tmp/seed/out/{prop}/{m}")
dst = Path(f"/verif/seeded/{prop}-{m}")
env = dict(os.environ, PATH="/venv/bin:" + os.environ["PATH"], FORD_DEBUGGING="1")


def sh(cmd, **kw):
    p = subprocess.run(cmd, shell=True, cwd=wt, env=env, capture_output=True, text=True, **kw)
    return p.returncode, (p.stdout + p.stderr)


def suite():
    rc, out = sh("/venv/bin/python -m pytest -q -p no:cacheprovider --timeout=900 --continue-on-collection-errors -x 2>&1 | tail -3")
    mm = re.search(r"(\d+) passed", out)
    failed = re.search(r"(\d+) failed|(\d+) error", out)
    return (int(mm.group(1)) if mm else 0), bool(failed), out.strip().splitlines()[-1] if out.strip() else ""


sh("git checkout -- . && git clean -fdq")
ran = {}
rc0, out0 = sh(f"/venv/bin/python {src}/demo.py")
ran["demo_clean_exit"] = rc0
rc, out = sh(f"git apply {src}/patch.diff")
if rc != 0:
    print("patch does not apply:", out)
    sys.exit(1)
passed, failed, last = suite()
ran["suite_with_patch"] = last
rc1, out1 = sh(f"/venv/bin/python {src}/demo.py")
ran["demo_patched_exit"] = rc1
ran["demo_patched_output_tail"] = out1.strip().splitlines()[-5:]
sh("git checkout -- . && git clean -fdq")
ok = rc0 == 0 and rc1 == 1 and not failed and passed >= 288
print(json.dumps(ran, indent=1))
print("CONFIRMED" if ok else "NOT CONFIRMED")
if ok:
    dst.mkdir(parents=True, exist_ok=True)
    for f in ("patch.diff", "demo.py", "notes.md"):
        if (src / f).exists():
            shutil.copy(src / f, dst / f)
    notes = (src / "notes.md").read_text() if (src / "notes.md").exists() else ""
    meta = {
        "id": f"{prop}-{m}",
        "breaks_property": prop,
        "origin": "fresh sub-agent given only the property text and a scratch worktree of /repo",
        "needs_to_manifest": notes.strip().split("\n\n")[0][:600],
        "confirmed": ran,
        "confirmed_how": "tools/confirm_seed.py: demo exit 0 on clean worktree; pinned pytest suite passes with the patch; demo exit 1 with the patch",
        "base_commit": subprocess.run("git rev-parse HEAD", shell=True, cwd=wt, capture_output=True, text=True).stdout.strip(),
        "detected_by": "see DESIGN.md section 10 (table of seeded changes)",
    }
    (dst / "meta.json").write_text(json.dumps(meta, indent=1))
sys.exit(0 if ok else 1)
