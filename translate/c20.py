"""Translator for C20: regenerates lean/FordModel/Generated/C20.lean from the repo.

Extracted (every run, from the working tree under test):
  * `cascade`   - the ordered if/elif chain of FortranContainer.__init__ (ast):
                  for each branch the recogniser (regex attribute or literal test)
                  and the extra guard (`blocklevel == 0`, `incontains`, the
                  MODULE PROCEDURE guard).  Round 5: by role, not by spelling - the loop
                  is the one that holds the longest chain, the BLOCK counter is whatever
                  the BLOCK branch increments, the CONTAINS flag whatever the CONTAINS
                  branch sets, the lower-cased line any name bound to `<line>.lower()`;
                  the conjuncts of a test come in any order and may have been moved into
                  a one-expression helper method;
  * `fileHasCleanup` - does `_cleanup()` of a parsed FortranSourceFile come back (probed);
  * `attrTable` - for every container class, which of the attributes tested with
                  `hasattr(self, ...)` in that chain exist while the class parses
                  its body (probed by parsing a source that contains every kind
                  of container and sampling `hasattr` when its END is reached);
  * `canContainKinds`, `codeUnitKinds`, `moduleLikeKinds` - the isinstance tests
                  of the chain (`_can_have_contains`, FortranCodeUnit, FortranModule);
  * `dbgDefault`, `forceDefault` - the defaults of the two settings that decide
                  what print_error does;
  * `reservesAtParse`, `otherReservations` - which constructors ask the process-wide
                  `NameSelector` (`sourceform.namelist`) for an identifier *while the
                  file is being parsed* (probed: a source with every container kind in
                  every parent that can hold it is parsed under a selector that logs
                  `get_name`; as the code is, none does - identifiers are handed out
                  lazily, after the per-file try/except has decided about the file);
  * `eofProbes`  - what the real `FortranReader` does when the file ends in each of its
                  states (after a complete statement, inside a continued statement, inside
                  a `!>` / `!|` / `!*` block, after a doc line, ...): the items it yields,
                  that it raises, or that it does not come back within 2 s.
  * `patterns`   - every regular expression applied while a source file is read and parsed, as
                  the syntax tree `re` builds for it (see translate/c20rx.py).
  * `warnSpec`, `warnProbes`, `progressSpec`, `progressProbes`, `rejectionRules`, `handlerSteps`,
    `emojiSample` - the diagnostic channel (see translate/c20diag.py).
A construct that cannot be found raises (the check then reports "tie broken").
"""
from __future__ import annotations

import ast
import inspect
import io
import contextlib
import os
import re
import tempfile
import textwrap
from pathlib import Path

from harness import common
from . import c20rx
from . import c20diag
from . import c20late

KIND_OF_CLASS = {
    "FortranSourceFile": "file",
    "FortranModule": "module",
    "FortranSubmodule": "submodule",
    "FortranProgram": "program",
    "FortranSubroutine": "subroutine",
    "FortranFunction": "function",
    "FortranModuleProcedureImplementation": "modproc",
    "FortranType": "type",
    "FortranInterface": "interface",
    "FortranEnum": "enum",
    "FortranBlockData": "blockdata",
}
KINDS = list(KIND_OF_CLASS.values())

# recogniser -> Lean constructor of `Ford.Branch`
RECOG = {
    "contains": "contains", "permission": "perm", "sequence": "sequence",
    "FORMAT_RE": "format", "ATTRIB_RE": "attrib", "END_RE": "end_", "MODPROC_RE": "modproc",
    "BLOCK_DATA_RE": "blockdata", "BLOCK_RE": "block", "ASSOCIATE_RE": "associate",
    "MODULE_RE": "module", "SUBMODULE_RE": "submodule", "PROGRAM_RE": "program",
    "SUBROUTINE_RE": "subroutine", "NAMELIST_RE": "namelist", "FUNCTION_RE": "function",
    "TYPE_RE": "type", "INTERFACE_RE": "interface", "ENUM_RE": "enum", "BOUNDPROC_RE": "boundproc",
    "COMMON_RE": "common", "FINAL_RE": "final", "VARIABLE_RE": "variable", "USE_RE": "use",
    "ARITH_GOTO_RE": "arithgoto", "CALL_RE|SUBCALL_RE": "call",
}

PROBE = """\
module m
type t
end type
interface g
end interface
enum, bind(c)
end enum
contains
subroutine s()
end subroutine
function f()
end function
end module
submodule (m) sm
contains
module procedure mp
end procedure
end submodule
program p
end program
block data bd
end block data
"""


def _chain_len(node) -> int:
    n = 1
    while len(node.orelse) == 1 and isinstance(node.orelse[0], ast.If):
        node = node.orelse[0]
        n += 1
    return n


def _helper_body(sf, name):
    """`self.<name>(...)` where <name> is a small method of the container class (a condition that was
    extracted into a helper): the expression it returns, else None"""
    fn = inspect.getattr_static(sf.FortranContainer, name, None)
    if isinstance(fn, (staticmethod, classmethod)):
        fn = fn.__func__
    if not inspect.isfunction(fn):
        return None
    try:
        body = ast.parse(textwrap.dedent(inspect.getsource(fn))).body[0].body
    except (OSError, TypeError, SyntaxError):
        return None
    body = [n for n in body if not (isinstance(n, ast.Expr) and isinstance(n.value, ast.Constant))]
    if len(body) == 1 and isinstance(body[0], ast.Return) and body[0].value is not None:
        return body[0].value
    return None


def _regex_of_call(sf, n):
    """`self.X.match(...)` / `self.X.search(...)` / `type(self).X.match(...)` / `FortranContainer.X.match(...)`
    where X is bound to a compiled pattern on the class: the name X, else None"""
    if not (isinstance(n, ast.Call) and isinstance(n.func, ast.Attribute) and n.func.attr in ("match", "search", "fullmatch")
            and isinstance(n.func.value, ast.Attribute)):
        return None
    x = n.func.value.attr
    if isinstance(getattr(sf.FortranContainer, x, None), re.Pattern):
        return x
    # a pattern compiled per instance (VARIABLE_RE is built in __init__ from the settings): an attribute of
    # `self` that is not a method of the class
    if isinstance(n.func.value.value, ast.Name) and n.func.value.value.id == "self" \
            and not callable(getattr(sf.FortranContainer, x, None)):
        return x
    return None


class _Names:
    """the locals of the statement loop the guards talk about, found by what is done with them (so that
    renaming them changes nothing): the counter of open BLOCK constructs is the name the BLOCK branch
    increments, the CONTAINS flag is the name the CONTAINS branch sets to True, the lower-cased line is
    any name bound to `<loop variable>.lower()`"""

    def __init__(self, loop):
        self.line = loop.target.id if isinstance(loop.target, ast.Name) else None
        self.lowered = set()
        for n in ast.walk(loop):
            if isinstance(n, ast.Assign) and len(n.targets) == 1 and isinstance(n.targets[0], ast.Name) and self.is_lower_call(n.value):
                self.lowered.add(n.targets[0].id)
        self.block = None
        self.contains = None

    def is_lower_call(self, v) -> bool:
        return (isinstance(v, ast.Call) and isinstance(v.func, ast.Attribute) and v.func.attr == "lower" and not v.args
                and isinstance(v.func.value, ast.Name) and v.func.value.id == self.line)

    def is_lowered_line(self, v) -> bool:
        return (isinstance(v, ast.Name) and v.id in self.lowered) or self.is_lower_call(v)


def _operands(sf, test, depth=0) -> list:
    """the conjuncts of a test, helper methods followed"""
    if isinstance(test, ast.BoolOp) and isinstance(test.op, ast.And):
        out = []
        for v in test.values:
            out += _operands(sf, v, depth)
        return out
    if (depth < 3 and isinstance(test, ast.Call) and isinstance(test.func, ast.Attribute)
            and isinstance(test.func.value, ast.Name) and test.func.value.id == "self"):
        inner = _helper_body(sf, test.func.attr)
        if inner is not None:
            return _operands(sf, inner, depth + 1)
    return [test]


def _strip_walrus(v):
    return v.value if isinstance(v, ast.NamedExpr) else v


def _recogniser(sf, names, v):
    """one conjunct -> recogniser name, or None if it is a guard"""
    v = _strip_walrus(v)
    if isinstance(v, ast.Compare) and len(v.ops) == 1 and len(v.comparators) == 1:
        l, r = v.left, v.comparators[0]
        if isinstance(v.ops[0], ast.Eq):
            if isinstance(l, ast.Constant):
                l, r = r, l
            if names.is_lowered_line(l) and isinstance(r, ast.Constant) and r.value in ("contains", "sequence"):
                return r.value
        if isinstance(v.ops[0], ast.In) and names.is_lowered_line(l) and isinstance(r, (ast.List, ast.Tuple, ast.Set)) \
                and all(isinstance(e, ast.Constant) for e in r.elts):
            if sorted(e.value for e in r.elts) == ["private", "protected", "public"]:
                return "permission"
            raise ValueError(f"the cascade tests the line against the words {[e.value for e in r.elts]}")
    x = _regex_of_call(sf, v)
    if x is not None:
        return x
    if isinstance(v, ast.BoolOp) and isinstance(v.op, ast.Or):
        xs = [_regex_of_call(sf, _strip_walrus(o)) for o in v.values]
        if all(xs):
            return "|".join(xs)
    return None


def _guard_of(names, v) -> str:
    """a conjunct that is not the recogniser -> guard"""
    if isinstance(v, ast.Compare) and len(v.ops) == 1 and isinstance(v.ops[0], ast.Eq):
        l, r = v.left, v.comparators[0]
        if isinstance(l, ast.Constant):
            l, r = r, l
        if isinstance(l, ast.Name) and l.id == names.block and isinstance(r, ast.Constant) and r.value == 0 \
                and not isinstance(r.value, bool):
            return "block0"
    if isinstance(v, ast.Name) and v.id == names.contains:
        return "incontains"
    subs = [n for n in ast.walk(v) if isinstance(n, ast.Subscript) and isinstance(n.slice, ast.Constant)]
    if isinstance(v, ast.BoolOp) and isinstance(v.op, ast.Or) and len(v.values) == 2 \
            and any(isinstance(o, ast.Subscript) and isinstance(o.slice, ast.Constant) and o.slice.value == "module" for o in v.values) \
            and any(isinstance(o, ast.Call) and isinstance(o.func, ast.Name) and o.func.id == "isinstance" and len(o.args) == 2
                    and isinstance(o.args[0], ast.Name) and o.args[0].id == "self"
                    and isinstance(o.args[1], ast.Name) and o.args[1].id == "FortranInterface" for o in v.values) and len(subs) == 1:
        return "modprocGuard"
    raise ValueError(f"unknown guard {ast.unparse(v)!r}")


def extract_cascade(sf) -> list[tuple[str, str]]:
    """The ordered if/elif chain of the statement loop: (recogniser, guard) per link.  Tied to what the
    chain does, not to how it is spelled: the loop is the `for` of `FortranContainer.__init__` that holds
    the longest chain; locals are identified by their role (`_Names`); the conjuncts of a test may come in
    any order and may sit in a small helper method (`_operands`)."""
    tree = ast.parse(textwrap.dedent(inspect.getsource(sf.FortranContainer.__init__)))
    fn = tree.body[0]
    best = None
    for loop in (n for n in ast.walk(fn) if isinstance(n, ast.For)):
        for st in loop.body:
            if isinstance(st, ast.If) and (best is None or _chain_len(st) > _chain_len(best[1])):
                best = (loop, st)
    if best is None or _chain_len(best[1]) < 10:
        raise ValueError("the statement loop with its if/elif cascade was not found in FortranContainer.__init__")
    loop, chain = best
    names = _Names(loop)
    links = []
    node = chain
    while True:
        links.append(node)
        if len(node.orelse) == 1 and isinstance(node.orelse[0], ast.If):
            node = node.orelse[0]
        else:
            if node.orelse:
                raise ValueError("cascade ends with an else branch")
            break
    parsed = []
    for node in links:
        ops = _operands(sf, node.test)
        recs = [(i, _recogniser(sf, names, o)) for i, o in enumerate(ops)]
        recs = [(i, r) for i, r in recs if r is not None]
        if len(recs) != 1:
            raise ValueError(f"unrecognised cascade test {ast.unparse(node.test)!r}")
        parsed.append((node, recs[0][1], [o for i, o in enumerate(ops) if i != recs[0][0]]))
    # the roles of the locals: what the BLOCK branch increments, what the CONTAINS branch sets
    for node, rec, _ in parsed:
        if rec == "BLOCK_RE":
            incs = [n.target.id for st in node.body for n in ast.walk(st) if isinstance(n, ast.AugAssign)
                    and isinstance(n.op, ast.Add) and isinstance(n.target, ast.Name)]
            incs += [n.targets[0].id for st in node.body for n in ast.walk(st) if isinstance(n, ast.Assign)
                     and len(n.targets) == 1 and isinstance(n.targets[0], ast.Name) and isinstance(n.value, ast.BinOp)
                     and isinstance(n.value.op, ast.Add) and n.targets[0].id in {m.id for m in ast.walk(n.value) if isinstance(m, ast.Name)}]
            if len(set(incs)) == 1:
                names.block = incs[0]
        if rec == "contains":
            sets = [n.targets[0].id for st in node.body for n in ast.walk(st) if isinstance(n, ast.Assign)
                    and len(n.targets) == 1 and isinstance(n.targets[0], ast.Name) and isinstance(n.value, ast.Constant)
                    and n.value.value is True]
            if len(set(sets)) == 1:
                names.contains = sets[0]
    out = []
    for node, rec, guards in parsed:
        if rec not in RECOG:
            raise ValueError(f"unknown recogniser {rec!r}")
        gs = [_guard_of(names, g) for g in guards]
        if len(gs) > 1:
            raise ValueError(f"compound guard {ast.unparse(node.test)!r}")
        out.append((RECOG[rec], gs[0] if gs else "always"))
    return out


def hasattr_names(sf) -> list[str]:
    names = []
    for f in (sf.FortranContainer.__init__, sf.FortranContainer._add_procedure_calls):
        tree = ast.parse(textwrap.dedent(inspect.getsource(f)))
        for n in ast.walk(tree):
            # `hasattr(self, "x")`, or the same test spelled `getattr(self, "x", <default>)`
            if (isinstance(n, ast.Call) and isinstance(n.func, ast.Name)
                    and (n.func.id == "hasattr" and len(n.args) == 2 or n.func.id == "getattr" and len(n.args) == 3)
                    and isinstance(n.args[0], ast.Name) and n.args[0].id == "self"
                    and isinstance(n.args[1], ast.Constant)):
                if n.args[1].value not in names:
                    names.append(n.args[1].value)
    if not names:
        raise ValueError("no hasattr(self, ...) tests found")
    return names


def probe_attrs(sf, attrs) -> dict[str, list[str]]:
    """class kind -> attributes present while the class parses its body"""
    from ford.settings import ProjectSettings

    seen: dict[str, list[str]] = {}
    patched = []

    def wrap(cls):
        orig = cls.__dict__.get("_cleanup")
        if orig is None:
            return

        def _cleanup(self, _orig=orig):
            k = KIND_OF_CLASS.get(type(self).__name__)
            if k is not None and k not in seen:
                seen[k] = [a for a in attrs if hasattr(self, a)]
            return _orig(self)

        cls._cleanup = _cleanup
        patched.append((cls, orig))

    classes = [getattr(sf, c) for c in KIND_OF_CLASS if c != "FortranSourceFile"] + [sf.FortranCodeUnit, sf.FortranProcedure]
    for c in dict.fromkeys(classes):
        wrap(c)
    old_ns = sf.namelist
    try:
        with tempfile.TemporaryDirectory() as d:
            p = Path(d) / "probe.f90"
            p.write_text(PROBE)
            with contextlib.redirect_stdout(io.StringIO()):
                f = sf.FortranSourceFile(str(p), ProjectSettings(preprocess=False, dbg=False))
            seen["file"] = [a for a in attrs if hasattr(f, a)]
    finally:
        for cls, orig in patched:
            cls._cleanup = orig
        sf.namelist = old_ns
    missing = [k for k in KINDS if k not in seen]
    if missing:
        raise ValueError(f"probe did not reach containers {missing}")
    return seen


def probe_file_cleanup(sf) -> bool:
    """parse a small valid file, then call `_cleanup()` of the FortranSourceFile object the way the END branch
    does at file level: True if it returns, False if it raises NotImplementedError (as the code is)"""
    from ford.settings import ProjectSettings

    old_ns = sf.namelist
    try:
        with tempfile.TemporaryDirectory() as d:
            p = Path(d) / "probe.f90"
            p.write_text("module m\nend module m\n")
            with contextlib.redirect_stdout(io.StringIO()):
                f = sf.FortranSourceFile(str(p), ProjectSettings(preprocess=False, dbg=False))
                try:
                    f._cleanup()
                except NotImplementedError:
                    return False
                except Exception as e:  # noqa
                    raise ValueError(f"FortranSourceFile._cleanup() raises {e!r} on a parsed file") from None
                return True
    finally:
        sf.namelist = old_ns


# ---------------------------------------------------------------------------------------
# identifiers requested from the NameSelector while a file is parsed
# ---------------------------------------------------------------------------------------
CHILD_OPENERS = {
    "module": "module {n}", "submodule": "submodule (anc) {n}", "program": "program {n}",
    "subroutine": "subroutine {n}()", "function": "function {n}()", "modproc": "module procedure {n}",
    "type": "type {n}", "interface": "interface {n}", "enum": "enum, bind(c)", "blockdata": "block data {n}",
}
LIST_ATTR = {"module": "modules", "submodule": "submodules", "program": "programs", "subroutine": "subroutines",
             "function": "functions", "type": "types", "interface": "interfaces", "enum": "enums",
             "blockdata": "blockdata"}
NEEDS_CONTAINS = {"subroutine", "function", "modproc"}


def names_probe_source(table, module_like, code_units) -> tuple[str, set]:
    """A source in which every container kind occurs in every parent that can hold it
    (according to the hasattr table), and the set of (parent, child) pairs it contains."""
    lines: list[str] = []
    pairs: set = set()
    count = [0]

    def children_of(parent):
        out = [c for c, a in LIST_ATTR.items() if a in table[parent]]
        if parent in module_like:
            out.append("modproc")
        return out

    def emit(parent, kind, with_children):
        count[0] += 1
        name = f"n{count[0]}"
        pairs.add((parent, kind))
        lines.append(CHILD_OPENERS[kind].replace("{n}", name))
        if with_children:
            kids = children_of(kind)
            spec = [k for k in kids if k not in NEEDS_CONTAINS]
            body = [k for k in kids if k in NEEDS_CONTAINS]
            if kind == "interface":
                spec, body = kids, []
            for k in spec:
                emit(kind, k, False)
            if body:
                if kind in code_units:
                    lines.append("contains")
                for k in body:
                    emit(kind, k, False)
        lines.append("end")

    for top in children_of("file"):
        emit("file", top, True)
    # the kinds that cannot stand at file level, as parents
    lines.append("module holder")
    for k in ("interface",):
        emit("module", k, True)
    lines.append("contains")
    emit("module", "modproc", True)
    lines.append("end")
    return "".join(l + "\n" for l in lines), pairs


def probe_reservations(sf, table, module_like, code_units):
    """(parent kind, kind, directory) of every container whose identifier is requested from
    `sourceform.namelist` while FortranSourceFile(...) runs, and the number of such requests
    for anything that is not a container in a container."""
    from ford.settings import ProjectSettings

    if not hasattr(sf, "namelist") or not hasattr(sf, "NameSelector") or not hasattr(sf.NameSelector, "get_name"):
        raise ValueError("sourceform.namelist / NameSelector.get_name not found")
    src, pairs = names_probe_source(table, module_like, code_units)
    wanted = set()
    for parent in KINDS:
        kids = [c for c, a in LIST_ATTR.items() if a in table[parent]]
        if parent in module_like:
            kids.append("modproc")
        wanted |= {(parent, c) for c in kids}
    if wanted - pairs:
        raise ValueError(f"reservation probe does not contain {sorted(wanted - pairs)}")
    log = []

    class Logging(sf.NameSelector):
        def get_name(self, item):
            log.append(item)
            return super().get_name(item)

    old = sf.namelist
    sf.namelist = Logging()
    try:
        with tempfile.TemporaryDirectory() as d:
            p = Path(d) / "probe_names.f90"
            p.write_text(src)
            buf = io.StringIO()
            with contextlib.redirect_stdout(buf):
                f = sf.FortranSourceFile(str(p), ProjectSettings(preprocess=False, dbg=False))
        reached = set()

        def walk(ent, pk):
            for attr in list(LIST_ATTR.values()) + ["modprocedures"]:
                for c in getattr(ent, attr, None) or []:
                    ck = KIND_OF_CLASS.get(type(c).__name__)
                    if ck is not None:
                        reached.add((pk, ck))
                        walk(c, ck)

        walk(f, "file")
        # an interface hands its procedures over to the parent; they were parsed all the same
        reached |= {p_ for p_ in pairs if p_[0] == "interface"}
        if pairs - reached:
            raise ValueError(f"reservation probe did not parse {sorted(pairs - reached)}")
        triples, other = [], 0
        for item in log:
            ck = KIND_OF_CLASS.get(type(item).__name__)
            pk = KIND_OF_CLASS.get(type(getattr(item, "parent", None)).__name__)
            d_ = item.get_dir()
            if ck is None or pk is None or ck == "file" or not isinstance(d_, str) or not re.fullmatch(r"[a-z]+", d_):
                other += 1
            elif (pk, ck, d_) not in triples:
                triples.append((pk, ck, d_))
    finally:
        sf.namelist = old
    return triples, other


# ---------------------------------------------------------------------------------------
# what the reader does when the file ends in each of its states
# ---------------------------------------------------------------------------------------
EOF_PROBES = [
    ["module m", "integer :: x"],                 # after a complete statement
    ["module m", "integer :: x, &"],              # inside a continued statement
    ["module m", "&"],                            # a lone ampersand
    ["module m", "!> before"],                    # inside a !> block
    ["module m", "!> before", ""],                # ... followed by a blank line
    ["module m", "!> one", "!> two"],
    ["module m", "!| before", "! more"],          # inside a !| block
    ["module m", "integer :: x", "!! after"],     # after a doc line
    ["module m", "integer :: x", "!! after", ""],
    ["module m", "integer :: x", "!* after", "! more"],   # inside a !* block
    ["module m", "integer :: x, &", "!> before"],  # continued and inside a !> block
    ["module m", "x = 'abc &"],                   # inside a character literal
    ["!> before"],                                # nothing but a !> block
    ["!! after"],
    [""],
]
MARKS = ("!", ">", "*", "|")


class _ProbeTimeout(BaseException):
    pass


def probe_eof():
    import signal
    from ford.reader import FortranReader

    def on_alarm(signum, frame):
        raise _ProbeTimeout()

    out = []
    with tempfile.TemporaryDirectory() as d:
        for i, lines in enumerate(EOF_PROBES):
            p = Path(d) / f"eof{i}.f90"
            p.write_text("".join(l + "\n" for l in lines))
            old = signal.signal(signal.SIGALRM, on_alarm)
            signal.alarm(2)
            try:
                try:
                    with contextlib.redirect_stdout(io.StringIO()):
                        obs = ("items", list(FortranReader(str(p), *MARKS)))
                except _ProbeTimeout:
                    obs = ("hung", None)
                except Exception:  # noqa - the reader raised
                    obs = ("raised", None)
            finally:
                signal.alarm(0)
                signal.signal(signal.SIGALRM, old)
            out.append((lines, obs))
    return out


def lean_chars(s: str) -> str:
    def ch(c):
        if c == "'":
            return "'\\''"
        if c == "\\":
            return "'\\\\'"
        if not (32 <= ord(c) < 127):
            raise ValueError(f"character {c!r} in a generated literal")
        return f"'{c}'"
    return "[" + ", ".join(ch(c) for c in s) + "]"


def lean_list(items) -> str:
    return "[" + ", ".join(items) + "]"


def generate() -> str:
    common.import_ford()
    import ford.sourceform as sf
    from ford.settings import ProjectSettings

    cascade = extract_cascade(sf)
    attrs = hasattr_names(sf)
    table = probe_attrs(sf, attrs)
    kinds_of = lambda pred: [k for c, k in KIND_OF_CLASS.items() if pred(getattr(sf, c))]
    can_contain = kinds_of(lambda c: issubclass(c, sf._can_have_contains))
    code_units = kinds_of(lambda c: issubclass(c, sf.FortranCodeUnit))
    module_like = kinds_of(lambda c: issubclass(c, sf.FortranModule))
    interface_like = kinds_of(lambda c: issubclass(c, sf.FortranInterface))
    type_like = kinds_of(lambda c: issubclass(c, sf.FortranType))
    s = ProjectSettings()
    # END at file level calls `_cleanup` of the source-file object: does that call come back?
    # (`fileHasCleanup` = it returns normally).  Observed on a real file object, not read from the source.
    file_cleanup = probe_file_cleanup(sf)
    known_attrs = ["attr_dict", "blockdata", "modules", "submodules", "programs", "subroutines", "namelists",
                   "functions", "types", "interfaces", "enums", "boundprocs", "common", "finalprocs",
                   "variables", "uses", "calls"]
    for a in attrs:
        if a not in known_attrs:
            raise ValueError(f"cascade tests a new attribute {a!r}")
    reserves, other_res = probe_reservations(sf, table, module_like, code_units)
    eof = probe_eof()

    def obs_lean(o):
        return ".items " + lean_list(lean_chars(x) for x in o[1]) if o[0] == "items" else "." + o[0]
    L = ["/- GENERATED by translate/c20.py from ford/sourceform.py and ford/settings.py - do not edit -/",
         "import FordModel.NestingTypes", "import FordModel.Backtrack", "import FordModel.Markup", "namespace Ford.Gen", "open Ford", "",
         "/-- the if/elif chain of FortranContainer.__init__, in source order -/",
         "def cascade : List (Branch × Guard) :=",
         "  " + lean_list(f"(.{b}, .{g})" for b, g in cascade), "",
         "/-- attributes (tested with hasattr in the chain) present while a container of each kind parses its body -/",
         "def attrTable : List (CK × List Attr) :=",
         "  " + lean_list("(." + k + ", " + lean_list("." + a for a in table[k]) + ")" for k in KINDS), "",
         f"def canContainKinds : List CK := {lean_list('.' + k for k in can_contain)}",
         f"def codeUnitKinds : List CK := {lean_list('.' + k for k in code_units)}",
         f"def moduleLikeKinds : List CK := {lean_list('.' + k for k in module_like)}",
         f"def interfaceLikeKinds : List CK := {lean_list('.' + k for k in interface_like)}",
         f"def typeLikeKinds : List CK := {lean_list('.' + k for k in type_like)}",
         f"def fileHasCleanup : Bool := {'true' if file_cleanup else 'false'}",
         f"def dbgDefault : Bool := {'true' if s.dbg else 'false'}",
         f"def forceDefault : Bool := {'true' if s.force else 'false'}", "",
         "/-- (parent kind, kind, directory): containers whose constructor asks the process-wide NameSelector",
         "    for an identifier while the file is still being parsed (probed) -/",
         "def reservesAtParse : List (CK × CK × Str) :=",
         "  " + lean_list(f"(.{p}, .{c}, {lean_chars(d)})" for p, c, d in reserves),
         "/-- such requests for anything that is not a container inside a container -/",
         f"def otherReservations : Nat := {other_res}", "",
         "/-- files ending in each state of the reader (default marks) and what FortranReader does on them -/",
         "def eofProbes : List (List Str × ProbeObs) :=",
         "  [" + ",\n   ".join("(" + lean_list(lean_chars(l) for l in lines) + ", " + obs_lean(o) + ")" for lines, o in eof) + "]",
         ""] + c20rx.lean_table(lean_chars) + [""] + c20diag.lean_table() + [""] + c20late.lean_table(lean_chars, lean_list) + ["", "end Ford.Gen", ""]
    return "\n".join(L)


class _TranslateTimeout(BaseException):
    pass


def translate():
    import signal

    def on_alarm(signum, frame):
        raise _TranslateTimeout()

    # the probes parse small fixed sources with the code under test; none of them may take long
    old = signal.signal(signal.SIGALRM, on_alarm)
    signal.alarm(60)
    try:
        try:
            text = generate()
        except _TranslateTimeout:
            raise ValueError("the probe sources of the translator were not parsed within 60 s") from None
    finally:
        signal.alarm(0)
        signal.signal(signal.SIGALRM, old)
    common.write_if_changed(common.LEAN / "FordModel" / "Generated" / "C20.lean", text)


if __name__ == "__main__":
    print(generate())
