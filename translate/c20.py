"""Translator for C20: regenerates lean/FordModel/Generated/C20.lean from the repo.

Extracted (every run, from the working tree under test):
  * `cascade`   - the ordered if/elif chain of FortranContainer.__init__ (ast):
                  for each branch the recogniser (regex attribute or literal test)
                  and the extra guard (`blocklevel == 0`, `incontains`, the
                  MODULE PROCEDURE guard);
  * `attrTable` - for every container class, which of the attributes tested with
                  `hasattr(self, ...)` in that chain exist while the class parses
                  its body (probed by parsing a source that contains every kind
                  of container and sampling `hasattr` when its END is reached);
  * `canContainKinds`, `codeUnitKinds`, `moduleLikeKinds` - the isinstance tests
                  of the chain (`_can_have_contains`, FortranCodeUnit, FortranModule);
  * `dbgDefault`, `forceDefault` - the defaults of the two settings that decide
                  what print_error does.
A construct that cannot be found raises (the check then reports "tie broken").
"""
from __future__ import annotations

import ast
import inspect
import io
import contextlib
import os
import tempfile
import textwrap
from pathlib import Path

from harness import common

KIND_OF_CLASS = {
    "FortranSourceFile": "file",
    "FortranModule": "module",
    "FortranSubmodule": "submodule",
    "FortranProgram": "program",
    "FortranSubroutine": "subroutine",
    "FortranFunction": "function",
    "FortranModuleProcedureImplementation": "modproc",
    "FortranType": "type",
    "FortranInterface": "interface",
    "FortranEnum": "enum",
    "FortranBlockData": "blockdata",
}
KINDS = list(KIND_OF_CLASS.values())

# recogniser -> Lean constructor of `Ford.Branch`
RECOG = {
    "contains": "contains", "permission": "perm", "sequence": "sequence",
    "FORMAT_RE": "format", "ATTRIB_RE": "attrib", "END_RE": "end_", "MODPROC_RE": "modproc",
    "BLOCK_DATA_RE": "blockdata", "BLOCK_RE": "block", "ASSOCIATE_RE": "associate",
    "MODULE_RE": "module", "SUBMODULE_RE": "submodule", "PROGRAM_RE": "program",
    "SUBROUTINE_RE": "subroutine", "NAMELIST_RE": "namelist", "FUNCTION_RE": "function",
    "TYPE_RE": "type", "INTERFACE_RE": "interface", "ENUM_RE": "enum", "BOUNDPROC_RE": "boundproc",
    "COMMON_RE": "common", "FINAL_RE": "final", "VARIABLE_RE": "variable", "USE_RE": "use",
    "ARITH_GOTO_RE": "arithgoto", "CALL_RE|SUBCALL_RE": "call",
}

PROBE = """\
module m
type t
end type
interface g
end interface
enum, bind(c)
end enum
contains
subroutine s()
end subroutine
function f()
end function
end module
submodule (m) sm
contains
module procedure mp
end procedure
end submodule
program p
end program
block data bd
end block data
"""


def _regex_names(node) -> list[str]:
    """names X of every `self.X.match/search(...)` call inside `node`"""
    out = []
    for n in ast.walk(node):
        if (isinstance(n, ast.Call) and isinstance(n.func, ast.Attribute) and n.func.attr in ("match", "search")
                and isinstance(n.func.value, ast.Attribute) and isinstance(n.func.value.value, ast.Name)
                and n.func.value.value.id == "self"):
            out.append(n.func.value.attr)
    return out


def _guard(test) -> str:
    src = ast.unparse(test)
    parts = []
    if "blocklevel == 0" in src:
        parts.append("block0")
    if isinstance(test, ast.BoolOp) and isinstance(test.op, ast.And):
        for v in test.values[1:]:
            s = ast.unparse(v)
            if s == "incontains":
                parts.append("incontains")
            elif s == "blocklevel == 0":
                pass
            elif "match['module']" in s and "FortranInterface" in s:
                parts.append("modprocGuard")
            else:
                raise ValueError(f"unknown guard {s!r} in {src!r}")
    if len(parts) > 1:
        raise ValueError(f"compound guard {src!r}")
    return parts[0] if parts else "always"


def extract_cascade(sf) -> list[tuple[str, str]]:
    tree = ast.parse(textwrap.dedent(inspect.getsource(sf.FortranContainer.__init__)))
    fn = tree.body[0]
    loop = next((n for n in fn.body if isinstance(n, ast.For) and ast.unparse(n.iter) == "source"), None)
    if loop is None:
        raise ValueError("`for line in source` loop not found in FortranContainer.__init__")
    chain = next((n for n in loop.body if isinstance(n, ast.If) and "contains" in ast.unparse(n.test)
                  and "line_lower" in ast.unparse(n.test)), None)
    if chain is None:
        raise ValueError("if/elif cascade not found")
    out = []
    node = chain
    while True:
        test = node.test
        src = ast.unparse(test)
        names = _regex_names(test)
        if src == "line_lower == 'contains'":
            rec = "contains"
        elif src.startswith("line_lower in ["):
            rec = "permission"
        elif src == "line_lower == 'sequence'":
            rec = "sequence"
        elif len(names) == 1:
            rec = names[0]
        elif names == ["CALL_RE", "SUBCALL_RE"] and isinstance(test, ast.BoolOp) and isinstance(test.op, ast.Or):
            rec = "CALL_RE|SUBCALL_RE"
        else:
            raise ValueError(f"unrecognised cascade test {src!r}")
        if rec not in RECOG:
            raise ValueError(f"unknown recogniser {rec!r}")
        out.append((RECOG[rec], _guard(test)))
        if len(node.orelse) == 1 and isinstance(node.orelse[0], ast.If):
            node = node.orelse[0]
        else:
            if node.orelse:
                raise ValueError("cascade ends with an else branch")
            break
    return out


def hasattr_names(sf) -> list[str]:
    names = []
    for f in (sf.FortranContainer.__init__, sf.FortranContainer._add_procedure_calls):
        tree = ast.parse(textwrap.dedent(inspect.getsource(f)))
        for n in ast.walk(tree):
            if (isinstance(n, ast.Call) and isinstance(n.func, ast.Name) and n.func.id == "hasattr"
                    and isinstance(n.args[0], ast.Name) and n.args[0].id == "self"
                    and isinstance(n.args[1], ast.Constant)):
                if n.args[1].value not in names:
                    names.append(n.args[1].value)
    if not names:
        raise ValueError("no hasattr(self, ...) tests found")
    return names


def probe_attrs(sf, attrs) -> dict[str, list[str]]:
    """class kind -> attributes present while the class parses its body"""
    from ford.settings import ProjectSettings

    seen: dict[str, list[str]] = {}
    patched = []

    def wrap(cls):
        orig = cls.__dict__.get("_cleanup")
        if orig is None:
            return

        def _cleanup(self, _orig=orig):
            k = KIND_OF_CLASS.get(type(self).__name__)
            if k is not None and k not in seen:
                seen[k] = [a for a in attrs if hasattr(self, a)]
            return _orig(self)

        cls._cleanup = _cleanup
        patched.append((cls, orig))

    classes = [getattr(sf, c) for c in KIND_OF_CLASS if c != "FortranSourceFile"] + [sf.FortranCodeUnit, sf.FortranProcedure]
    for c in dict.fromkeys(classes):
        wrap(c)
    old_ns = sf.namelist
    try:
        with tempfile.TemporaryDirectory() as d:
            p = Path(d) / "probe.f90"
            p.write_text(PROBE)
            with contextlib.redirect_stdout(io.StringIO()):
                f = sf.FortranSourceFile(str(p), ProjectSettings(preprocess=False, dbg=False))
            seen["file"] = [a for a in attrs if hasattr(f, a)]
    finally:
        for cls, orig in patched:
            cls._cleanup = orig
        sf.namelist = old_ns
    missing = [k for k in KINDS if k not in seen]
    if missing:
        raise ValueError(f"probe did not reach containers {missing}")
    return seen


def lean_list(items) -> str:
    return "[" + ", ".join(items) + "]"


def generate() -> str:
    common.import_ford()
    import ford.sourceform as sf
    from ford.settings import ProjectSettings

    cascade = extract_cascade(sf)
    attrs = hasattr_names(sf)
    table = probe_attrs(sf, attrs)
    kinds_of = lambda pred: [k for c, k in KIND_OF_CLASS.items() if pred(getattr(sf, c))]
    can_contain = kinds_of(lambda c: issubclass(c, sf._can_have_contains))
    code_units = kinds_of(lambda c: issubclass(c, sf.FortranCodeUnit))
    module_like = kinds_of(lambda c: issubclass(c, sf.FortranModule))
    interface_like = kinds_of(lambda c: issubclass(c, sf.FortranInterface))
    type_like = kinds_of(lambda c: issubclass(c, sf.FortranType))
    s = ProjectSettings()
    # END at file level calls FortranSourceFile._cleanup: does the method it resolves to
    # do anything but raise?  (`fileHasCleanup` = it returns normally)
    fc_src = textwrap.dedent(inspect.getsource(sf.FortranSourceFile._cleanup))
    fc_body = ast.parse(fc_src).body[0].body
    fc_stmts = [n for n in fc_body if not (isinstance(n, ast.Expr) and isinstance(n.value, ast.Constant))]
    file_cleanup = not (len(fc_stmts) >= 1 and isinstance(fc_stmts[0], ast.Raise))
    known_attrs = ["attr_dict", "blockdata", "modules", "submodules", "programs", "subroutines", "namelists",
                   "functions", "types", "interfaces", "enums", "boundprocs", "common", "finalprocs",
                   "variables", "uses", "calls"]
    for a in attrs:
        if a not in known_attrs:
            raise ValueError(f"cascade tests a new attribute {a!r}")
    L = ["/- GENERATED by translate/c20.py from ford/sourceform.py and ford/settings.py - do not edit -/",
         "import FordModel.NestingTypes", "namespace Ford.Gen", "open Ford", "",
         "/-- the if/elif chain of FortranContainer.__init__, in source order -/",
         "def cascade : List (Branch × Guard) :=",
         "  " + lean_list(f"(.{b}, .{g})" for b, g in cascade), "",
         "/-- attributes (tested with hasattr in the chain) present while a container of each kind parses its body -/",
         "def attrTable : List (CK × List Attr) :=",
         "  " + lean_list("(." + k + ", " + lean_list("." + a for a in table[k]) + ")" for k in KINDS), "",
         f"def canContainKinds : List CK := {lean_list('.' + k for k in can_contain)}",
         f"def codeUnitKinds : List CK := {lean_list('.' + k for k in code_units)}",
         f"def moduleLikeKinds : List CK := {lean_list('.' + k for k in module_like)}",
         f"def interfaceLikeKinds : List CK := {lean_list('.' + k for k in interface_like)}",
         f"def typeLikeKinds : List CK := {lean_list('.' + k for k in type_like)}",
         f"def fileHasCleanup : Bool := {'true' if file_cleanup else 'false'}",
         f"def dbgDefault : Bool := {'true' if s.dbg else 'false'}",
         f"def forceDefault : Bool := {'true' if s.force else 'false'}",
         "", "end Ford.Gen", ""]
    return "\n".join(L)


def translate():
    text = generate()
    common.write_if_changed(common.LEAN / "FordModel" / "Generated" / "C20.lean", text)


if __name__ == "__main__":
    print(generate())
