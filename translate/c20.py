"""Translator for C20: regenerates lean/FordModel/Generated/C20.lean from the repo.

Extracted (every run, from the working tree under test):
  * `cascade`   - the ordered if/elif chain of FortranContainer.__init__ (ast):
                  for each branch the recogniser (regex attribute or literal test)
                  and the extra guard (`blocklevel == 0`, `incontains`, the
                  MODULE PROCEDURE guard);
  * `attrTable` - for every container class, which of the attributes tested with
                  `hasattr(self, ...)` in that chain exist while the class parses
                  its body (probed by parsing a source that contains every kind
                  of container and sampling `hasattr` when its END is reached);
  * `canContainKinds`, `codeUnitKinds`, `moduleLikeKinds` - the isinstance tests
                  of the chain (`_can_have_contains`, FortranCodeUnit, FortranModule);
  * `dbgDefault`, `forceDefault` - the defaults of the two settings that decide
                  what print_error does;
  * `reservesAtParse`, `otherReservations` - which constructors ask the process-wide
                  `NameSelector` (`sourceform.namelist`) for an identifier *while the
                  file is being parsed* (probed: a source with every container kind in
                  every parent that can hold it is parsed under a selector that logs
                  `get_name`; as the code is, none does - identifiers are handed out
                  lazily, after the per-file try/except has decided about the file);
  * `eofProbes`  - what the real `FortranReader` does when the file ends in each of its
                  states (after a complete statement, inside a continued statement, inside
                  a `!>` / `!|` / `!*` block, after a doc line, ...): the items it yields,
                  that it raises, or that it does not come back within 2 s.
  * `patterns`   - every regular expression applied while a source file is read and parsed, as
                  the syntax tree `re` builds for it (see translate/c20rx.py).
  * `warnSpec`, `warnProbes`, `progressSpec`, `progressProbes`, `rejectionMsg`, `handlerSteps`,
    `emojiSample` - the diagnostic channel (see translate/c20diag.py).
A construct that cannot be found raises (the check then reports "tie broken").
"""
from __future__ import annotations

import ast
import inspect
import io
import contextlib
import os
import re
import tempfile
import textwrap
from pathlib import Path

from harness import common
from . import c20rx
from . import c20diag

KIND_OF_CLASS = {
    "FortranSourceFile": "file",
    "FortranModule": "module",
    "FortranSubmodule": "submodule",
    "FortranProgram": "program",
    "FortranSubroutine": "subroutine",
    "FortranFunction": "function",
    "FortranModuleProcedureImplementation": "modproc",
    "FortranType": "type",
    "FortranInterface": "interface",
    "FortranEnum": "enum",
    "FortranBlockData": "blockdata",
}
KINDS = list(KIND_OF_CLASS.values())

# recogniser -> Lean constructor of `Ford.Branch`
RECOG = {
    "contains": "contains", "permission": "perm", "sequence": "sequence",
    "FORMAT_RE": "format", "ATTRIB_RE": "attrib", "END_RE": "end_", "MODPROC_RE": "modproc",
    "BLOCK_DATA_RE": "blockdata", "BLOCK_RE": "block", "ASSOCIATE_RE": "associate",
    "MODULE_RE": "module", "SUBMODULE_RE": "submodule", "PROGRAM_RE": "program",
    "SUBROUTINE_RE": "subroutine", "NAMELIST_RE": "namelist", "FUNCTION_RE": "function",
    "TYPE_RE": "type", "INTERFACE_RE": "interface", "ENUM_RE": "enum", "BOUNDPROC_RE": "boundproc",
    "COMMON_RE": "common", "FINAL_RE": "final", "VARIABLE_RE": "variable", "USE_RE": "use",
    "ARITH_GOTO_RE": "arithgoto", "CALL_RE|SUBCALL_RE": "call",
}

PROBE = """\
module m
type t
end type
interface g
end interface
enum, bind(c)
end enum
contains
subroutine s()
end subroutine
function f()
end function
end module
submodule (m) sm
contains
module procedure mp
end procedure
end submodule
program p
end program
block data bd
end block data
"""


def _regex_names(node) -> list[str]:
    """names X of every `self.X.match/search(...)` call inside `node`"""
    out = []
    for n in ast.walk(node):
        if (isinstance(n, ast.Call) and isinstance(n.func, ast.Attribute) and n.func.attr in ("match", "search")
                and isinstance(n.func.value, ast.Attribute) and isinstance(n.func.value.value, ast.Name)
                and n.func.value.value.id == "self"):
            out.append(n.func.value.attr)
    return out


def _guard(test) -> str:
    src = ast.unparse(test)
    parts = []
    if "blocklevel == 0" in src:
        parts.append("block0")
    if isinstance(test, ast.BoolOp) and isinstance(test.op, ast.And):
        for v in test.values[1:]:
            s = ast.unparse(v)
            if s == "incontains":
                parts.append("incontains")
            elif s == "blocklevel == 0":
                pass
            elif "match['module']" in s and "FortranInterface" in s:
                parts.append("modprocGuard")
            else:
                raise ValueError(f"unknown guard {s!r} in {src!r}")
    if len(parts) > 1:
        raise ValueError(f"compound guard {src!r}")
    return parts[0] if parts else "always"


def extract_cascade(sf) -> list[tuple[str, str]]:
    tree = ast.parse(textwrap.dedent(inspect.getsource(sf.FortranContainer.__init__)))
    fn = tree.body[0]
    loop = next((n for n in fn.body if isinstance(n, ast.For) and ast.unparse(n.iter) == "source"), None)
    if loop is None:
        raise ValueError("`for line in source` loop not found in FortranContainer.__init__")
    chain = next((n for n in loop.body if isinstance(n, ast.If) and "contains" in ast.unparse(n.test)
                  and "line_lower" in ast.unparse(n.test)), None)
    if chain is None:
        raise ValueError("if/elif cascade not found")
    out = []
    node = chain
    while True:
        test = node.test
        src = ast.unparse(test)
        names = _regex_names(test)
        if src == "line_lower == 'contains'":
            rec = "contains"
        elif src.startswith("line_lower in ["):
            rec = "permission"
        elif src == "line_lower == 'sequence'":
            rec = "sequence"
        elif len(names) == 1:
            rec = names[0]
        elif names == ["CALL_RE", "SUBCALL_RE"] and isinstance(test, ast.BoolOp) and isinstance(test.op, ast.Or):
            rec = "CALL_RE|SUBCALL_RE"
        else:
            raise ValueError(f"unrecognised cascade test {src!r}")
        if rec not in RECOG:
            raise ValueError(f"unknown recogniser {rec!r}")
        out.append((RECOG[rec], _guard(test)))
        if len(node.orelse) == 1 and isinstance(node.orelse[0], ast.If):
            node = node.orelse[0]
        else:
            if node.orelse:
                raise ValueError("cascade ends with an else branch")
            break
    return out


def hasattr_names(sf) -> list[str]:
    names = []
    for f in (sf.FortranContainer.__init__, sf.FortranContainer._add_procedure_calls):
        tree = ast.parse(textwrap.dedent(inspect.getsource(f)))
        for n in ast.walk(tree):
            if (isinstance(n, ast.Call) and isinstance(n.func, ast.Name) and n.func.id == "hasattr"
                    and isinstance(n.args[0], ast.Name) and n.args[0].id == "self"
                    and isinstance(n.args[1], ast.Constant)):
                if n.args[1].value not in names:
                    names.append(n.args[1].value)
    if not names:
        raise ValueError("no hasattr(self, ...) tests found")
    return names


def probe_attrs(sf, attrs) -> dict[str, list[str]]:
    """class kind -> attributes present while the class parses its body"""
    from ford.settings import ProjectSettings

    seen: dict[str, list[str]] = {}
    patched = []

    def wrap(cls):
        orig = cls.__dict__.get("_cleanup")
        if orig is None:
            return

        def _cleanup(self, _orig=orig):
            k = KIND_OF_CLASS.get(type(self).__name__)
            if k is not None and k not in seen:
                seen[k] = [a for a in attrs if hasattr(self, a)]
            return _orig(self)

        cls._cleanup = _cleanup
        patched.append((cls, orig))

    classes = [getattr(sf, c) for c in KIND_OF_CLASS if c != "FortranSourceFile"] + [sf.FortranCodeUnit, sf.FortranProcedure]
    for c in dict.fromkeys(classes):
        wrap(c)
    old_ns = sf.namelist
    try:
        with tempfile.TemporaryDirectory() as d:
            p = Path(d) / "probe.f90"
            p.write_text(PROBE)
            with contextlib.redirect_stdout(io.StringIO()):
                f = sf.FortranSourceFile(str(p), ProjectSettings(preprocess=False, dbg=False))
            seen["file"] = [a for a in attrs if hasattr(f, a)]
    finally:
        for cls, orig in patched:
            cls._cleanup = orig
        sf.namelist = old_ns
    missing = [k for k in KINDS if k not in seen]
    if missing:
        raise ValueError(f"probe did not reach containers {missing}")
    return seen


# ---------------------------------------------------------------------------------------
# identifiers requested from the NameSelector while a file is parsed
# ---------------------------------------------------------------------------------------
CHILD_OPENERS = {
    "module": "module {n}", "submodule": "submodule (anc) {n}", "program": "program {n}",
    "subroutine": "subroutine {n}()", "function": "function {n}()", "modproc": "module procedure {n}",
    "type": "type {n}", "interface": "interface {n}", "enum": "enum, bind(c)", "blockdata": "block data {n}",
}
LIST_ATTR = {"module": "modules", "submodule": "submodules", "program": "programs", "subroutine": "subroutines",
             "function": "functions", "type": "types", "interface": "interfaces", "enum": "enums",
             "blockdata": "blockdata"}
NEEDS_CONTAINS = {"subroutine", "function", "modproc"}


def names_probe_source(table, module_like, code_units) -> tuple[str, set]:
    """A source in which every container kind occurs in every parent that can hold it
    (according to the hasattr table), and the set of (parent, child) pairs it contains."""
    lines: list[str] = []
    pairs: set = set()
    count = [0]

    def children_of(parent):
        out = [c for c, a in LIST_ATTR.items() if a in table[parent]]
        if parent in module_like:
            out.append("modproc")
        return out

    def emit(parent, kind, with_children):
        count[0] += 1
        name = f"n{count[0]}"
        pairs.add((parent, kind))
        lines.append(CHILD_OPENERS[kind].replace("{n}", name))
        if with_children:
            kids = children_of(kind)
            spec = [k for k in kids if k not in NEEDS_CONTAINS]
            body = [k for k in kids if k in NEEDS_CONTAINS]
            if kind == "interface":
                spec, body = kids, []
            for k in spec:
                emit(kind, k, False)
            if body:
                if kind in code_units:
                    lines.append("contains")
                for k in body:
                    emit(kind, k, False)
        lines.append("end")

    for top in children_of("file"):
        emit("file", top, True)
    # the kinds that cannot stand at file level, as parents
    lines.append("module holder")
    for k in ("interface",):
        emit("module", k, True)
    lines.append("contains")
    emit("module", "modproc", True)
    lines.append("end")
    return "".join(l + "\n" for l in lines), pairs


def probe_reservations(sf, table, module_like, code_units):
    """(parent kind, kind, directory) of every container whose identifier is requested from
    `sourceform.namelist` while FortranSourceFile(...) runs, and the number of such requests
    for anything that is not a container in a container."""
    from ford.settings import ProjectSettings

    if not hasattr(sf, "namelist") or not hasattr(sf, "NameSelector") or not hasattr(sf.NameSelector, "get_name"):
        raise ValueError("sourceform.namelist / NameSelector.get_name not found")
    src, pairs = names_probe_source(table, module_like, code_units)
    wanted = set()
    for parent in KINDS:
        kids = [c for c, a in LIST_ATTR.items() if a in table[parent]]
        if parent in module_like:
            kids.append("modproc")
        wanted |= {(parent, c) for c in kids}
    if wanted - pairs:
        raise ValueError(f"reservation probe does not contain {sorted(wanted - pairs)}")
    log = []

    class Logging(sf.NameSelector):
        def get_name(self, item):
            log.append(item)
            return super().get_name(item)

    old = sf.namelist
    sf.namelist = Logging()
    try:
        with tempfile.TemporaryDirectory() as d:
            p = Path(d) / "probe_names.f90"
            p.write_text(src)
            buf = io.StringIO()
            with contextlib.redirect_stdout(buf):
                f = sf.FortranSourceFile(str(p), ProjectSettings(preprocess=False, dbg=False))
        reached = set()

        def walk(ent, pk):
            for attr in list(LIST_ATTR.values()) + ["modprocedures"]:
                for c in getattr(ent, attr, None) or []:
                    ck = KIND_OF_CLASS.get(type(c).__name__)
                    if ck is not None:
                        reached.add((pk, ck))
                        walk(c, ck)

        walk(f, "file")
        # an interface hands its procedures over to the parent; they were parsed all the same
        reached |= {p_ for p_ in pairs if p_[0] == "interface"}
        if pairs - reached:
            raise ValueError(f"reservation probe did not parse {sorted(pairs - reached)}")
        triples, other = [], 0
        for item in log:
            ck = KIND_OF_CLASS.get(type(item).__name__)
            pk = KIND_OF_CLASS.get(type(getattr(item, "parent", None)).__name__)
            d_ = item.get_dir()
            if ck is None or pk is None or ck == "file" or not isinstance(d_, str) or not re.fullmatch(r"[a-z]+", d_):
                other += 1
            elif (pk, ck, d_) not in triples:
                triples.append((pk, ck, d_))
    finally:
        sf.namelist = old
    return triples, other


# ---------------------------------------------------------------------------------------
# what the reader does when the file ends in each of its states
# ---------------------------------------------------------------------------------------
EOF_PROBES = [
    ["module m", "integer :: x"],                 # after a complete statement
    ["module m", "integer :: x, &"],              # inside a continued statement
    ["module m", "&"],                            # a lone ampersand
    ["module m", "!> before"],                    # inside a !> block
    ["module m", "!> before", ""],                # ... followed by a blank line
    ["module m", "!> one", "!> two"],
    ["module m", "!| before", "! more"],          # inside a !| block
    ["module m", "integer :: x", "!! after"],     # after a doc line
    ["module m", "integer :: x", "!! after", ""],
    ["module m", "integer :: x", "!* after", "! more"],   # inside a !* block
    ["module m", "integer :: x, &", "!> before"],  # continued and inside a !> block
    ["module m", "x = 'abc &"],                   # inside a character literal
    ["!> before"],                                # nothing but a !> block
    ["!! after"],
    [""],
]
MARKS = ("!", ">", "*", "|")


class _ProbeTimeout(BaseException):
    pass


def probe_eof():
    import signal
    from ford.reader import FortranReader

    def on_alarm(signum, frame):
        raise _ProbeTimeout()

    out = []
    with tempfile.TemporaryDirectory() as d:
        for i, lines in enumerate(EOF_PROBES):
            p = Path(d) / f"eof{i}.f90"
            p.write_text("".join(l + "\n" for l in lines))
            old = signal.signal(signal.SIGALRM, on_alarm)
            signal.alarm(2)
            try:
                try:
                    with contextlib.redirect_stdout(io.StringIO()):
                        obs = ("items", list(FortranReader(str(p), *MARKS)))
                except _ProbeTimeout:
                    obs = ("hung", None)
                except Exception:  # noqa - the reader raised
                    obs = ("raised", None)
            finally:
                signal.alarm(0)
                signal.signal(signal.SIGALRM, old)
            out.append((lines, obs))
    return out


def lean_chars(s: str) -> str:
    def ch(c):
        if c == "'":
            return "'\\''"
        if c == "\\":
            return "'\\\\'"
        if not (32 <= ord(c) < 127):
            raise ValueError(f"character {c!r} in a generated literal")
        return f"'{c}'"
    return "[" + ", ".join(ch(c) for c in s) + "]"


def lean_list(items) -> str:
    return "[" + ", ".join(items) + "]"


def generate() -> str:
    common.import_ford()
    import ford.sourceform as sf
    from ford.settings import ProjectSettings

    cascade = extract_cascade(sf)
    attrs = hasattr_names(sf)
    table = probe_attrs(sf, attrs)
    kinds_of = lambda pred: [k for c, k in KIND_OF_CLASS.items() if pred(getattr(sf, c))]
    can_contain = kinds_of(lambda c: issubclass(c, sf._can_have_contains))
    code_units = kinds_of(lambda c: issubclass(c, sf.FortranCodeUnit))
    module_like = kinds_of(lambda c: issubclass(c, sf.FortranModule))
    interface_like = kinds_of(lambda c: issubclass(c, sf.FortranInterface))
    type_like = kinds_of(lambda c: issubclass(c, sf.FortranType))
    s = ProjectSettings()
    # END at file level calls FortranSourceFile._cleanup: does the method it resolves to
    # do anything but raise?  (`fileHasCleanup` = it returns normally)
    fc_src = textwrap.dedent(inspect.getsource(sf.FortranSourceFile._cleanup))
    fc_body = ast.parse(fc_src).body[0].body
    fc_stmts = [n for n in fc_body if not (isinstance(n, ast.Expr) and isinstance(n.value, ast.Constant))]
    file_cleanup = not (len(fc_stmts) >= 1 and isinstance(fc_stmts[0], ast.Raise))
    known_attrs = ["attr_dict", "blockdata", "modules", "submodules", "programs", "subroutines", "namelists",
                   "functions", "types", "interfaces", "enums", "boundprocs", "common", "finalprocs",
                   "variables", "uses", "calls"]
    for a in attrs:
        if a not in known_attrs:
            raise ValueError(f"cascade tests a new attribute {a!r}")
    reserves, other_res = probe_reservations(sf, table, module_like, code_units)
    eof = probe_eof()

    def obs_lean(o):
        return ".items " + lean_list(lean_chars(x) for x in o[1]) if o[0] == "items" else "." + o[0]
    L = ["/- GENERATED by translate/c20.py from ford/sourceform.py and ford/settings.py - do not edit -/",
         "import FordModel.NestingTypes", "import FordModel.Backtrack", "import FordModel.Markup", "namespace Ford.Gen", "open Ford", "",
         "/-- the if/elif chain of FortranContainer.__init__, in source order -/",
         "def cascade : List (Branch × Guard) :=",
         "  " + lean_list(f"(.{b}, .{g})" for b, g in cascade), "",
         "/-- attributes (tested with hasattr in the chain) present while a container of each kind parses its body -/",
         "def attrTable : List (CK × List Attr) :=",
         "  " + lean_list("(." + k + ", " + lean_list("." + a for a in table[k]) + ")" for k in KINDS), "",
         f"def canContainKinds : List CK := {lean_list('.' + k for k in can_contain)}",
         f"def codeUnitKinds : List CK := {lean_list('.' + k for k in code_units)}",
         f"def moduleLikeKinds : List CK := {lean_list('.' + k for k in module_like)}",
         f"def interfaceLikeKinds : List CK := {lean_list('.' + k for k in interface_like)}",
         f"def typeLikeKinds : List CK := {lean_list('.' + k for k in type_like)}",
         f"def fileHasCleanup : Bool := {'true' if file_cleanup else 'false'}",
         f"def dbgDefault : Bool := {'true' if s.dbg else 'false'}",
         f"def forceDefault : Bool := {'true' if s.force else 'false'}", "",
         "/-- (parent kind, kind, directory): containers whose constructor asks the process-wide NameSelector",
         "    for an identifier while the file is still being parsed (probed) -/",
         "def reservesAtParse : List (CK × CK × Str) :=",
         "  " + lean_list(f"(.{p}, .{c}, {lean_chars(d)})" for p, c, d in reserves),
         "/-- such requests for anything that is not a container inside a container -/",
         f"def otherReservations : Nat := {other_res}", "",
         "/-- files ending in each state of the reader (default marks) and what FortranReader does on them -/",
         "def eofProbes : List (List Str × ProbeObs) :=",
         "  [" + ",\n   ".join("(" + lean_list(lean_chars(l) for l in lines) + ", " + obs_lean(o) + ")" for lines, o in eof) + "]",
         ""] + c20rx.lean_table(lean_chars) + [""] + c20diag.lean_table() + ["", "end Ford.Gen", ""]
    return "\n".join(L)


class _TranslateTimeout(BaseException):
    pass


def translate():
    import signal

    def on_alarm(signum, frame):
        raise _TranslateTimeout()

    # the probes parse small fixed sources with the code under test; none of them may take long
    old = signal.signal(signal.SIGALRM, on_alarm)
    signal.alarm(60)
    try:
        try:
            text = generate()
        except _TranslateTimeout:
            raise ValueError("the probe sources of the translator were not parsed within 60 s") from None
    finally:
        signal.alarm(0)
        signal.signal(signal.SIGALRM, old)
    common.write_if_changed(common.LEAN / "FordModel" / "Generated" / "C20.lean", text)


if __name__ == "__main__":
    print(generate())
