"""G3 - settings schema, option separators, argparse table, intrinsic-module and
licence tables, regenerated from the working tree's `ford` package on every run
and written to lean/FordModel/Generated/C15.lean.

Raises when a construct cannot be found (counts as a broken tie, never a pass).
"""
from __future__ import annotations

import argparse
import dataclasses
import pathlib
import typing

from harness import common


def lstr(s: str) -> str:
    out = []
    for ch in s:
        if ch == '"':
            out.append('\\"')
        elif ch == "\\":
            out.append("\\\\")
        elif ch == "\n":
            out.append("\\n")
        elif ch == "\t":
            out.append("\\t")
        elif ch == "\r":
            out.append("\\r")
        else:
            out.append(ch)
    return '"' + "".join(out) + '".toList'


def tag_of(tp) -> str:
    from typing import Dict, List, Optional
    from pathlib import Path

    import ford.settings as S

    table = [
        (bool, "bool"), (int, "int"), (str, "str"), (Optional[str], "optStr"),
        (Path, "path"), (Optional[Path], "optPath"), (List[str], "listStr"),
        (List[Path], "listPath"), (Dict[str, str], "dictStr"),
        (Dict[str, S.ExtraFileType], "dictEft"), (list, "plainList"),
    ]
    for t, name in table:
        if tp == t:
            return name
    return "other"


def atom(v) -> str:
    if isinstance(v, bool):
        return f"(.bool {'true' if v else 'false'})"
    if isinstance(v, int):
        return f"(.int ({v}))"
    if isinstance(v, str):
        return f"(.str {lstr(v)})"
    if isinstance(v, pathlib.PurePath):
        return f"(.path {lstr(str(v))})"
    raise ValueError(f"default element of unsupported type: {v!r}")


def pyval(v) -> str:
    if v is None:
        return ".none"
    if isinstance(v, list):
        return ".list [" + ", ".join(atom(x) for x in v) + "]"
    if isinstance(v, dict):
        return ".dict [" + ", ".join(f"({lstr(k)}, {atom(x)})" for k, x in v.items()) + "]"
    return f".atom {atom(v)}"


def extract():
    """Return the tables as Python data (also used by the harness generators)."""
    ford = common.import_ford()
    import ford.settings as S

    hints = typing.get_type_hints(S.ProjectSettings)
    fields = dataclasses.fields(S.ProjectSettings)
    if not fields:
        raise RuntimeError("ProjectSettings has no dataclass fields")
    schema = []
    for f in fields:
        tag = tag_of(hints[f.name])
        if not f.init:
            tag = "noInit"
            default = None
        elif f.default is not dataclasses.MISSING:
            default = f.default
        elif f.default_factory is not dataclasses.MISSING:
            default = f.default_factory()
        else:
            raise RuntimeError(f"field {f.name} has no default")
        if f.name == "directory":
            default = pathlib.Path("<cwd-at-import>")  # always overwritten by normalise_paths
        schema.append((f.name, tag, default))
    seps = dict(S.OPTION_SEPARATORS)
    # argparse table: capture the parser object built by get_command_line_arguments
    captured = []
    orig = argparse.ArgumentParser.parse_args

    def fake(self, *a, **k):
        captured.append(self)
        return argparse.Namespace()

    argparse.ArgumentParser.parse_args = fake
    try:
        ford.get_command_line_arguments()
    finally:
        argparse.ArgumentParser.parse_args = orig
    if not captured:
        raise RuntimeError("get_command_line_arguments did not build an ArgumentParser")
    parser = captured[0]
    kinds = {"_AppendAction": "append", "_StoreAction": "store",
             "_StoreTrueAction": "storeTrue", "_StoreFalseAction": "storeFalse"}
    cli = []
    help_text = parser.format_help()
    for a in parser._actions:
        cn = type(a).__name__
        if cn in ("_HelpAction", "_VersionAction"):
            continue
        if a.dest in ("project_file", "config"):
            continue
        kind = kinds.get(cn, "otherAction")
        # The action's `default` is what argparse puts into the namespace when the option is
        # absent.  It is part of the table (third component): `None` means "absent"; anything
        # else is written over the file's value by convert_types_from_commandarguments
        # unconditionally (theorem `cli_table_sound` demands `none`; the model follows the table).
        # (argparse.SUPPRESS leaves the attribute out of the namespace: same as `None` for FORD)
        absent = a.default is None or a.default is argparse.SUPPRESS
        try:
            default = None if absent else pyval(a.default)
        except ValueError as e:
            raise RuntimeError(f"default of command-line option {a.dest}: {e}")
        flags = list(a.option_strings)
        if not flags:
            raise RuntimeError(f"positional argument {a.dest} not expected")
        if not any(fl in help_text for fl in flags):
            raise RuntimeError(f"option {flags} missing from --help (independent view)")
        cli.append((a.dest, kind, flags, None if absent else a.default, default))
    if not any(a.dest == "config" for a in parser._actions):
        raise RuntimeError("--config option not found")
    lic = dict(ford.LICENSES)
    return {
        "schema": schema, "seps": seps, "cli": cli,
        "intrinsic": dict(S.INTRINSIC_MODS), "licenses": lic,
        "favicon": str(S.FAVICON_PATH),
    }


def translate():
    t = extract()
    out = ["/- GENERATED by translate/c15.py from ford/settings.py and ford/__init__.py - do not edit -/",
           "import FordModel.Basic.SettingsTypes", "namespace Ford.Generated", "open Ford", ""]
    out.append("/-- (field name, type tag, default) of every `ProjectSettings` field, in declaration order -/")
    out.append("def settingsSchema : List (Str × Tag × PyVal) := [")
    out.append(",\n".join(f"  ({lstr(n)}, Tag.{tag}, {pyval(d)})" for n, tag, d in t["schema"]))
    out.append("]\n")
    out.append("/-- `OPTION_SEPARATORS` -/")
    out.append("def optionSeparators : List (Str × Str) := [")
    out.append(",\n".join(f"  ({lstr(k)}, {lstr(v)})" for k, v in t["seps"].items()))
    out.append("]\n")
    out.append("/-- (dest, action, default) of every settings-carrying argparse option, in declaration order;")
    out.append("    `none` = argparse default `None` (option absent from the namespace seen by FORD) -/")
    out.append("def cliTable : List (Str × CliKind × Option PyVal) := [")
    out.append(",\n".join(f"  ({lstr(d)}, CliKind.{k}, {'none' if dl is None else 'some (' + dl + ')'})"
                          for d, k, _, _, dl in t["cli"]))
    out.append("]\n")
    out.append("/-- `INTRINSIC_MODS` -/")
    out.append("def intrinsicMods : List (Str × Str) := [")
    out.append(",\n".join(f"  ({lstr(k)}, {lstr(v)})" for k, v in t["intrinsic"].items()))
    out.append("]\n")
    out.append("/-- `ford.LICENSES` -/")
    out.append("def licenses : List (Str × Str) := [")
    out.append(",\n".join(f"  ({lstr(k)}, {lstr(v)})" for k, v in t["licenses"].items()))
    out.append("]\n")
    out.append(f"def faviconDefault : Str := {lstr(t['favicon'])}\n")
    out.append("end Ford.Generated\n")
    common.write_if_changed(common.LEAN / "FordModel" / "Generated" / "C15.lean", "\n".join(out))
    return t
