"""G3 - settings schema, option separators, argparse table, intrinsic-module and
licence tables, regenerated from the working tree's `ford` package on every run
and written to lean/FordModel/Generated/C15.lean.

Raises when a construct cannot be found (counts as a broken tie, never a pass).
"""
from __future__ import annotations

import argparse
import dataclasses
import pathlib
import typing

from harness import common


def lstr(s: str) -> str:
    out = []
    for ch in s:
        if ch == '"':
            out.append('\\"')
        elif ch == "\\":
            out.append("\\\\")
        elif ch == "\n":
            out.append("\\n")
        elif ch == "\t":
            out.append("\\t")
        elif ch == "\r":
            out.append("\\r")
        else:
            out.append(ch)
    return '"' + "".join(out) + '".toList'


def tag_of(tp) -> str:
    from typing import Dict, List, Optional
    from pathlib import Path

    import ford.settings as S

    table = [
        (bool, "bool"), (int, "int"), (str, "str"), (Optional[str], "optStr"),
        (Path, "path"), (Optional[Path], "optPath"), (List[str], "listStr"),
        (List[Path], "listPath"), (Dict[str, str], "dictStr"),
        (Dict[str, S.ExtraFileType], "dictEft"), (list, "plainList"),
    ]
    for t, name in table:
        if tp == t:
            return name
    return "other"


def atom(v) -> str:
    if isinstance(v, bool):
        return f"(.bool {'true' if v else 'false'})"
    if isinstance(v, int):
        return f"(.int ({v}))"
    if isinstance(v, str):
        return f"(.str {lstr(v)})"
    if isinstance(v, pathlib.PurePath):
        return f"(.path {lstr(str(v))})"
    raise ValueError(f"default element of unsupported type: {v!r}")


def pyval(v) -> str:
    if v is None:
        return ".none"
    if isinstance(v, list):
        return ".list [" + ", ".join(atom(x) for x in v) + "]"
    if isinstance(v, dict):
        return ".dict [" + ", ".join(f"({lstr(k)}, {atom(x)})" for k, x in v.items()) + "]"
    return f".atom {atom(v)}"


def sentinel_tests(S):
    """The "is this option still at its default?" tests of `ProjectSettings.normalise_paths`:
    every `if` statement of the method body (top level) is read as

        if <self.FIELD | Path(self.FIELD)> == <SENTINEL>:  self.FIELD = <REPLACEMENT>

    and exported as (FIELD, compared through Path()?, str(SENTINEL), replacement kind).  The
    sentinel and the replacement are *evaluated* in the module's namespace (so renaming a
    constant does not matter); any `if` of another shape raises: the model would not know
    what the code does."""
    import ast
    import inspect
    import textwrap

    fn = S.ProjectSettings.normalise_paths
    tree = ast.parse(textwrap.dedent(inspect.getsource(fn)))
    fdef = tree.body[0]
    if not isinstance(fdef, ast.FunctionDef):
        raise RuntimeError("normalise_paths: no function definition")
    self_name = fdef.args.args[0].arg
    ns = dict(vars(S))
    ns["__file__"] = S.__file__
    pkg = pathlib.Path(S.__file__).parent

    def field_of(node):
        if isinstance(node, ast.Attribute) and isinstance(node.value, ast.Name) and node.value.id == self_name:
            return node.attr
        return None

    def ev(node):
        return eval(compile(ast.Expression(node), "<normalise_paths>", "eval"), ns)

    names = {f.name for f in dataclasses.fields(S.ProjectSettings)}
    out = []
    for st in fdef.body:
        if not isinstance(st, ast.If):
            continue
        where = f"normalise_paths line {st.lineno}: `{ast.unparse(st.test)}`"
        t = st.test
        if isinstance(t, ast.Attribute) and field_of(t) in names and not st.orelse:
            continue   # `if self.relative:` - a plain flag test (modelled as such), not a sentinel comparison
        if isinstance(t, ast.Compare) and len(t.ops) == 1 and isinstance(t.ops[0], ast.Is) and field_of(t.left) is None:
            continue   # `if directory is None:` - about the argument, not about a field
        if not (isinstance(t, ast.Compare) and len(t.ops) == 1 and isinstance(t.ops[0], ast.Eq)) or st.orelse:
            raise RuntimeError(f"{where}: a test on a settings field of a shape the model does not know")
        left, right = t.left, t.comparators[0]
        coerce = False
        fld = field_of(left)
        if fld is None and isinstance(left, ast.Call) and len(left.args) == 1 and not left.keywords \
                and field_of(left.args[0]) is not None:
            conv = ev(left.func)
            if not (isinstance(conv, type) and issubclass(conv, pathlib.PurePath)):
                raise RuntimeError(f"{where}: field compared through {ast.unparse(left.func)}, not a path class")
            coerce, fld = True, field_of(left.args[0])
        if fld is None or fld not in names:
            raise RuntimeError(f"{where}: left side is not a settings field")
        sentinel = ev(right)
        if not isinstance(sentinel, pathlib.PurePath):
            raise RuntimeError(f"{where}: sentinel {sentinel!r} is not a Path")
        if len(st.body) != 1 or not isinstance(st.body[0], ast.Assign) or len(st.body[0].targets) != 1 \
                or field_of(st.body[0].targets[0]) != fld:
            raise RuntimeError(f"{where}: body is not a single assignment to self.{fld}")
        val = st.body[0].value
        if field_of(val) == "directory":
            repl = "projectDir"
        else:
            try:
                r = ev(val)
            except Exception as e:  # noqa
                raise RuntimeError(f"{where}: replacement `{ast.unparse(val)}` cannot be evaluated: {e}")
            if r != pkg / sentinel:
                raise RuntimeError(f"{where}: replacement `{ast.unparse(val)}` is neither the project directory "
                                   f"nor the package's file of the sentinel's name")
            repl = "packageFile"
        out.append((fld, coerce, str(sentinel), repl))
    if not out:
        raise RuntimeError("normalise_paths: no sentinel test found (favicon / md_base_dir)")
    return out


def extract(strict=True):
    """Return the tables as Python data (also used by the harness generators).  `strict=False`
    (only for the harness, after `translate()` has already failed and been reported as a broken
    tie): a sentinel test of unknown shape does not raise, so that the property oracle can still
    be evaluated on the implementation and produce a concrete failing input."""
    ford = common.import_ford()
    import ford.settings as S

    hints = typing.get_type_hints(S.ProjectSettings)
    fields = dataclasses.fields(S.ProjectSettings)
    if not fields:
        raise RuntimeError("ProjectSettings has no dataclass fields")
    schema = []
    for f in fields:
        tag = tag_of(hints[f.name])
        if not f.init:
            tag = "noInit"
            default = None
        elif f.default is not dataclasses.MISSING:
            default = f.default
        elif f.default_factory is not dataclasses.MISSING:
            default = f.default_factory()
        else:
            raise RuntimeError(f"field {f.name} has no default")
        if f.name == "directory":
            default = pathlib.Path("<cwd-at-import>")  # always overwritten by normalise_paths
        schema.append((f.name, tag, default))
    seps = dict(S.OPTION_SEPARATORS)
    # argparse table: capture the parser object built by get_command_line_arguments
    captured = []
    orig = argparse.ArgumentParser.parse_args

    def fake(self, *a, **k):
        captured.append(self)
        return argparse.Namespace()

    argparse.ArgumentParser.parse_args = fake
    try:
        ford.get_command_line_arguments()
    finally:
        argparse.ArgumentParser.parse_args = orig
    if not captured:
        raise RuntimeError("get_command_line_arguments did not build an ArgumentParser")
    parser = captured[0]
    kinds = {"_AppendAction": "append", "_StoreAction": "store",
             "_StoreTrueAction": "storeTrue", "_StoreFalseAction": "storeFalse"}
    cli = []
    help_text = parser.format_help()
    for a in parser._actions:
        cn = type(a).__name__
        if cn in ("_HelpAction", "_VersionAction"):
            continue
        if a.dest in ("project_file", "config"):
            continue
        kind = kinds.get(cn, "otherAction")
        # The action's `default` is what argparse puts into the namespace when the option is
        # absent.  It is part of the table (third component): `None` means "absent"; anything
        # else is written over the file's value by convert_types_from_commandarguments
        # unconditionally (theorem `cli_table_sound` demands `none`; the model follows the table).
        # (argparse.SUPPRESS leaves the attribute out of the namespace: same as `None` for FORD)
        absent = a.default is None or a.default is argparse.SUPPRESS
        try:
            default = None if absent else pyval(a.default)
        except ValueError as e:
            raise RuntimeError(f"default of command-line option {a.dest}: {e}")
        flags = list(a.option_strings)
        if not flags:
            raise RuntimeError(f"positional argument {a.dest} not expected")
        if not any(fl in help_text for fl in flags):
            raise RuntimeError(f"option {flags} missing from --help (independent view)")
        cli.append((a.dest, kind, flags, None if absent else a.default, default))
    if not any(a.dest == "config" for a in parser._actions):
        raise RuntimeError("--config option not found")
    lic = dict(ford.LICENSES)
    return {
        "schema": schema, "seps": seps, "cli": cli,
        "intrinsic": dict(S.INTRINSIC_MODS), "licenses": lic,
        "favicon": str(S.FAVICON_PATH),
        "sentinels": _sentinels(S, strict),
        "source": _source_lookup(ford, S, strict),
    }


def source_lookup(ford, S):
    """Where `ford.load_settings` looks for the manifest, read from the source with `ast`:

    * `lookups`: the arguments of the `load_toml_settings(<arg>)` calls of `load_settings`, in source order, each
      classified as `projectDir` (the function's `directory` parameter) or `cwd` (an expression that denotes the
      working directory: `Path.cwd()`, `os.getcwd()`, `Path(".")`, `"."`, `os.curdir`, `Path()`); anything else raises;
    * the metadata fallback `load_markdown_settings(directory, ...)` must be there and be given `directory`;
    * `initialize` must compute `directory` as `os.path.dirname(args.project_file.name)` and hand the same name
      to `load_settings` and `parse_arguments`;
    * `manifest`: the file name joined to the directory in `load_toml_settings` and the chain of
      `if "<key>" not in <settings...>: return None` tests = the table path, which must be the path subscripted in the
      `ProjectSettings(**settings[...][...])` call.
    """
    import ast
    import inspect
    import textwrap

    def fn_ast(f):
        tree = ast.parse(textwrap.dedent(inspect.getsource(f)))
        node = tree.body[0]
        if not isinstance(node, ast.FunctionDef):
            raise RuntimeError(f"{f.__name__}: not a plain function")
        return node

    def callee(c):
        f = c.func
        return f.id if isinstance(f, ast.Name) else f.attr if isinstance(f, ast.Attribute) else None

    def classify(arg, param):
        src = ast.unparse(arg).replace(" ", "")
        if isinstance(arg, ast.Name) and arg.id == param:
            return "projectDir"
        cwd_spellings = {"pathlib.Path.cwd()", "Path.cwd()", "os.getcwd()", "pathlib.Path('.')", "Path('.')", "'.'",
                         "os.curdir", "pathlib.Path()", "Path()", "pathlib.Path('')", "Path('')", "''",
                         "os.path.abspath('.')", "os.path.curdir", "pathlib.Path(os.getcwd())", "Path(os.getcwd())",
                         "pathlib.Path.cwd().absolute()", "Path.cwd().resolve()", "pathlib.Path.cwd().resolve()"}
        if src in cwd_spellings:
            return "cwd"
        raise RuntimeError(f"load_settings: load_toml_settings({ast.unparse(arg)}) - directory expression of unknown shape")

    ls = fn_ast(ford.load_settings)
    params = [a.arg for a in ls.args.args]
    if "directory" not in params:
        raise RuntimeError("load_settings has no `directory` parameter")
    lookups, md_fallback = [], 0
    for node in ast.walk(ls):
        if isinstance(node, ast.Call) and callee(node) == "load_toml_settings":
            if len(node.args) != 1 or node.keywords:
                raise RuntimeError("load_settings: load_toml_settings call of unknown shape")
            lookups.append((node.lineno, node.col_offset, classify(node.args[0], "directory")))
        if isinstance(node, ast.Call) and callee(node) == "load_markdown_settings":
            if not node.args or classify(node.args[0], "directory") != "projectDir":
                raise RuntimeError("load_settings: load_markdown_settings is not given the project directory")
            md_fallback += 1
    if not lookups:
        raise RuntimeError("load_settings: no load_toml_settings call found")
    if md_fallback != 1:
        raise RuntimeError("load_settings: expected exactly one load_markdown_settings fallback")
    lookups = [k for _, _, k in sorted(lookups)]
    # initialize(): directory = os.path.dirname(args.project_file.name), passed on unchanged
    ini = fn_ast(ford.initialize)
    assigns = [n for n in ast.walk(ini) if isinstance(n, ast.Assign) and any(
        isinstance(t, ast.Name) and t.id == "directory" for t in n.targets)]
    if len(assigns) != 1 or ast.unparse(assigns[0].value).replace(" ", "") != "os.path.dirname(args.project_file.name)":
        raise RuntimeError("initialize: `directory = os.path.dirname(args.project_file.name)` not found")
    for name, pos in (("load_settings", 1), ("parse_arguments", 3)):
        calls = [n for n in ast.walk(ini) if isinstance(n, ast.Call) and callee(n) == name]
        if len(calls) != 1 or len(calls[0].args) <= pos or ast.unparse(calls[0].args[pos]) != "directory":
            raise RuntimeError(f"initialize: {name} is not called with `directory` as argument {pos}")
    # load_toml_settings: manifest name and table path
    lt = fn_ast(S.load_toml_settings)
    names = [n.right.value for n in ast.walk(lt) if isinstance(n, ast.BinOp) and isinstance(n.op, ast.Div)
             and isinstance(n.right, ast.Constant) and isinstance(n.right.value, str)]
    if len(names) != 1:
        raise RuntimeError("load_toml_settings: manifest file name not found")
    tests = []
    for n in lt.body:
        if isinstance(n, ast.If) and isinstance(n.test, ast.Compare) and len(n.test.ops) == 1 \
                and isinstance(n.test.ops[0], ast.NotIn) and isinstance(n.test.left, ast.Constant) \
                and len(n.body) == 1 and isinstance(n.body[0], ast.Return) \
                and isinstance(n.body[0].value, ast.Constant) and n.body[0].value.value is None:
            tests.append((n.test.left.value, ast.unparse(n.test.comparators[0])))
    path = [k for k, _ in tests]
    for i, (k, where) in enumerate(tests):
        exp = "settings" + "".join(f"[{p!r}]" for p in path[:i])
        if where != exp:
            raise RuntimeError(f"load_toml_settings: `{k!r} not in {where}` - expected a test on {exp}")
    kwcalls = [n for n in ast.walk(lt) if isinstance(n, ast.Call) and callee(n) == "ProjectSettings"]
    want = "settings" + "".join(f"[{p!r}]" for p in path)
    if len(kwcalls) != 1 or kwcalls[0].args or len(kwcalls[0].keywords) != 1 or kwcalls[0].keywords[0].arg is not None \
            or ast.unparse(kwcalls[0].keywords[0].value) != want or not path:
        raise RuntimeError(f"load_toml_settings: ProjectSettings(**{want}) not found")
    isfile = [n for n in lt.body if isinstance(n, ast.If) and ast.unparse(n.test) == "not filename.is_file()"]
    if len(isfile) != 1:
        raise RuntimeError("load_toml_settings: `if not filename.is_file(): return None` not found")
    return {"lookups": lookups, "manifest": names[0], "table_path": path}


def _source_lookup(ford, S, strict):
    try:
        return source_lookup(ford, S)
    except RuntimeError:
        if strict:
            raise
        return {"lookups": ["projectDir"], "manifest": "fpm.toml", "table_path": ["extra", "ford"]}


def _sentinels(S, strict):
    try:
        return sentinel_tests(S)
    except RuntimeError:
        if strict:
            raise
        return []


def probe_exclude_final_output() -> bool:
    """does `ford.parse_arguments` exclude an output directory that only the command line names?"""
    common.import_ford()
    import ford
    from ford.settings import ProjectSettings

    with common.scratch_dir("ford-probe-") as d:
        (d / "src").mkdir()
        with common.quiet():
            data, _ = ford.parse_arguments({"output_dir": "elsewhere"}, "", ProjectSettings(src_dir=["src"]), str(d))
        out = data.output_dir
        return any(str(x) == str(out) for x in data.exclude_dir)


def translate():
    t = extract()
    out = ["/- GENERATED by translate/c15.py from ford/settings.py and ford/__init__.py - do not edit -/",
           "import FordModel.Basic.SettingsTypes", "namespace Ford.Generated", "open Ford", ""]
    out.append("/-- (field name, type tag, default) of every `ProjectSettings` field, in declaration order -/")
    out.append("def settingsSchema : List (Str × Tag × PyVal) := [")
    out.append(",\n".join(f"  ({lstr(n)}, Tag.{tag}, {pyval(d)})" for n, tag, d in t["schema"]))
    out.append("]\n")
    out.append("/-- `OPTION_SEPARATORS` -/")
    out.append("def optionSeparators : List (Str × Str) := [")
    out.append(",\n".join(f"  ({lstr(k)}, {lstr(v)})" for k, v in t["seps"].items()))
    out.append("]\n")
    out.append("/-- (dest, action, default) of every settings-carrying argparse option, in declaration order;")
    out.append("    `none` = argparse default `None` (option absent from the namespace seen by FORD) -/")
    out.append("def cliTable : List (Str × CliKind × Option PyVal) := [")
    out.append(",\n".join(f"  ({lstr(d)}, CliKind.{k}, {'none' if dl is None else 'some (' + dl + ')'})"
                          for d, k, _, _, dl in t["cli"]))
    out.append("]\n")
    out.append("/-- `INTRINSIC_MODS` -/")
    out.append("def intrinsicMods : List (Str × Str) := [")
    out.append(",\n".join(f"  ({lstr(k)}, {lstr(v)})" for k, v in t["intrinsic"].items()))
    out.append("]\n")
    out.append("/-- `ford.LICENSES` -/")
    out.append("def licenses : List (Str × Str) := [")
    out.append(",\n".join(f"  ({lstr(k)}, {lstr(v)})" for k, v in t["licenses"].items()))
    out.append("]\n")
    out.append(f"def faviconDefault : Str := {lstr(t['favicon'])}\n")
    out.append("/-- the \"still the default?\" tests of `ProjectSettings.normalise_paths`, in source order:")
    out.append("    (field, compared through `Path(...)`?, sentinel, replacement) -/")
    out.append("def sentinelTests : List (Str × Bool × Str × SentinelRepl) := [")
    out.append(",\n".join(f"  ({lstr(f)}, {'true' if c else 'false'}, {lstr(sn)}, SentinelRepl.{r})" for f, c, sn, r in t["sentinels"]))
    out.append("]\n")
    src = t["source"]
    out.append("/-- the `load_toml_settings(<dir>)` attempts of `ford.load_settings`, in source order (round 6) -/")
    out.append("def tomlLookups : List LookupDir := [" + ", ".join("LookupDir." + k for k in src["lookups"]) + "]\n")
    out.append("/-- the file `load_toml_settings` opens in that directory, and the table it takes the options from -/")
    out.append(f"def manifestName : Str := {lstr(src['manifest'])}")
    out.append("def manifestTablePath : List Str := [" + ", ".join(lstr(k) for k in src["table_path"]) + "]\n")
    out.append("/-- `parse_arguments` puts the final output directory (after `--config` / `-o`) on `exclude_dir` when it is not")
    out.append("    there yet (repair 4833068); decided by running the real `parse_arguments` with `-o` -/")
    out.append(f"def excludeFinalOutputDir : Bool := {'true' if probe_exclude_final_output() else 'false'}\n")
    out.append("end Ford.Generated\n")
    common.write_if_changed(common.LEAN / "FordModel" / "Generated" / "C15.lean", "\n".join(out))
    return t
