"""Translator for C20, part 3: the diagnostic channel.

Extracted (every run, from the working tree under test):
  * `warnSpec`      - what `ford.console.warn(msg)` hands to `console.print` (ast of the function: the
                      positional arguments as pieces - literal text, the message, `escape(message)` -
                      each either a `str` (rendered as console markup) or a `rich.text.Text`; the
                      keywords `markup`, `emoji`, `sep`; the defaults of the `Console` object);
  * `warnProbes`    - what the real `warn` prints for a fixed list of messages (brackets, closing-tag
                      look-alikes, backslashes, emoji codes): the text with blanks removed, or that it
                      raised;
  * `progressSpec`  - how the progress bar of the per-file loop shows the current file
                      (`TextColumn("{task.fields[current]}", markup=...)`, `set_current(escape(...))`);
  * `progressProbes`- whether a real `ProgressBar` survives showing a fixed list of file names;
  * `rejectionMsg`  - the pieces of the message the per-file handler of `Project.__init__` passes to
                      `warn` (the path of *the file of this iteration*, the exception text);
  * `handlerSteps`  - the statements of that handler (re-raise unless dbg, warn, continue);
  * `emojiSample`   - for a fixed vocabulary of names, what rich's emoji table has.
A construct that cannot be found raises (the check then reports "tie broken").
"""
from __future__ import annotations

import ast
import contextlib
import inspect
import io
import os
import textwrap

# names that may stand between two colons in the generated file names / source lines
EMOJI_VOCAB = ["", "x", "a", "b", "m", "o", "v", "n", "i", "j", "k", "zz", "100", "1234", "on", "off", "ok",
               "end", "up", "id", "sos", "new", "free", "top", "back", "cool", "abc", "key", "warning",
               "smile", "old", "f90", "1", "2", "x-text", "zz-emoji"]

WARN_PROBES = [
    "plain message",
    "Error parsing src/solver[old].f90.\n\t()",
    "Error parsing src/m.f90.\n\tCan not start a new line in Fortran with '&': & = [/ 1.0, 2.0 /]",
    "a [/] b",
    "a [bold]b[/bold] c",
    "a [bold]b[/] c [/]",
    "x(1) = y[2] ! [3]",
    "back\\[slash] and \\[1] and \\\\[b]",
    "ends in a backslash \\",
    "ends in two \\\\",
    "colons :x: and :zz: and a :: b",
    "[x:x:] and :x[a]:",
    "[#tag] [@at] [a=b] [/a]",
    "unclosed [bracket and [a[b]",
]

PROGRESS_PROBES = ["src/plain.f90", "src/z[old].f90", "src/z[/b].f90", "src/z[/].f90", "src/z[1].f90",
                   "src/a[b]c[/b].f90", "src/z\\[/b].f90", "src/z:x:.f90"]


def strip_ws(s: str) -> str:
    return "".join(s.split())


def lc(s: str) -> str:
    """Lean `List Char` literal (any code point)"""
    def ch(c):
        if c == "'":
            return "'\\''"
        if c == "\\":
            return "'\\\\'"
        if 32 <= ord(c) < 127:
            return f"'{c}'"
        return f"Char.ofNat 0x{ord(c):x}"
    return "[" + ", ".join(ch(c) for c in s) + "]"


def lb(x: bool) -> str:
    return "true" if x else "false"


# ----------------------------------------------------------------------------------------------
# warn
# ----------------------------------------------------------------------------------------------
def _resolves_to(mod, name, target) -> bool:
    return getattr(mod, name, None) is target


def _pieces(node, param, mod) -> list[tuple[str, str]]:
    """a string-valued expression -> [("lit", text) | ("msg", "") | ("msgEscaped", "")]"""
    import rich.markup

    if isinstance(node, ast.Constant) and isinstance(node.value, str):
        return [("lit", node.value)]
    if isinstance(node, ast.Name) and node.id == param:
        return [("msg", "")]
    if isinstance(node, ast.Call) and isinstance(node.func, ast.Name) and len(node.args) == 1 and not node.keywords \
            and isinstance(node.args[0], ast.Name) and node.args[0].id == param:
        if _resolves_to(mod, node.func.id, rich.markup.escape):
            return [("msgEscaped", "")]
        if node.func.id == "str":
            return [("msg", "")]
        raise ValueError(f"the message goes through {node.func.id}(), which the translator does not know")
    if isinstance(node, ast.JoinedStr):
        out = []
        for v in node.values:
            if isinstance(v, ast.Constant):
                out.append(("lit", v.value))
            elif isinstance(v, ast.FormattedValue) and v.conversion in (-1, 115) and v.format_spec is None:
                out += _pieces(v.value, param, mod)
            else:
                raise ValueError("an f-string piece with a conversion / format spec")
        return out
    if isinstance(node, ast.BinOp) and isinstance(node.op, ast.Add):
        return _pieces(node.left, param, mod) + _pieces(node.right, param, mod)
    raise ValueError(f"argument of console.print that the translator cannot read: {ast.dump(node)[:120]}")


def _merge(ps):
    out = []
    for k, s in ps:
        if k == "lit" and out and out[-1][0] == "lit":
            out[-1] = ("lit", out[-1][1] + s)
        elif k == "lit" and s == "":
            continue
        else:
            out.append((k, s))
    return out


IGNORED_PRINT_KW = {"highlight", "style", "justify", "overflow", "no_wrap", "crop", "soft_wrap", "width", "height",
                    "new_line_start"}


def extract_warn_spec():
    import rich.console
    import rich.text
    import ford.console as fc

    tree = ast.parse(inspect.getsource(fc))
    fn = next((n for n in tree.body if isinstance(n, ast.FunctionDef) and n.name == "warn"), None)
    if fn is None:
        raise ValueError("ford/console.py has no function warn")
    params = [a.arg for a in fn.args.args]
    if len(params) != 1 or fn.args.vararg or fn.args.kwonlyargs or fn.args.kwarg:
        raise ValueError("warn() no longer takes exactly one argument")
    param = params[0]
    body = [n for n in fn.body if not (isinstance(n, ast.Expr) and isinstance(n.value, ast.Constant))]
    if len(body) != 1 or not (isinstance(body[0], ast.Expr) and isinstance(body[0].value, ast.Call)):
        raise ValueError("warn() is no longer a single call")
    call = body[0].value
    f = call.func
    if not (isinstance(f, ast.Attribute) and f.attr == "print" and isinstance(f.value, ast.Name)
            and isinstance(getattr(fc, f.value.id, None), rich.console.Console)):
        raise ValueError("warn() does not call <Console>.print")
    console = getattr(fc, f.value.id)
    if console is not fc.console:
        raise ValueError("warn() prints on another console than ford.console.console")
    args = []
    for a in call.args:
        if isinstance(a, ast.Starred):
            raise ValueError("starred argument of console.print")
        is_text = False
        # `console.highlighter(Text(...))`: a highlighted copy of the Text (styles only)
        if isinstance(a, ast.Call) and isinstance(a.func, ast.Attribute) and a.func.attr == "highlighter" \
                and isinstance(a.func.value, ast.Name) and getattr(fc, a.func.value.id, None) is console \
                and len(a.args) == 1 and not a.keywords and isinstance(a.args[0], ast.Call):
            a = a.args[0]
        if isinstance(a, ast.Call):
            fa = a.func
            if isinstance(fa, ast.Name) and _resolves_to(fc, fa.id, rich.text.Text):
                if len(a.args) != 1:
                    raise ValueError("Text(...) with other than one positional argument")
                ps = _pieces(a.args[0], param, fc)
                is_text = True
            elif isinstance(fa, ast.Attribute) and fa.attr == "assemble" and isinstance(fa.value, ast.Name) \
                    and _resolves_to(fc, fa.value.id, rich.text.Text):
                ps = []
                for part in a.args:
                    if isinstance(part, ast.Tuple):
                        part = part.elts[0]
                    ps += _pieces(part, param, fc)
                is_text = True
        if not is_text:
            ps = _pieces(a, param, fc)
        args.append(("text" if is_text else "markup", _merge(ps)))
    markup = bool(console._markup)
    emoji = bool(console._emoji)
    sep = " "
    for kw in call.keywords:
        if kw.arg in ("markup", "emoji"):
            if not (isinstance(kw.value, ast.Constant) and isinstance(kw.value.value, bool)):
                raise ValueError(f"console.print({kw.arg}=<not a constant>)")
            if kw.arg == "markup":
                markup = kw.value.value
            else:
                emoji = kw.value.value
        elif kw.arg == "sep":
            if not (isinstance(kw.value, ast.Constant) and isinstance(kw.value.value, str)):
                raise ValueError("console.print(sep=<not a constant>)")
            sep = kw.value.value
        elif kw.arg == "end":
            if not (isinstance(kw.value, ast.Constant) and kw.value.value == "\n"):
                raise ValueError("console.print(end=...) other than a newline")
        elif kw.arg not in IGNORED_PRINT_KW:
            raise ValueError(f"console.print keyword {kw.arg!r} is not known to the translator")
    if not any(k in ("msg", "msgEscaped") for _, ps in args for k, _ in ps):
        raise ValueError("warn() does not print its message")
    return {"args": args, "sep": sep, "markup": markup, "emoji": emoji}


def real_warn(msg: str):
    """-> ("shown", text without blanks) | ("raised", type name)"""
    import ford.console as fc

    buf = io.StringIO()
    try:
        with contextlib.redirect_stdout(buf), contextlib.redirect_stderr(buf):
            fc.warn(msg)
    except Exception as e:  # noqa
        return ("raised", type(e).__name__)
    return ("shown", strip_ws(buf.getvalue()))


# ----------------------------------------------------------------------------------------------
# progress bar
# ----------------------------------------------------------------------------------------------
def _is_escape_call(node, mod) -> bool:
    import rich.markup

    return (isinstance(node, ast.Call) and isinstance(node.func, ast.Name)
            and _resolves_to(mod, node.func.id, rich.markup.escape) and len(node.args) == 1)


def extract_progress_spec():
    import ford.utils as fu
    import ford.fortran_project as fp

    tree = ast.parse(inspect.getsource(fu))
    cls = next((n for n in tree.body if isinstance(n, ast.ClassDef) and n.name == "ProgressBar"), None)
    if cls is None:
        raise ValueError("ford/utils.py has no class ProgressBar")
    col = None
    for n in ast.walk(cls):
        if isinstance(n, ast.Call) and isinstance(n.func, ast.Name) and n.func.id == "TextColumn" and n.args \
                and isinstance(n.args[0], ast.Constant) and "fields[current]" in str(n.args[0].value):
            col = n
    if col is None:
        raise ValueError("ProgressBar has no TextColumn showing task.fields[current]")
    if col.args[0].value != "{task.fields[current]}":
        raise ValueError(f"the column of the current item is {col.args[0].value!r}")
    markup = True
    for kw in col.keywords:
        if kw.arg == "markup":
            if not isinstance(kw.value, ast.Constant):
                raise ValueError("TextColumn(markup=<not a constant>)")
            markup = bool(kw.value.value)
    setc = next((n for n in cls.body if isinstance(n, ast.FunctionDef) and n.name == "set_current"), None)
    if setc is None:
        raise ValueError("ProgressBar has no set_current")
    p = [a.arg for a in setc.args.args][1]
    escaped = None
    for n in ast.walk(setc):
        if isinstance(n, ast.Call) and isinstance(n.func, ast.Attribute) and n.func.attr == "update":
            for kw in n.keywords:
                if kw.arg == "current":
                    if isinstance(kw.value, ast.Name) and kw.value.id == p:
                        escaped = False
                    elif _is_escape_call(kw.value, fu) and isinstance(kw.value.args[0], ast.Name) and kw.value.args[0].id == p:
                        escaped = True
                    else:
                        raise ValueError("set_current passes something else than its argument on")
    if escaped is None:
        raise ValueError("set_current does not update the field `current`")
    # the call in the per-file loop
    init = _project_init()
    site = None
    for n in ast.walk(init):
        if isinstance(n, ast.Call) and isinstance(n.func, ast.Attribute) and n.func.attr == "set_current":
            site = n
    if site is None or len(site.args) != 1:
        raise ValueError("Project.__init__ does not call set_current(<one argument>)")
    if _is_escape_call(site.args[0], fp):
        escaped = True
    return {"markup": markup, "escaped": escaped}


def real_progress(name: str) -> bool:
    """does a real ProgressBar raise when `name` is its current item (output not a terminal)"""
    import ford.utils as fu

    saved = os.environ.pop("FORD_DEBUGGING", None)
    buf = io.StringIO()
    try:
        with contextlib.redirect_stdout(buf), contextlib.redirect_stderr(buf):
            try:
                for _ in (bar := fu.ProgressBar("probe", [1])):
                    bar.set_current(name)
            except Exception:  # noqa
                return True
        return False
    finally:
        if saved is not None:
            os.environ["FORD_DEBUGGING"] = saved


# ----------------------------------------------------------------------------------------------
# the per-file handler of Project.__init__
# ----------------------------------------------------------------------------------------------
def _project_init():
    import ford.fortran_project as fp

    src = textwrap.dedent(inspect.getsource(fp.Project.__init__))
    return ast.parse(src).body[0]


def _names(node) -> set[str]:
    return {n.id for n in ast.walk(node) if isinstance(n, ast.Name)}


def extract_handler():
    import ford.fortran_project as fp

    init = _project_init()
    loops = [n for n in ast.walk(init) if isinstance(n, ast.For) and any(isinstance(b, ast.Try) for b in n.body)]
    if len(loops) != 1:
        raise ValueError(f"Project.__init__ has {len(loops)} loops with a try statement in their body (expected the per-file loop)")
    loop = loops[0]
    if not isinstance(loop.target, ast.Name):
        raise ValueError("the per-file loop does not bind a single name")
    fname = loop.target.id
    # names assigned in the loop body (before the try) from the loop variable
    from_file = {fname}
    for st in loop.body:
        if isinstance(st, ast.Try):
            break
        if isinstance(st, ast.Assign) and len(st.targets) == 1 and isinstance(st.targets[0], ast.Name) \
                and _names(st.value) & from_file:
            from_file.add(st.targets[0].id)
    tr = next(b for b in loop.body if isinstance(b, ast.Try))
    if len(tr.handlers) != 1:
        raise ValueError("the per-file try statement has other than one handler")
    h = tr.handlers[0]
    if not (isinstance(h.type, ast.Name) and h.type.id == "Exception" and h.name):
        raise ValueError("the per-file handler is not `except Exception as <name>`")
    exc = h.name
    steps, pieces = [], None
    for st in h.body:
        if isinstance(st, ast.If) and isinstance(st.test, ast.UnaryOp) and isinstance(st.test.op, ast.Not) \
                and isinstance(st.test.operand, ast.Attribute) and st.test.operand.attr == "dbg" \
                and len(st.body) == 1 and isinstance(st.body[0], ast.Raise) and not st.orelse:
            steps.append("reraiseUnlessDbg")
        elif isinstance(st, ast.Expr) and isinstance(st.value, ast.Call) and isinstance(st.value.func, ast.Name) \
                and getattr(fp, st.value.func.id, None) is __import__("ford.console").console.warn:
            steps.append("warn")
            if len(st.value.args) != 1 or st.value.keywords:
                raise ValueError("the handler calls warn with other than one argument")
            a = st.value.args[0]
            if not isinstance(a, ast.JoinedStr):
                raise ValueError("the handler's warning is not an f-string")
            pieces = []
            for v in a.values:
                if isinstance(v, ast.Constant):
                    pieces.append(("lit", v.value))
                elif isinstance(v, ast.FormattedValue) and v.format_spec is None and v.conversion in (-1, 115):
                    nm = _names(v.value)
                    if isinstance(v.value, ast.Name) and v.value.id in from_file:
                        pieces.append(("path", ""))
                    elif exc in nm and not (nm & from_file):
                        pieces.append(("err", ""))
                    else:
                        raise ValueError(f"the handler's warning shows {ast.unparse(v.value)!r}, which is neither "
                                         "the file of this iteration nor the exception")
                else:
                    raise ValueError("the handler's warning has a formatted piece the translator cannot read")
        elif isinstance(st, ast.Continue):
            steps.append("continue_")
        elif isinstance(st, ast.Expr) and isinstance(st.value, ast.Constant):
            continue
        else:
            raise ValueError(f"the per-file handler has a statement the model does not know: {ast.unparse(st)[:80]!r}")
    if pieces is None:
        raise ValueError("the per-file handler does not call warn")
    return steps, pieces


# ----------------------------------------------------------------------------------------------
def emoji_sample():
    from rich._emoji_codes import EMOJI
    from rich._emoji_replace import _emoji_replace

    out = []
    for name in EMOJI_VOCAB:
        base = name
        for suf in ("-emoji", "-text"):
            if base.endswith(suf):
                base = base[: -len(suf)]
        rep = EMOJI.get(base.lower())
        if base != name:
            continue        # the variants are looked up under their base name
        if (rep is not None) != (_emoji_replace(f":{base}:") != f":{base}:"):
            raise ValueError(f"rich's emoji table and _emoji_replace disagree on {base!r}")
        out.append((base, rep))
    return out


def piece_lean(p) -> str:
    k, s = p
    return f".lit {lc(s)}" if k == "lit" else "." + k


def lean_table() -> list[str]:
    spec = extract_warn_spec()
    prog = extract_progress_spec()
    steps, pieces = extract_handler()
    probes = [(m, real_warn(m)) for m in WARN_PROBES]
    pprobes = [(n, real_progress(n)) for n in PROGRESS_PROBES]

    def obs(o):
        return f".shown {lc(o[1])}" if o[0] == "shown" else ".raised"

    args = ", ".join(f".{k} [" + ", ".join(piece_lean(p) for p in ps) + "]" for k, ps in spec["args"])
    L = ["/-- rich's emoji table on the vocabulary of the generators (name, replacement) -/",
         "def emojiSample : Markup.EmojiTbl :=",
         "  [" + ", ".join(f"({lc(n)}, " + ("none" if r is None else f"some {lc(r)}") + ")" for n, r in emoji_sample()) + "]", "",
         "/-- what `ford.console.warn(msg)` hands to `console.print` (ford/console.py) -/",
         "def warnSpec : Markup.WarnSpec :=",
         f"  {{ args := [{args}], sep := {lc(spec['sep'])}, markup := {lb(spec['markup'])}, emoji := {lb(spec['emoji'])} }}", "",
         "/-- the real `warn` on fixed messages: what appeared on the terminal (blanks removed), or that it raised -/",
         "def warnProbes : List (Str × Markup.Obs) :=",
         "  [" + ",\n   ".join(f"({lc(m)}, {obs(o)})" for m, o in probes) + "]", "",
         "/-- the column of the progress bar that shows the current file (ford/utils.py, ford/fortran_project.py) -/",
         f"def progressSpec : Markup.ProgSpec := {{ markup := {lb(prog['markup'])}, escaped := {lb(prog['escaped'])} }}", "",
         "/-- a real ProgressBar on fixed file names: did showing the name raise -/",
         "def progressProbes : List (Str × Bool) :=",
         "  [" + ", ".join(f"({lc(n)}, {lb(r)})" for n, r in pprobes) + "]", "",
         "/-- the statements of the per-file handler of Project.__init__ -/",
         "def handlerSteps : List Markup.HStep := [" + ", ".join("." + s for s in steps) + "]", "",
         "/-- the warning of that handler -/",
         "def rejectionMsg : List Markup.MsgPiece := [" + ", ".join(piece_lean(p) for p in pieces) + "]"]
    return L
