"""Translator for C20, part 3: the diagnostic channel.

Round 5: nothing here is read from the *spelling* of the code any more - every table is what the real
functions were seen to do on stub inputs (a local name, a helper function, a constant hoisted out of a call,
another way to build the same string change nothing; a change of behaviour does).

Obtained (every run, from the working tree under test):
  * `warnSpec`      - what `ford.console.warn(msg)` hands to `console.print` (the method of ford's console
                      object is replaced by a recorder while `warn` runs on marker messages: the positional
                      arguments as pieces - literal text, the message, `escape(message)` - each either a
                      `str` (rendered as console markup) or a `rich.text.Text`; the keywords `markup`,
                      `emoji`, `sep`; the defaults of the `Console` object);
  * `warnProbes`    - what the real `warn` prints for a fixed list of messages (brackets, closing-tag
                      look-alikes, backslashes, emoji codes): the text with blanks removed, or that it
                      raised;
  * `progressSpec`  - how the progress bar of the per-file loop shows the current file: the `TextColumn` of the
                      `Progress` object a real `ProgressBar` holds (`text_format`, `markup`), the field
                      `current` after `set_current(<name with a tag look-alike>)`, the argument the per-file
                      loop passes for a file of such a name;
  * `progressProbes`- whether a real `ProgressBar` survives showing a fixed list of file names;
  * `handlerSteps`  - what the per-file handler of `Project.__init__` does (class `HandlerProbe`: the loop is run
                      over three files, the constructor of the middle one raising; every built-in exception
                      class, every shape of `args`; with and without `dbg`): re-raise unless dbg, one call of
                      `warn` before the next file, the next file read and registered;
  * `rejectionRules`- the message of that handler as a decision list over the text of the exception: pieces
                      (literal, the path of *the file of this iteration*, the exception text) found by marker
                      decomposition; a text for which the default pieces do not explain the message (texts
                      of every `raise` in ford's reader / parser / project modules, texts the real reader
                      produces directly and through INCLUDE) has its guard - a prefix of the text - learned
                      by bisection;
  * `emojiSample`   - for a fixed vocabulary of names, what rich's emoji table has.
A probe that cannot be interpreted raises (the check then reports "tie broken").
"""
from __future__ import annotations

import ast
import contextlib
import inspect
import io
import os
import textwrap
from pathlib import Path

# names that may stand between two colons in the generated file names / source lines
EMOJI_VOCAB = ["", "x", "a", "b", "m", "o", "v", "n", "i", "j", "k", "zz", "100", "1234", "on", "off", "ok",
               "end", "up", "id", "sos", "new", "free", "top", "back", "cool", "abc", "key", "warning",
               "smile", "old", "f90", "1", "2", "x-text", "zz-emoji"]

WARN_PROBES = [
    "plain message",
    "Error parsing src/solver[old].f90.\n\t()",
    "Error parsing src/m.f90.\n\tCan not start a new line in Fortran with '&': & = [/ 1.0, 2.0 /]",
    "a [/] b",
    "a [bold]b[/bold] c",
    "a [bold]b[/] c [/]",
    "x(1) = y[2] ! [3]",
    "back\\[slash] and \\[1] and \\\\[b]",
    "ends in a backslash \\",
    "ends in two \\\\",
    "colons :x: and :zz: and a :: b",
    "[x:x:] and :x[a]:",
    "[#tag] [@at] [a=b] [/a]",
    "unclosed [bracket and [a[b]",
]

PROGRESS_PROBES = ["src/plain.f90", "src/z[old].f90", "src/z[/b].f90", "src/z[/].f90", "src/z[1].f90",
                   "src/a[b]c[/b].f90", "src/z\\[/b].f90", "src/z:x:.f90"]


def strip_ws(s: str) -> str:
    return "".join(s.split())


def lc(s: str) -> str:
    """Lean `List Char` literal (any code point)"""
    def ch(c):
        if c == "'":
            return "'\\''"
        if c == "\\":
            return "'\\\\'"
        if 32 <= ord(c) < 127:
            return f"'{c}'"
        return f"Char.ofNat 0x{ord(c):x}"
    return "[" + ", ".join(ch(c) for c in s) + "]"


def lb(x: bool) -> str:
    return "true" if x else "false"


# ----------------------------------------------------------------------------------------------
# warn  (round 5: observed - what `console.print` is handed - not read from the source)
# ----------------------------------------------------------------------------------------------
def _merge(ps):
    out = []
    for k, s in ps:
        if k == "lit" and out and out[-1][0] == "lit":
            out[-1] = ("lit", out[-1][1] + s)
        elif k == "lit" and s == "":
            continue
        else:
            out.append((k, s))
    return out


IGNORED_PRINT_KW = {"highlight", "style", "justify", "overflow", "no_wrap", "crop", "soft_wrap", "width", "height",
                    "new_line_start"}
# messages for the probe: each contains a style tag look-alike, so that `msg` and `escape(msg)` differ
WARN_MARKS = ["QZ[b]the-messageZQ", "QZ[/x] second \\[1] :x: messageZQ"]


def _msg_pieces(text: str, mark: str) -> list[tuple[str, str]]:
    """a string handed to console.print -> [("lit", text) | ("msg", "") | ("msgEscaped", "")]"""
    from rich.markup import escape

    esc = escape(mark)
    out, lit, i = [], "", 0
    while i < len(text):
        if text.startswith(mark, i):
            k, n = "msg", len(mark)
        elif esc != mark and text.startswith(esc, i):
            k, n = "msgEscaped", len(esc)
        else:
            lit += text[i]
            i += 1
            continue
        out += [("lit", lit), (k, "")]
        lit = ""
        i += n
    out.append(("lit", lit))
    out = _merge(out)
    for k, s_ in out:
        if k == "lit" and ("QZ" in s_ or "ZQ" in s_):
            raise ValueError(f"warn() hands its message to console.print through something the translator does not know: {text!r}")
    return out


def _observe_print(mark: str):
    """call the real `warn(mark)` with `print` of ford's console replaced by a recorder"""
    import rich.console
    import rich.text
    import ford.console as fc

    if not isinstance(getattr(fc, "console", None), rich.console.Console):
        raise ValueError("ford.console.console is not a rich Console")
    console = fc.console
    calls = []
    console.print = lambda *a, **k: calls.append((a, k))      # instance attribute: shadows the method
    try:
        with contextlib.redirect_stdout(io.StringIO()), contextlib.redirect_stderr(io.StringIO()):
            fc.warn(mark)
    finally:
        del console.print
    if len(calls) != 1:
        raise ValueError(f"warn() calls ford.console.console.print {len(calls)} times (expected once)")
    a, k = calls[0]
    args = []
    for x in a:
        if isinstance(x, rich.text.Text):
            args.append(("text", _msg_pieces(x.plain, mark)))
        elif isinstance(x, str):
            args.append(("markup", _msg_pieces(x, mark)))
        else:
            raise ValueError(f"warn() hands console.print an object of type {type(x).__name__}")
    markup, emoji, sep = bool(console._markup), bool(console._emoji), " "
    for name, v in k.items():
        if name in ("markup", "emoji"):
            if v is None:
                continue
            if not isinstance(v, bool):
                raise ValueError(f"console.print({name}=<not a bool>)")
            if name == "markup":
                markup = v
            else:
                emoji = v
        elif name == "sep":
            if not isinstance(v, str):
                raise ValueError("console.print(sep=<not a string>)")
            sep = v
        elif name == "end":
            if v != "\n":
                raise ValueError("console.print(end=...) other than a newline")
        elif name not in IGNORED_PRINT_KW:
            raise ValueError(f"console.print keyword {name!r} is not known to the translator")
    if not any(kk in ("msg", "msgEscaped") for _, ps in args for kk, _ in ps):
        raise ValueError("warn() does not print its message")
    return {"args": args, "sep": sep, "markup": markup, "emoji": emoji}


def extract_warn_spec():
    """what `ford.console.warn(msg)` hands to `console.print`: the positional arguments as pieces (literal
    text, the message, `escape(message)`), each a `str` (rendered as markup) or a `Text`; `markup`, `emoji`,
    `sep`.  Observed on two messages (the answers must agree); that the function does the same for every
    message is what `warnProbes` (theorem `warn_probes`) and the harness's warn correspondence check."""
    import inspect as _inspect
    import ford.console as fc

    fn = getattr(fc, "warn", None)
    if not callable(fn):
        raise ValueError("ford/console.py has no function warn")
    params = list(_inspect.signature(fn).parameters.values())
    if len([p_ for p_ in params if p_.default is p_.empty and p_.kind in (p_.POSITIONAL_ONLY, p_.POSITIONAL_OR_KEYWORD)]) != 1:
        raise ValueError("warn() no longer takes exactly one argument")
    specs = [_observe_print(m) for m in WARN_MARKS]
    if any(sp != specs[0] for sp in specs[1:]):
        raise ValueError(f"warn() hands different things to console.print for different messages: {specs}")
    return specs[0]


def real_warn(msg: str):
    """-> ("shown", text without blanks) | ("raised", type name)"""
    import ford.console as fc

    buf = io.StringIO()
    try:
        with contextlib.redirect_stdout(buf), contextlib.redirect_stderr(buf):
            fc.warn(msg)
    except Exception as e:  # noqa
        return ("raised", type(e).__name__)
    return ("shown", strip_ws(buf.getvalue()))


# ----------------------------------------------------------------------------------------------
# progress bar
# ----------------------------------------------------------------------------------------------
def extract_progress_spec():
    """how the progress bar of the per-file loop shows the current file: is the column that shows
    `task.fields[current]` rendered as markup, and is the path escaped on its way there (by `set_current`, or
    at the call in `Project.__init__`).  Observed on the real objects: the columns of the `Progress` a
    `ProgressBar` builds, the field after `set_current(<name with a tag look-alike>)`, the argument the
    per-file loop passes for a file of that name."""
    import rich.progress
    from rich.markup import escape
    import ford.utils as fu

    if not isinstance(getattr(fu, "ProgressBar", None), type):
        raise ValueError("ford/utils.py has no class ProgressBar")
    saved = os.environ.get("FORD_DEBUGGING")
    os.environ["FORD_DEBUGGING"] = "1"          # the Progress object is built, nothing is drawn
    try:
        with contextlib.redirect_stdout(io.StringIO()), contextlib.redirect_stderr(io.StringIO()):
            bar = fu.ProgressBar("probe", [1])
            progs = [v for v in vars(bar).values() if isinstance(v, rich.progress.Progress)]
            if len(progs) != 1:
                raise ValueError(f"a ProgressBar holds {len(progs)} rich Progress objects")
            cols = [c for c in progs[0].columns if isinstance(c, rich.progress.TextColumn) and "current" in c.text_format]
            if len(cols) != 1:
                raise ValueError("ProgressBar has no (single) TextColumn showing task.fields[current]")
            if cols[0].text_format != "{task.fields[current]}":
                raise ValueError(f"the column of the current item is {cols[0].text_format!r}")
            markup = bool(cols[0].markup)
            mark = "QZ[b]current-itemZQ"
            for _ in bar:
                bar.set_current(mark)
            shown = [t.fields.get("current") for t in progs[0].tasks]
    finally:
        if saved is None:
            os.environ.pop("FORD_DEBUGGING", None)
        else:
            os.environ["FORD_DEBUGGING"] = saved
    if shown == [mark]:
        escaped = False
    elif shown == [escape(mark)]:
        escaped = True
    else:
        raise ValueError(f"set_current passes something else than its argument on: {shown!r}")
    # the call in the per-file loop
    hp = HandlerProbe()
    try:
        o = hp.run(None, True)
    finally:
        hp.close()
    cur = [m for k, m in o["events"] if k == "current"]
    if o["escaped"] is not None or len(cur) != 3:
        raise ValueError("Project.__init__ does not call set_current once per file")
    if cur[1] == escape(hp.relpath) != hp.relpath:
        escaped = True
    elif cur[1] != hp.relpath:
        raise ValueError(f"the per-file loop shows {cur[1]!r} as the current file, not its relative path {hp.relpath!r}")
    return {"markup": markup, "escaped": escaped}


def real_progress(name: str) -> bool:
    """does a real ProgressBar raise when `name` is its current item (output not a terminal)"""
    import ford.utils as fu

    saved = os.environ.pop("FORD_DEBUGGING", None)
    buf = io.StringIO()
    try:
        with contextlib.redirect_stdout(buf), contextlib.redirect_stderr(buf):
            try:
                for _ in (bar := fu.ProgressBar("probe", [1])):
                    bar.set_current(name)
            except Exception:  # noqa
                return True
        return False
    finally:
        if saved is not None:
            os.environ["FORD_DEBUGGING"] = saved


# ----------------------------------------------------------------------------------------------
# the per-file handler of Project.__init__  (round 5: observed, not read)
# ----------------------------------------------------------------------------------------------
ERR_MARK = "QZ-the-exception-text-ZQ"
PROBE_FILE = "p1_QZ[b]probedfileZQ.f90"


def err_text(exc) -> str:
    """the text of an exception as the model's `err`: its first argument (formatted), `()` when it has none"""
    return format(exc.args[0]) if len(exc.args) > 0 else "()"


class HandlerProbe:
    """Runs the real per-file loop of `Project.__init__` over three files (two small valid ones and,
    between them, one whose constructor raises a given exception) and says what happened: which
    files were read, what `warn` was given and when, what left the loop, what is registered."""

    def __init__(self):
        import tempfile

        self.tmp = tempfile.TemporaryDirectory(prefix="c20handler")
        self.root = Path(self.tmp.name)
        self.src = self.root / "probe_src"
        self.src.mkdir()
        (self.src / "p0_first.f90").write_text("module p_first\nend module p_first\n")
        (self.src / PROBE_FILE).write_text("module p_probe\nend module p_probe\n")
        (self.src / "p2_last.f90").write_text("module p_last\nend module p_last\n")
        self.relpath = os.path.join("probe_src", PROBE_FILE)
        self.runs = 0

    def close(self):
        self.tmp.cleanup()

    def run(self, exc, dbg=True):
        import ford.fortran_project as fp
        import ford.sourceform as sf
        from ford.settings import ProjectSettings

        import ford.console as fc

        self.runs += 1
        events = []
        orig_ff, orig_warn, orig_cwarn = fp.Project._fortran_file, fp.warn, fc.warn

        def ff(self_, extension, filename, settings):
            name = Path(filename).name
            events.append(("file", name))
            if name == PROBE_FILE and exc is not None:
                raise exc
            return orig_ff(self_, extension, filename, settings)

        def warn(*a, **k):
            events.append(("warn", a[0] if a else next(iter(k.values()), None)))

        import ford.utils as fu
        orig_sc = fu.ProgressBar.set_current

        def set_current(self_, current, *a, **k):
            events.append(("current", current))
            return orig_sc(self_, current, *a, **k)

        cwd = os.getcwd()
        saved_ns = sf.namelist
        saved_env = os.environ.get("FORD_DEBUGGING")
        escaped, proj = None, None
        try:
            os.environ["FORD_DEBUGGING"] = "1"
            fp.Project._fortran_file, fp.warn = ff, warn
            fc.warn = warn              # (a handler that reaches the function through its module)
            fu.ProgressBar.set_current = set_current
            os.chdir(self.root)
            with contextlib.redirect_stdout(io.StringIO()), contextlib.redirect_stderr(io.StringIO()):
                try:
                    proj = fp.Project(ProjectSettings(src_dir=[self.src], preprocess=False, dbg=dbg))
                except Exception as e:  # noqa - observed
                    escaped = e
        finally:
            fp.Project._fortran_file, fp.warn = orig_ff, orig_warn
            fc.warn = orig_cwarn
            fu.ProgressBar.set_current = orig_sc
            sf.namelist = saved_ns
            os.chdir(cwd)
            if saved_env is None:
                os.environ.pop("FORD_DEBUGGING", None)
            else:
                os.environ["FORD_DEBUGGING"] = saved_env
        return {"events": events, "escaped": escaped,
                "registered": None if proj is None else [f.name for f in proj.files]}

    def message(self, exc):
        """the one message `warn` is given for the probed file under dbg (None: the run did not go as in `classify`)"""
        o = self.run(exc, True)
        return self._one_warning(o)

    @staticmethod
    def _one_warning(o):
        ev = o["events"]
        if o["escaped"] is not None or ("file", PROBE_FILE) not in ev:
            return None
        i = ev.index(("file", PROBE_FILE))
        j = next((k for k in range(i + 1, len(ev)) if ev[k][0] == "file"), len(ev))
        ws = [m for kind, m in ev[i + 1:j] if kind == "warn"]
        return ws[0] if len(ws) == 1 and isinstance(ws[0], str) else None

    def steps(self, exc) -> tuple[str, ...]:
        """the behaviour of the handler on this exception, in the vocabulary of `Markup.HStep`"""
        out = []
        o = self.run(exc, False)
        if o["escaped"] is exc and not any(k == "warn" for k, _ in o["events"]) \
                and ("file", "p2_last.f90") not in o["events"]:
            out.append("reraiseUnlessDbg")
        o = self.run(exc, True)
        ev = o["events"]
        if o["escaped"] is not None:
            out.append("escapes")
            return tuple(out)
        i = ev.index(("file", PROBE_FILE))
        j = next((k for k in range(i + 1, len(ev)) if ev[k][0] == "file"), len(ev))
        nwarn = len([1 for kind, _ in ev[i + 1:j] if kind == "warn"])
        if nwarn == 1 and len([1 for kind, _ in ev if kind == "warn"]) == 1:
            out.append("warn")
        elif nwarn == 0:
            out.append("silent")
        else:
            out += ["warn"] * nwarn
        if ("file", "p2_last.f90") in ev[j:j + 1] and o["registered"] == ["p0_first.f90", "p2_last.f90"]:
            out.append("continue_")
        return tuple(out)


def probe_exceptions():
    """one instance of every built-in exception class the handler can meet (`Exception` and below)"""
    import builtins

    out = []
    for name in sorted(vars(builtins)):
        cls = getattr(builtins, name)
        if not (isinstance(cls, type) and issubclass(cls, Exception)) or issubclass(cls, Warning):
            continue
        if any(c is cls for c, _ in out):
            continue            # an alias (EnvironmentError, IOError)
        try:
            if issubclass(cls, UnicodeDecodeError):
                e = cls("utf-8", b"caf\xe9", 3, 4, ERR_MARK)
            elif issubclass(cls, UnicodeEncodeError):
                e = cls("utf-8", "caf\xe9", 3, 4, ERR_MARK)
            elif issubclass(cls, UnicodeTranslateError):
                e = cls("caf\xe9", 3, 4, ERR_MARK)
            elif name.endswith("ExceptionGroup"):
                e = cls(ERR_MARK, [ValueError(1)])
            else:
                e = cls(ERR_MARK)
        except Exception:  # noqa - a class that cannot be built this way is not probed
            continue
        out.append((cls, e))
    return out


def raise_site_texts() -> list[str]:
    """the texts FORD's own code raises inside the per-file try: every `raise X(<string>)` of the
    reader / parser / project modules, placeholders filled with a neutral word"""
    import ford.reader, ford.sourceform, ford.fortran_project, ford.utils  # noqa

    def text_of(node):
        if isinstance(node, ast.Constant) and isinstance(node.value, str):
            return node.value
        if isinstance(node, ast.JoinedStr):
            return "".join(v.value if isinstance(v, ast.Constant) else "subst" for v in node.values)
        if isinstance(node, ast.BinOp) and isinstance(node.op, ast.Add):
            a, b_ = text_of(node.left), text_of(node.right)
            return None if a is None or b_ is None else a + b_
        if isinstance(node, ast.Name):
            return "subst"
        return None

    out = []
    for mod in (ford.reader, ford.sourceform, ford.fortran_project, ford.utils):
        tree = ast.parse(inspect.getsource(mod))
        assigned = {}
        for n in ast.walk(tree):
            if isinstance(n, ast.Assign) and len(n.targets) == 1 and isinstance(n.targets[0], ast.Name):
                t = text_of(n.value) if not isinstance(n.value, ast.Name) else None
                if t is not None:
                    assigned.setdefault(n.targets[0].id, t)
        for n in ast.walk(tree):
            if isinstance(n, ast.Raise) and isinstance(n.exc, ast.Call) and n.exc.args:
                a = n.exc.args[0]
                t = assigned.get(a.id) if isinstance(a, ast.Name) else text_of(a)
                if t is not None and t not in out:
                    out.append(t)
    return out


def real_reader_error_texts() -> list[str]:
    """the texts the real reader raises on its error lines, in a file read directly and in a file read
    through INCLUDE (one and two levels deep)"""
    import tempfile
    import ford.reader as fr

    lines = ["& x = 1", "x = 1 !> doc after code", "integer :: y !| doc", "x = 2 !* doc", 'include "no_such_file.inc"']
    out = []
    with tempfile.TemporaryDirectory(prefix="c20reader") as d:
        d = Path(d)
        for ln in lines:
            (d / "leaf.inc").write_text(f"integer :: a\n{ln}\n")
            (d / "mid.inc").write_text('integer :: b\ninclude "leaf.inc"\n')
            (d / "direct.f90").write_text(f"module m\n{ln}\nend module m\n")
            (d / "one.f90").write_text('module m\ninclude "leaf.inc"\nend module m\n')
            (d / "two.f90").write_text('module m\ninclude "mid.inc"\nend module m\n')
            for top in ("direct.f90", "one.f90", "two.f90"):
                try:
                    with contextlib.redirect_stdout(io.StringIO()), contextlib.redirect_stderr(io.StringIO()):
                        list(fr.FortranReader(str(d / top), "!", ">", "*", "|", inc_dirs=[str(d)]))
                except Exception as e:  # noqa - the text is what is wanted
                    t = err_text(e).replace(str(d), "/probe")
                    if t not in out:
                        out.append(t)
    return out


def _decompose(msg: str, relpath: str, err: str | None):
    """the message as pieces: the path of the probed file, the exception text, literal text"""
    out, lit, i = [], "", 0
    while i < len(msg):
        if msg.startswith(relpath, i):
            k, n = "path", len(relpath)
        elif err and msg.startswith(err, i):
            k, n = "err", len(err)
        else:
            lit += msg[i]
            i += 1
            continue
        if lit:
            out.append(("lit", lit))
            lit = ""
        out.append((k, ""))
        i += n
    if lit:
        out.append(("lit", lit))
    for k, s_ in out:
        if k == "lit" and (PROBE_FILE in s_ or "c20handler" in s_):
            raise ValueError("the handler's warning names the file in another way than by the path relative to "
                             f"the working directory: {msg!r}")
    return out


def _assemble(pieces, relpath, err):
    return "".join(s_ if k == "lit" else relpath if k == "path" else err for k, s_ in pieces)


def _apply_rules(rules, relpath, err):
    for g, ps in rules:
        if g is None or err.startswith(g):
            return _assemble(ps, relpath, err)
    return None


def extract_handler():
    """-> (steps, rules): the behaviour of the per-file handler and its message as a decision list over
    the exception text [(prefix of the text | None = any, pieces)].

    Nothing is read from the source of the handler: the loop is *run* with a constructor that raises -
    every built-in exception class, every shape of `args`, every text FORD's own code raises (and
    the texts the real reader produces, also through INCLUDE) - and the calls of `warn` are watched.
    A local name, a helper function, another spelling of the same expression change nothing here; a
    handler that lets some exception through, stops the loop, says nothing, or says something
    that depends on the exception in a way the decision list cannot express, does."""
    hp = HandlerProbe()
    try:
        # ---- behaviour, per exception class (they must all be treated alike)
        by_steps = {}
        for cls, e in probe_exceptions():
            by_steps.setdefault(hp.steps(e), []).append(cls.__name__)
        shapes = [(), (ERR_MARK,), (ERR_MARK, "second"), (3,), ((ERR_MARK, "b"),), (None,), ("",)]
        for a in shapes:
            by_steps.setdefault(hp.steps(Exception(*a)), []).append(f"Exception{a!r}")
        if len(by_steps) != 1:
            # the odd ones out decide (a class that escapes, a shape that is not warned about)
            minority = min(by_steps.items(), key=lambda kv: len(kv[1]))
            steps = list(minority[0])
            note = f"not uniform: {minority[1][:4]} are treated as {list(minority[0])}"
        else:
            steps = list(next(iter(by_steps)))
            note = f"uniform over {sum(len(v) for v in by_steps.values())} probes"
        majority = max(by_steps.items(), key=lambda kv: len(kv[1]))[0]
        if "warn" not in majority:
            return steps, [(None, [("lit", "")])], note
        uniform = len(by_steps) == 1
        # ---- the message: default pieces, from a text that is nothing but a marker
        rel = hp.relpath
        msg = hp.message(Exception(ERR_MARK))
        if msg is None:
            raise ValueError("the per-file handler does not give one string to warn() for a plain Exception")
        default = _decompose(msg, rel, ERR_MARK)
        rules = [(None, default)]
        # ---- every text: does the decision list explain what warn() was given?
        texts = [ERR_MARK, "", " ", "()", rel, "\n", "{x} %s", "In", "Error", "Warning"]
        texts += raise_site_texts() + real_reader_error_texts()
        probes = [Exception(t) for t in dict.fromkeys(texts)] + [Exception(*a) for a in shapes] \
            + [e for _, e in probe_exceptions()]
        for e in probes:
            t = err_text(e)
            got = hp.message(e)
            if got == _apply_rules(rules, rel, t):
                continue
            if got is None and not uniform:
                continue        # one of the exceptions that are treated differently (see `steps`)
            if got is None:
                raise ValueError(f"the per-file handler does not give one string to warn() for {e!r}")
            if not (len(e.args) == 1 and isinstance(e.args[0], str)):
                raise ValueError(f"the handler's warning for {e!r} is {got!r}: it depends on the shape of the "
                                 "exception's arguments in a way the model cannot express")
            # learn the guard: the shortest prefix of the text that makes the difference
            def deviates(prefix):
                tt = prefix + ERR_MARK
                return hp.message(Exception(tt)) != _assemble(default, rel, tt)
            lo, hi = 0, len(t)
            if not deviates(t[:hi]):
                raise ValueError(f"the handler's warning for the exception text {t!r} is {got!r}, and the "
                                 "difference is not decided by a prefix of the text")
            while lo < hi:
                mid = (lo + hi) // 2
                if deviates(t[:mid]):
                    hi = mid
                else:
                    lo = mid + 1
            pre = t[:lo]
            if pre == "" or deviates("x" + pre) and not deviates("x"):
                raise ValueError(f"the handler's warning depends on the exception text ({t!r} -> {got!r}) in a way "
                                 "the model cannot express (not a prefix test)")
            tt = pre + ERR_MARK
            pieces = _decompose(hp.message(Exception(tt)), rel, tt)
            rules.insert(len(rules) - 1, (pre, pieces))
            rules.sort(key=lambda r: (r[0] is None, -len(r[0] or "")))
            if hp.message(e) != _apply_rules(rules, rel, t):
                raise ValueError(f"the handler's warning for the exception text {t!r} is {got!r}; the learned rule "
                                 f"(prefix {pre!r} -> {pieces}) does not explain it")
        return steps, rules, note + f"; {hp.runs} runs of the loop"
    finally:
        hp.close()


# ----------------------------------------------------------------------------------------------
def emoji_sample():
    from rich._emoji_codes import EMOJI
    from rich._emoji_replace import _emoji_replace

    out = []
    for name in EMOJI_VOCAB:
        base = name
        for suf in ("-emoji", "-text"):
            if base.endswith(suf):
                base = base[: -len(suf)]
        rep = EMOJI.get(base.lower())
        if base != name:
            continue        # the variants are looked up under their base name
        if (rep is not None) != (_emoji_replace(f":{base}:") != f":{base}:"):
            raise ValueError(f"rich's emoji table and _emoji_replace disagree on {base!r}")
        out.append((base, rep))
    return out


def piece_lean(p) -> str:
    k, s = p
    return f".lit {lc(s)}" if k == "lit" else "." + k


def lean_table() -> list[str]:
    spec = extract_warn_spec()
    prog = extract_progress_spec()
    steps, rules, hnote = extract_handler()
    probes = [(m, real_warn(m)) for m in WARN_PROBES]
    pprobes = [(n, real_progress(n)) for n in PROGRESS_PROBES]

    def obs(o):
        return f".shown {lc(o[1])}" if o[0] == "shown" else ".raised"

    args = ", ".join(f".{k} [" + ", ".join(piece_lean(p) for p in ps) + "]" for k, ps in spec["args"])
    L = ["/-- rich's emoji table on the vocabulary of the generators (name, replacement) -/",
         "def emojiSample : Markup.EmojiTbl :=",
         "  [" + ", ".join(f"({lc(n)}, " + ("none" if r is None else f"some {lc(r)}") + ")" for n, r in emoji_sample()) + "]", "",
         "/-- what `ford.console.warn(msg)` hands to `console.print` (ford/console.py) -/",
         "def warnSpec : Markup.WarnSpec :=",
         f"  {{ args := [{args}], sep := {lc(spec['sep'])}, markup := {lb(spec['markup'])}, emoji := {lb(spec['emoji'])} }}", "",
         "/-- the real `warn` on fixed messages: what appeared on the terminal (blanks removed), or that it raised -/",
         "def warnProbes : List (Str × Markup.Obs) :=",
         "  [" + ",\n   ".join(f"({lc(m)}, {obs(o)})" for m, o in probes) + "]", "",
         "/-- the column of the progress bar that shows the current file (ford/utils.py, ford/fortran_project.py) -/",
         f"def progressSpec : Markup.ProgSpec := {{ markup := {lb(prog['markup'])}, escaped := {lb(prog['escaped'])} }}", "",
         "/-- a real ProgressBar on fixed file names: did showing the name raise -/",
         "def progressProbes : List (Str × Bool) :=",
         "  [" + ", ".join(f"({lc(n)}, {lb(r)})" for n, r in pprobes) + "]", "",
         f"/-- the behaviour of the per-file handler of Project.__init__, observed ({hnote}) -/",
         "def handlerSteps : List Markup.HStep := [" + ", ".join("." + s for s in steps) + "]", "",
         "/-- the warning of that handler: decision list over the text of the exception -/",
         "def rejectionRules : List (Markup.ErrGuard × List Markup.MsgPiece) :=",
         "  [" + ",\n   ".join("(" + (".any" if g is None else f".errPrefix {lc(g)}") + ", ["
                               + ", ".join(piece_lean(p) for p in ps) + "])" for g, ps in rules) + "]"]
    return L
