"""C20, table `patterns`: every regular expression FORD applies while it reads and parses a
source file, as the abstract syntax tree that `re` itself builds for it.

Collected from the working tree under test (nothing is listed by hand):
  * static  - every compiled pattern object that is a module attribute or a class attribute
              (recursively) of ford.reader, ford.sourceform, ford.utils, ford.fortran_project;
  * dynamic - every (pattern, flags) that goes through `re._compile` while a probe source is
              read and parsed (patterns built at run time: `VARIABLE_RE`, the doc-mark patterns
              of the reader, ...), named after the function that asked for it;
  * inline  - every `re.<function>("literal", ...)` call in the source text of those modules
              (ast), whether the probe reaches it or not.
Each pattern is parsed with `re._parser.parse` (the parser `re.compile` uses) and converted to
the constructors of `Ford.Rx` (FordModel/Backtrack.lean); character sets become bit masks over
the ASCII codes, obtained by asking `re` itself about every code for the category escapes.
An operator the model does not have raises (the check then reports "tie broken").
"""
from __future__ import annotations

import ast
import contextlib
import hashlib
import inspect
import io
import re
import signal
import sys
import tempfile
from pathlib import Path

import re._constants as _K
import re._parser as _P

ALL = (1 << 128) - 1
MODULES = ("ford.reader", "ford.sourceform", "ford.utils", "ford.fortran_project")

PROBE = """\
!! file doc
module m
  !! doc
  use iso_fortran_env, only: r8 => real64
  implicit none
  private
  integer, parameter :: n = 3
    !! doc of n
  real(kind=r8), dimension(n), public :: x = 1.0_r8
  character(len=*), parameter :: s = "a 'quoted' string" ! comment
  type, public :: t
    integer :: c
  contains
    procedure :: p => t_p
    generic :: g => p
    final :: t_f
  end type t
  type(t) :: v
  interface gen
    module procedure s1
  end interface gen
  enum, bind(c)
    enumerator :: e1 = 1
  end enum
  namelist /grp/ n, x
  common /blk/ y, z
  save :: y
contains
  !> pre doc
  subroutine s1(a, b)
    integer, intent(in) :: a
    real, intent(out), optional :: b
    call s2(a); b = f(a) + v%c
10  format (i3)
    go to (10, 20) a
20  continue
    associate (q => v%c)
      block
        integer :: w
      end block
    end associate
  end subroutine s1
  pure integer function f(a) result(r)
    integer, intent(in) :: a
    r = a
  end function f
  subroutine t_p(self)
    class(t) :: self
  end subroutine
  subroutine t_f(self)
    type(t) :: self
  end subroutine
  subroutine s2(a)
    integer :: a
  end subroutine
end module m
submodule (m) sm
contains
  module procedure mp
  end procedure
end submodule
program p
  use m
  call s1(1)
end program
block data bd
  common /blk/ y, z
  data y /1/
end block data
"""


def _static(mods) -> dict:
    out: dict = {}

    def walk(ns, label, depth=0):
        for k, v in list(vars(ns).items()):
            if isinstance(v, re.Pattern):
                out.setdefault((v.pattern, v.flags), f"{label}.{k}")
            elif inspect.isclass(v) and v.__module__ == getattr(ns, "__name__", getattr(ns, "__module__", None)) and depth < 3:
                walk(v, f"{label}.{k}", depth + 1)

    for m in mods:
        walk(m, m.__name__.split(".")[-1])
    return out


def _inline(mods) -> dict:
    """re.<fn>("literal" [, ..., flags]) calls in the source text"""
    out: dict = {}
    for m in mods:
        tree = ast.parse(inspect.getsource(m))
        short = m.__name__.split(".")[-1]
        counter: dict = {}

        def visit(node, owner):
            for child in ast.iter_child_nodes(node):
                o = owner
                if isinstance(child, (ast.FunctionDef, ast.ClassDef, ast.AsyncFunctionDef)):
                    o = f"{owner}.{child.name}" if owner else child.name
                if (isinstance(child, ast.Call) and isinstance(child.func, ast.Attribute)
                        and isinstance(child.func.value, ast.Name) and child.func.value.id == "re"
                        and child.func.attr in ("compile", "match", "search", "sub", "subn", "split", "findall",
                                                "finditer", "fullmatch")
                        and child.args and isinstance(child.args[0], ast.Constant) and isinstance(child.args[0].value, str)):
                    flags = 0
                    cands = list(child.args[1:]) + [kw.value for kw in child.keywords if kw.arg == "flags"]
                    for a in cands:
                        src = ast.unparse(a)
                        if "re." in src:
                            for nm in re.findall(r"re\.([A-Z]+)", src):
                                flags |= int(getattr(re, nm, 0))
                    pat = re.compile(child.args[0].value, flags)
                    counter[o] = counter.get(o, 0) + 1
                    out.setdefault((pat.pattern, pat.flags), f"{short}.{o or '<module>'}.inline{counter[o]}")
                visit(child, o)

        visit(tree, "")
    return out


def _dynamic(sf) -> dict:
    """(pattern, flags) -> name for everything compiled while a probe source is read and parsed"""
    from ford.settings import ProjectSettings

    seen: dict = {}
    counter: dict = {}
    orig = re._compile

    def logging_compile(pattern, flags):
        res = orig(pattern, flags)
        if isinstance(pattern, str):
            f = sys._getframe(1)
            owner = None
            while f is not None and f.f_globals.get("__name__", "") == "re":
                f = f.f_back              # re.compile / re.match / ... themselves
            if f is not None and f.f_globals.get("__name__", "") in MODULES:   # asked for by FORD's own code
                mod = f.f_globals["__name__"]
                owner = f"{mod.split('.')[-1]}.{getattr(f.f_code, 'co_qualname', f.f_code.co_name)}"
            if owner is not None and (res.pattern, res.flags) not in seen:
                tag = hashlib.sha1(f"{res.flags}:{res.pattern}".encode()).hexdigest()[:6]
                seen[(res.pattern, res.flags)] = f"{owner}.dyn_{tag}"
        return res

    old_ns = getattr(sf, "namelist", None)
    # FORD's own pattern caches (module-level dicts named *CACHE*) are emptied for the probe, so that
    # what is seen does not depend on what this process parsed before
    saved_caches = []
    for mname in MODULES:
        mod = sys.modules.get(mname)
        for k, v in list(vars(mod).items()) if mod else []:
            if isinstance(v, dict) and "CACHE" in k.upper():
                saved_caches.append((v, dict(v)))
                v.clear()
            elif hasattr(v, "cache_clear") and callable(v.cache_clear):
                v.cache_clear()
    class _ProbeTimeout(BaseException):
        pass

    def on_alarm(signum, frame):
        raise _ProbeTimeout()

    re._compile = logging_compile
    old_handler = signal.signal(signal.SIGALRM, on_alarm)
    signal.alarm(30)
    try:
        with tempfile.TemporaryDirectory() as d:
            p = Path(d) / "probe_rx.f90"
            p.write_text(PROBE)
            try:
                with contextlib.redirect_stdout(io.StringIO()):
                    sf.FortranSourceFile(str(p), ProjectSettings(preprocess=False, dbg=True))
            except _ProbeTimeout:
                raise ValueError("the pattern probe source was not parsed within 30 s") from None
    finally:
        signal.alarm(0)
        signal.signal(signal.SIGALRM, old_handler)
        re._compile = orig
        if old_ns is not None:
            sf.namelist = old_ns
        for d_, content in saved_caches:
            d_.update(content)
    return seen


_COLLECTED = None


def collect(dynamic=True) -> list[tuple[str, "re.Pattern"]]:
    """[(name, compiled pattern)], deterministic order, one entry per distinct (pattern, flags).
    Computed once per process: the translator and the harness work on the same list.
    `dynamic=False`: without the patterns that are only seen while a probe source is parsed
    (for the harness, when that parse does not come back)."""
    global _COLLECTED
    if not dynamic:
        return _collect(False)
    if _COLLECTED is None:
        _COLLECTED = _collect()
    return _COLLECTED


def _collect(dynamic=True) -> list[tuple[str, "re.Pattern"]]:
    import importlib

    mods = [importlib.import_module(m) for m in MODULES]
    sf = mods[1]
    found: dict = {}
    for src in (_static(mods), _dynamic(sf) if dynamic else {}, _inline(mods)):
        for key, name in src.items():
            found.setdefault(key, name)
    if len(found) < 20:
        raise ValueError(f"only {len(found)} patterns found in {MODULES}")
    out = [(name, re.compile(pat, flags)) for (pat, flags), name in found.items()]
    out.sort(key=lambda x: x[0])
    names = [n for n, _ in out]
    if len(set(names)) != len(names):
        raise ValueError("pattern names are not unique")
    return out


# ---------------------------------------------------------------------------------------
# re parse tree -> Rx (tuples)
# ---------------------------------------------------------------------------------------
_CAT = {"CATEGORY_DIGIT": r"\d", "CATEGORY_NOT_DIGIT": r"\D", "CATEGORY_SPACE": r"\s", "CATEGORY_NOT_SPACE": r"\S",
        "CATEGORY_WORD": r"\w", "CATEGORY_NOT_WORD": r"\W"}
_cat_cache: dict = {}


def _cat_mask(cat) -> int:
    key = str(cat)
    if key not in _cat_cache:
        if key not in _CAT:
            raise ValueError(f"character category {key} is not modelled")
        rx = re.compile(_CAT[key])
        _cat_cache[key] = sum(1 << c for c in range(128) if rx.fullmatch(chr(c)))
    return _cat_cache[key]


def _lit_mask(c: int, flags: int) -> int:
    m = (1 << c) if c < 128 else 0
    if flags & re.IGNORECASE:
        for v in (chr(c).lower(), chr(c).upper()):
            if len(v) == 1 and ord(v) < 128:
                m |= 1 << ord(v)
    return m


def seqs(items):
    items = [i for i in items if i != ("eps",)] or [("eps",)]
    r = items[-1]
    for x in reversed(items[:-1]):
        r = ("seq", x, r)
    return r


def alts(items):
    r = items[-1]
    for x in reversed(items[:-1]):
        r = ("alt", x, r)
    return r


def conv(p, flags):
    return seqs([conv1(op, av, flags) for op, av in p])


def conv1(op, av, flags):
    op = str(op)
    if op == "LITERAL":
        return ("cls", _lit_mask(av, flags))
    if op == "NOT_LITERAL":
        return ("cls", ALL & ~_lit_mask(av, flags))
    if op == "ANY":
        return ("cls", ALL if flags & re.DOTALL else ALL & ~(1 << 10))
    if op == "IN":
        m, neg = 0, False
        for o, a in av:
            o = str(o)
            if o == "NEGATE":
                neg = True
            elif o == "LITERAL":
                m |= _lit_mask(a, flags)
            elif o == "RANGE":
                for c in range(a[0], min(a[1], 127) + 1):
                    m |= _lit_mask(c, flags)
            elif o == "CATEGORY":
                m |= _cat_mask(a)
            else:
                raise ValueError(f"set item {o} is not modelled")
        return ("cls", (ALL & ~m) if neg else m)
    if op == "CATEGORY":
        return ("cls", _cat_mask(av))
    if op == "AT":
        a = str(av)
        if a in ("AT_BEGINNING", "AT_BEGINNING_STRING"):
            if flags & re.MULTILINE and a == "AT_BEGINNING":
                raise ValueError("MULTILINE `^` is not modelled")
            return ("bos",)
        if a == "AT_END":
            if flags & re.MULTILINE:
                raise ValueError("MULTILINE `$` is not modelled")
            return ("eos",)
        raise ValueError(f"assertion {a} is not modelled")
    if op in ("MAX_REPEAT", "MIN_REPEAT"):
        lo, hi, sub = av
        return ("rep", int(lo), None if hi == _K.MAXREPEAT else int(hi), conv(sub, flags))
    if op == "SUBPATTERN":
        _, add, dele, sub = av
        return conv(sub, (flags | add) & ~dele)
    if op == "BRANCH":
        return alts([conv(b, flags) for b in av[1]])
    if op in ("ASSERT", "ASSERT_NOT"):
        d, sub = av
        if d < 0:
            return ("lookb",)
        return ("look", op == "ASSERT_NOT", conv(sub, flags))
    raise ValueError(f"regular-expression operator {op} is not modelled")


def to_rx(pat: "re.Pattern"):
    return conv(_P.parse(pat.pattern, pat.flags), pat.flags)


def exact(rx) -> bool:
    """False when the model only approximates the pattern (look-behind is taken as true)"""
    if rx[0] == "lookb":
        return False
    return all(exact(x) for x in rx[1:] if isinstance(x, tuple))


def lean_rx(r) -> str:
    t = r[0]
    if t == "cls":
        return f"(.cls 0x{r[1]:x})"
    if t in ("eps", "bos", "eos", "lookb"):
        return "." + t
    if t == "look":
        return f"(.look {'true' if r[1] else 'false'} {lean_rx(r[2])})"
    if t == "seq":
        items = []
        while r[0] == "seq":
            items.append(r[1])
            r = r[2]
        items.append(r)
        return "(seqs [" + ", ".join(lean_rx(x) for x in items) + "])"
    if t == "alt":
        items = []
        while r[0] == "alt":
            items.append(r[1])
            r = r[2]
        items.append(r)
        return "(alts [" + ", ".join(lean_rx(x) for x in items) + "])"
    if t == "rep":
        hi = "none" if r[2] is None else f"(some {r[2]})"
        return f"(.rep {r[1]} {hi} {lean_rx(r[3])})"
    raise ValueError(t)


def lean_table(lean_chars) -> list[str]:
    pats = collect()
    L = ["/-- every regular expression applied while a source file is read and parsed: (name, syntax tree) -/",
         "def patterns : List (Str × Rx) :=",
         "  [" + ",\n   ".join(f"({lean_chars(name)}, {lean_rx(to_rx(p))})" for name, p in pats) + "]"]
    return L
