"""Translator for C02: regenerates lean/FordModel/Generated/C02.lean from the working tree.

  regexSources : (module, name, pattern, flags) of the regular expressions whose deterministic
                 readings are the hand-written recognisers of the C02 model (G10):
                 FortranReader.COM_RE, the doc-mark pattern built by `_compile_docmark`,
                 sourceform.QUOTES_RE, COMMA_RE, NBSP_RE
  initialSteps : the ordered text transformations `line_to_variables` applies to an initial
                 value (`if initial:` block, ast walk of ford/sourceform.py): the comma tidy-up
                 (`COMMA_RE.sub(', ', initial)`) and the loop that puts the character literals
                 back in place of their placeholders; plus the two switches of that loop
                 (NBSP substitution, backslash doubling)

  maskLoop     : the statements of the literal-masking loop at the top of the statement loop of
                 `FortranContainer._initialize` ("Temporarily replace all strings": `self.strings = []`,
                 `search_from = 0`, `while quote := QUOTES_RE.search(...)` and its body), as normalised
                 source text (`ast.unparse`); `Show.cutGo` is the deterministic reading of this loop

  popSites     : the two places of `FortranReader.__next__` that return `self.pending.pop(0)` (the queue of
                 `;`-separated statements), each with the statements that stand in front of the pop (ast walk
                 of ford/reader.py); `incPrologue` / `incEpilogue` / `popsGuarded` / `includeKwLoose` (-> `Include.readerCfg`) = whether `self.include()` is called in front of the pop at
                 the top (`incPrologue`: statements queued by an earlier call) and at the bottom (`incEpilogue`:
                 first statement of the line just read) and whether the tree is the repaired variant
                 (`guarded`: queue re-tested after `include()`, `include()` loops over files without
                 statements, a line that leaves nothing to return reads on);
  includeMethod: normalised source text of `FortranReader.include` (without its docstring);
                 `Include.isIncludeStmt` / `includeName` / `look` are its reading

  queueOrder   : the if/elif chain at the top of `FortranReader.__next__` that serves what is buffered before
                 anything new is read: which buffer each branch returns from, in source order (`pending` then
                 `docbuffer`); `nextHead` = the normalised text of that chain (the `if` statements in front of the
                 `while` loop; the assignments to the loop's locals are not part of it); `passBackMethod` = normalised text of `FortranReader.pass_back`,
                 `passBackFront` = it puts the line at the head of `pending` (`insert(0, line)`) rather than
                 behind it (`append`); `readDocstring` = normalised text of `sourceform.read_docstring`
                 (-> `PassBack.readerOrder`, `PassBack.next`, `passBack`, `collectDocs`);
                 `splitSite` = the statements between the loop and the bottom pops (`quote_split(';', linebuffer)`,
                 `pending.extend(...)`): `PassBack.tailRaw` / `Include.feedTailI` are their reading

A construct that cannot be found or is not recognised raises (= "tie broken", never a pass).
"""
from __future__ import annotations

import ast
import importlib

from harness import common
from translate import astutil

OUT = common.LEAN / "FordModel" / "Generated" / "C02.lean"


def lean_str(s: str) -> str:
    if not all(32 <= ord(c) < 127 for c in s):
        raise ValueError(f"non-ASCII table entry {s!r}")
    return '"' + s.replace("\\", "\\\\").replace('"', '\\"') + '"'


def regex_sources():
    common.import_ford()
    R = importlib.import_module("ford.reader")
    S = importlib.import_module("ford.sourceform")
    out = []

    def add(mod, name, rx, keep_last_group=False):
        if not hasattr(rx, "pattern"):
            raise ValueError(f"{mod}.{name} is not a compiled regular expression")
        out.append((mod, name) + normal_form(rx, keep_last_group))

    # the reader asks these two only where the comment starts: that is the group that closes last
    add("ford.reader", "FortranReader.COM_RE", R.FortranReader.COM_RE, keep_last_group=True)
    dm = R._compile_docmark("@")
    if dm is None or R._compile_docmark("") is not None:
        raise ValueError("_compile_docmark: unexpected result for a non-empty / empty mark")
    add("ford.reader", "_compile_docmark(@)", dm, keep_last_group=True)
    add("ford.sourceform", "QUOTES_RE", S.QUOTES_RE)
    add("ford.sourceform", "COMMA_RE", S.COMMA_RE)
    add("ford.sourceform", "NBSP_RE", S.NBSP_RE)
    return out


def normal_form(rx, keep_last_group: bool):
    """(pattern in a normal form, flags without the layout-only ones): the parsed pattern printed back by
    translate/c06.py `_seq` - `re.VERBOSE` layout and comments, transparent `(?:...)`, the spelling of escapes and
    the order inside character classes do not show.  Which groups capture is part of a pattern's meaning only as
    far as its users read groups: with `keep_last_group` every capturing group is read as `(?:...)` except the
    top-level group that closes last (named or not), which is printed as `(...)`; without it the users read no
    group by number except as written (QUOTES_RE's groups are reachable from replacement templates), so groups are
    kept, names dropped."""
    import re
    try:
        import re._parser as P
    except ImportError:  # Python < 3.11
        import sre_parse as P
    from translate import c06

    parsed = P.parse(rx.pattern, rx.flags)
    flags = int(parsed.state.flags) & ~(int(re.VERBOSE) | int(re.DEBUG))
    items = list(parsed)
    last = None
    if keep_last_group:
        tops = [i for i, (op, av) in enumerate(items) if str(op) == "SUBPATTERN" and av[0] is not None]
        last = tops[-1] if tops else None

    def strip(seq, top):
        out = []
        for i, (op, av) in enumerate(seq):
            o = str(op)
            if o == "SUBPATTERN":
                g, add_, del_, sub = av
                keep = g is not None and (not keep_last_group or (top and i == last))
                out.append((op, (1 if keep else None, add_, del_, strip(list(sub), False))))
            elif o in ("MAX_REPEAT", "MIN_REPEAT", "POSSESSIVE_REPEAT"):
                out.append((op, (av[0], av[1], strip(list(av[2]), False))))
            elif o == "BRANCH":
                out.append((op, (av[0], [strip(list(b), False) for b in av[1]])))
            elif o in ("ASSERT", "ASSERT_NOT"):
                out.append((op, (av[0], strip(list(av[1]), False))))
            else:
                out.append((op, av))
        return out

    text = c06._seq(c06._flat(strip(items, True)), bool(flags & re.I), grouped=True)
    # the normal form must be a pattern of the same language (and the same comment start) as the compiled one
    again = re.compile(text, flags)
    alphabet = ["a", " ", "'", '"', "!", "@", "&", ";", ",", "''", '""', "\xa0", "x"]
    import itertools
    for n in range(5):
        for combo in itertools.product(alphabet, repeat=n):
            t = "".join(combo)
            x, y = rx.search(t), again.search(t)
            if (x is None) != (y is None) or (x is not None and (x.span() != y.span() or (
                    keep_last_group and x.start(x.lastindex or 0) != y.start(y.lastindex or 0)))):
                raise ValueError(f"normal form {text!r} of {rx.pattern!r} differs from it on {t!r}")
    return text, flags


def initial_steps():
    src = (common.REPO / "ford" / "sourceform.py").read_text()
    tree = ast.parse(src)
    fns = [n for n in tree.body if isinstance(n, ast.FunctionDef) and n.name == "line_to_variables"]
    if len(fns) != 1:
        raise ValueError("ford/sourceform.py: line_to_variables not found")
    blocks = [n for n in ast.walk(fns[0]) if isinstance(n, ast.If) and ast.unparse(n.test) == "initial"]
    if len(blocks) != 1 or blocks[0].orelse:
        raise ValueError("line_to_variables: expected exactly one `if initial:` block without else")
    steps = []
    nbsp = dbl = None
    # a step that was extracted into a small helper function reads as if it were still written in place
    for st in astutil.inline_helper_calls(blocks[0].body, tree):
        text = ast.unparse(st)
        if isinstance(st, ast.Expr) and isinstance(st.value, ast.Constant):
            continue
        if text == "search_from = 0":
            continue
        if text == "initial = COMMA_RE.sub(', ', initial)":
            steps.append("commaTidy")
            continue
        if isinstance(st, ast.While) and "QUOTES_RE.search(initial[search_from:])" in ast.unparse(st.test):
            body = "\n".join(ast.unparse(b) for b in st.body)
            if "parent.strings[num]" not in body or "initial = initial[0:search_from] + QUOTES_RE.sub(string, initial[search_from:], count=1)" not in body:
                raise ValueError("line_to_variables: the literal re-insertion loop has an unexpected body")
            nbsp = "NBSP_RE.sub('\\xa0', parent.strings[num])" in body
            dbl = "string.replace('\\\\', '\\\\\\\\')" in body
            steps.append("restore")
            continue
        raise ValueError(f"line_to_variables: unrecognised statement in the initial-value block: {text[:80]!r}")
    if "restore" not in steps:
        raise ValueError("line_to_variables: literal re-insertion loop not found in the initial-value block")
    return steps, bool(nbsp), bool(dbl)


def mask_loop():
    """The masking loop of the parser: inside a method of `FortranContainer`, in the body of the
    `for line in source:` loop, the run `self.strings = []` / `search_from = 0` / `while ... QUOTES_RE ...`."""
    src = (common.REPO / "ford" / "sourceform.py").read_text()
    tree = ast.parse(src)
    classes = [n for n in tree.body if isinstance(n, ast.ClassDef) and n.name == "FortranContainer"]
    if len(classes) != 1:
        raise ValueError("ford/sourceform.py: class FortranContainer not found")
    found = []
    for loop in ast.walk(classes[0]):
        if not (isinstance(loop, ast.For) and ast.unparse(loop.iter) == "source"):
            continue
        body = loop.body
        for i, st in enumerate(body):
            if ast.unparse(st) != "self.strings = []":
                continue
            run = [st]
            for nxt in body[i + 1:]:
                run.append(nxt)
                if isinstance(nxt, ast.While):
                    break
                if not isinstance(nxt, ast.Assign):
                    break
            if not isinstance(run[-1], ast.While) or "QUOTES_RE" not in ast.unparse(run[-1].test):
                raise ValueError("FortranContainer: `self.strings = []` is not followed by the QUOTES_RE masking loop")
            if run[-1].orelse:
                raise ValueError("FortranContainer: masking loop has an else branch")
            found.append(run)
    if len(found) != 1:
        raise ValueError(f"FortranContainer: expected exactly one literal-masking loop, found {len(found)}")
    run = found[0]
    out = [ast.unparse(st) for st in run[:-1]]
    out.append("while " + ast.unparse(run[-1].test) + ":")
    out += ["    " + ln for b in run[-1].body for ln in ast.unparse(b).split("\n")]
    return out


PENDING_TESTS = ("len(self.pending) != 0", "len(self.pending) > 0", "self.pending")
POP = "return self.pending.pop(0)"


def reader_queue():
    """The pops of the statement queue in `FortranReader.__next__` and the method `include`."""
    src = (common.REPO / "ford" / "reader.py").read_text()
    tree = ast.parse(src)
    classes = [n for n in tree.body if isinstance(n, ast.ClassDef) and n.name == "FortranReader"]
    if len(classes) != 1:
        raise ValueError("ford/reader.py: class FortranReader not found")
    meth = {n.name: n for n in classes[0].body if isinstance(n, ast.FunctionDef)}
    if "__next__" not in meth or "include" not in meth:
        raise ValueError("FortranReader: __next__ / include not found")
    body = meth["__next__"].body
    loops = [i for i, st in enumerate(body) if isinstance(st, ast.While)]
    if len(loops) != 1:
        raise ValueError("FortranReader.__next__: expected exactly one top-level `while` loop")
    all_pops = [n for n in ast.walk(meth["__next__"]) if isinstance(n, ast.Return) and ast.unparse(n) == POP]

    def inc_only(st):
        return (isinstance(st, ast.If) and ast.unparse(st.test) in PENDING_TESTS and not st.orelse
                and [ast.unparse(b) for b in st.body] == ["self.include()"])

    sites = {}
    for i, st in enumerate(body):
        if not isinstance(st, ast.If):
            continue
        texts = [ast.unparse(b) for b in st.body]
        if POP not in texts:
            continue
        if ast.unparse(st.test) not in PENDING_TESTS:
            raise ValueError(f"FortranReader.__next__: the queue is popped under an unexpected test {ast.unparse(st.test)!r}")
        before = texts[:texts.index(POP)]
        for t in before:
            if t not in ("self.include()", "self.prevdoc = False"):
                raise ValueError(f"FortranReader.__next__: unrecognised statement in front of the pop: {t[:80]!r}")
        inc_in_body = "self.include()" in before
        inc_before = i > 0 and inc_only(body[i - 1])
        if inc_in_body and inc_before:
            raise ValueError("FortranReader.__next__: include() called twice in front of one pop")
        place = "prologue" if i < loops[0] else "epilogue"
        if place in sites:
            raise ValueError(f"FortranReader.__next__: two pops of the queue in the {place}")
        text = []
        if inc_before:
            text += ["if " + ast.unparse(body[i - 1].test) + ":", "    self.include()"]
        text += ["if " + ast.unparse(st.test) + ":"] + ["    " + t for t in before] + ["    " + POP]
        reads_on = None
        if place == "epilogue":
            nxt = ast.unparse(body[i + 1]) if i + 1 < len(body) else ""
            guarded_else = (len(st.orelse) == 1 and isinstance(st.orelse[0], ast.If) and not st.orelse[0].orelse
                            and "self.docbuffer" in ast.unparse(st.orelse[0].test))
            if nxt == "return next(self)" and guarded_else:
                reads_on = True
                text += ["elif " + ast.unparse(st.orelse[0].test) + ": ...", "return next(self)"]
            elif i + 1 == len(body) and st.orelse and not isinstance(st.orelse[0], ast.If):
                reads_on = False
                text += ["else: ..."]
            else:
                raise ValueError("FortranReader.__next__: unrecognised end of the method after the pop of the queue")
        sites[place] = dict(includes=inc_in_body or inc_before, rechecked=inc_before, text=text, reads_on=reads_on)
    if set(sites) != {"prologue", "epilogue"} or len(all_pops) != 2:
        raise ValueError(f"FortranReader.__next__: expected one pop of the queue before and one after the loop, found {sorted(sites)} / {len(all_pops)} pops")
    inc = meth["include"]
    ibody = list(inc.body)
    if ibody and isinstance(ibody[0], ast.Expr) and isinstance(ibody[0].value, ast.Constant):
        ibody = ibody[1:]
    itext = [ln for st in ibody for ln in ast.unparse(st).split("\n")]
    loops_inc = bool(ibody) and isinstance(ibody[0], ast.While)
    traits = [sites["prologue"]["rechecked"], sites["epilogue"]["rechecked"], bool(sites["epilogue"]["reads_on"]), loops_inc]
    incl = [sites["prologue"]["includes"], sites["epilogue"]["includes"]]
    if loops_inc and sites["epilogue"]["reads_on"] and all(r or not i for r, i in zip(traits[:2], incl)):
        guarded = True
    elif not any(traits):
        guarded = False
    else:
        raise ValueError(f"FortranReader: unrecognised mixture of the plain and the re-testing variant of the queue pops {traits}")
    # how an include statement is recognised and where its name starts
    joined = "\n".join(itext)
    strict = ".lower().startswith('include ')" in joined and "curpending[8:].strip()[1:-1]" in joined
    loose = "self.INCLUDE_RE.match(self.pending[0])" in joined and "curpending[7:].strip()[1:-1]" in joined
    if strict == loose:
        raise ValueError("FortranReader.include: the test for an include statement / the slice of its name is not recognised")
    if loose:
        common.import_ford()
        rx = getattr(importlib.import_module("ford.reader").FortranReader, "INCLUDE_RE", None)
        if rx is None or rx.pattern != "include\\s*(?=['\"])" or int(rx.flags) != 34:
            raise ValueError("FortranReader.INCLUDE_RE is not the pattern the model reads (include\\s*(?=['\"]), IGNORECASE)")
    return sites, guarded, itext, loose

DOC_POP = "return self.docbuffer.pop(0)"
DOC_TESTS = ("len(self.docbuffer) != 0", "len(self.docbuffer) > 0", "self.docbuffer")


def queue_protocol():
    """The chain at the top of `__next__`, `pass_back` and `read_docstring`."""
    tree = ast.parse((common.REPO / "ford" / "reader.py").read_text())
    classes = [n for n in tree.body if isinstance(n, ast.ClassDef) and n.name == "FortranReader"]
    if len(classes) != 1:
        raise ValueError("ford/reader.py: class FortranReader not found")
    meth = {n.name: n for n in classes[0].body if isinstance(n, ast.FunctionDef)}
    for need in ("__next__", "pass_back"):
        if need not in meth:
            raise ValueError(f"FortranReader.{need} not found")

    def nodoc(body):
        body = list(body)
        if body and isinstance(body[0], ast.Expr) and isinstance(body[0].value, ast.Constant):
            body = body[1:]
        return body

    pb = [ast.unparse(st) for st in nodoc(meth["pass_back"].body)]
    args = [a.arg for a in meth["pass_back"].args.args]
    if args != ["self", "line"]:
        raise ValueError(f"FortranReader.pass_back: unexpected parameters {args}")
    if pb == ["self.pending.insert(0, line)"]:
        front = True
    elif pb in (["self.pending.append(line)"], ["self.pending.insert(len(self.pending), line)"]):
        front = False
    else:
        raise ValueError(f"FortranReader.pass_back: body not recognised (the model knows the queue `pending` only): {pb}")
    body = nodoc(meth["__next__"].body)
    loops = [i for i, st in enumerate(body) if isinstance(st, ast.While)]
    if len(loops) != 1:
        raise ValueError("FortranReader.__next__: expected exactly one top-level `while` loop")
    order, text, seen_chain = [], [], False
    for st in body[:loops[0]]:
        if isinstance(st, ast.If) and not any(isinstance(n, ast.Return) for n in ast.walk(st)):
            # `if len(self.pending) != 0: self.include()` (reader_queue() decides what it means)
            text += ast.unparse(st).split("\n")
            continue
        if isinstance(st, ast.If):
            if seen_chain:
                raise ValueError("FortranReader.__next__: two chains return buffered items in front of the loop")
            seen_chain = True
            node, kw = st, "if "
            while node is not None:
                test = ast.unparse(node.test)
                rets = [ast.unparse(b) for b in node.body if isinstance(b, ast.Return)]
                if rets == [POP] and test in PENDING_TESTS:
                    order.append("pending")
                elif rets == [DOC_POP] and test in DOC_TESTS:
                    order.append("docbuffer")
                else:
                    raise ValueError(f"FortranReader.__next__: unrecognised branch in front of the loop: {kw}{test}: ... {rets}")
                text += [kw + test + ":"] + ["    " + ast.unparse(b) for b in node.body]
                if not node.orelse:
                    node = None
                elif len(node.orelse) == 1 and isinstance(node.orelse[0], ast.If):
                    node, kw = node.orelse[0], "elif "
                else:
                    raise ValueError("FortranReader.__next__: the chain in front of the loop ends with an `else`")
            continue
        if isinstance(st, ast.Assign) and len(st.targets) == 1 and isinstance(st.targets[0], ast.Name):
            # a local of the loop (`continued = False` ...): not part of the chain, and which locals the loop keeps is
            # an implementation choice (`done` / `while True: ... break`); their effect is tied by the step streams
            continue
        raise ValueError(f"FortranReader.__next__: unrecognised statement in front of the loop: {ast.unparse(st)[:80]!r}")
    # between the loop and the pops at the bottom: the `;` split of the completed logical line
    split_site = []
    for st in body[loops[0] + 1:]:
        if isinstance(st, ast.If):
            break
        split_site += ast.unparse(st).split("\n")
    if not any("quote_split" in t for t in split_site):
        raise ValueError(f"FortranReader.__next__: no quote_split between the loop and the pops: {split_site}")
    if sorted(order) != ["docbuffer", "pending"]:
        raise ValueError(f"FortranReader.__next__: the chain in front of the loop serves {order}, expected pending and docbuffer once each")
    # every other use of the queue: only __next__, include and pass_back may touch it
    users = sorted(n.name for n in classes[0].body if isinstance(n, ast.FunctionDef)
                   and any(isinstance(a, ast.Attribute) and a.attr == "pending" for a in ast.walk(n)))
    if users != ["__init__", "__next__", "include", "pass_back"]:
        raise ValueError(f"FortranReader: `pending` is used by {users}")
    stree = ast.parse((common.REPO / "ford" / "sourceform.py").read_text())
    rd = [n for n in stree.body if isinstance(n, ast.FunctionDef) and n.name == "read_docstring"]
    if len(rd) != 1:
        raise ValueError("ford/sourceform.py: read_docstring not found")
    rtext = [ln for st in nodoc(rd[0].body) for ln in ast.unparse(st).split("\n")]
    callers = sorted({ast.unparse(n.func) for n in ast.walk(stree) if isinstance(n, ast.Call)
                      and isinstance(n.func, ast.Attribute) and n.func.attr == "pass_back"})
    if callers != ["source.pass_back"]:
        raise ValueError(f"ford/sourceform.py: pass_back is called as {callers}")
    n_calls = sum(1 for n in ast.walk(stree) if isinstance(n, ast.Call) and isinstance(n.func, ast.Attribute)
                  and n.func.attr == "pass_back")
    if n_calls != 1:
        raise ValueError(f"ford/sourceform.py: pass_back is called {n_calls} times (the model knows read_docstring only)")
    return order, text, pb, front, rtext, split_site


def translate():
    rx = regex_sources()
    sites, guarded, itext, kw_loose = reader_queue()
    steps, nbsp, dbl = initial_steps()
    mloop = mask_loop()
    qorder, qtext, pbtext, pbfront, rdtext, split_site = queue_protocol()
    b = lambda v: "true" if v else "false"
    lines = ["/- GENERATED by translate/c02.py from ford/reader.py and ford/sourceform.py - do not edit -/",
             "import FordModel.InitSteps",
             "namespace Ford.Generated.C02", "",
             "/-- (module, name, pattern, flags) of the regular expressions read by the C02 recognisers -/",
             "def regexSources : List (String × String × String × Nat) := ["]
    lines += ["  (%s, %s, %s, %d)%s" % (lean_str(m), lean_str(n), lean_str(p), f, "," if i < len(rx) - 1 else "")
              for i, (m, n, p, f) in enumerate(rx)]
    lines += ["]", "",
              "/-- the text transformations of `line_to_variables`' `if initial:` block, in source order -/",
              "def initialSteps : List InitStep := [" + ", ".join("." + s for s in steps) + "]", "",
              "/-- the re-insertion loop substitutes NBSPs / doubles backslashes -/",
              f"def restoreNbsp : Bool := {b(nbsp)}",
              f"def restoreDoubleBs : Bool := {b(dbl)}", "",
              "/-- the literal-masking loop of `FortranContainer._initialize` (normalised source text) -/",
              "def maskLoop : List String := ["]
    lines += ["  %s%s" % (lean_str(t), "," if i < len(mloop) - 1 else "") for i, t in enumerate(mloop)]
    lines += ["]", "",
              "/-- the two pops of the statement queue in `FortranReader.__next__`: (place, the statements around the pop) -/",
              "def popSites : List (String × List String) := ["]
    for k, place in enumerate(("prologue", "epilogue")):
        lines.append("  (%s, [%s])%s" % (lean_str(place), ", ".join(lean_str(t) for t in sites[place]["text"]), "," if k == 0 else ""))
    lines += ["]", "",
              "/-- where `self.include()` is called in front of those pops; the variant of the pops -/",
              "def incPrologue : Bool := %s" % b(sites["prologue"]["includes"]),
              "def incEpilogue : Bool := %s" % b(sites["epilogue"]["includes"]),
              "def popsGuarded : Bool := %s" % b(guarded),
              "def includeKwLoose : Bool := %s" % b(kw_loose), "",
              "/-- `FortranReader.include` (normalised source text) -/",
              "def includeMethod : List String := ["]
    lines += ["  %s%s" % (lean_str(t), "," if i < len(itext) - 1 else "") for i, t in enumerate(itext)]
    lines += ["]", ""]

    def strlist(name, doc, items):
        out = ["/-- " + doc + " -/", "def %s : List String := [" % name]
        out += ["  %s%s" % (lean_str(t), "," if i < len(items) - 1 else "") for i, t in enumerate(items)]
        return out + ["]", ""]

    lines += strlist("queueOrder", "which buffer each branch of the if/elif chain at the top of `FortranReader.__next__` returns from, in source order", qorder)
    lines += strlist("nextHead", "the `if` statements in front of the `while` loop of `FortranReader.__next__` (normalised source text)", qtext)
    lines += strlist("passBackMethod", "`FortranReader.pass_back` (normalised source text)", pbtext)
    lines += ["/-- `pass_back` puts the line at the head of `pending` -/", "def passBackFront : Bool := %s" % b(pbfront), ""]
    lines += strlist("readDocstring", "`ford.sourceform.read_docstring` (normalised source text)", rdtext)
    lines += strlist("splitSite", "the statements of `FortranReader.__next__` between the `while` loop and the pops at its bottom (normalised source text): what becomes of the completed logical line", split_site)
    lines += ["end Ford.Generated.C02", ""]
    common.write_if_changed(OUT, "\n".join(lines))
    return rx, steps, nbsp, dbl, mloop, sites, guarded


if __name__ == "__main__":
    print(translate())
