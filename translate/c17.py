"""C17 translator: the table-shaped parts of the static-page mechanism, extracted from the
working tree's source with `ast` and written to lean/FordModel/Generated/C17.lean.

  aliasTable   the dict literal passed to `aliases.update({...})` in ford.main
               ("url" / "media" / "page" -> path segments appended to project_url)
  pageDirSeg   BasePage.__init__ : self.page_dir = self.out_dir / "page"
  locSeg       PagetreePage.loc  : pathlib.Path("page") / self.obj.path
  nodeUrlSeg   PageNode.url      : self.base_url / "page" / self.path
  convPathSeg  PageNode.__init__ : output_dir / "page" / self.path.parent
  indexName    the one string constant "index.md" used by pagetree.py (3 sites)
  mdSuffix     get_page_tree     : filename.suffix == ".md"
  skipFirst/skipLast  get_page_tree : `if name[0] == ".": continue`, `if name[-1] == "~": continue`
  gptParams / pageNodeParams   the parameter lists (with default literals) of get_page_tree / PageNode.__init__
  recCall / indexNodeCall / subNodeCall / mainCall
               every call by which one level of the walk hands its per-run arguments on: the recursive
               `get_page_tree(...)` call, the two `PageNode(...)` calls (index.md / sibling page) and the call
               in ford.main; each bound to the callee's parameters (parameter -> expression passed)
  readTextArg  PageNode.__init__ : `Path(path).read_text(<expr>)` - how the file is decoded
  mediaSrcKey / mediaDestSeg   Documentation.writeout : `copytree(self.data[<key>], out_dir / <constants>)`
               (the one copytree call whose source is a project setting) - where the media directory is put
  outDirKey    Documentation.writeout : `out_dir = self.data[<key>]`
  aliasRootExpr   ford.main : `url_path = pathlib.Path(<expr>)` - what the predefined aliases are rooted at
  mdBaseUrlExpr   ford.main : `MetaMarkdown(..., base_url=<expr>, aliases=aliases, ...)`
  aliasLayers  ford.main : the values `aliases` is built from, in source order (`copy.copy(x)`, every
               `aliases.update(y)`; the dict literal of the predefined aliases is written `<predefined>`)

Every extractor raises when its construct is not found (tie broken, never a pass).
"""
from __future__ import annotations

import ast
from pathlib import Path

from harness import common


class NotFound(Exception):
    pass


def _parse(rel):
    p = common.REPO / rel
    return ast.parse(p.read_text(), filename=str(p))


def _div_chain(node):
    """a / "x" / "y" -> (leftmost node, ["x", "y"]) (constants only)"""
    segs = []
    while isinstance(node, ast.BinOp) and isinstance(node.op, ast.Div):
        r = node.right
        if isinstance(r, ast.Constant) and isinstance(r.value, str):
            segs.append(r.value)
        else:
            segs.append(None)
        node = node.left
    return node, list(reversed(segs))


def _func(tree, name, cls=None):
    for n in ast.walk(tree):
        if cls is not None:
            if isinstance(n, ast.ClassDef) and n.name == cls:
                for m in n.body:
                    if isinstance(m, ast.FunctionDef) and m.name == name:
                        return m
        elif isinstance(n, ast.FunctionDef) and n.name == name:
            return n
    raise NotFound(f"function {cls + '.' if cls else ''}{name}")


def alias_table():
    main = _func(_parse("ford/__init__.py"), "main")
    for n in ast.walk(main):
        if (isinstance(n, ast.Call) and isinstance(n.func, ast.Attribute) and n.func.attr == "update"
                and isinstance(n.func.value, ast.Name) and n.func.value.id == "aliases"
                and n.args and isinstance(n.args[0], ast.Dict)):
            d = n.args[0]
            keys = [k.value for k in d.keys if isinstance(k, ast.Constant)]
            if "page" not in keys:
                continue
            out = []
            for k, v in zip(d.keys, d.values):
                if not (isinstance(v, ast.Call) and isinstance(v.func, ast.Name) and v.func.id == "str" and len(v.args) == 1):
                    raise NotFound(f"alias value for {k.value!r} is not str(<path>)")
                left, segs = _div_chain(v.args[0])
                if not (isinstance(left, ast.Name) and left.id == "url_path") or None in segs:
                    raise NotFound(f"alias value for {k.value!r} is not url_path / <constants>")
                out.append((k.value, segs))
            return out
    raise NotFound("aliases.update({... 'page' ...}) in ford.main")


def media_copy():
    """Documentation.writeout: copytree(self.data["media_dir"], out_dir / "media")"""
    fn = _func(_parse("ford/output.py"), "writeout", "Documentation")
    out_key = None
    for n in ast.walk(fn):
        tgt = None
        if isinstance(n, ast.AnnAssign) and n.value is not None:
            tgt = n.target
        elif isinstance(n, ast.Assign) and len(n.targets) == 1:
            tgt = n.targets[0]
        if isinstance(tgt, ast.Name) and tgt.id == "out_dir":
            k = _data_key(n.value)
            if k is None or out_key is not None:
                raise NotFound("Documentation.writeout: exactly one `out_dir = self.data[<key>]`")
            out_key = k
    if out_key is None:
        raise NotFound("Documentation.writeout: out_dir = self.data[<key>]")
    found = []
    for c in _calls_to(fn, "copytree"):
        if len(c.args) != 2 or c.keywords:
            raise NotFound("Documentation.writeout: copytree(<src>, <dst>)")
        k = _data_key(c.args[0])
        if k is None:
            continue
        left, segs = _div_chain(c.args[1])
        if not (isinstance(left, ast.Name) and left.id == "out_dir") or None in segs:
            raise NotFound(f"Documentation.writeout: copytree(self.data[{k!r}], out_dir / <constants>)")
        found.append((k, segs))
    if len(found) != 1:
        raise NotFound(f"Documentation.writeout: exactly one copytree of a project setting, found {found}")
    return found[0][0], found[0][1], out_key


def _data_key(node):
    """self.data["key"] -> "key" """
    if (isinstance(node, ast.Subscript) and isinstance(node.value, ast.Attribute) and node.value.attr == "data"
            and isinstance(node.value.value, ast.Name) and node.value.value.id == "self"
            and isinstance(node.slice, ast.Constant) and isinstance(node.slice.value, str)):
        return node.slice.value
    return None


def alias_setup():
    """ford.main: what `aliases` is built from (in source order), what the predefined aliases are rooted
    at, and what MetaMarkdown gets as base_url / aliases"""
    main = _func(_parse("ford/__init__.py"), "main")
    layers = []
    root = None
    for st in main.body:
        if isinstance(st, ast.Assign) and len(st.targets) == 1 and isinstance(st.targets[0], ast.Name):
            name = st.targets[0].id
            if name == "aliases":
                v = st.value
                if (isinstance(v, ast.Call) and isinstance(v.func, ast.Attribute) and v.func.attr == "copy"
                        and len(v.args) == 1):
                    layers.append(_expr(v.args[0]))
                else:
                    layers.append(_expr(v))
            elif name == "url_path":
                v = st.value
                if not (isinstance(v, ast.Call) and isinstance(v.func, ast.Attribute) and v.func.attr == "Path"
                        and len(v.args) == 1 and not v.keywords) or root is not None:
                    raise NotFound("ford.main: exactly one `url_path = pathlib.Path(<expr>)`")
                root = _expr(v.args[0])
        elif (isinstance(st, ast.Expr) and isinstance(st.value, ast.Call)
              and isinstance(st.value.func, ast.Attribute) and isinstance(st.value.func.value, ast.Name)
              and st.value.func.value.id == "aliases"):
            c = st.value
            if c.func.attr != "update" or len(c.args) != 1 or c.keywords:
                raise NotFound(f"ford.main: aliases.{c.func.attr}(...) is not a plain update(<mapping>)")
            a = c.args[0]
            if isinstance(a, ast.Dict):
                keys = [k.value for k in a.keys if isinstance(k, ast.Constant)]
                layers.append("<predefined>" if "page" in keys else ast.unparse(a))
            else:
                layers.append(_expr(a))
    # any other statement of main that touches `aliases` before it is handed over (nested, augmented, ...)
    n_touch = sum(1 for n in ast.walk(main) if isinstance(n, ast.Name) and n.id == "aliases")
    mds = _calls_to(main, "MetaMarkdown")
    if len(mds) != 1:
        raise NotFound(f"ford.main: exactly one MetaMarkdown(...) call, found {len(mds)}")
    kw = {k.arg: k.value for k in mds[0].keywords}
    if not (isinstance(kw.get("aliases"), ast.Name) and kw["aliases"].id == "aliases") or "base_url" not in kw:
        raise NotFound("ford.main: MetaMarkdown(..., base_url=<expr>, aliases=aliases)")
    if root is None or not layers:
        raise NotFound("ford.main: url_path = pathlib.Path(<expr>) / aliases = ...")
    if n_touch != len(layers) + 1:
        raise NotFound(f"ford.main: `aliases` is used {n_touch} times, expected one assignment, "
                       f"{len(layers) - 1} update(...) statements and the MetaMarkdown argument")
    return {"aliasRootExpr": root, "mdBaseUrlExpr": _expr(kw["base_url"]), "aliasLayers": layers}


def _assigned_chain(fn, pred, what, strip_tail=0):
    for n in ast.walk(fn):
        if isinstance(n, (ast.Assign, ast.Return)) and n.value is not None:
            left, segs = _div_chain(n.value)
            if segs and pred(n, left, segs):
                return left, segs
    raise NotFound(what)


def page_dir_seg():
    init = _func(_parse("ford/output.py"), "__init__", "BasePage")
    for n in ast.walk(init):
        if (isinstance(n, ast.Assign) and isinstance(n.targets[0], ast.Attribute)
                and n.targets[0].attr == "page_dir"):
            left, segs = _div_chain(n.value)
            if isinstance(left, ast.Attribute) and left.attr == "out_dir" and None not in segs:
                return segs
    raise NotFound("BasePage.__init__: self.page_dir = self.out_dir / <constants>")


def loc_seg():
    fn = _func(_parse("ford/output.py"), "loc", "PagetreePage")
    for n in ast.walk(fn):
        if isinstance(n, ast.Return):
            left, segs = _div_chain(n.value)
            # pathlib.Path("page") / self.obj.path
            if (isinstance(left, ast.Call) and left.args and isinstance(left.args[0], ast.Constant)
                    and segs == [None]):
                return [left.args[0].value]
    raise NotFound('PagetreePage.loc: pathlib.Path(<constant>) / self.obj.path')


def outfile_is_pagedir():
    fn = _func(_parse("ford/output.py"), "outfile", "PagetreePage")
    for n in ast.walk(fn):
        if isinstance(n, ast.Return):
            left, segs = _div_chain(n.value)
            if isinstance(left, ast.Attribute) and left.attr == "page_dir" and segs == [None]:
                return True
    raise NotFound("PagetreePage.outfile: self.page_dir / self.obj.path")


def node_url_seg():
    fn = _func(_parse("ford/pagetree.py"), "url", "PageNode")
    for n in ast.walk(fn):
        if isinstance(n, ast.Return):
            left, segs = _div_chain(n.value)
            if isinstance(left, ast.Attribute) and left.attr == "base_url" and segs and segs[-1] is None and None not in segs[:-1]:
                return segs[:-1]
    raise NotFound("PageNode.url: self.base_url / <constants> / self.path")


def conv_path_seg():
    fn = _func(_parse("ford/pagetree.py"), "__init__", "PageNode")
    for n in ast.walk(fn):
        if isinstance(n, ast.Assign) and isinstance(n.targets[0], ast.Name) and n.targets[0].id == "output_path":
            left, segs = _div_chain(n.value)
            if isinstance(left, ast.Name) and left.id == "output_dir" and segs and segs[-1] is None and None not in segs[:-1]:
                return segs[:-1]
    raise NotFound("PageNode.__init__: output_path = output_dir / <constants> / self.path.parent")


def pagetree_constants():
    tree = _parse("ford/pagetree.py")
    gpt = _func(tree, "get_page_tree")
    init = _func(tree, "__init__", "PageNode")
    idx = set()
    for fn in (gpt, init):
        for n in ast.walk(fn):
            if isinstance(n, ast.Constant) and isinstance(n.value, str) and n.value.startswith("index"):
                idx.add(n.value)
    if len(idx) != 1:
        raise NotFound(f"exactly one index-file constant in pagetree.py, found {sorted(idx)}")
    skips = {}
    suffix = None

    def helper_test(call):
        """`f(name)` for a module-level `def f(x): return <expr>`: that expression with `x` renamed to `name`"""
        if not (isinstance(call, ast.Call) and isinstance(call.func, ast.Name) and len(call.args) == 1 and not call.keywords
                and isinstance(call.args[0], ast.Name) and call.args[0].id == "name"):
            return None
        for f in tree.body:
            if isinstance(f, ast.FunctionDef) and f.name == call.func.id and len(f.args.args) == 1:
                body = [b for b in f.body if not (isinstance(b, ast.Expr) and isinstance(b.value, ast.Constant))]
                if len(body) == 1 and isinstance(body[0], ast.Return) and body[0].value is not None:
                    param = f.args.args[0].arg
                    expr = ast.parse(ast.unparse(body[0].value), mode="eval").body
                    for x in ast.walk(expr):
                        if isinstance(x, ast.Name) and x.id == param:
                            x.id = "name"
                    return expr
        return None

    def skip_compare(n):
        """(k, char) of `name[k] == <char>`, else None"""
        if isinstance(n, ast.Compare) and len(n.ops) == 1 and isinstance(n.ops[0], ast.Eq):
            l, r = n.left, n.comparators[0]
            if (isinstance(l, ast.Subscript) and isinstance(l.value, ast.Name) and l.value.id == "name"
                    and isinstance(r, ast.Constant) and isinstance(r.value, str) and len(r.value) == 1):
                sl = l.slice
                if isinstance(sl, ast.UnaryOp) and isinstance(sl.op, ast.USub) and isinstance(sl.operand, ast.Constant):
                    return (-sl.operand.value, r.value)
                if isinstance(sl, ast.Constant):
                    return (sl.value, r.value)
        return None

    def disjuncts(t):
        """the `name[k] == c` tests of a disjunction (a single test, `a or b`, or a helper returning one), in order"""
        t = helper_test(t) or t
        parts = t.values if isinstance(t, ast.BoolOp) and isinstance(t.op, ast.Or) else [t]
        got = [skip_compare(x) for x in parts]
        return got if all(g is not None for g in got) else None

    # each skip test must guard a `continue`: `if name[k] == c: continue`, any `or` of such tests, possibly in a helper
    n_cont = 0
    for n in ast.walk(gpt):
        if isinstance(n, ast.Compare) and len(n.ops) == 1 and isinstance(n.ops[0], ast.Eq):
            l, r = n.left, n.comparators[0]
            if (isinstance(l, ast.Attribute) and l.attr == "suffix" and isinstance(r, ast.Constant)):
                suffix = r.value
        if isinstance(n, ast.If) and len(n.body) == 1 and isinstance(n.body[0], ast.Continue) and not n.orelse:
            ds = disjuncts(n.test)
            if ds:
                for k, c in ds:
                    skips.setdefault(k, []).append(c)
                    n_cont += 1
    # a test on `name[k]` anywhere else in the function is something the model does not have
    stray = sum(1 for n in ast.walk(gpt) if skip_compare(n) is not None)
    helper_hits = sum(len(disjuncts(n.test) or []) for n in ast.walk(gpt)
                      if isinstance(n, ast.If) and helper_test(n.test) is not None)
    if stray + helper_hits != n_cont:
        raise NotFound(f"a test `name[k] == <char>` that does not guard a `continue` ({stray}+{helper_hits} tests, {n_cont} guarded)")
    if set(skips) - {0, -1} or n_cont != sum(len(v) for v in skips.values()) or not skips:
        raise NotFound(f"skip rules `if name[0|-1] == <char>: continue` (found {skips}, {n_cont} guarded continues)")
    if suffix is None:
        raise NotFound('get_page_tree: filename.suffix == ".md"')
    return idx.pop(), suffix, skips.get(0, []), skips.get(-1, [])


# ---- argument forwarding: what each level of the walk hands to the next ----

def _expr(node):
    """normal form of an argument expression: a name, 'literal (string constant), or its source text"""
    if isinstance(node, ast.Name):
        return node.id
    if isinstance(node, ast.Constant) and isinstance(node.value, str):
        return "'" + node.value
    return ast.unparse(node)


def _params(fn, drop_self=False):
    a = fn.args
    if a.vararg or a.kwarg or a.kwonlyargs or a.posonlyargs:
        raise NotFound(f"{fn.name}: plain positional-or-keyword parameters only")
    names = [x.arg for x in a.args]
    defaults = [None] * (len(names) - len(a.defaults)) + list(a.defaults)
    out = [(n, "" if d is None else _expr(d)) for n, d in zip(names, defaults)]
    return out[1:] if drop_self else out


def _bind(call, params, what):
    """bind the arguments of `call` to the callee's parameters; omitted parameters are absent"""
    names = [n for n, _ in params]
    if any(isinstance(a, ast.Starred) for a in call.args) or any(k.arg is None for k in call.keywords):
        raise NotFound(f"{what}: */** arguments cannot be bound")
    if len(call.args) > len(names):
        raise NotFound(f"{what}: more positional arguments than parameters")
    out = [(names[i], _expr(a)) for i, a in enumerate(call.args)]
    for k in call.keywords:
        if k.arg not in names or k.arg in dict(out):
            raise NotFound(f"{what}: unexpected keyword {k.arg}")
        out.append((k.arg, _expr(k.value)))
    for n, d in params:
        if d == "" and n not in dict(out):
            raise NotFound(f"{what}: required parameter {n} not passed")
    order = {n: i for i, n in enumerate(names)}
    return sorted(out, key=lambda kv: order[kv[0]])


def _calls_to(fn, name):
    return [n for n in ast.walk(fn) if isinstance(n, ast.Call) and isinstance(n.func, ast.Name) and n.func.id == name]


def call_tables():
    tree = _parse("ford/pagetree.py")
    gpt = _func(tree, "get_page_tree")
    init = _func(tree, "__init__", "PageNode")
    gpt_params = _params(gpt)
    node_params = _params(init, drop_self=True)
    rec = _calls_to(gpt, "get_page_tree")
    if len(rec) != 1:
        raise NotFound(f"exactly one recursive get_page_tree call, found {len(rec)}")
    loops = [n for n in ast.walk(gpt) if isinstance(n, ast.For)]
    if len(loops) != 1:
        raise NotFound(f"exactly one loop in get_page_tree, found {len(loops)}")
    in_loop = {id(n) for n in ast.walk(loops[0])}
    if id(rec[0]) not in in_loop:
        raise NotFound("the recursive call is not inside the loop over the directory")
    nodes = _calls_to(gpt, "PageNode")
    idx = [c for c in nodes if id(c) not in in_loop]
    sub = [c for c in nodes if id(c) in in_loop]
    if len(idx) != 1 or len(sub) != 1:
        raise NotFound(f"one PageNode call for index.md and one for sibling pages, found {len(idx)} / {len(sub)}")
    reads = [n for n in ast.walk(init) if isinstance(n, ast.Call) and isinstance(n.func, ast.Attribute)
             and n.func.attr == "read_text"]
    if len(reads) != 1:
        raise NotFound(f"PageNode.__init__: exactly one read_text call, found {len(reads)}")
    r = reads[0]
    if len(r.args) == 1 and not r.keywords:
        read_arg = _expr(r.args[0])
    elif not r.args and len(r.keywords) == 1 and r.keywords[0].arg == "encoding":
        read_arg = _expr(r.keywords[0].value)
    else:
        raise NotFound("PageNode.__init__: read_text(<encoding expression>)")
    main = _func(_parse("ford/__init__.py"), "main")
    mc = _calls_to(main, "get_page_tree")
    if len(mc) != 1:
        raise NotFound(f"ford.main: exactly one get_page_tree call, found {len(mc)}")
    return {
        "gptParams": gpt_params,
        "pageNodeParams": node_params,
        "recCall": _bind(rec[0], gpt_params, "recursive get_page_tree call"),
        "indexNodeCall": _bind(idx[0], node_params, "PageNode call for index.md"),
        "subNodeCall": _bind(sub[0], node_params, "PageNode call for a sibling page"),
        "mainCall": _bind(mc[0], gpt_params, "get_page_tree call in ford.main"),
        "readTextArg": read_arg,
    }


def chars(s):
    return "[" + ", ".join("'" + ("\\'" if c == "'" else "\\\\" if c == "\\" else c) + "'" for c in s) + "]"


def strlist(xs):
    return "[" + ", ".join(chars(x) for x in xs) + "]"


def extract():
    outfile_is_pagedir()
    index, suffix, first, last = pagetree_constants()
    media_key, media_seg, out_key = media_copy()
    return {
        "mediaSrcKey": media_key,
        "mediaDestSeg": media_seg,
        "outDirKey": out_key,
        **alias_setup(),
        "aliasTable": alias_table(),
        "pageDirSeg": page_dir_seg(),
        "locSeg": loc_seg(),
        "nodeUrlSeg": node_url_seg(),
        "convPathSeg": conv_path_seg(),
        "indexName": index,
        "mdSuffix": suffix,
        "skipFirst": first,
        "skipLast": last,
        **call_tables(),
    }


def pairs(kv):
    return "[" + ", ".join(f"({chars(k)}, {chars(v)})" for k, v in kv) + "]"


def translate():
    t = extract()
    al = ", ".join(f"({chars(k)}, {strlist(v)})" for k, v in t["aliasTable"])
    text = f"""/- GENERATED by translate/c17.py from ford/__init__.py, ford/output.py, ford/pagetree.py - do not edit -/
import FordModel.Basic.Chars
namespace Ford.Gen.C17
open Ford

/-- `aliases.update({{...}})` in `ford.main`: alias name -> segments appended to `project_url` -/
def aliasTable : List (Str × List Str) := [{al}]
/-- `BasePage.__init__`: `self.page_dir = self.out_dir / ...` -/
def pageDirSeg : List Str := {strlist(t["pageDirSeg"])}
/-- `PagetreePage.loc` -/
def locSeg : List Str := {strlist(t["locSeg"])}
/-- `PageNode.url`: `self.base_url / ... / self.path` -/
def nodeUrlSeg : List Str := {strlist(t["nodeUrlSeg"])}
/-- `PageNode.__init__`: `output_dir / ... / self.path.parent` (the `path=` of the Markdown conversion) -/
def convPathSeg : List Str := {strlist(t["convPathSeg"])}
/-- the index file name used by `get_page_tree` / `PageNode` -/
def indexName : Str := {chars(t["indexName"])}
/-- `filename.suffix == ...` -/
def mdSuffix : Str := {chars(t["mdSuffix"])}
/-- `if name[0] == c: continue` -/
def skipFirst : List Char := {chars("".join(t["skipFirst"]))}
/-- `if name[-1] == c: continue` -/
def skipLast : List Char := {chars("".join(t["skipLast"]))}

/-! argument forwarding (parameter -> expression passed; an expression is a name of the caller,
    `'text` for a string literal, or source text; parameters that a call omits are absent) -/

/-- parameters of `get_page_tree` with their default expressions (`[]` = required) -/
def gptParams : List (Str × Str) := {pairs(t["gptParams"])}
/-- parameters of `PageNode.__init__` (without `self`) with their default expressions -/
def pageNodeParams : List (Str × Str) := {pairs(t["pageNodeParams"])}
/-- the recursive `get_page_tree(...)` call for a sub-directory -/
def recCall : List (Str × Str) := {pairs(t["recCall"])}
/-- `PageNode(...)` for the index.md of the directory being listed -/
def indexNodeCall : List (Str × Str) := {pairs(t["indexNodeCall"])}
/-- `PageNode(...)` for a sibling `*.md` inside the loop -/
def subNodeCall : List (Str × Str) := {pairs(t["subNodeCall"])}
/-- `get_page_tree(...)` in `ford.main` -/
def mainCall : List (Str × Str) := {pairs(t["mainCall"])}
/-- `Path(path).read_text(...)` in `PageNode.__init__`: the encoding expression -/
def readTextArg : Str := {chars(t["readTextArg"])}

/-! the media directory and the set-up of the aliases -/

/-- `Documentation.writeout`: `copytree(self.data[<key>], out_dir / ...)` - the project setting that is copied -/
def mediaSrcKey : Str := {chars(t["mediaSrcKey"])}
/-- ... and where below the output directory it is put -/
def mediaDestSeg : List Str := {strlist(t["mediaDestSeg"])}
/-- `Documentation.writeout`: `out_dir = self.data[<key>]` -/
def outDirKey : Str := {chars(t["outDirKey"])}
/-- `ford.main`: `url_path = pathlib.Path(<expr>)`, the root of the predefined aliases -/
def aliasRootExpr : Str := {chars(t["aliasRootExpr"])}
/-- `ford.main`: `MetaMarkdown(..., base_url=<expr>, ...)`, the directory links are made relative in -/
def mdBaseUrlExpr : Str := {chars(t["mdBaseUrlExpr"])}
/-- `ford.main`: what `aliases` is built from, in source order (later layers win) -/
def aliasLayers : List Str := {strlist(t["aliasLayers"])}

end Ford.Gen.C17
"""
    common.write_if_changed(common.LEAN / "FordModel" / "Generated" / "C17.lean", text)
    return t
