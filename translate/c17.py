"""C17 translator: the table-shaped parts of the static-page mechanism -> lean/FordModel/Generated/C17.lean
and Generated/C17Probe.lean.  Since round 5 the tables follow the MEANING of the code: wherever the real code
can be run on a stub input the table is what it is observed to do (a rename, an extracted helper, a literal
hoisted to a constant, `a / "x" / b` written `a.joinpath("x", b)` change nothing); the source text is read only for
the call tables, and there arguments are bound to the callee's parameters and constants are resolved.

 observed (main_probe: one complete `ford.main` run on a small project; what `MetaMarkdown` receives is bound to its
 parameters with inspect.signature)
  aliasTable   the aliases whose value lies at or below `base_url`: name -> segments ("url" / "media" / "page")
  aliasRootExpr / mdBaseUrlExpr   the value of |url| / the `base_url` of MetaMarkdown
  aliasLayers  who wins when the user defines an alias called `url` (increasing precedence)
  mediaDestSeg / mediaSrcKey / outDirKey   where a marker file of `media_dir: ./figs` is found below `output_dir: ./outdoc`
 observed (page_probe: the real get_page_tree / PageNode / PagetreePage on the probe directory PROBE_DIR)
  pageDirSeg / locSeg / nodeUrlSeg / convPathSeg   where a page is put (page_dir, loc, url, path= of the conversion);
               PagetreePage.outfile must be page_dir / <path of the page>
  skipFirst / skipLast   the first / last characters (of all printable ASCII) that make the walk pass over an entry
  walkProbeDir / walkProbePages / walkProbeFiles  (Generated/C17Probe.lean) the pages and files built for a page
               directory whose entries are partly symbolic links (file / asset / directory kept outside the page
               directory, link to a sibling, link to nothing) and whose index.md names `../outside.md`
 observed (alias_probe)
  aliasProbeAliases / aliasProbeIn / aliasProbeOut   what the alias preprocessor that `MetaMarkdown(aliases=...)`
               registers makes of a fixed list of lines (aliases at the start of a line, behind blanks / tabs / list
               and quote markers, escaped, unknown)
 read from the source (ast)
  indexName    the one index-file name pagetree.py uses (literal or module-level constant)
  mdSuffix     get_page_tree: `<path>.suffix == <constant>`
  gptParams / pageNodeParams / recCall / indexNodeCall / subNodeCall / mainCall / readTextArg
               every call by which one level of the walk hands its per-run arguments on, each bound to the
               callee's parameters (parameter -> expression passed)

Every extractor raises when its construct is not found / its probe cannot be run (tie broken, never a pass).
"""
from __future__ import annotations

import ast
from pathlib import Path

from harness import common


class NotFound(Exception):
    pass


def _parse(rel):
    p = common.REPO / rel
    return ast.parse(p.read_text(), filename=str(p))


def _func(tree, name, cls=None):
    for n in ast.walk(tree):
        if cls is not None:
            if isinstance(n, ast.ClassDef) and n.name == cls:
                for m in n.body:
                    if isinstance(m, ast.FunctionDef) and m.name == name:
                        return m
        elif isinstance(n, ast.FunctionDef) and n.name == name:
            return n
    raise NotFound(f"function {cls + '.' if cls else ''}{name}")


def _module_constants(tree):
    """module-level `NAME = "text"` bindings (a name bound once to a string constant)"""
    out, seen = {}, set()
    for st in tree.body:
        tgt = val = None
        if isinstance(st, ast.Assign) and len(st.targets) == 1:
            tgt, val = st.targets[0], st.value
        elif isinstance(st, ast.AnnAssign) and st.value is not None:
            tgt, val = st.target, st.value
        if isinstance(tgt, ast.Name):
            if tgt.id in seen:
                out.pop(tgt.id, None)  # rebound: not a constant
            elif isinstance(val, ast.Constant) and isinstance(val.value, str):
                out[tgt.id] = val.value
            seen.add(tgt.id)
    return out


def _str_value(node, consts):
    """the string a constant expression denotes: a literal, or a name bound to one at module level"""
    if isinstance(node, ast.Constant) and isinstance(node.value, str):
        return node.value
    if isinstance(node, ast.Name) and node.id in consts:
        return consts[node.id]
    return None


def pagetree_constants():
    """the index-file name and the page suffix that pagetree.py compares with - literals or module-level
    constants, whatever they are called"""
    tree = _parse("ford/pagetree.py")
    consts = _module_constants(tree)
    gpt = _func(tree, "get_page_tree")
    init = _func(tree, "__init__", "PageNode")
    idx = set()
    for fn in (gpt, init):
        for n in ast.walk(fn):
            v = _str_value(n, consts) if isinstance(n, (ast.Constant, ast.Name)) else None
            if v is not None and v.startswith("index"):
                idx.add(v)
    if len(idx) != 1:
        raise NotFound(f"exactly one index-file constant in pagetree.py, found {sorted(idx)}")
    suffix = set()
    for n in ast.walk(gpt):
        if isinstance(n, ast.Compare) and len(n.ops) == 1 and isinstance(n.ops[0], ast.Eq):
            for a, b in ((n.left, n.comparators[0]), (n.comparators[0], n.left)):
                if isinstance(a, ast.Attribute) and a.attr == "suffix" and _str_value(b, consts) is not None:
                    suffix.add(_str_value(b, consts))
    if len(suffix) != 1:
        raise NotFound(f'get_page_tree: exactly one comparison `<path>.suffix == <constant>`, found {sorted(suffix)}')
    return idx.pop(), suffix.pop()


# ---- tables obtained by running the real code (spelling-independent) ----

_SKIP_CANDIDATES = [chr(c) for c in range(0x20, 0x7F) if chr(c) != "/"]


def skip_probe(get_page_tree, md, d):
    """which first / last characters make `get_page_tree` pass over a directory entry: one file per candidate
    character (all printable ASCII characters that a file name can contain) at the front / at the end of a
    non-Markdown name; the entries that are not recorded as files of the page were skipped"""
    pg = d / "skip-probe"
    pg.mkdir()
    (pg / "index.md").write_text("title: Top\n\ntext\n")
    front = {c + "qq.dat": c for c in _SKIP_CANDIDATES}
    back = {"qq.da" + c: c for c in _SKIP_CANDIDATES}
    for n in list(front) + list(back):
        (pg / n).write_text("x\n")
    with common.quiet():
        top = get_page_tree(pg, [], d / "skip-out", md)
    if top is None or list(top) != [top]:
        raise NotFound("get_page_tree: the skip probe directory (index.md + data files) is not one page")
    files = {str(f) for f in top.files}
    if not files <= set(front) | set(back):
        raise NotFound(f"get_page_tree: unexpected files {sorted(files - set(front) - set(back))[:5]} in the skip probe")
    first = [c for n, c in front.items() if n not in files]
    last = [c for n, c in back.items() if n not in files]
    return first, last


def _rel_parts(p, base, what):
    try:
        return list(Path(p).relative_to(base).parts)
    except ValueError:
        raise NotFound(f"{what}: {p} is not below {base}")


def _strip_suffix(parts, tail, what):
    tail = list(tail)
    if tail and parts[len(parts) - len(tail):] != tail:
        raise NotFound(f"{what}: {'/'.join(parts)} does not end in {'/'.join(tail)}")
    return parts[:len(parts) - len(tail)]


def _same(values, what):
    vs = [v for v in values]
    if not vs or any(v != vs[0] for v in vs):
        raise NotFound(f"{what}: not the same for every page of the probe directory: {vs[:4]}")
    return vs[0]


def page_probe():
    """the real `get_page_tree`, `PageNode` and `PagetreePage` on the probe directory (see PROBE_DIR): the pages
    and files that are built (walkProbe*), and where each page is put:
      nodeUrlSeg   `PageNode.url` relative to `base_url`, without the page's own path
      convPathSeg  the `path=` that `PageNode` hands to the Markdown conversion, relative to the output directory,
                   without the page's location
      pageDirSeg   `PagetreePage.page_dir` relative to the output directory
      locSeg       `PagetreePage.loc` without the page's own path
    and `PagetreePage.outfile` must be `page_dir / <path of the page>`; plus the skip characters (skip_probe)"""
    import inspect
    import os
    from types import SimpleNamespace

    common.import_ford()
    from ford._markdown import MetaMarkdown
    from ford.output import PagetreePage
    from ford.pagetree import get_page_tree

    with common.scratch_dir("ford-c17-probe-") as d:
        d = Path(os.path.realpath(d))
        out = d / "out"
        seen = []

        class Recording(MetaMarkdown):
            def convert(self, source, *a, **k):
                b = inspect.signature(MetaMarkdown.convert).bind(self, source, *a, **k)
                seen.append(b.arguments.get("path"))
                return super().convert(source, *a, **k)

        md = Recording(base_url=out)
        _probe_write(d / "pages", d / "elsewhere", PROBE_DIR, [0])
        (d / "outside.md").write_text("title: Outside\n\ntext\n")
        with common.quiet():
            top = get_page_tree(d / "pages", [], out, md)
        if top is None:
            raise NotFound("get_page_tree returns nothing for the probe directory")
        nodes = list(top)
        paths = [list(Path(n.path).parts) for n in nodes]
        url_seg = _same([_strip_suffix(_rel_parts(n.url, out, "PageNode.url"), p, "PageNode.url")
                         for n, p in zip(nodes, paths)], "PageNode.url")
        conv = {tuple(_rel_parts(x, out, "path= of the Markdown conversion")) for x in seen if x is not None}
        locs = [[x for x in Path(n.location).parts if x != "."] for n in nodes]
        conv_seg = _strip_suffix(sorted(conv, key=len)[0] if conv else [], [], "")
        conv_seg = list(conv_seg)
        for loc in locs:
            if tuple(conv_seg + loc) not in conv:
                raise NotFound(f"PageNode: no Markdown conversion with path=<output>/{'/'.join(conv_seg + loc)}")
        data = {"output_dir": out, "relative": True, "page_dir": d / "pages"}
        proj = SimpleNamespace(settings=SimpleNamespace(project_url=out))
        pages = [PagetreePage(data, proj, n) for n in nodes]
        page_dir_seg = _same([_rel_parts(pg.page_dir, out, "PagetreePage.page_dir") for pg in pages], "page_dir")
        loc_seg = _same([_strip_suffix(list(Path(pg.loc).parts), p, "PagetreePage.loc") for pg, p in zip(pages, paths)],
                        "PagetreePage.loc")
        for pg, n in zip(pages, nodes):
            if Path(pg.outfile) != Path(pg.page_dir) / n.path:
                raise NotFound(f"PagetreePage.outfile is {pg.outfile}, not page_dir / {n.path}")
        first, last = skip_probe(get_page_tree, MetaMarkdown(), d)
        return {"walkProbePages": paths,
                "walkProbeFiles": [[str(f) for f in n.files] for n in nodes],
                "nodeUrlSeg": url_seg, "convPathSeg": conv_seg, "pageDirSeg": page_dir_seg, "locSeg": loc_seg,
                "skipFirst": first, "skipLast": last}


ROOT = "<root>"


def main_probe():
    """one complete `ford.main` run on a small project (media_dir `./figs` holding `sub/marker.bin`, output_dir
    `./outdoc`, user aliases `url` and `mine`): what `MetaMarkdown` is given as `base_url` / `aliases`
    (bound to its parameters, however the call is written) and where the media directory ends up.
      aliasTable    the aliases whose value lies at or below base_url, in dictionary order: name -> segments
      aliasRootExpr the value of |url|;  mdBaseUrlExpr  base_url   (the scratch directory written `<root>`)
      aliasLayers   in increasing precedence: who wins when the user defines an alias called `url`
      mediaDestSeg  where below the output directory the file `sub/marker.bin` of media_dir is found
      mediaSrcKey / outDirKey  the project settings that were used for that (`media_dir`, `output_dir`)"""
    import inspect
    import os

    from harness import e2e

    ford = common.import_ford()
    with common.scratch_dir("ford-c17-main-") as d:
        d = Path(os.path.realpath(d))
        pf = e2e.write_project(d, {"a.f90": "module foo\nend module foo\n"},
                               pages={"index.md": "title: Top\n\ntext\n"},
                               options={"media_dir": "./figs", "output_dir": "./outdoc", "encoding": "iso-8859-15",
                                        "copy_subdir": "c17-sentinel-directory",
                                        "alias": ["url = https://user.example/u", "mine = user-value"]})
        (d / "figs" / "sub").mkdir(parents=True)
        (d / "figs" / "sub" / "marker.bin").write_bytes(b"marker")
        cap = []
        orig = ford.MetaMarkdown

        class Recording(orig):
            def __init__(self, *a, **k):
                b = inspect.signature(orig.__init__).bind(self, *a, **k)
                cap.append({"base_url": b.arguments.get("base_url"),
                            "aliases": dict(b.arguments.get("aliases") or {})})
                super().__init__(*a, **k)

        gpt_calls = []
        orig_gpt = ford.get_page_tree
        gsig = inspect.signature(orig_gpt)

        def gpt_wrapper(*a, **k):
            gpt_calls.append(dict(gsig.bind(*a, **k).arguments))
            return orig_gpt(*a, **k)

        ford.MetaMarkdown = Recording
        ford.get_page_tree = gpt_wrapper
        try:
            res = e2e.run_inprocess(pf)
        finally:
            ford.MetaMarkdown = orig
            ford.get_page_tree = orig_gpt
        if len(gpt_calls) != 1:
            raise NotFound(f"ford.main calls get_page_tree {len(gpt_calls)} times, expected once")
        if res["rc"] != 0 or not cap:
            raise NotFound(f"ford.main on the probe project: rc={res['rc']} {res['exc']}, {len(cap)} MetaMarkdown objects")
        if len(cap) != 1:
            raise NotFound(f"ford.main makes {len(cap)} MetaMarkdown objects, expected one")
        base, aliases = Path(str(cap[0]["base_url"])), cap[0]["aliases"]
        table = []
        for k, v in aliases.items():
            try:
                table.append((k, list(Path(str(v)).relative_to(base).parts)))
            except ValueError:
                pass
        user_url = aliases.get("url") == "https://user.example/u"
        layers = (["<predefined>"] if user_url else []) + (["proj_data.alias"] if "mine" in aliases or user_url else []) \
            + ([] if user_url else ["<predefined>"])
        out = Path(os.path.realpath(res["out"])) if res["out"] else None
        if out != d / "outdoc" or not out.is_dir():
            raise NotFound(f"ford.main wrote to {out}, the project says output_dir: ./outdoc")
        markers = sorted(out.rglob("marker.bin"))
        if len(markers) != 1 or markers[0].read_bytes() != b"marker" or markers[0].parent.name != "sub":
            raise NotFound(f"the file sub/marker.bin of media_dir is found at {[str(m) for m in markers]} below the output")

        def norm(x):
            return str(x).replace(str(d), ROOT)

        return {"mainCall": main_call_table(gpt_calls[0], res["settings"], orig),
                "aliasTable": table, "aliasRootExpr": norm(aliases.get("url", "")), "mdBaseUrlExpr": norm(base),
                "aliasLayers": layers, "mediaSrcKey": "media_dir", "outDirKey": "output_dir",
                "mediaDestSeg": list(markers[0].parent.parent.relative_to(out).parts)}


# ---- argument forwarding: what each level of the walk hands to the next ----

# ---- argument forwarding, observed: what each level of the walk hands to the next ----
# The walk is run with a recognisable value for every per-run argument (a list object, a path, a Markdown object, a
# progress object, the codec `latin-1`); `ford.pagetree.get_page_tree` and `ford.pagetree.PageNode` are wrapped, so every
# call - also the recursive ones, which go through the module's name - is seen with its arguments bound to the callee's
# parameters (inspect.signature).  An argument is then NAMED BY WHAT IT IS, not by how the source spells it:
#   <name of a parameter of the caller>   the very value the enclosing get_page_tree call received for that parameter
#   <entry>    the path of the directory entry being processed (the caller's directory / name)
#   <index>    the index.md of the caller's directory
#   <node>     the PageNode that the enclosing call made for its own index.md
#   'text / None   a string / None that is none of the above (a literal)
# and a parameter that the call does not pass is absent (the callee's default applies).

FWD_ENTRY, FWD_INDEX, FWD_NODE = "<entry>", "<index>", "<node>"


def _default_expr(d):
    import inspect

    if d is inspect.Parameter.empty:
        return ""
    if isinstance(d, str):
        return "'" + d
    return repr(d)


def _sig_params(sig, drop_self=False):
    import inspect

    ps = list(sig.parameters.values())
    if drop_self:
        ps = ps[1:]
    for q in ps:
        if q.kind is not inspect.Parameter.POSITIONAL_OR_KEYWORD:
            raise NotFound(f"parameter {q.name}: plain positional-or-keyword parameters only")
    return [(q.name, _default_expr(q.default)) for q in ps]


def _label(v, ctx):
    import os

    if v is not None:
        for q, cv in ctx["args"].items():
            if v is cv:
                return q
        for q, cv in ctx["args"].items():
            if isinstance(v, (str, os.PathLike)) and type(v) is type(cv) and v == cv:
                return q
    if isinstance(v, os.PathLike):
        if Path(v) == ctx["entry"]:
            return FWD_ENTRY
        if Path(v) == ctx["index"]:
            return FWD_INDEX
    if ctx["node"] is not None and v is ctx["node"]:
        return FWD_NODE
    if ctx["node"] is not None and isinstance(v, list) and v is getattr(ctx["node"], "copy_subdir", None):
        return FWD_NODE + ".copy_subdir"
    if isinstance(v, str):
        return "'" + v
    if v is None:
        return "None"
    return "?" + type(v).__name__


def forward_probe():
    import inspect
    import os

    common.import_ford()
    import ford.pagetree as pt
    from ford._markdown import MetaMarkdown

    class Progress:
        def set_current(self, *a, **k):
            pass

    with common.scratch_dir("ford-c17-fwd-") as d:
        d = Path(os.path.realpath(d))
        pages = d / "pages"
        (pages / "sub" / "deep").mkdir(parents=True)
        (pages / "index.md").write_text("title: Top\ncopy_subdir: c17-own-of-top\n\ntext\n")
        (pages / "a.md").write_text("title: A\n\ntext\n")
        (pages / "sub" / "index.md").write_text("title: Sub\ncopy_subdir: c17-own-of-sub\n\ntext\n")
        (pages / "sub" / "b.md").write_bytes("title: Café\n\ntext\n".encode("latin-1"))
        (pages / "sub" / "deep" / "index.md").write_text("title: Deep\ncopy_subdir: c17-own-of-deep\n\ntext\n")
        (pages / "sub" / "deep" / "c.md").write_text("title: C\n\ntext\n")
        orig_gpt, orig_node = pt.get_page_tree, pt.PageNode
        gsig, nsig = inspect.signature(orig_gpt), inspect.signature(orig_node.__init__)
        gparams, nparams = _sig_params(gsig), _sig_params(nsig, drop_self=True)
        gcalls, ncalls = [], []

        def wrapper(*a, **k):
            b = gsig.bind(*a, **k)
            given = dict(b.arguments)
            b.apply_defaults()
            gcalls.append({"given": given, "all": dict(b.arguments)})
            return orig_gpt(*a, **k)

        class Recording(orig_node):
            def __init__(self, *a, **k):
                b = nsig.bind(self, *a, **k)
                given = dict(b.arguments)
                given.pop(next(iter(nsig.parameters)))
                ncalls.append({"given": given, "self": self})
                super().__init__(*a, **k)

        sent = {"topdir": pages, "proj_copy_subdir": ["c17-sentinel-directory"], "output_dir": d / "out-sentinel",
                "md": MetaMarkdown(), "progress": Progress(), "encoding": "latin-1"}
        missing = [q for q in sent if q not in gsig.parameters]
        if missing:
            raise NotFound(f"get_page_tree has no parameter {missing}")
        pt.get_page_tree, pt.PageNode = wrapper, Recording
        try:
            with common.quiet():
                top = wrapper(**sent)
        finally:
            pt.get_page_tree, pt.PageNode = orig_gpt, orig_node
        if top is None:
            raise NotFound("get_page_tree returns nothing for the forwarding probe directory")

        def path_of(rec):
            return Path(rec["given"].get("path", ""))

        def gcall(topdir):
            hits = [g for g in gcalls if Path(g["all"]["topdir"]) == topdir]
            if len(hits) != 1:
                raise NotFound(f"{len(hits)} get_page_tree calls for {topdir.relative_to(d)} (the recursion is not a call "
                               f"of ford.pagetree.get_page_tree?)")
            return hits[0]

        def ncall(path):
            hits = [n for n in ncalls if path_of(n) == path]
            if len(hits) != 1:
                raise NotFound(f"{len(hits)} PageNode objects made for {path.relative_to(d)}")
            return hits[0]

        def ctx(directory, entry):
            node = [n["self"] for n in ncalls if path_of(n) == directory / "index.md"]
            return {"args": gcall(directory)["all"], "entry": entry, "index": directory / "index.md",
                    "node": node[0] if node else None}

        def table(given, params, c):
            order = {n: i for i, (n, _) in enumerate(params)}
            unknown = [q for q in given if q not in order]
            if unknown:
                raise NotFound(f"argument {unknown} is no parameter")
            return sorted(((q, _label(v, c)) for q, v in given.items()), key=lambda kv: order[kv[0]])

        sub, deep = pages / "sub", pages / "sub" / "deep"
        rec1 = table(gcall(sub)["given"], gparams, ctx(pages, sub))
        rec2 = table(gcall(deep)["given"], gparams, ctx(sub, deep))
        idx1 = table(ncall(sub / "index.md")["given"], nparams, ctx(sub, None))
        idx2 = table(ncall(deep / "index.md")["given"], nparams, ctx(deep, None))
        sn1 = table(ncall(sub / "b.md")["given"], nparams, ctx(sub, sub / "b.md"))
        sn2 = table(ncall(deep / "c.md")["given"], nparams, ctx(deep, deep / "c.md"))
        for a, b, what in ((rec1, rec2, "recursive get_page_tree call"), (idx1, idx2, "PageNode call for index.md"),
                           (sn1, sn2, "PageNode call for a sibling page")):
            if a != b:
                raise NotFound(f"the {what} passes different things one and two levels down: {a} / {b}")
        # how PageNode decodes the file: sub/b.md is Latin-1 text, the walk runs with encoding=latin-1
        b_node = ncall(sub / "b.md")
        got_enc = b_node["given"].get("encoding")
        title = getattr(b_node["self"], "title", None)
        if title == "Café" and got_enc == "latin-1":
            read_arg = "encoding"
        elif title is None:
            read_arg = "?not-decoded-with-the-encoding-argument"
        else:
            read_arg = "?decoded-as-" + ascii(title)
        return {"gptParams": gparams, "pageNodeParams": nparams, "recCall": rec1, "indexNodeCall": idx1,
                "subNodeCall": sn1, "readTextArg": read_arg}


def main_call_table(given, settings, md_type):
    """the arguments of the get_page_tree call of ford.main (bound to parameters), each named by the project setting
    whose value it is (`proj_data.<setting>`)"""
    import dataclasses
    import inspect

    common.import_ford()
    from ford.pagetree import get_page_tree

    order = {n: i for i, n in enumerate(inspect.signature(get_page_tree).parameters)}
    fields = [f.name for f in dataclasses.fields(settings)] if dataclasses.is_dataclass(settings) else sorted(vars(settings))
    out = []
    for q, v in given.items():
        names = []
        if v is not None and not isinstance(v, bool):
            names = [f for f in fields if getattr(settings, f, None) is v] or \
                    [f for f in fields if type(getattr(settings, f, None)) is type(v) and getattr(settings, f, None) == v]
        if q in names:
            lab = "proj_data." + q
        elif names:
            lab = "proj_data." + names[0]
        elif isinstance(v, md_type):
            lab = "md"
        elif isinstance(v, str):
            lab = "'" + v
        elif v is None:
            lab = "None"
        else:
            lab = type(v).__name__.lower().replace("progressbar", "progress")
        out.append((q, lab))
    return sorted(out, key=lambda kv: order.get(kv[0], 99))


PROBE_ALIASES = [("page", "/o/page"), ("k", "V")]
PROBE_LINES = ["|k|", " |k|", "   |k|", "    |k|", "\t|k|", "        - [a](|page|/a.html)", "\t- ![i](|page|/i.png)",
               "> |k|", "1.  |k| and |k|", "    \\|k|", "|nope| |k|", "| k | |k|", "    continuation (|page|/x.html)",
               "\t\t|k", "|k||", ""]


def alias_probe():
    common.import_ford()
    from ford._markdown import MetaMarkdown

    md = MetaMarkdown(aliases=dict(PROBE_ALIASES))
    try:
        pre = md.preprocessors["ford_aliases"]
    except KeyError:
        raise NotFound("MetaMarkdown(aliases=...) registers no preprocessor called ford_aliases")
    out = pre.run(list(PROBE_LINES))
    if not (isinstance(out, list) and len(out) == len(PROBE_LINES) and all(isinstance(x, str) for x in out)):
        raise NotFound(f"the alias preprocessor returned {out!r} for {len(PROBE_LINES)} lines")
    return {"aliasProbeAliases": PROBE_ALIASES, "aliasProbeIn": PROBE_LINES, "aliasProbeOut": out}


# the probe directory: (name, kind, content, how it is on disk)
#   kind "page": content = (title, ordered_subpage);  "file": content ignored;  "dir": content = entries
#   on disk: None = regular, "out" = symbolic link to a copy kept outside the page directory,
#            "sib:<name>" = link to that sibling, "dangling" = link to nothing
PROBE_DIR = [
    ("index.md", "page", ("Top", ["news.md", "../outside.md"]), None),
    ("a.md", "page", ("A", []), None),
    ("changelog.md", "page", ("Changes", []), "out"),
    ("news.md", "page", ("A", []), "sib:a.md"),
    ("logo.txt", "file", None, "out"),
    ("plain.txt", "file", None, None),
    ("broken.md", "page", ("B", []), "dangling"),
    ("docs", "dir", [
        ("index.md", "page", ("Docs", []), None),
        ("model.md", "page", ("Model", []), "out"),
        ("deep", "dir", [("index.md", "page", ("Deep", []), "out")], None),
    ], "out"),
    ("guide", "dir", [
        ("index.md", "page", ("Guide", []), None),
        ("theory", "dir", [("index.md", "page", ("Theory", []), None), ("t.dat", "file", None, None)], "out"),
    ], None),
]


def _probe_write(root, ext, entries, state):
    import os

    root.mkdir(parents=True, exist_ok=True)
    for name, kind, content, how in entries:
        p = root / name
        if how == "dangling":
            os.symlink("nowhere/" + name, p)
            continue
        if how and how.startswith("sib:"):
            os.symlink(how[4:], p)
            continue
        dest = p
        if how == "out":
            state[0] += 1
            dest = ext / f"kept{state[0]}" / ("ORIGINAL-" + name.upper())
            dest.parent.mkdir(parents=True, exist_ok=True)
            os.symlink(os.path.relpath(dest, root) if state[0] % 2 else str(dest), p)
        if kind == "dir":
            _probe_write(dest, ext, content, state)
        elif kind == "page":
            title, ordered = content
            dest.write_text("".join([f"title: {title}\n"] + [f"ordered_subpage: {o}\n" for o in ordered]) + "\ntext\n")
        else:
            dest.write_text("data\n")


# ---- the copy loops and the project's copy_subdir, observed ----
# (name, kind, content) with kind dir / page (content = (title, own copy_subdir list)) / file
COPY_PROBE_PROJECT = ["figures", "media"]
COPY_PROBE_DIR = [
    ("index.md", "page", ("Top", ["images", "nowhere", "plots"])),
    ("a.md", "page", ("A", [])),
    ("z.md", "page", ("Z", ["plots"])),
    ("images", "dir", [("i.png", "file", None)]),
    ("plots", "dir", [("p.dat", "file", None), ("raw", "dir", [("r.dat", "file", None)])]),
    ("media", "dir", [("top.dat", "file", None)]),
    ("notes.txt", "file", None),
    ("zz.txt", "file", None),
    ("solo", "dir", [
        ("index.md", "page", ("Solo", ["keep"])),
        ("keep", "dir", [("k.dat", "file", None)]),
        ("media", "dir", [("not-copied.dat", "file", None)]),
    ]),
    ("tut", "dir", [
        ("index.md", "page", ("Tutorial", [])),
        ("b.md", "page", ("B", [])),
        ("media", "dir", [("fig.dat", "file", None), ("sub", "dir", [("deep.dat", "file", None)])]),
        ("data.txt", "file", None),
        ("zeta.txt", "file", None),
        ("howto", "dir", [
            ("index.md", "page", ("Howto", ["screenshots", "downloads", "extra"])),
            ("leaf.md", "page", ("Leaf", [])),
            ("downloads", "dir", [("tool.zip", "file", None)]),
            ("extra", "dir", [("e.dat", "file", None)]),
            ("media", "dir", [("x.dat", "file", None)]),
            ("figures", "dir", [("f.dat", "file", None)]),
            ("more", "dir", [
                ("index.md", "page", ("More", [])),
                ("figures", "dir", [("g.dat", "file", None)]),
                ("m.txt", "file", None),
            ]),
        ]),
    ]),
]


def _copy_probe_write(root, entries):
    root.mkdir(parents=True, exist_ok=True)
    for name, kind, content in entries:
        if kind == "dir":
            _copy_probe_write(root / name, content)
        elif kind == "page":
            title, copy = content
            (root / name).write_text("".join([f"title: {title}\n"] + [f"copy_subdir: {c}\n" for c in copy]) + "\ntext\n")
        else:
            (root / name).write_text("data of " + name + "\n")


def _copy_probe_lean(entries):
    out = []
    for name, kind, content in entries:
        if kind == "dir":
            out.append(f".dir {chars(name)} [{', '.join(_copy_probe_lean(content))}]")
        elif kind == "page":
            title, copy = content
            out.append(f".file {chars(name)} ⟨some {chars(title)}, [], {strlist(copy)}, []⟩")
        else:
            out.append(f".file {chars(name)} ⟨none, [], [], []⟩")
    return out


def copy_probe():
    """the real `get_page_tree` (started with the project list COPY_PROBE_PROJECT, the way `ford.main` starts it) and
    the real `PagetreePage.writeout` of every page, in iteration order, on COPY_PROBE_DIR: pages that set their own
    `copy_subdir` and pages that do not, at four depths, lists whose FIRST entry does not exist next to the page, a
    leaf page and its index page naming the same directory.  Only the rendering of the page (`BasePage.writeout`) is
    replaced by writing an empty file.  Observed: the `copy_subdir` in effect for every page, and everything that
    exists below <output>/page afterwards."""
    import os
    from types import SimpleNamespace

    common.import_ford()
    import ford.output as fo
    from ford._markdown import MetaMarkdown
    from ford.pagetree import get_page_tree

    with common.scratch_dir("ford-c17-copy-") as d:
        d = Path(os.path.realpath(d))
        out = d / "out"
        _copy_probe_write(d / "pages", COPY_PROBE_DIR)
        (out / "page").mkdir(parents=True)
        with common.quiet():
            top = get_page_tree(d / "pages", list(COPY_PROBE_PROJECT), out, MetaMarkdown(base_url=out))
        if top is None:
            raise NotFound("get_page_tree returns nothing for the copy probe directory")
        nodes = list(top)
        data = {"output_dir": out, "relative": True, "page_dir": d / "pages"}
        proj = SimpleNamespace(settings=SimpleNamespace(project_url=out))
        orig = fo.BasePage.writeout

        def stub(self):
            Path(self.outfile).write_text("")

        fo.BasePage.writeout = stub
        try:
            with common.quiet():
                for n in nodes:
                    fo.PagetreePage(data, proj, n).writeout()
        finally:
            fo.BasePage.writeout = orig
        listing = []
        for dp, dn, fn in os.walk(out / "page"):
            rel = [x for x in Path(os.path.relpath(dp, out / "page")).parts if x != "."]
            listing += [(rel + [x], True) for x in dn] + [(rel + [x], False) for x in fn]
        return {"copyProbeNodes": [(list(Path(n.path).parts), [str(c) for c in n.copy_subdir]) for n in nodes],
                "copyProbeOut": sorted(listing)}


def _lean_entries(entries):
    out = []
    for name, kind, content, how in entries:
        if how == "dangling":
            continue  # a link to nothing is no entry
        if kind == "dir":
            out.append(f".dir {chars(name)} [{', '.join(_lean_entries(content))}]")
        elif kind == "page":
            title, ordered = content
            out.append(f".file {chars(name)} ⟨some {chars(title)}, {strlist(ordered)}, [], []⟩")
        else:
            out.append(f".file {chars(name)} ⟨none, [], [], []⟩")
    return out


def chars(s):
    def one(c):
        return {"'": "\\'", "\\": "\\\\", "\t": "\\t", "\n": "\\n"}.get(c, c)
    return "[" + ", ".join("'" + one(c) + "'" for c in s) + "]"


def strlist(xs):
    return "[" + ", ".join(chars(x) for x in xs) + "]"


_CACHE = {}


def extract(fresh=False):
    """all tables (computed once per process: the probes run the real code)"""
    if fresh or "t" not in _CACHE:
        index, suffix = pagetree_constants()
        _CACHE["t"] = {
            **main_probe(),
            **page_probe(),
            "indexName": index,
            "mdSuffix": suffix,
            **forward_probe(),
            **alias_probe(),
            **copy_probe(),
        }
    return _CACHE["t"]


def pairs(kv):
    return "[" + ", ".join(f"({chars(k)}, {chars(v)})" for k, v in kv) + "]"


def translate():
    t = extract(fresh=True)
    al = ", ".join(f"({chars(k)}, {strlist(v)})" for k, v in t["aliasTable"])
    text = f"""/- GENERATED by translate/c17.py from ford/__init__.py, ford/output.py, ford/pagetree.py - do not edit.
   The path, alias, media and skip tables are OBSERVED by running the real code on stub inputs (see the translator), the call tables are read from the source. -/
import FordModel.Basic.Chars
namespace Ford.Gen.C17
open Ford

/-- the aliases that `ford.main` hands to `MetaMarkdown` whose value lies at or below `base_url`: name -> segments below it -/
def aliasTable : List (Str × List Str) := [{al}]
/-- `PagetreePage.page_dir` relative to the output directory -/
def pageDirSeg : List Str := {strlist(t["pageDirSeg"])}
/-- `PagetreePage.loc` without the path of the page -/
def locSeg : List Str := {strlist(t["locSeg"])}
/-- `PageNode.url` relative to `base_url`, without the path of the page -/
def nodeUrlSeg : List Str := {strlist(t["nodeUrlSeg"])}
/-- the `path=` that `PageNode` gives the Markdown conversion, relative to the output directory, without the location of the page -/
def convPathSeg : List Str := {strlist(t["convPathSeg"])}
/-- the index file name used by `get_page_tree` / `PageNode` -/
def indexName : Str := {chars(t["indexName"])}
/-- `filename.suffix == ...` -/
def mdSuffix : Str := {chars(t["mdSuffix"])}
/-- first characters (of all printable ASCII ones) that make `get_page_tree` pass over a directory entry -/
def skipFirst : List Char := {chars("".join(t["skipFirst"]))}
/-- last characters (of all printable ASCII ones) that make `get_page_tree` pass over a directory entry -/
def skipLast : List Char := {chars("".join(t["skipLast"]))}

/-! argument forwarding, OBSERVED by running the walk with a recognisable value for every argument (parameter ->
    what is passed, named by what it is: a parameter name = the very value the enclosing `get_page_tree` call received
    for it, `<entry>` = the path of the directory entry being processed, `<index>` = the index.md of the directory,
    `<node>` = the PageNode of the enclosing call's own index.md, `'text` = a string literal; parameters that a call
    omits are absent) -/

/-- parameters of `get_page_tree` with their default expressions (`[]` = required) -/
def gptParams : List (Str × Str) := {pairs(t["gptParams"])}
/-- parameters of `PageNode.__init__` (without `self`) with their default expressions -/
def pageNodeParams : List (Str × Str) := {pairs(t["pageNodeParams"])}
/-- the recursive `get_page_tree(...)` call for a sub-directory -/
def recCall : List (Str × Str) := {pairs(t["recCall"])}
/-- `PageNode(...)` for the index.md of the directory being listed -/
def indexNodeCall : List (Str × Str) := {pairs(t["indexNodeCall"])}
/-- `PageNode(...)` for a sibling `*.md` inside the loop -/
def subNodeCall : List (Str × Str) := {pairs(t["subNodeCall"])}
/-- `get_page_tree(...)` in `ford.main`: each argument named by the project setting whose value it is -/
def mainCall : List (Str × Str) := {pairs(t["mainCall"])}
/-- how `PageNode` decodes its file: `encoding` = with the value of its `encoding` argument (a Latin-1 page read in a walk run with `latin-1`) -/
def readTextArg : Str := {chars(t["readTextArg"])}

/-! the media directory and the set-up of the aliases -/

/-- the project setting whose directory a complete run copies into the output (observed with a marker file) -/
def mediaSrcKey : Str := {chars(t["mediaSrcKey"])}
/-- ... and where below the output directory it is put -/
def mediaDestSeg : List Str := {strlist(t["mediaDestSeg"])}
/-- the project setting that names the directory the run writes to (observed) -/
def outDirKey : Str := {chars(t["outDirKey"])}
/-- the value of `|url|`, the root of the predefined aliases (the scratch directory of the probe run is written `<root>`) -/
def aliasRootExpr : Str := {chars(t["aliasRootExpr"])}
/-- the `base_url` that `ford.main` gives `MetaMarkdown`: the directory links are made relative in -/
def mdBaseUrlExpr : Str := {chars(t["mdBaseUrlExpr"])}
/-- the layers of the alias dictionary in increasing precedence, observed with a user alias called `url` -/
def aliasLayers : List Str := {strlist(t["aliasLayers"])}

/-! the alias preprocessor, probed: `MetaMarkdown(aliases=aliasProbeAliases)`, its registered alias
    preprocessor run on `aliasProbeIn` gave `aliasProbeOut` -/

def aliasProbeAliases : List (Str × Str) := {pairs(t["aliasProbeAliases"])}
def aliasProbeIn : List Str := {strlist(t["aliasProbeIn"])}
def aliasProbeOut : List Str := {strlist(t["aliasProbeOut"])}

end Ford.Gen.C17
"""
    common.write_if_changed(common.LEAN / "FordModel" / "Generated" / "C17.lean", text)
    probe = f"""/- GENERATED by translate/c17.py by running ford.pagetree.get_page_tree on a fixed directory - do not edit -/
import FordModel.PageTree
namespace Ford.Gen.C17
open Ford Ford.PT

/-- the probe directory as it looks through its symbolic links (`changelog.md`, `logo.txt`, `docs`,
    `docs/model.md`, `docs/deep/index.md`, `guide/theory` are links to things kept outside the page directory,
    `news.md` is a link to `a.md`; `broken.md`, a link to nothing, is no entry) -/
def walkProbeDir : List Entry := [{', '.join(_lean_entries(PROBE_DIR))}]
/-- `[n.path for n in get_page_tree(<probe directory>)]`, observed -/
def walkProbePages : List PathS := [{', '.join(strlist(x) for x in t["walkProbePages"])}]
/-- `[n.files for n in get_page_tree(<probe directory>)]`, observed -/
def walkProbeFiles : List (List Str) := [{', '.join(strlist(x) for x in t["walkProbeFiles"])}]

/-! the copy loops and the project's `copy_subdir`, probed: the real `get_page_tree(<copyProbeDir>, copyProbeProj, ...)`
    and the real `PagetreePage.writeout` of every page in iteration order (only the rendering replaced by an empty file) -/

def copyProbeProj : List Str := {strlist(COPY_PROBE_PROJECT)}
def copyProbeDir : List Entry := [{', '.join(_copy_probe_lean(COPY_PROBE_DIR))}]
/-- `[(n.path, n.copy_subdir) for n in tree]`, observed -/
def copyProbeNodes : List (PathS × List Str) := [{', '.join('(' + strlist(p) + ', ' + strlist(c) + ')' for p, c in t["copyProbeNodes"])}]
/-- everything below `<output>/page` after all pages were written (`true` = directory), observed -/
def copyProbeOut : List (PathS × Bool) := [{', '.join('(' + strlist(p) + ', ' + ('true' if b else 'false') + ')' for p, b in t["copyProbeOut"])}]

end Ford.Gen.C17
"""
    common.write_if_changed(common.LEAN / "FordModel" / "Generated" / "C17Probe.lean", probe)
    return t
