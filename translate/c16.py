"""Translator for C16: the tables of the external-project mechanism ->
lean/FordModel/Generated/C16.lean.

  ATTRIBUTES, ENTITIES, METADATA_NAME      ford/external_project.py   (ast)
  _project_list / self.obj of each External* class named in ENTITIES   ford/sourceform.py (ast)
  class-level `proctype = "..."` of the non-External entity classes    ford/sourceform.py (ast)
  LINK_TYPES (in source order)             ford/fortran_project.py    (ast)
  the exception classes in the `except (...)` clause of load_external_modules, evaluated
  against a fixed list of ways in which fetching modules.json can fail (issubclass)

Raises when a construct is not found (counts as 'tie broken')."""
from __future__ import annotations

import ast
import json
import urllib.error
from pathlib import Path

from harness import common

# ways in which fetching / decoding the description can fail: name -> exception class
FETCH_ERRORS = {
    "FileNotFoundError": FileNotFoundError,        # local: modules.json missing
    "IsADirectoryError": IsADirectoryError,        # local: modules.json is a directory
    "PermissionError": PermissionError,            # local: unreadable
    "URLError": urllib.error.URLError,             # remote: unreachable host
    "HTTPError": urllib.error.HTTPError,           # remote: 404
    "TimeoutError": TimeoutError,                  # remote: socket timeout while reading
    "JSONDecodeError": json.JSONDecodeError,       # not JSON / truncated
    "UnicodeDecodeError": UnicodeDecodeError,      # not UTF-8
}


def _lean_str(s: str) -> str:
    return "[" + ", ".join("Char.ofNat %d" % ord(c) for c in s) + "]"


def _assign(tree, name):
    for n in tree.body:
        if isinstance(n, ast.Assign) and len(n.targets) == 1 and isinstance(n.targets[0], ast.Name) \
                and n.targets[0].id == name:
            return n.value
        if isinstance(n, ast.AnnAssign) and isinstance(n.target, ast.Name) and n.target.id == name:
            return n.value
    raise LookupError(f"assignment to {name} not found")


def extract(repo: Path) -> dict:
    xp = ast.parse((repo / "ford" / "external_project.py").read_text())
    sf = ast.parse((repo / "ford" / "sourceform.py").read_text())
    fp = ast.parse((repo / "ford" / "fortran_project.py").read_text())
    out = {}
    attrs = ast.literal_eval(_assign(xp, "ATTRIBUTES"))
    if not (isinstance(attrs, list) and attrs and all(isinstance(a, str) for a in attrs)):
        raise LookupError("external_project.ATTRIBUTES is not a list of strings")
    out["attributes"] = attrs
    ent = _assign(xp, "ENTITIES")
    if not isinstance(ent, ast.Dict):
        raise LookupError("external_project.ENTITIES is not a dict literal")
    classes = {n.name: n for n in sf.body if isinstance(n, ast.ClassDef)}
    entities = []
    for k, v in zip(ent.keys, ent.values):
        if not (isinstance(k, ast.Constant) and isinstance(k.value, str) and isinstance(v, ast.Name)):
            raise LookupError("external_project.ENTITIES: unexpected entry")
        cls = classes.get(v.id)
        if cls is None:
            raise LookupError(f"class {v.id} not found in sourceform.py")
        plist = None
        objname = None
        for n in cls.body:
            if isinstance(n, ast.Assign) and isinstance(n.targets[0], ast.Name) and n.targets[0].id == "_project_list":
                plist = n.value.value
            if isinstance(n, ast.FunctionDef) and n.name == "__init__":
                for s in ast.walk(n):
                    if isinstance(s, ast.Assign) and isinstance(s.targets[0], ast.Attribute) \
                            and s.targets[0].attr == "obj" and isinstance(s.value, ast.Constant):
                        objname = s.value.value
        if plist is None or objname is None:
            raise LookupError(f"{v.id}: _project_list / self.obj not found")
        entities.append((k.value, plist, objname, v.id))
    out["entities"] = entities
    out["metadataName"] = ast.literal_eval(_assign(xp, "METADATA_NAME"))
    # proctype values of the entity classes the exporter can meet
    pts = []
    for name, cls in classes.items():
        if name.startswith("External"):
            continue
        for n in cls.body:
            if isinstance(n, ast.Assign) and isinstance(n.targets[0], ast.Name) and n.targets[0].id == "proctype" \
                    and isinstance(n.value, ast.Constant):
                pts.append((name, n.value.value))
    if not pts:
        raise LookupError("no class-level proctype assignments found in sourceform.py")
    out["proctypes"] = pts
    lt = _assign(fp, "LINK_TYPES")
    if not isinstance(lt, ast.Dict):
        raise LookupError("fortran_project.LINK_TYPES is not a dict literal")
    out["linkTypes"] = [(k.value, v.value) for k, v in zip(lt.keys, lt.values)]
    # except clause of load_external_modules
    fn = next((n for n in xp.body if isinstance(n, ast.FunctionDef) and n.name == "load_external_modules"), None)
    if fn is None:
        raise LookupError("load_external_modules not found")
    handlers = [h for t in ast.walk(fn) if isinstance(t, ast.Try) for h in t.handlers]
    if not handlers:
        raise LookupError("load_external_modules has no try/except")
    import builtins
    ns = dict(vars(builtins))
    ns.update(URLError=urllib.error.URLError, HTTPError=urllib.error.HTTPError, json=json)
    caught_classes = []
    for h in handlers:
        if h.type is None:
            caught_classes.append(BaseException)
            continue
        src = ast.unparse(h.type)
        try:
            val = eval(src, ns)  # noqa: S307 - names of exception classes only
        except Exception as e:
            raise LookupError(f"cannot resolve exception classes {src!r}: {e}")
        caught_classes += list(val) if isinstance(val, tuple) else [val]
    out["caughtSource"] = [c.__name__ for c in caught_classes]
    out["fetchErrors"] = [(n, any(issubclass(c, k) for k in caught_classes)) for n, c in FETCH_ERRORS.items()]
    # the local-path branch: is the URL turned into a Path unconditionally?
    return out


def render(t: dict) -> str:
    L = [
        "/- GENERATED by translate/c16.py from ford/external_project.py, ford/sourceform.py,",
        "   ford/fortran_project.py - do not edit -/",
        "import FordModel.Basic.Chars",
        "namespace Ford.Ext.Gen",
        "open Ford",
        "/-- `external_project.ATTRIBUTES`, in source order -/",
        "def attributes : List Str := [",
        ",\n".join(f"  {_lean_str(a)} /- {a} -/" for a in t["attributes"]),
        "]",
        "/-- `external_project.ENTITIES`: key, `_project_list` and `self.obj` of the class it maps to -/",
        "def entities : List (Str × (Str × Str)) := [",
        ",\n".join(f"  ({_lean_str(k)}, ({_lean_str(p)}, {_lean_str(o)})) /- {k} -> {c}: {p}, obj={o} -/"
                   for k, p, o, c in t["entities"]),
        "]",
        f"/-- `external_project.METADATA_NAME` = {t['metadataName']!r} -/",
        f"def metadataName : Str := {_lean_str(t['metadataName'])}",
        "/-- class-level `proctype` values of the (non-External) entity classes of sourceform.py -/",
        "def proctypes : List Str := [",
        ",\n".join(f"  {_lean_str(p)} /- {c}: {p} -/" for c, p in t["proctypes"]),
        "]",
        "/-- `fortran_project.LINK_TYPES`, in source order (the order `Project.find` chains the collections in) -/",
        "def linkTypes : List (Str × Str) := [",
        ",\n".join(f"  ({_lean_str(k)}, {_lean_str(v)}) /- {k} -> {v} -/" for k, v in t["linkTypes"]),
        "]",
        f"/-- ways of failing to fetch the description, and whether `except ({', '.join(t['caughtSource'])})`",
        "    of `load_external_modules` catches them -/",
        "def fetchErrors : List (Str × Bool) := [",
        ",\n".join(f"  ({_lean_str(n)}, {'true' if c else 'false'}) /- {n} -/" for n, c in t["fetchErrors"]),
        "]",
        "end Ford.Ext.Gen",
        "",
    ]
    return "\n".join(L)


def translate():
    t = extract(common.REPO)
    common.write_if_changed(common.LEAN / "FordModel" / "Generated" / "C16.lean", render(t))
    return t


if __name__ == "__main__":
    print(json.dumps(translate(), indent=1))
