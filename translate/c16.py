"""Translator for C16: the tables of the external-project mechanism ->
lean/FordModel/Generated/C16.lean.

  ATTRIBUTES, ENTITIES, METADATA_NAME      ford/external_project.py   (ast)
  _project_list / self.obj of each External* class named in ENTITIES   ford/sourceform.py (ast)
  class-level `proctype = "..."` of the non-External entity classes    ford/sourceform.py (ast)
  LINK_TYPES (in source order)             ford/fortran_project.py    (ast)
  the exception classes in the `except (...)` clause of load_external_modules, evaluated
  against a fixed list of ways in which fetching modules.json can fail (issubclass)
  the control flow of load_external_modules around that clause: the `try` is a statement of the loop
  over the external projects, the conversion (`dict2obj`) is a later statement of the same loop body,
  and - per way of failing - how the handler that catches it ends: it falls through to the conversion
  with the description reset to an empty container, or `continue`, `break`, `return`, `raise`

  ford/graphs.py, BaseNode.__init__ (round 4): the External* classes that are replaced by `str(obj)` before a graph
  node is made, and the test that decides whether the node's URL is used as it is or prefixed with
  `graph_data.parent_dir` - written in the little language of lean/FordModel/ExternalNodeCond.lean

Raises when a construct is not found (counts as 'tie broken')."""
from __future__ import annotations

import ast
import json
import urllib.error
from pathlib import Path

from harness import common

# ways in which fetching / decoding the description can fail: name -> exception class
FETCH_ERRORS = {
    "FileNotFoundError": FileNotFoundError,        # local: modules.json missing
    "IsADirectoryError": IsADirectoryError,        # local: modules.json is a directory
    "PermissionError": PermissionError,            # local: unreadable
    "URLError": urllib.error.URLError,             # remote: unreachable host
    "HTTPError": urllib.error.HTTPError,           # remote: 404
    "TimeoutError": TimeoutError,                  # remote: socket timeout while reading
    "JSONDecodeError": json.JSONDecodeError,       # not JSON / truncated
    "UnicodeDecodeError": UnicodeDecodeError,      # not UTF-8
}


def _lean_str(s: str) -> str:
    return "[" + ", ".join("Char.ofNat %d" % ord(c) for c in s) + "]"


def _assign(tree, name):
    for n in tree.body:
        if isinstance(n, ast.Assign) and len(n.targets) == 1 and isinstance(n.targets[0], ast.Name) \
                and n.targets[0].id == name:
            return n.value
        if isinstance(n, ast.AnnAssign) and isinstance(n.target, ast.Name) and n.target.id == name:
            return n.value
    raise LookupError(f"assignment to {name} not found")


def extract(repo: Path) -> dict:
    xp = ast.parse((repo / "ford" / "external_project.py").read_text())
    sf = ast.parse((repo / "ford" / "sourceform.py").read_text())
    fp = ast.parse((repo / "ford" / "fortran_project.py").read_text())
    out = {}
    attrs = ast.literal_eval(_assign(xp, "ATTRIBUTES"))
    if not (isinstance(attrs, list) and attrs and all(isinstance(a, str) for a in attrs)):
        raise LookupError("external_project.ATTRIBUTES is not a list of strings")
    out["attributes"] = attrs
    ent = _assign(xp, "ENTITIES")
    if not isinstance(ent, ast.Dict):
        raise LookupError("external_project.ENTITIES is not a dict literal")
    classes = {n.name: n for n in sf.body if isinstance(n, ast.ClassDef)}
    entities = []
    for k, v in zip(ent.keys, ent.values):
        if not (isinstance(k, ast.Constant) and isinstance(k.value, str) and isinstance(v, ast.Name)):
            raise LookupError("external_project.ENTITIES: unexpected entry")
        cls = classes.get(v.id)
        if cls is None:
            raise LookupError(f"class {v.id} not found in sourceform.py")
        plist = None
        objname = None
        for n in cls.body:
            if isinstance(n, ast.Assign) and isinstance(n.targets[0], ast.Name) and n.targets[0].id == "_project_list":
                plist = n.value.value
            if isinstance(n, ast.FunctionDef) and n.name == "__init__":
                for s in ast.walk(n):
                    if isinstance(s, ast.Assign) and isinstance(s.targets[0], ast.Attribute) \
                            and s.targets[0].attr == "obj" and isinstance(s.value, ast.Constant):
                        objname = s.value.value
        if plist is None or objname is None:
            raise LookupError(f"{v.id}: _project_list / self.obj not found")
        entities.append((k.value, plist, objname, v.id))
    out["entities"] = entities
    out["metadataName"] = ast.literal_eval(_assign(xp, "METADATA_NAME"))
    # proctype values of the entity classes the exporter can meet
    pts = []
    for name, cls in classes.items():
        if name.startswith("External"):
            continue
        for n in cls.body:
            if isinstance(n, ast.Assign) and isinstance(n.targets[0], ast.Name) and n.targets[0].id == "proctype" \
                    and isinstance(n.value, ast.Constant):
                pts.append((name, n.value.value))
    if not pts:
        raise LookupError("no class-level proctype assignments found in sourceform.py")
    out["proctypes"] = pts
    lt = _assign(fp, "LINK_TYPES")
    if not isinstance(lt, ast.Dict):
        raise LookupError("fortran_project.LINK_TYPES is not a dict literal")
    out["linkTypes"] = [(k.value, v.value) for k, v in zip(lt.keys, lt.values)]
    # except clause of load_external_modules
    fn = next((n for n in xp.body if isinstance(n, ast.FunctionDef) and n.name == "load_external_modules"), None)
    if fn is None:
        raise LookupError("load_external_modules not found")
    handlers = [h for t in ast.walk(fn) if isinstance(t, ast.Try) for h in t.handlers]
    if not handlers:
        raise LookupError("load_external_modules has no try/except")
    import builtins
    ns = dict(vars(builtins))
    ns.update(URLError=urllib.error.URLError, HTTPError=urllib.error.HTTPError, json=json)
    caught_classes = []
    for h in handlers:
        if h.type is None:
            caught_classes.append(BaseException)
            continue
        src = ast.unparse(h.type)
        try:
            val = eval(src, ns)  # noqa: S307 - names of exception classes only
        except Exception as e:
            raise LookupError(f"cannot resolve exception classes {src!r}: {e}")
        caught_classes += list(val) if isinstance(val, tuple) else [val]
    out["caughtSource"] = [c.__name__ for c in caught_classes]
    out["fetchErrors"] = [(n, any(issubclass(c, k) for k in caught_classes)) for n, c in FETCH_ERRORS.items()]
    out["handlerExits"], out["loopShape"] = _loop_shape(fn, ns)
    gr = ast.parse((repo / "ford" / "graphs.py").read_text())
    out["nodeStringified"], out["nodeVerbatim"], out["nodeVerbatimSource"] = _node_url(gr)
    for (n, caught), (n2, ex) in zip(out["fetchErrors"], out["handlerExits"]):
        if n != n2 or caught != (ex != "uncaught"):
            raise LookupError(f"load_external_modules: {n} caught={caught} but handler exit {ex!r}")
    return out


EXITS = {ast.Return: "return", ast.Break: "break", ast.Continue: "continue", ast.Raise: "raise"}


def _calls(node, name: str) -> bool:
    return any(isinstance(c, ast.Call) and ((isinstance(c.func, ast.Name) and c.func.id == name) or
                                             (isinstance(c.func, ast.Attribute) and c.func.attr == name))
               for c in ast.walk(node))


def _loop_shape(fn: ast.FunctionDef, ns: dict):
    """The statement structure of `load_external_modules` the model `loadAll` relies on.

    for <url> in <...external...>:        # one iteration per external project
        ...
        try: <fetch>                        # a statement of the loop body itself
        except <classes>: <handler>
        ...
        for <item> in <NAME>: dict2obj(...) # a later statement of the same body
    (nothing that converts descriptions after the loop)

    -> per way of failing (FETCH_ERRORS) how the first handler that catches it ends."""
    loops = [n for n in fn.body if isinstance(n, (ast.For, ast.While))]
    outer = [n for n in loops if isinstance(n, ast.For) and "external" in ast.unparse(n.iter)]
    if len(outer) != 1:
        raise LookupError("load_external_modules: expected exactly one top-level loop over project.external")
    outer = outer[0]
    if outer.orelse:
        raise LookupError("load_external_modules: the loop over the external projects has an else branch")
    after = fn.body[fn.body.index(outer) + 1:]
    if any(_calls(n, "dict2obj") for n in after) or any(_calls(n, "dict2obj") for n in fn.body[:fn.body.index(outer)]):
        raise LookupError("load_external_modules: descriptions are converted outside the loop over the external projects")
    tries = [i for i, n in enumerate(outer.body) if isinstance(n, ast.Try)]
    nested = [t for t in ast.walk(outer) if isinstance(t, ast.Try)]
    if len(tries) != 1 or len(nested) != 1:
        raise LookupError("load_external_modules: expected exactly one try statement, directly in the loop body")
    ti = tries[0]
    tr = outer.body[ti]
    if tr.finalbody or tr.orelse:
        raise LookupError("load_external_modules: try statement with else / finally is not modelled")
    conv = [(i, n) for i, n in enumerate(outer.body) if i > ti and isinstance(n, ast.For) and _calls(n, "dict2obj")]
    if len(conv) != 1 or not isinstance(conv[0][1].iter, ast.Name):
        raise LookupError("load_external_modules: expected one conversion loop `for x in <name>: dict2obj(...)` after the try")
    if any(_calls(n, "dict2obj") for i, n in enumerate(outer.body) if i != conv[0][0]):
        raise LookupError("load_external_modules: dict2obj is called outside the conversion loop")
    var = conv[0][1].iter.id
    # between the try and the conversion nothing may leave the iteration
    for n in outer.body[ti + 1:]:
        for x in ast.walk(n):
            if isinstance(x, tuple(EXITS)):
                raise LookupError("load_external_modules: the loop body leaves the iteration after the try statement")
    exits = []
    for h in tr.handlers:
        classes = [BaseException]
        if h.type is not None:
            val = eval(ast.unparse(h.type), ns)  # noqa: S307 - resolved above already
            classes = list(val) if isinstance(val, tuple) else [val]
        inner = [x for n in h.body for x in ast.walk(n) if isinstance(x, tuple(EXITS))]
        last = h.body[-1]
        if inner and not (len(inner) == 1 and inner[0] is last):
            raise LookupError("load_external_modules: the except handler leaves conditionally / more than once")
        if inner:
            how = EXITS[type(last)]
        else:
            resets = False
            for n in h.body:
                if isinstance(n, ast.Assign) and len(n.targets) == 1 and isinstance(n.targets[0], ast.Name) \
                        and n.targets[0].id == var:
                    try:
                        v = ast.literal_eval(n.value)
                        resets = isinstance(v, (list, dict, tuple, str, set)) and len(v) == 0
                    except Exception:
                        resets = False
                elif any(isinstance(x, ast.Name) and x.id == var and isinstance(x.ctx, ast.Store) for x in ast.walk(n)):
                    resets = False
            if not resets:
                raise LookupError(f"load_external_modules: the except handler falls through to the conversion without "
                                  f"resetting `{var}` to an empty container")
            how = "fallthrough"
        exits.append((classes, how))
    per = []
    for n, c in FETCH_ERRORS.items():
        how = next((hw for classes, hw in exits if any(issubclass(c, k) for k in classes)), "uncaught")
        per.append((n, how))
    shape = {"loop_over": ast.unparse(outer.iter), "converted_variable": var,
             "handlers": [([k.__name__ for k in cl], hw) for cl, hw in exits]}
    return per, shape


def _is_self_attr(n, attr: str) -> bool:
    return isinstance(n, ast.Attribute) and n.attr == attr and isinstance(n.value, ast.Name) and n.value.id == "self"


def _node_cond(n) -> tuple:
    """the test in front of `attribs["URL"] = self.url` as a term of NodeCond: nested tuples
    ('atom', name[, literal]) | ('const', bool) | ('not', c) | ('and', a, b) | ('or', a, b)"""
    if isinstance(n, ast.BoolOp):
        op = "and" if isinstance(n.op, ast.And) else "or"
        terms = [_node_cond(v) for v in n.values]
        acc = terms[-1]
        for t in reversed(terms[:-1]):
            acc = (op, t, acc)
        return acc
    if isinstance(n, ast.UnaryOp) and isinstance(n.op, ast.Not):
        return ("not", _node_cond(n.operand))
    if isinstance(n, ast.Constant) and isinstance(n.value, bool):
        return ("const", n.value)
    if _is_self_attr(n, "fromstr"):
        return ("atom", "fromstr")
    if isinstance(n, ast.Call) and isinstance(n.func, ast.Name) and len(n.args) == 2 and not n.keywords:
        a0, a1 = n.args
        if n.func.id == "hasattr" and isinstance(a0, ast.Name) and a0.id == "obj" and isinstance(a1, ast.Constant) \
                and a1.value == "external_url":
            return ("atom", "hasExternalUrl")
        if n.func.id == "isinstance" and isinstance(a0, ast.Name) and a0.id == "obj" and isinstance(a1, ast.Name) \
                and a1.id == "str":
            return ("atom", "isStr")
    if isinstance(n, ast.Attribute) and n.attr == "scheme" and isinstance(n.value, ast.Call) and len(n.value.args) == 1 \
            and not n.value.keywords and _is_self_attr(n.value.args[0], "url"):
        f = n.value.func
        fname = f.id if isinstance(f, ast.Name) else f.attr if isinstance(f, ast.Attribute) else None
        if fname in ("urlparse", "urlsplit"):
            return ("atom", "urlHasScheme")
    if isinstance(n, ast.Call) and isinstance(n.func, ast.Attribute) and n.func.attr == "startswith" \
            and _is_self_attr(n.func.value, "url") and len(n.args) == 1 and not n.keywords:
        try:
            lit = ast.literal_eval(n.args[0])
        except Exception:
            lit = None
        lits = [lit] if isinstance(lit, str) else list(lit) if isinstance(lit, tuple) and lit and \
            all(isinstance(x, str) for x in lit) else None
        if lits:
            acc = ("atom", "urlStartsWith", lits[-1])
            for x in reversed(lits[:-1]):
                acc = ("or", ("atom", "urlStartsWith", x), acc)
            return acc
    raise LookupError(f"graphs.BaseNode.__init__: the test `{ast.unparse(n)}` in front of the node URL is not modelled")


def _node_url(gr: ast.Module):
    """BaseNode.__init__ of ford/graphs.py:

        if isinstance(obj, (<External classes>)): obj = str(obj)
        ...
        shown = getattr(obj, "visible", True)            # possibly narrowed for a Fortran* class
        if self.url and shown:
            if <test>: self.attribs["URL"] = self.url
            else:      self.attribs["URL"] = <graph data>.parent_dir + self.url

    -> (names of the stringified classes, <test> as a NodeCond term, its source text)"""
    cls = next((n for n in gr.body if isinstance(n, ast.ClassDef) and n.name == "BaseNode"), None)
    fn = next((n for n in (cls.body if cls else []) if isinstance(n, ast.FunctionDef) and n.name == "__init__"), None)
    if fn is None:
        raise LookupError("graphs.BaseNode.__init__ not found")
    params = [a.arg for a in fn.args.args]
    if len(params) < 3 or params[1] != "obj":
        raise LookupError("graphs.BaseNode.__init__: unexpected parameters")
    gd = params[2]
    # --- the classes turned into strings
    strs = []
    for n in fn.body:
        if isinstance(n, ast.If) and isinstance(n.test, ast.Call) and isinstance(n.test.func, ast.Name) \
                and n.test.func.id == "isinstance" and len(n.body) == 1 and not n.orelse \
                and ast.unparse(n.body[0]) == "obj = str(obj)":
            t = n.test.args[1]
            names = t.elts if isinstance(t, ast.Tuple) else [t]
            if not all(isinstance(x, ast.Name) for x in names):
                raise LookupError("graphs.BaseNode.__init__: isinstance(obj, ...) with something else than class names")
            strs.append([x.id for x in names])
    if len(strs) != 1:
        raise LookupError("graphs.BaseNode.__init__: expected exactly one `if isinstance(obj, (...)): obj = str(obj)`")
    stringified = list(dict.fromkeys(strs[0]))
    # --- `shown`
    first = True
    for n in ast.walk(fn):
        if isinstance(n, ast.Assign) and any(isinstance(t, ast.Name) and t.id == "shown" for t in n.targets):
            src = ast.unparse(n.value)
            if first:
                if src != "getattr(obj, 'visible', True)":
                    raise LookupError(f"graphs.BaseNode.__init__: shown = {src} is not modelled")
                first = False
            elif not src.startswith("shown and "):
                raise LookupError(f"graphs.BaseNode.__init__: shown = {src} is not modelled")
    if first:
        raise LookupError("graphs.BaseNode.__init__: `shown` not found")
    for n in ast.walk(fn):
        if isinstance(n, ast.If) and any(isinstance(x, ast.Assign) and any(isinstance(t, ast.Name) and t.id == "shown"
                                                                           for t in x.targets) for x in n.body):
            tsrc = ast.unparse(n.test)
            if not (tsrc.startswith("isinstance(obj, Fortran") or tsrc.startswith("isinstance(obj, (Fortran")) or "External" in tsrc:
                raise LookupError(f"graphs.BaseNode.__init__: `shown` is narrowed under `{tsrc}` - not modelled")
    # --- the statement that sets attribs["URL"]
    def sets_url(x):
        return isinstance(x, ast.Assign) and len(x.targets) == 1 and ast.unparse(x.targets[0]) == "self.attribs['URL']"

    outer = [n for n in fn.body if isinstance(n, ast.If) and any(sets_url(x) for x in ast.walk(n))]
    others = [x for n in fn.body if n not in outer for x in ast.walk(n) if sets_url(x)]
    if len(outer) != 1 or others:
        raise LookupError("graphs.BaseNode.__init__: expected exactly one `if` statement that sets attribs['URL']")
    outer = outer[0]
    if ast.unparse(outer.test) != "self.url and shown" or outer.orelse or len(outer.body) != 1 \
            or not isinstance(outer.body[0], ast.If):
        raise LookupError("graphs.BaseNode.__init__: expected `if self.url and shown: if <test>: ... else: ...`")
    inner = outer.body[0]

    def branch(stmts):
        if len(stmts) != 1 or not sets_url(stmts[0]):
            return None
        v = ast.unparse(stmts[0].value)
        return {"self.url": "verbatim", f"{gd}.parent_dir + self.url": "prefixed"}.get(v)

    b1, b2 = branch(inner.body), branch(inner.orelse)
    cond = _node_cond(inner.test)
    if (b1, b2) == ("prefixed", "verbatim"):
        cond = ("not", cond)
    elif (b1, b2) != ("verbatim", "prefixed"):
        raise LookupError("graphs.BaseNode.__init__: the two branches that set attribs['URL'] are not "
                          "`self.url` / `<graph data>.parent_dir + self.url`")
    return stringified, cond, ast.unparse(inner.test)


def _lean_cond(c) -> str:
    if c[0] == "atom":
        return f"(.atom (.urlStartsWith {_lean_str(c[2])}))" if c[1] == "urlStartsWith" else f"(.atom .{c[1]})"
    if c[0] == "const":
        return f"(.const {'true' if c[1] else 'false'})"
    if c[0] == "not":
        return f"(.not {_lean_cond(c[1])})"
    return f"(.{c[0]} {_lean_cond(c[1])} {_lean_cond(c[2])})"


def render(t: dict) -> str:
    L = [
        "/- GENERATED by translate/c16.py from ford/external_project.py, ford/sourceform.py,",
        "   ford/fortran_project.py - do not edit -/",
        "import FordModel.Basic.Chars",
        "import FordModel.ExternalNodeCond",
        "namespace Ford.Ext.Gen",
        "open Ford",
        "/-- `external_project.ATTRIBUTES`, in source order -/",
        "def attributes : List Str := [",
        ",\n".join(f"  {_lean_str(a)} /- {a} -/" for a in t["attributes"]),
        "]",
        "/-- `external_project.ENTITIES`: key, `_project_list` and `self.obj` of the class it maps to -/",
        "def entities : List (Str × (Str × Str)) := [",
        ",\n".join(f"  ({_lean_str(k)}, ({_lean_str(p)}, {_lean_str(o)})) /- {k} -> {c}: {p}, obj={o} -/"
                   for k, p, o, c in t["entities"]),
        "]",
        f"/-- `external_project.METADATA_NAME` = {t['metadataName']!r} -/",
        f"def metadataName : Str := {_lean_str(t['metadataName'])}",
        "/-- class-level `proctype` values of the (non-External) entity classes of sourceform.py -/",
        "def proctypes : List Str := [",
        ",\n".join(f"  {_lean_str(p)} /- {c}: {p} -/" for c, p in t["proctypes"]),
        "]",
        "/-- `fortran_project.LINK_TYPES`, in source order (the order `Project.find` chains the collections in) -/",
        "def linkTypes : List (Str × Str) := [",
        ",\n".join(f"  ({_lean_str(k)}, {_lean_str(v)}) /- {k} -> {v} -/" for k, v in t["linkTypes"]),
        "]",
        f"/-- ways of failing to fetch the description, and whether `except ({', '.join(t['caughtSource'])})`",
        "    of `load_external_modules` catches them -/",
        "def fetchErrors : List (Str × Bool) := [",
        ",\n".join(f"  ({_lean_str(n)}, {'true' if c else 'false'}) /- {n} -/" for n, c in t["fetchErrors"]),
        "]",
        "/-- per way of failing, how the `except` handler of `load_external_modules` that catches it ends:",
        "    `fallthrough` (description reset to an empty container, the rest of the loop body runs), `continue`,",
        "    `break`, `return`, `raise`; `uncaught` when no handler names it.  The `try` is a statement of the loop",
        f"    `for ... in {t['loopShape']['loop_over']}` and `{t['loopShape']['converted_variable']}` is converted later in the same body. -/",
        "def handlerExits : List (Str × Str) := [",
        ",\n".join(f"  ({_lean_str(n)}, {_lean_str(h)}) /- {n}: {h} -/" for n, h in t["handlerExits"]),
        "]",
        "/-- `graphs.BaseNode.__init__`: the classes whose objects are replaced by `str(obj)` before the node is made -/",
        "def nodeStringified : List Str := [",
        ",\n".join(f"  {_lean_str(c)} /- {c} -/" for c in t["nodeStringified"]),
        "]",
        "/-- `graphs.BaseNode.__init__`: the node's URL is used as it is when this holds, otherwise it is prefixed with",
        f"    `graph_data.parent_dir`; in the source: `{t['nodeVerbatimSource']}` -/",
        f"def nodeVerbatim : NodeCond := {_lean_cond(t['nodeVerbatim'])}",
        "end Ford.Ext.Gen",
        "",
    ]
    return "\n".join(L)


def translate():
    t = extract(common.REPO)
    common.write_if_changed(common.LEAN / "FordModel" / "Generated" / "C16.lean", render(t))
    return t


if __name__ == "__main__":
    print(json.dumps(translate(), indent=1))
