"""Translator for C16: the tables of the external-project mechanism ->
lean/FordModel/Generated/C16.lean.

Since round 5 everything is read from the *running* implementation (imported from the repository under test), not
from the spelling of its source - a table written as a literal, a concatenation, `dict([...])` or through named
constants gives the same generated file:

  ATTRIBUTES, ENTITIES, METADATA_NAME      ford.external_project   (the objects themselves)
  `_project_list` (class attribute) and `obj` (of a freshly made object) of each class in ENTITIES
  class-level `proctype` strings of the non-External entity classes of ford.sourceform, in definition order
  LINK_TYPES (in insertion order)          ford.fortran_project
  load_external_modules: *run* on a real (parsed) project that lists an unusable external project before a usable
  one and between two usable ones - per way of failing (FETCH_ERRORS: raised by the replaced network fetch, and
  staged on disk for local paths; both must agree): the failure ends the run (`uncaught`), the projects listed
  after it are loaded (`fallthrough`) or are not (`return`)
  graphs.BaseNode (round 4 mechanism): which External* classes become strings (their node is identified by the bare
  name), and the test that decides between "URL as it is" and "`parent_dir` + URL": observed on stub objects
  (External classes, own entities, strings x local paths, remote URLs, other URL shapes) and written as the first
  NodeCond term (lean/FordModel/ExternalNodeCond.lean) of a fixed list that agrees with every observation; when no
  term of the list does, the source of the `if` in BaseNode.__init__ is translated (ast) and must agree with the
  observations

Raises when something is not found or not explained (counts as 'tie broken')."""
from __future__ import annotations

import ast
import json
import os
import urllib.error
from pathlib import Path

from harness import common

# ways in which fetching / decoding the description can fail: name -> exception class
FETCH_ERRORS = {
    "FileNotFoundError": FileNotFoundError,        # local: modules.json missing
    "IsADirectoryError": IsADirectoryError,        # local: modules.json is a directory
    "PermissionError": PermissionError,            # local: unreadable
    "URLError": urllib.error.URLError,             # remote: unreachable host
    "HTTPError": urllib.error.HTTPError,           # remote: 404
    "TimeoutError": TimeoutError,                  # remote: socket timeout while reading
    "JSONDecodeError": json.JSONDecodeError,       # not JSON / truncated
    "UnicodeDecodeError": UnicodeDecodeError,      # not UTF-8
}


def _lean_str(s: str) -> str:
    return "[" + ", ".join("Char.ofNat %d" % ord(c) for c in s) + "]"


def _assign(tree, name):
    for n in tree.body:
        if isinstance(n, ast.Assign) and len(n.targets) == 1 and isinstance(n.targets[0], ast.Name) \
                and n.targets[0].id == name:
            return n.value
        if isinstance(n, ast.AnnAssign) and isinstance(n.target, ast.Name) and n.target.id == name:
            return n.value
    raise LookupError(f"assignment to {name} not found")


def _modules(repo: Path):
    """the implementation under test, imported (the tables and functions are read from the running code, not
    from its spelling)"""
    if Path(repo).resolve() != Path(common.REPO).resolve():
        raise LookupError(f"translate/c16 reads the imported implementation ({common.REPO}), not {repo}")
    common.import_ford()
    import ford.external_project as xp
    import ford.sourceform as sf
    import ford.fortran_project as fp
    import ford.graphs as gr
    return xp, sf, fp, gr


def _make(cls, *args):
    """an object of an External* class: `cls(name, url)` or, for the classes without a URL, `cls(name)`"""
    try:
        return cls(*args)
    except TypeError:
        return cls(args[0])


def extract(repo: Path) -> dict:
    xp, sf, fp, gr = _modules(repo)
    out = {}
    # ---- the tables, as the running code holds them (however the source spells them: literal, concatenation,
    #      dict(...), constants)
    attrs = list(getattr(xp, "ATTRIBUTES", None) or [])
    if not (attrs and all(isinstance(a, str) for a in attrs)):
        raise LookupError("external_project.ATTRIBUTES is not a non-empty sequence of strings")
    out["attributes"] = attrs
    ent = getattr(xp, "ENTITIES", None)
    if not (isinstance(ent, dict) and ent):
        raise LookupError("external_project.ENTITIES is not a non-empty dict")
    entities = []
    for k, cls in ent.items():
        if not (isinstance(k, str) and isinstance(cls, type)):
            raise LookupError("external_project.ENTITIES: unexpected entry")
        plist = getattr(cls, "_project_list", None)
        try:
            objname = getattr(_make(cls, "probe", "u"), "obj", None)     # what `__init__` sets
        except Exception as e:
            raise LookupError(f"{cls.__name__}: cannot make an object ({type(e).__name__}: {e})")
        if not (isinstance(plist, str) and isinstance(objname, str)):
            raise LookupError(f"{cls.__name__}: _project_list / self.obj not found")
        entities.append((k, plist, objname, cls.__name__))
    out["entities"] = entities
    if not isinstance(getattr(xp, "METADATA_NAME", None), str):
        raise LookupError("external_project.METADATA_NAME is not a string")
    out["metadataName"] = xp.METADATA_NAME
    # proctype values of the entity classes the exporter can meet (class attributes, in definition order)
    pts = [(name, vars(cls)["proctype"]) for name, cls in vars(sf).items()
           if isinstance(cls, type) and cls.__module__ == sf.__name__ and not name.startswith("External")
           and isinstance(vars(cls).get("proctype"), str)]
    if not pts:
        raise LookupError("no class-level proctype attributes found in sourceform.py")
    out["proctypes"] = pts
    lt = getattr(fp, "LINK_TYPES", None)
    if not (isinstance(lt, dict) and lt and all(isinstance(k, str) and isinstance(v, str) for k, v in lt.items())):
        raise LookupError("fortran_project.LINK_TYPES is not a dict of strings")
    out["linkTypes"] = list(lt.items())
    # ---- load_external_modules: which ways of failing to fetch a description it survives, and whether the
    #      projects listed after an unusable one are still loaded - by running it
    if not callable(getattr(xp, "load_external_modules", None)):
        raise LookupError("load_external_modules not found")
    out["fetchErrors"], out["handlerExits"] = _probe_fetch_handling(xp, fp)
    out["caughtSource"], out["loopShape"] = _describe_source(repo, xp)
    # ---- graphs.BaseNode: which External* classes become strings, when the node's URL is used as it is
    out["nodeStringified"], out["nodeVerbatim"], out["nodeVerbatimSource"] = _probe_node_url(repo, sf, gr)
    # ---- (round 6) looking up a child of an imported object: the attributes `FortranBase.children` visits, in
    #      order, SUBLINK_TYPES, and what a fresh object of each ENTITIES class has under these names
    out["childrenOrder"], out["sublinkTypes"], out["classDefaults"] = _probe_children(xp, sf)
    # ---- (round 6) the second look at every href of converted text: does it read a *relative* reference from the
    #      working directory of the process?
    out["treeProcessorReadsRelative"] = _probe_tree_processor()
    out["findSkips"] = _probe_find_skips(xp, fp)
    out["siblingDir"] = _probe_current_path()
    for (n, caught), (n2, ex) in zip(out["fetchErrors"], out["handlerExits"]):
        if n != n2 or caught != (ex != "uncaught"):
            raise LookupError(f"load_external_modules: {n} caught={caught} but handler exit {ex!r}")
    return out


# --------------------------------------------------------------------------- probing MetaMarkdown.convert (round 6)

def _probe_current_path() -> str:
    """the directory `MetaMarkdown.convert(text, context)` makes `[[...]]` references relative to: observed at the
    moment the link processor asks the project for the entity.  Must be `<output dir>/<Path(url).parent.parent>/<X>`
    for one fixed name X (returned); anything else is a shape the model does not have."""
    from ford._markdown import MetaMarkdown
    seen = []

    class P:
        def find(self, *a, **k):
            seen.append(md.current_path)
            return None

    class Ctx:
        parent = None
        name = "ctx"
        filename = "ctx.f90"

        def __init__(self, url):
            self.url = url

        def get_url(self):
            return self.url

        def find_child(self, *a, **k):
            return None

    base = Path("/probe/out")
    md = MetaMarkdown(".", base_url=str(base), project=P())
    want = {"module/m.html": (), "proc/p.html#variable-x": (), "a/b/c/d.html": ("a", "b"), "index.html": ()}
    names = set()
    import io
    from contextlib import redirect_stdout, redirect_stderr
    for url, pre in want.items():
        seen.clear()
        with redirect_stdout(io.StringIO()), redirect_stderr(io.StringIO()):
            md.reset().convert("[[zz_probe]]", context=Ctx(url))
        if not seen or seen[0] is None:
            raise LookupError("MetaMarkdown.convert: no page directory while a reference is resolved")
        try:
            rel = Path(seen[0]).relative_to(base).parts
        except ValueError:
            raise LookupError(f"MetaMarkdown.convert: page directory {seen[0]} is not below the output directory")
        if len(rel) != len(pre) + 1 or rel[:-1] != pre:
            raise LookupError(f"MetaMarkdown.convert: page directory {rel} for the context URL {url!r} is not "
                              "<Path(url).parent.parent>/<one fixed name>")
        names.add(rel[-1])
    if len(names) != 1 or "/" in next(iter(names)) or next(iter(names)) in ("", ".", ".."):
        raise LookupError(f"MetaMarkdown.convert: the page directory ends in {sorted(names)}")
    return names.pop()


# --------------------------------------------------------------------------- probing Project.find (round 6)

def _probe_find_skips(xp, fp):
    """which classes of ENTITIES `Project.find` never returns for a bare name: one object per class, alone in the list
    its class belongs to, on a project that has nothing else"""
    lt = fp.LINK_TYPES
    skips = []
    for k, cls in xp.ENTITIES.items():
        # a real Project object without __init__ (`find` may call helper methods of its class); collections that
        # are properties of the class are shadowed by plain attributes
        names = set(lt.values()) | set(EXT_LISTS)
        stub = object.__new__(type("P", (fp.Project,), {
            c: None for c in names if isinstance(getattr(fp.Project, c, None), property)}))
        for c in names:
            setattr(stub, c, [])
        o = _make(cls, "zz_probe", "u")
        getattr(stub, cls._project_list).append(o)
        try:
            r = fp.Project.find(stub, "ZZ_Probe")
        except Exception as e:
            raise LookupError(f"Project.find cannot be probed ({type(e).__name__}: {e})")
        if r is None:
            if cls._project_list in lt.values():
                skips.append(k)
        elif r is not o:
            raise LookupError("Project.find returns something that was not put in")
    return skips


# --------------------------------------------------------------------------- probing the relative-links tree processor

def _probe_tree_processor() -> bool:
    """`MetaMarkdown.convert` on two plain Markdown links, run in a fresh directory T with the output directory
    T/out and the page directory T/out/other: an absolute path below the output directory must come out relative
    to the page (`../thing` - what the processor is for); a relative reference that, *read from the working
    directory*, lies below the output directory either comes out rewritten (True) or as it was written (False)."""
    import os
    import re as _re
    import tempfile
    from ford._markdown import MetaMarkdown
    cwd = os.getcwd()
    with tempfile.TemporaryDirectory() as t:
        T = Path(t).resolve()
        try:
            os.chdir(T)
            md = MetaMarkdown(base_url=T / "out")
            hrefs = []
            for text in (f"[x]({T / 'out' / 'thing'})", "[x](out/sub/page.html)"):
                m = _re.search(r'href="([^"]*)"', md.reset().convert(text, path=T / "out" / "other"))
                hrefs.append(m.group(1) if m else None)
        finally:
            os.chdir(cwd)
    if hrefs[0] != "../thing":
        raise LookupError(f"relative-links tree processor: an absolute path below the output directory gives {hrefs[0]!r}")
    if hrefs[1] == "../sub/page.html":
        return True
    if hrefs[1] == "out/sub/page.html":
        return False
    raise LookupError(f"relative-links tree processor: a relative reference gives {hrefs[1]!r}")


# --------------------------------------------------------------------------- probing FortranBase.children (round 6)

def _probe_children(xp, sf):
    """The list attributes `FortranBase.children` chains, in the order it visits them - observed, not read: the
    property is evaluated on an object that answers *every* attribute it is asked for with a one-element list
    holding a marker entity named after the attribute.  Markers that come out are list attributes (in order); a
    list that comes out whole is one of the single-object children (`constructor`, ...).  Then SUBLINK_TYPES as the
    module holds it, and - per ENTITIES class - which of these attributes a fresh object has and of what shape."""
    base = getattr(sf, "FortranBase", None)
    prop = getattr(base, "children", None)
    if not isinstance(prop, property):
        raise LookupError("FortranBase.children is not a property")

    class Marker(base):
        def __init__(self, name):
            self.name = name

    asked = []

    class Probe(base):
        def __init__(self):
            pass

        def __getattr__(self, attr):
            if attr.startswith("__"):
                raise AttributeError(attr)
            asked.append(attr)
            return [Marker(attr)]

    try:
        got = list(Probe().children)
    except Exception as e:
        raise LookupError(f"FortranBase.children cannot be probed ({type(e).__name__}: {e})")
    order, single = [], []
    for x in got:
        if isinstance(x, Marker):
            order.append(x.name)
        elif isinstance(x, list) and len(x) == 1 and isinstance(x[0], Marker):
            single.append(x[0].name)
        else:
            raise LookupError("FortranBase.children yields something that was not put in")
    if not order or len(set(order)) != len(order):
        raise LookupError("FortranBase.children: no list attributes / an attribute visited twice")
    sub = getattr(sf, "SUBLINK_TYPES", None)
    if not (isinstance(sub, dict) and sub and all(isinstance(k, str) and isinstance(v, str) for k, v in sub.items())):
        raise LookupError("sourceform.SUBLINK_TYPES is not a dict of strings")
    # `find_child` must be the mechanism the model has: kind -> SUBLINK_TYPES -> hasattr -> list(...), else children
    universe = list(dict.fromkeys(order + single + list(sub.values())))
    defaults = []
    for k, cls in xp.ENTITIES.items():
        o = _make(cls, "probe", "u")
        row = []
        for a in universe:
            if not hasattr(o, a):
                continue
            v = getattr(o, a)
            if a in single:
                if v:
                    raise LookupError(f"{cls.__name__}.{a}: a single-object child of an imported object is not modelled")
                continue
            if isinstance(v, (list, tuple)) and not v:
                row.append((a, "list"))
            elif isinstance(v, dict) and not v:
                row.append((a, "dict"))
            elif isinstance(v, str):
                row.append((a, "str"))
            elif v is None or isinstance(v, (bool, int, float)):
                row.append((a, "scalar"))
            else:
                raise LookupError(f"{cls.__name__}.{a}: default value {v!r} of an imported object is not modelled")
        defaults.append((k, row))
    for a in single:
        if a in xp.ATTRIBUTES:
            raise LookupError(f"ATTRIBUTES carries the single-object child {a!r}: not modelled")
    return order, list(sub.items()), defaults


# --------------------------------------------------------------------------- probing load_external_modules

_GOOD = ('[{"name": "%s", "external_url": "./module/%s.html", "obj": "module", "pub_procs": {}, "pub_absints": {}, '
         '"pub_types": {}, "pub_vars": {}, "functions": [], "subroutines": [], "interfaces": [], "absinterfaces": [], '
         '"types": [], "variables": []}]')
EXT_LISTS = ["extModules", "extProcedures", "extInterfaces", "extTypes", "extVariables"]


def _exception(name: str):
    return {
        "FileNotFoundError": lambda: FileNotFoundError(2, "No such file or directory"),
        "IsADirectoryError": lambda: IsADirectoryError(21, "Is a directory"),
        "PermissionError": lambda: PermissionError(13, "Permission denied"),
        "URLError": lambda: urllib.error.URLError("unreachable"),
        "HTTPError": lambda: urllib.error.HTTPError("http://probe.invalid/modules.json", 404, "Not Found", None, None),
        "TimeoutError": lambda: TimeoutError("timed out"),
        "JSONDecodeError": lambda: json.JSONDecodeError("Expecting value", "", 0),
        "UnicodeDecodeError": lambda: UnicodeDecodeError("utf-8", b"\xff", 0, 1, "invalid start byte"),
    }[name]()


class _Resp:
    def __init__(self, data):
        self.data = data

    def read(self):
        return self.data


def _with_urlopen(xp, fake, thunk):
    """run `thunk` with `urllib.request.urlopen` - under whatever name the module holds it - replaced by `fake`"""
    import urllib.request
    orig = urllib.request.urlopen
    aliases = [k for k, v in vars(xp).items() if v is orig]
    urllib.request.urlopen = fake
    for k in aliases:
        setattr(xp, k, fake)
    try:
        return thunk()
    finally:
        urllib.request.urlopen = orig
        for k in aliases:
            setattr(xp, k, orig)


def _probe_project(fp, tmp: Path):
    """a real, parsed (not correlated) Project with one module: B as `load_external_modules` meets it"""
    import io
    from contextlib import redirect_stdout, redirect_stderr
    from ford.settings import ProjectSettings
    src = tmp / "src"
    src.mkdir(parents=True, exist_ok=True)
    (src / "probe_b.f90").write_text("module probe_b\n  use probe_m\n  use probe_m2\n  implicit none\nend module probe_b\n")
    cwd = os.getcwd()
    try:
        with redirect_stdout(io.StringIO()), redirect_stderr(io.StringIO()):
            settings = ProjectSettings(src_dir=[src], preprocess=False)
            settings.directory = tmp
            return fp.Project(settings)
    finally:
        os.chdir(cwd)


def _run_load(xp, base_project, external: dict, directory: Path, fake):
    """-> ('escaped', class name) | ('loaded', names of the external modules)"""
    import copy
    import io
    from contextlib import redirect_stdout, redirect_stderr
    proj = copy.copy(base_project)
    proj.external = dict(external)
    proj.settings = copy.copy(proj.settings)
    proj.settings.directory = directory
    for ln in EXT_LISTS:
        setattr(proj, ln, [])
    try:
        with redirect_stdout(io.StringIO()), redirect_stderr(io.StringIO()):
            _with_urlopen(xp, fake, lambda: xp.load_external_modules(proj))
    except Exception as e:  # whatever ends the run
        return ("escaped", type(e).__name__)
    return ("loaded", [str(m.name) for m in proj.extModules])


def _classify(first, second, what: str) -> str:
    """first: [failing, good] ; second: [good, failing, good2]"""
    if first[0] == "escaped" or second[0] == "escaped":
        if first[0] != second[0]:
            raise LookupError(f"load_external_modules: {what} ends the run depending on its place in `external` - not modelled")
        return "uncaught"
    if first[1] == ["probe_m"] and second[1] == ["probe_m", "probe_m2"]:
        return "fallthrough"      # (or `continue`: the same thing to every observer) - the later projects are loaded
    if first[1] == [] and second[1] == ["probe_m"]:
        return "return"           # (or `break`) - the projects listed after the unusable one are not loaded
    raise LookupError(f"load_external_modules: after {what} the projects loaded are {first[1]} / {second[1]} - not modelled")


def _probe_fetch_handling(xp, fp):
    """Run the real `load_external_modules` on a real project that lists an unusable external project before a
    usable one, and between two usable ones; per way of failing: does the failure end the run (`uncaught`), are the
    later projects still loaded (`fallthrough`) or not (`return`)?  Remote projects: the fetch is replaced and
    raises the exception; local projects: directories on disk without / with a broken modules.json - both must agree."""
    import tempfile
    per = []
    with tempfile.TemporaryDirectory(prefix="c16-probe-") as td:
        td = Path(td)
        base = _probe_project(fp, td / "B")
        served = {"http://probe.invalid/g1/modules.json": (_GOOD % ("probe_m", "probe_m")).encode(),
                  "http://probe.invalid/g2/modules.json": (_GOOD % ("probe_m2", "probe_m2")).encode()}
        for name in FETCH_ERRORS:
            def fake(url, *a, _n=name, **k):
                url = str(getattr(url, "full_url", url))
                if url in served:
                    return _Resp(served[url])
                raise _exception(_n)
            first = _run_load(xp, base, {"bad": "http://probe.invalid/bad", "g1": "http://probe.invalid/g1"}, td, fake)
            second = _run_load(xp, base, {"g1": "http://probe.invalid/g1/", "bad": "http://probe.invalid/bad/",
                                          "g2": "http://probe.invalid/g2"}, td, fake)
            per.append((name, _classify(first, second, f"a fetch that raises {name}")))
        # the same for local directories, for the ways of failing that can be staged on disk
        for d_, n_ in (("g1", "probe_m"), ("g2", "probe_m2")):
            (td / d_).mkdir()
            (td / d_ / "modules.json").write_text(_GOOD % (n_, n_))
        stage = {"FileNotFoundError": lambda p: None,
                 "IsADirectoryError": lambda p: (p / "modules.json").mkdir(),
                 "JSONDecodeError": lambda p: (p / "modules.json").write_text('[{"name": '),
                 "UnicodeDecodeError": lambda p: (p / "modules.json").write_bytes(b'["\xff\xfe"]')}

        def no_network(url, *a, **k):
            raise urllib.error.URLError("no network")
        for name, how in stage.items():
            bad = td / ("bad-" + name)
            bad.mkdir()
            how(bad)
            first = _run_load(xp, base, {"bad": str(bad), "g1": str(td / "g1")}, td, no_network)
            second = _run_load(xp, base, {"g1": "g1", "bad": bad.name, "g2": "./g2/"}, td, no_network)
            local = _classify(first, second, f"a local description that fails with {name}")
            if local != dict(per)[name]:
                raise LookupError(f"load_external_modules: {name} is handled differently for a local path ({local}) and "
                                  f"for a remote URL ({dict(per)[name]}) - not modelled")
    return [(n, how != "uncaught") for n, how in per], per


def _describe_source(repo: Path, xp):
    """for the evidence only (nothing is decided from it): the exception classes the `except` clauses of
    load_external_modules name, and the loop it runs"""
    try:
        tree = ast.parse((Path(repo) / "ford" / "external_project.py").read_text())
        fn = next(n for n in tree.body if isinstance(n, ast.FunctionDef) and n.name == "load_external_modules")
        names = []
        for t in ast.walk(fn):
            if isinstance(t, ast.Try):
                for h in t.handlers:
                    if h.type is None:
                        names.append("BaseException")
                        continue
                    val = eval(ast.unparse(h.type), dict(vars(xp)))  # noqa: S307 - names of exception classes only
                    names += [c.__name__ for c in (val if isinstance(val, tuple) else (val,))]
        loops = [ast.unparse(n.iter) for n in fn.body if isinstance(n, ast.For)]
        return names or ["?"], {"loops": loops}
    except Exception as e:  # noqa
        return ["?"], {"loops": [], "note": f"source not described: {type(e).__name__}"}


# --------------------------------------------------------------------------- probing graphs.BaseNode

NODE_PROBE_URLS = ["/abs/A/doc/module/m.html", "http://h.invalid/a/module/m.html", "https://h.invalid/m.html",
                   "module/m.html", "ftp://h.invalid/m.html", "file:///abs/m.html", "//h.invalid/m.html"]


class _OwnStub:
    """an entity of the project itself, as far as BaseNode looks at it"""

    def __init__(self, url):
        self.name, self.ident, self.visible, self._url = "probe_n", "probe_n", True, url

    def get_dir(self):
        return "module"

    def get_url(self):
        return self._url


def _eval_cond(c, fromstr: bool, has_ext: bool, url: str) -> bool:
    """NodeCond terms, evaluated as lean/FordModel/ExternalGraph.lean does (`evalCond`)"""
    from urllib.parse import urlsplit
    if c[0] == "atom":
        return {"fromstr": fromstr, "hasExternalUrl": has_ext, "isStr": fromstr,
                "urlHasScheme": urlsplit(url).scheme != "",
                "urlStartsWith": url.startswith(c[2]) if len(c) > 2 else False}[c[1]]
    if c[0] == "const":
        return c[1]
    if c[0] == "not":
        return not _eval_cond(c[1], fromstr, has_ext, url)
    a, b = _eval_cond(c[1], fromstr, has_ext, url), _eval_cond(c[2], fromstr, has_ext, url)
    return (a and b) if c[0] == "and" else (a or b)


def _node_candidates():
    F, X, S = ("atom", "fromstr"), ("atom", "hasExternalUrl"), ("atom", "urlHasScheme")
    http = ("or", ("atom", "urlStartsWith", "http://"), ("atom", "urlStartsWith", "https://"))
    return [("or", F, X), F, X, S, ("or", F, S), ("or", X, S), ("or", F, ("or", X, S)), ("atom", "urlStartsWith", "http"), http,
            ("or", F, http), ("or", X, http), ("or", F, ("or", X, http)), ("and", ("or", F, X), S), ("const", True), ("const", False)]


def _probe_node_url(repo: Path, sf, gr):
    """`BaseNode(obj, graph_data)` on stub objects: (1) the External* classes whose objects are replaced by
    `str(obj)` - their node is identified by the bare name, like a node made from a string -; (2) when the node's
    URL is used as it is and when `graph_data.parent_dir` is put in front: observed for objects of a stringified
    External class, of another External class, of the project itself and for plain strings, each with local paths,
    remote URLs and other URL shapes; the test is the first term of a fixed list of NodeCond terms that agrees with
    every observation (none: the source of the `if` is translated as before, or the translator gives up)."""
    try:
        gd = gr.GraphData("PFX/", False, False)
    except Exception as e:
        raise LookupError(f"graphs.GraphData cannot be made ({type(e).__name__}: {e})")
    classes = [(n, c) for n, c in vars(sf).items() if isinstance(c, type) and n.startswith("External")
               and c.__module__ == sf.__name__]
    stringified, plain = [], []
    for n, c in classes:
        try:
            node = gr.BaseNode(_make(c, "probe_n", "/abs/u.html"), gd)
        except Exception:
            continue        # a class BaseNode cannot be made of at all is not one the graphs meet
        (stringified if getattr(node, "ident", None) == "probe_n" else plain).append((n, c))
    if not stringified:
        raise LookupError("graphs.BaseNode: no External* class is turned into a string")
    obs = []
    ext_s = next((c for n, c in stringified if n == "ExternalModule"), stringified[0][1])
    ext_p = next((c for n, c in plain if n == "ExternalVariable"), plain[0][1] if plain else None)
    for u in NODE_PROBE_URLS:
        subjects = [("stringified", True, False, _make(ext_s, "probe_n", u)), ("own", False, False, _OwnStub(u)),
                    ("string", True, False, f"<a href='{u}'>probe_n</a>")]
        if ext_p is not None:
            subjects.append(("external", False, True, _make(ext_p, "probe_n", u)))
        for kind, fromstr, has_ext, obj in subjects:
            try:
                got = gr.BaseNode(obj, gd).attribs.get("URL")
            except Exception as e:
                raise LookupError(f"graphs.BaseNode raises {type(e).__name__} on a {kind} object with URL {u!r}")
            if got == u:
                obs.append((kind, fromstr, has_ext, u, True))
            elif got == "PFX/" + u:
                obs.append((kind, fromstr, has_ext, u, False))
            else:
                raise LookupError(f"graphs.BaseNode: the node of a {kind} object with URL {u!r} gets URL {got!r} - not modelled")
    for cand in _node_candidates():
        if all(_eval_cond(cand, f, x, u) == verbatim for _, f, x, u, verbatim in obs):
            return [n for n, _ in stringified], cand, f"probed on {len(obs)} stub objects"
    # no term of the list explains the behaviour: translate the source of the test, as before round 5
    tree = ast.parse((Path(repo) / "ford" / "graphs.py").read_text())
    _, cond, src = _node_url(tree)
    if not all(_eval_cond(cond, f, x, u) == verbatim for _, f, x, u, verbatim in obs):
        raise LookupError(f"graphs.BaseNode.__init__: the test `{src}` as translated does not explain the observed node URLs")
    return [n for n, _ in stringified], cond, src


def _is_self_attr(n, attr: str) -> bool:
    return isinstance(n, ast.Attribute) and n.attr == attr and isinstance(n.value, ast.Name) and n.value.id == "self"


def _node_cond(n) -> tuple:
    """the test in front of `attribs["URL"] = self.url` as a term of NodeCond: nested tuples
    ('atom', name[, literal]) | ('const', bool) | ('not', c) | ('and', a, b) | ('or', a, b)"""
    if isinstance(n, ast.BoolOp):
        op = "and" if isinstance(n.op, ast.And) else "or"
        terms = [_node_cond(v) for v in n.values]
        acc = terms[-1]
        for t in reversed(terms[:-1]):
            acc = (op, t, acc)
        return acc
    if isinstance(n, ast.UnaryOp) and isinstance(n.op, ast.Not):
        return ("not", _node_cond(n.operand))
    if isinstance(n, ast.Constant) and isinstance(n.value, bool):
        return ("const", n.value)
    if _is_self_attr(n, "fromstr"):
        return ("atom", "fromstr")
    if isinstance(n, ast.Call) and isinstance(n.func, ast.Name) and len(n.args) == 2 and not n.keywords:
        a0, a1 = n.args
        if n.func.id == "hasattr" and isinstance(a0, ast.Name) and a0.id == "obj" and isinstance(a1, ast.Constant) \
                and a1.value == "external_url":
            return ("atom", "hasExternalUrl")
        if n.func.id == "isinstance" and isinstance(a0, ast.Name) and a0.id == "obj" and isinstance(a1, ast.Name) \
                and a1.id == "str":
            return ("atom", "isStr")
    if isinstance(n, ast.Attribute) and n.attr == "scheme" and isinstance(n.value, ast.Call) and len(n.value.args) == 1 \
            and not n.value.keywords and _is_self_attr(n.value.args[0], "url"):
        f = n.value.func
        fname = f.id if isinstance(f, ast.Name) else f.attr if isinstance(f, ast.Attribute) else None
        if fname in ("urlparse", "urlsplit"):
            return ("atom", "urlHasScheme")
    if isinstance(n, ast.Call) and isinstance(n.func, ast.Attribute) and n.func.attr == "startswith" \
            and _is_self_attr(n.func.value, "url") and len(n.args) == 1 and not n.keywords:
        try:
            lit = ast.literal_eval(n.args[0])
        except Exception:
            lit = None
        lits = [lit] if isinstance(lit, str) else list(lit) if isinstance(lit, tuple) and lit and \
            all(isinstance(x, str) for x in lit) else None
        if lits:
            acc = ("atom", "urlStartsWith", lits[-1])
            for x in reversed(lits[:-1]):
                acc = ("or", ("atom", "urlStartsWith", x), acc)
            return acc
    raise LookupError(f"graphs.BaseNode.__init__: the test `{ast.unparse(n)}` in front of the node URL is not modelled")


def _node_url(gr: ast.Module):
    """BaseNode.__init__ of ford/graphs.py:

        if isinstance(obj, (<External classes>)): obj = str(obj)
        ...
        shown = getattr(obj, "visible", True)            # possibly narrowed for a Fortran* class
        if self.url and shown:
            if <test>: self.attribs["URL"] = self.url
            else:      self.attribs["URL"] = <graph data>.parent_dir + self.url

    -> (names of the stringified classes, <test> as a NodeCond term, its source text)"""
    cls = next((n for n in gr.body if isinstance(n, ast.ClassDef) and n.name == "BaseNode"), None)
    fn = next((n for n in (cls.body if cls else []) if isinstance(n, ast.FunctionDef) and n.name == "__init__"), None)
    if fn is None:
        raise LookupError("graphs.BaseNode.__init__ not found")
    params = [a.arg for a in fn.args.args]
    if len(params) < 3 or params[1] != "obj":
        raise LookupError("graphs.BaseNode.__init__: unexpected parameters")
    gd = params[2]
    # --- the classes turned into strings
    strs = []
    for n in fn.body:
        if isinstance(n, ast.If) and isinstance(n.test, ast.Call) and isinstance(n.test.func, ast.Name) \
                and n.test.func.id == "isinstance" and len(n.body) == 1 and not n.orelse \
                and ast.unparse(n.body[0]) == "obj = str(obj)":
            t = n.test.args[1]
            names = t.elts if isinstance(t, ast.Tuple) else [t]
            if not all(isinstance(x, ast.Name) for x in names):
                raise LookupError("graphs.BaseNode.__init__: isinstance(obj, ...) with something else than class names")
            strs.append([x.id for x in names])
    if len(strs) != 1:
        raise LookupError("graphs.BaseNode.__init__: expected exactly one `if isinstance(obj, (...)): obj = str(obj)`")
    stringified = list(dict.fromkeys(strs[0]))
    # --- `shown`
    first = True
    for n in ast.walk(fn):
        if isinstance(n, ast.Assign) and any(isinstance(t, ast.Name) and t.id == "shown" for t in n.targets):
            src = ast.unparse(n.value)
            if first:
                if src != "getattr(obj, 'visible', True)":
                    raise LookupError(f"graphs.BaseNode.__init__: shown = {src} is not modelled")
                first = False
            elif not src.startswith("shown and "):
                raise LookupError(f"graphs.BaseNode.__init__: shown = {src} is not modelled")
    if first:
        raise LookupError("graphs.BaseNode.__init__: `shown` not found")
    for n in ast.walk(fn):
        if isinstance(n, ast.If) and any(isinstance(x, ast.Assign) and any(isinstance(t, ast.Name) and t.id == "shown"
                                                                           for t in x.targets) for x in n.body):
            tsrc = ast.unparse(n.test)
            if not (tsrc.startswith("isinstance(obj, Fortran") or tsrc.startswith("isinstance(obj, (Fortran")) or "External" in tsrc:
                raise LookupError(f"graphs.BaseNode.__init__: `shown` is narrowed under `{tsrc}` - not modelled")
    # --- the statement that sets attribs["URL"]
    def sets_url(x):
        return isinstance(x, ast.Assign) and len(x.targets) == 1 and ast.unparse(x.targets[0]) == "self.attribs['URL']"

    outer = [n for n in fn.body if isinstance(n, ast.If) and any(sets_url(x) for x in ast.walk(n))]
    others = [x for n in fn.body if n not in outer for x in ast.walk(n) if sets_url(x)]
    if len(outer) != 1 or others:
        raise LookupError("graphs.BaseNode.__init__: expected exactly one `if` statement that sets attribs['URL']")
    outer = outer[0]
    if ast.unparse(outer.test) != "self.url and shown" or outer.orelse or len(outer.body) != 1 \
            or not isinstance(outer.body[0], ast.If):
        raise LookupError("graphs.BaseNode.__init__: expected `if self.url and shown: if <test>: ... else: ...`")
    inner = outer.body[0]

    def branch(stmts):
        if len(stmts) != 1 or not sets_url(stmts[0]):
            return None
        v = ast.unparse(stmts[0].value)
        return {"self.url": "verbatim", f"{gd}.parent_dir + self.url": "prefixed"}.get(v)

    b1, b2 = branch(inner.body), branch(inner.orelse)
    cond = _node_cond(inner.test)
    if (b1, b2) == ("prefixed", "verbatim"):
        cond = ("not", cond)
    elif (b1, b2) != ("verbatim", "prefixed"):
        raise LookupError("graphs.BaseNode.__init__: the two branches that set attribs['URL'] are not "
                          "`self.url` / `<graph data>.parent_dir + self.url`")
    return stringified, cond, ast.unparse(inner.test)


def _lean_cond(c) -> str:
    if c[0] == "atom":
        return f"(.atom (.urlStartsWith {_lean_str(c[2])}))" if c[1] == "urlStartsWith" else f"(.atom .{c[1]})"
    if c[0] == "const":
        return f"(.const {'true' if c[1] else 'false'})"
    if c[0] == "not":
        return f"(.not {_lean_cond(c[1])})"
    return f"(.{c[0]} {_lean_cond(c[1])} {_lean_cond(c[2])})"


def render(t: dict) -> str:
    L = [
        "/- GENERATED by translate/c16.py from ford/external_project.py, ford/sourceform.py,",
        "   ford/fortran_project.py - do not edit -/",
        "import FordModel.Basic.Chars",
        "import FordModel.ExternalNodeCond",
        "namespace Ford.Ext.Gen",
        "open Ford",
        "/-- `external_project.ATTRIBUTES`, in source order -/",
        "def attributes : List Str := [",
        ",\n".join(f"  {_lean_str(a)} /- {a} -/" for a in t["attributes"]),
        "]",
        "/-- `external_project.ENTITIES`: key, `_project_list` and `self.obj` of the class it maps to -/",
        "def entities : List (Str × (Str × Str)) := [",
        ",\n".join(f"  ({_lean_str(k)}, ({_lean_str(p)}, {_lean_str(o)})) /- {k} -> {c}: {p}, obj={o} -/"
                   for k, p, o, c in t["entities"]),
        "]",
        f"/-- `external_project.METADATA_NAME` = {t['metadataName']!r} -/",
        f"def metadataName : Str := {_lean_str(t['metadataName'])}",
        "/-- class-level `proctype` values of the (non-External) entity classes of sourceform.py -/",
        "def proctypes : List Str := [",
        ",\n".join(f"  {_lean_str(p)} /- {c}: {p} -/" for c, p in t["proctypes"]),
        "]",
        "/-- `fortran_project.LINK_TYPES`, in source order (the order `Project.find` chains the collections in) -/",
        "def linkTypes : List (Str × Str) := [",
        ",\n".join(f"  ({_lean_str(k)}, {_lean_str(v)}) /- {k} -> {v} -/" for k, v in t["linkTypes"]),
        "]",
        f"/-- ways of failing to fetch the description, and whether `except ({', '.join(t['caughtSource'])})`",
        "    of `load_external_modules` catches them -/",
        "def fetchErrors : List (Str × Bool) := [",
        ",\n".join(f"  ({_lean_str(n)}, {'true' if c else 'false'}) /- {n} -/" for n, c in t["fetchErrors"]),
        "]",
        "/-- per way of failing, what `load_external_modules` does with the projects listed after the unusable one:",
        "    `fallthrough` (they are loaded: the handler falls through with an empty description or `continue`s),",
        "    `return` (they are not: `return` / `break`), `uncaught` when the failure ends the run;",
        "    one iteration per entry of `project.external`; observed by running the function (translate/c16.py). -/",
        "def handlerExits : List (Str × Str) := [",
        ",\n".join(f"  ({_lean_str(n)}, {_lean_str(h)}) /- {n}: {h} -/" for n, h in t["handlerExits"]),
        "]",
        "/-- `graphs.BaseNode.__init__`: the classes whose objects are replaced by `str(obj)` before the node is made -/",
        "def nodeStringified : List Str := [",
        ",\n".join(f"  {_lean_str(c)} /- {c} -/" for c in t["nodeStringified"]),
        "]",
        "/-- `graphs.BaseNode.__init__`: the node's URL is used as it is when this holds, otherwise it is prefixed with",
        f"    `graph_data.parent_dir` ({t['nodeVerbatimSource']}) -/",
        f"def nodeVerbatim : NodeCond := {_lean_cond(t['nodeVerbatim'])}",
        "/-- (round 6) `MetaMarkdown.convert`: a `[[...]]` reference in the text of an entity is made relative to",
        "    `<output dir>/<Path(url).parent.parent>/<this name>` (probed on four context URLs) -/",
        f"def siblingDir : Str := {_lean_str(t['siblingDir'])} /- {t['siblingDir']} -/",
        "/-- (round 6) the keys of ENTITIES whose objects `Project.find` passes over when it looks for a bare name although",
        "    their project list is searched (probed: one object per class on an otherwise empty project) -/",
        "def findSkips : List Str := [" + ", ".join(f"{_lean_str(k)} /- {k} -/" for k in t["findSkips"]) + "]",
        "/-- (round 6) `RelativeLinksTreeProcessor._fix_attrib`: is a relative `href` read as a path from the working",
        "    directory of the process (probed; `false` with fixes/C16-relative-links-only-absolute-paths.diff) -/",
        f"def treeProcessorReadsRelative : Bool := {'true' if t['treeProcessorReadsRelative'] else 'false'}",
        "/-- (round 6) the list attributes `FortranBase.children` chains, in the order it visits them (probed) -/",
        "def childrenOrder : List Str := [",
        ",\n".join(f"  {_lean_str(a)} /- {a} -/" for a in t["childrenOrder"]),
        "]",
        "/-- (round 6) `sourceform.SUBLINK_TYPES`: kind of a child in `[[parent:child(kind)]]` -> attribute searched -/",
        "def sublinkTypes : List (Str × Str) := [",
        ",\n".join(f"  ({_lean_str(k)}, {_lean_str(v)}) /- {k} -> {v} -/" for k, v in t["sublinkTypes"]),
        "]",
        "/-- (round 6) per key of ENTITIES: which of the attributes above a freshly made object of the class has before",
        "    `dict2obj` sets anything, and the shape of the value (`list` / `dict` / `str`: empty, iterable; `scalar`) -/",
        "def classDefaults : List (Str × List (Str × Str)) := [",
        ",\n".join("  (%s, [%s]) /- %s: %s -/" % (_lean_str(k), ", ".join(f"({_lean_str(a)}, {_lean_str(sh)})" for a, sh in row),
                                                 k, ", ".join(f"{a}={sh}" for a, sh in row) or "-")
                   for k, row in t["classDefaults"]),
        "]",
        "end Ford.Ext.Gen",
        "",
    ]
    return "\n".join(L)


def translate():
    t = extract(common.REPO)
    common.write_if_changed(common.LEAN / "FordModel" / "Generated" / "C16.lean", render(t))
    return t


if __name__ == "__main__":
    print(json.dumps(translate(), indent=1))
