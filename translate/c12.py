"""Translator for C12: extracts the table-shaped / structural parts of the mechanism
from the working tree and writes lean/FordModel/Generated/C12.lean.

  symbolReplacements  per-character substitution of NameSelector.get_name, PROBED on the real object (sourceform.py)
  countKeyLower       key of its counter (name as written / lower-cased), PROBED
  fortranFileOrder    order in which _fortran_file reads the entity lists of a parsed file, PROBED on a recording stub
  extensionBySuffix   Project.__init__: kind of a file decided by its last suffix (membership) or by the first
                      configured extension the name ends with (order of the extension list visible), PROBED
  outputDirExcludedIn for every way output_dir can be configured: does find_all_files leave out what lies below it,
                      PROBED through the real load_settings / parse_arguments / find_all_files on a scratch project
  containersOrder     the CONTAINERS dict of Project.correlate                    (fortran_project.py)
  unitChainOrder      chain(sfile.modules, ...) of the gather loop in correlate   (fortran_project.py)
  pageListOrder       entity_list_page_map of Documentation.__init__ (+allfiles)  (output.py)
  fileIterSorted      are the enumerated files parsed in sorted order whatever order they are handed out in?  PROBED
                      (variant switch)
  usesIterSorted      is `obj.uses` of the use_list macro iterated through a sort filter? (variant switch)
  writeoutSteps       what a real run does at the output directory, in order, OBSERVED on a scratch project with a stale
                      output directory (file-system primitives wrapped; `removeOut` = the stale content is gone)
  writeoutStepsPlainFile  the same with a plain file where the directory goes
  outDirs             the sub-directories created
  nodeIterSites       every loop over a node collection in graphs.py with "is it sorted(...)"
  serialGraphs / parallelGraphs   (collection, graphs written) of output_graphs without / with worker processes, OBSERVED
                      on a manager holding recording stand-ins (process_map replaced by a plain loop)
  incDirsOrdered      does FortranReader take an include file from the first listed directory that holds it, for every
                      order of the list?  PROBED on the real reader  (variant switch)
  inheritedIterOrdered  do the loops of FortranType.correlate that collect inherited components / bindings walk
                      the parent's lists (source order), or a hash-ordered collection?           (variant switch)
  hashIterSites       every place in ford/*.py where a syntactically hash-ordered collection is turned into a
                      sequence (for / comprehension / list() / join ...), with "goes through sorted()"

A construct that cannot be found raises (= tie broken), it is never silently skipped.
"""
from __future__ import annotations

import ast
from pathlib import Path

from harness import common


def _src(rel):
    return (common.REPO / rel).read_text()


def _find(tree, kind, name):
    for n in ast.walk(tree):
        if isinstance(n, kind) and getattr(n, "name", None) == name:
            return n
    raise LookupError(f"{kind.__name__} {name} not found")


def _method(tree, cls, fn):
    c = _find(tree, ast.ClassDef, cls)
    for n in c.body:
        if isinstance(n, ast.FunctionDef) and n.name == fn:
            return n
    raise LookupError(f"{cls}.{fn} not found")


def lean_str(s: str) -> str:
    return '"' + s.replace("\\", "\\\\").replace('"', '\\"') + '".toList'


def lean_list(xs) -> str:
    return "[" + ", ".join(xs) + "]"


def is_sorted_call(node) -> bool:
    return isinstance(node, ast.Call) and isinstance(node.func, ast.Name) and node.func.id == "sorted"


def strip_wrappers(node):
    """enumerate(X) / (bar := ProgressBar("..", X)) -> X"""
    while True:
        if isinstance(node, ast.NamedExpr):
            node = node.value
        elif isinstance(node, ast.Call) and isinstance(node.func, ast.Name) and node.func.id == "enumerate":
            node = node.args[0]
        elif isinstance(node, ast.Call) and isinstance(node.func, ast.Name) and node.func.id == "ProgressBar":
            node = node.args[1]
        else:
            return node


# ---------------------------------------------------------------- extractors


# ---- probes: the decision is observed by running the real function on stub inputs, not read off its spelling


def _ns_stub(S, name, cls_name="FortranModule", obj="module"):
    """an instance of a real entity class without running its constructor (real `get_dir()`)"""
    it = object.__new__(getattr(S, cls_name))
    it.obj = obj
    it.parent = None
    it.name = name
    return it


def _probe_get_name(names, same_item_twice=False):
    """identifiers a fresh NameSelector hands out for stub modules of these names, requested in this order"""
    common.import_ford()
    import ford.sourceform as S

    ns = S.NameSelector()
    items = [_ns_stub(S, n) for n in names]
    out = [ns.get_name(it) for it in items]
    if same_item_twice:
        out += [ns.get_name(it) for it in items]
    return out


def symbol_replacements():
    """The per-character substitution `NameSelector.get_name` applies to a name, observed on the real object:
    `a<c>b` is requested for every printable ASCII character `c` (and a few others); the characters that do not
    come back as themselves (lower-cased) are the table.  Then the table is validated as a *character-wise*
    substitution (what the model implements) on all strings of length <= 3 over the symbols and two letters."""
    alphabet = [chr(k) for k in range(32, 127)] + ["é", "Σ", "\t"]
    table = []
    for c in alphabet:
        (got,) = _probe_get_name(["a" + c + "b"])
        if not (got.startswith("a") and got.endswith("b") and len(got) >= 2):
            raise LookupError(f"NameSelector.get_name('a{c}b') = {got!r}: not a substitution of the middle character")
        mid = got[1:-1]
        if mid != c.lower():
            table.append((c, mid))
    if not table:
        raise LookupError("NameSelector.get_name replaces no character at all: the symbol table was not found")
    sub = dict(table)
    import itertools

    small = [k for k, _ in table][:6] + ["a", "Z", "~"]
    for n in (1, 2, 3):
        for tup in itertools.product(small, repeat=n):
            name = "".join(tup)
            (got,) = _probe_get_name([name])
            want = "".join(sub.get(ch, ch.lower()) for ch in name)
            if got != want:
                raise LookupError(f"NameSelector.get_name({name!r}) = {got!r}, a character-wise substitution gives {want!r}")
    return table


def numbering_shape():
    """Facts about get_name the model relies on, observed on the real object: an item keeps its identifier
    (memo), the n-th item under one key gets `~n` from n = 2 on, the empty name becomes `__unnamed__`, the
    identifier is built from the lower-cased name.  Returns True when the counter is kept under the lower-cased
    name (`Foo` then `foo` -> `foo`, `foo~2`; repaired, commit 8dec555), False when it is kept under the name as
    written (`foo`, `foo`)."""
    got = _probe_get_name(["foo", "foo", "foo", "bar"], same_item_twice=True)
    if got != ["foo", "foo~2", "foo~3", "bar"] * 2:
        raise LookupError(f"NameSelector.get_name no longer numbers first come / memoises: foo, foo, foo, bar -> {got}")
    if _probe_get_name(["", ""]) != ["__unnamed__", "__unnamed__~2"]:
        raise LookupError("NameSelector.get_name: the empty name is no longer `__unnamed__`, `__unnamed__~2`")
    if _probe_get_name(["BaR"]) != ["bar"]:
        raise LookupError("NameSelector.get_name: the identifier is no longer the lower-cased name")
    a = _probe_get_name(["Foo", "foo", "FOO"])
    b = _probe_get_name(["foo", "Foo"])
    if a == ["foo", "foo~2", "foo~3"] and b == ["foo", "foo~2"]:
        return True
    if a == ["foo", "foo", "foo"] and b == ["foo", "foo"]:
        return False
    raise LookupError(f"NameSelector.get_name: the key of the counter is neither item.name nor item.name.lower(): "
                      f"Foo, foo, FOO -> {a}; foo, Foo -> {b}")


class _Enumerated(list):
    """stands in for the set `find_all_files` returns: a collection whose iteration order is chosen by the probe"""


_SF_LISTS = ("modules", "submodules", "functions", "subroutines", "programs", "blockdata")


def _probe_project(paths, extensions=None, fixed=None, fpp=None, extra=None):
    """Run the real `Project.__init__` on stubs: `find_all_files` hands out `paths` in exactly this order, the
    source-file class and `GenericSource` only record how they are called.  Returns (decisions, attribute log):
    decisions = [(path, 'fortran', preprocessed?, fixed form?) | (path, 'extra', None, None)] in call order; the
    log lists the entity lists of the parsed file in the order `_fortran_file` reads them."""
    common.import_ford()
    from pathlib import Path as P

    import ford.fortran_project as FP
    import ford.settings as ST

    kw = {}
    if extensions is not None:
        kw = dict(extensions=list(extensions), fixed_extensions=list(fixed or []), fpp_extensions=list(fpp or []),
                  extra_filetypes=[ST.ExtraFileType(e, "#") for e in (extra or [])])
    settings = ST.ProjectSettings(**kw)
    if extensions is not None:
        settings.extensions = list(extensions)      # the order under test (after __post_init__ it is a set's order)
    decisions, log = [], []

    class StubSourceFile:
        def __init__(self, path, _settings, preprocessor=None, fixed=False, **_kw):
            decisions.append((str(path), "fortran", preprocessor is not None, bool(fixed)))

        def __getattr__(self, name):
            if name.startswith("__"):
                raise AttributeError(name)
            log.append(name)
            return []

    def stub_generic(path, _settings, *a, **k):
        decisions.append((str(path), "extra", None, None))
        return object()

    saved = (FP.find_all_files, FP.FortranSourceFile, FP.GenericSource)
    FP.find_all_files = lambda _s: _Enumerated(P(p) for p in paths)
    FP.FortranSourceFile = StubSourceFile
    FP.GenericSource = stub_generic
    try:
        FP.Project(settings)
    finally:
        FP.find_all_files, FP.FortranSourceFile, FP.GenericSource = saved
    return decisions, log


def fortran_file_order():
    """the order in which `_fortran_file` reads the entity lists of a parsed file (observed on a recording stub)"""
    _dec, log = _probe_project(["/p/src/a.f90"])
    out = [a for a in dict.fromkeys(log) if a in _SF_LISTS]
    if sorted(out) != sorted(_SF_LISTS):
        raise LookupError(f"_fortran_file reads {out} of the parsed file, expected the lists {list(_SF_LISTS)}")
    return out


PROBE_PATHS = ["/p/src/b/x.f90", "/p/src/a/x.f90", "/p/src/zz.f90", "/p/src/a/y.f90", "/p/src/Z.f90", "/p/src/a.f90"]


def file_iter_sorted():
    """Does `Project.__init__` parse the enumerated files in sorted order (by full path), whatever order the
    collection hands them out in?  Observed: the stubbed `find_all_files` returns the same paths in three
    different orders; True iff every time they are parsed in `sorted()` order.  Anything else means the
    enumeration order is (at least partly) visible: False."""
    from pathlib import Path as P

    want = [str(x) for x in sorted(P(p) for p in PROBE_PATHS)]
    orders = [list(PROBE_PATHS), list(reversed(want)), want[3:] + want[:3]]
    seen = []
    for o in orders:
        dec, _ = _probe_project(o)
        got = [d[0] for d in dec]
        if sorted(got) != sorted(want):
            raise LookupError(f"Project.__init__ parsed {got} when {o} were enumerated")
        seen.append(got == want)
    return all(seen), ("sorted" if all(seen) else "enumeration order visible")


EXT_PROBE = {"extensions": ["f90", "pp.f90", "F90", "q.F90"], "fixed": ["f", "inc.f"], "fpp": ["pp.f90", "F90"],
             "extra": ["txt", "cfg.txt"]}
EXT_PROBE_FILES = ["/p/src/a.f90", "/p/src/b.pp.f90", "/p/src/c.F90", "/p/src/d.q.F90", "/p/src/e.f", "/p/src/g.inc.f",
                   "/p/src/h.txt", "/p/src/i.cfg.txt", "/p/src/j.pp.F90", "/p/src/k.f90.txt", "/p/src/l.dat", "/p/src/m.q.f90"]


def last_suffix(name: str) -> str:
    """`pathlib.PurePath(name).suffix[1:]`"""
    i = name.rfind(".")
    return name[i + 1:] if 0 < i < len(name) - 1 else ""


def file_kind(by_suffix, exts, fixed, fpp, extra, name):
    """the model's rule (lean: Order.fileKind), used to recognise which rule the code follows"""
    ext = last_suffix(name)
    if not by_suffix:
        ext = next((e for e in list(exts) + list(fixed) + list(extra) if name.endswith("." + e)), ext)
    if ext in list(exts) + list(fixed):
        return ("fortran", ext in fpp, ext in fixed)
    if ext in extra:
        return ("extra", None, None)
    return None


def extension_by_suffix():
    """How does `Project.__init__` decide what a file is (free / fixed form, preprocessed, extra file type)?
    Observed on stubs for every order of a list of configured extensions in which some are dotted suffixes of
    others (`f90` / `pp.f90`): True when the decision is the one the *last suffix* of the name gives by membership
    (then the order of the extension list - a set's order - cannot matter); False when the first configured
    extension the name ends with wins (order visible).  Anything else raises."""
    import itertools
    import os

    cfg = EXT_PROBE
    rules = {True: True, False: True}
    for perm in itertools.permutations(cfg["extensions"]):
        dec, _ = _probe_project(EXT_PROBE_FILES, perm, cfg["fixed"], cfg["fpp"], cfg["extra"])
        got = {d[0]: d[1:] for d in dec}
        for rule in (True, False):
            want = {}
            for f in EXT_PROBE_FILES:
                k = file_kind(rule, perm, cfg["fixed"], cfg["fpp"], cfg["extra"], os.path.basename(f))
                if k is not None:
                    want[f] = k
            if want != got:
                rules[rule] = False
    if rules[True]:
        return True
    if rules[False]:
        return False
    raise LookupError("Project.__init__: the kind of a file follows neither its last suffix nor the first configured "
                      "extension its name ends with")


OUT_DIR_CONFIGS = [
    # (label, source of output_dir, project_url)
    ("output_dir from the project file; relative URLs", "file", ""),
    ("output_dir from the project file; project_url set", "file", "https://example.org/doc"),
    ("default output_dir; relative URLs", "default", ""),
    ("default output_dir; project_url set", "default", "https://example.org/doc"),
    ("output_dir from the command line; relative URLs", "cli", ""),
    ("output_dir from the command line; project_url set", "cli", "https://example.org/doc"),
]


def output_dir_excluded():
    """For every way the output directory can be configured: does `find_all_files` leave out what lies below it?
    Observed on a real scratch project whose output directory is inside the source directory and already holds a
    Fortran file (as an earlier run with `incl_src` leaves it): the settings are built by the real
    `load_settings` / `parse_arguments`, then the real `find_all_files` is asked."""
    ford = common.import_ford()
    import os

    import ford.fortran_project as FP

    out = []
    with common.scratch_dir("ford-verif-c12-probe-") as scratch:
        for k, (label, source, url) in enumerate(OUT_DIR_CONFIGS):
            root = Path(scratch) / f"c{k}"
            src_dir, out_rel = ("./src", "./src/html") if source != "default" else (".", "./doc")
            real_src = root / src_dir
            real_src.mkdir(parents=True)
            (real_src / "a.f90").write_text("module a\nend module a\n")
            stale = root / out_rel / "src" / "old.f90"
            stale.parent.mkdir(parents=True)
            stale.write_text("module old\nend module old\n")
            lines = ["---", "project: probe", f"src_dir: {src_dir}", "preprocess: false"]
            if source == "file":
                lines.append(f"output_dir: {out_rel}")
            if url:
                lines.append(f"project_url: {url}")
            text = "\n".join(lines + ["---", "", "text", ""])
            (root / "proj.md").write_text(text)
            cwd = os.getcwd()
            try:
                os.chdir(root)
                docs, data = ford.load_settings(text, root, "proj.md")
                cli = {"output_dir": out_rel} if source == "cli" else {}
                data, _docs = ford.parse_arguments(cli, docs, data, root)
                found = {os.path.relpath(str(p), root) for p in FP.find_all_files(data)}
            finally:
                os.chdir(cwd)
            mine = os.path.normpath(os.path.join(src_dir, "a.f90"))
            old = os.path.normpath(os.path.join(out_rel, "src", "old.f90"))
            if mine not in found or not found <= {mine, old}:
                raise LookupError(f"find_all_files on the probe project ({label}) returned {sorted(found)}")
            if os.path.normpath(str(data.output_dir)) != os.path.normpath(str(root / out_rel)):
                raise LookupError(f"probe project ({label}): output_dir is {data.output_dir}")
            out.append((label, old not in found))
    return out


def correlate_tables():
    fn = _method(ast.parse(_src("ford/fortran_project.py")), "Project", "correlate")
    containers = None
    chain_order = None
    for n in ast.walk(fn):
        if isinstance(n, ast.Assign) and isinstance(n.targets[0], ast.Name) and n.targets[0].id == "CONTAINERS":
            containers = [(ast.literal_eval(k), ast.literal_eval(v)) for k, v in zip(n.value.keys, n.value.values)]
        if isinstance(n, ast.For) and isinstance(n.target, ast.Name) and n.target.id == "code_unit":
            it = n.iter
            if isinstance(it, ast.Call) and getattr(it.func, "id", None) == "chain":
                chain_order = [a.attr for a in it.args]
    if not containers or not chain_order:
        raise LookupError("CONTAINERS / code-unit chain not found in Project.correlate")
    return containers, chain_order


def find_all_files_returns_set():
    """informational only (goes into the evidence, no table depends on it)"""
    try:
        fn = _find(ast.parse(_src("ford/fortran_project.py")), ast.FunctionDef, "find_all_files")
        return "; ".join(ast.unparse(n.value) for n in ast.walk(fn) if isinstance(n, ast.Return) and n.value is not None)
    except Exception as e:  # noqa
        return f"? ({e})"


def page_list_order():
    fn = _method(ast.parse(_src("ford/output.py")), "Documentation", "__init__")
    order = None
    extra = None
    for n in ast.walk(fn):
        if isinstance(n, ast.AnnAssign) and getattr(n.target, "id", None) == "entity_list_page_map":
            order = [(e.elts[0].attr, e.elts[1].id) for e in n.value.elts]
        if isinstance(n, ast.Call) and isinstance(n.func, ast.Attribute) and n.func.attr == "append" \
                and getattr(n.func.value, "id", None) == "entity_list_page_map":
            t = n.args[0]
            extra = (t.elts[0].attr, t.elts[1].id)
    if not order or not extra:
        raise LookupError("entity_list_page_map not found in Documentation.__init__")
    return order + [extra]


def _observe_output_events(project_file: Path, out: Path, stale_present):
    """Run the real FORD in-process on a scratch project and log, in order, what it does at / below the output
    directory: `mkdirOut`, `mkdirSub <name>`, `write` (file or tree copied, file opened for writing) - and
    `removeOut` at the moment the stale content (`stale_present()` turning false) is found to be gone.  The file
    system primitives are wrapped, not the FORD functions: it does not matter which function removes or writes."""
    import builtins
    import io
    import os
    import pathlib
    import shutil

    from harness import e2e

    events: list = []
    depth = [0]
    state = {"stale": bool(stale_present())}

    def note_removal():
        if state["stale"] and not stale_present():
            state["stale"] = False
            events.append(("removeOut", ""))

    def log(kind, path):
        if depth[0] > 0 or isinstance(path, int):
            return
        try:
            p = Path(os.path.abspath(os.fspath(path)))
        except TypeError:
            return
        if p != out and out not in p.parents:
            return
        note_removal()
        if kind == "mkdir" and p == out:
            events.append(("mkdirOut", ""))
        elif kind == "mkdir" and p.parent == out:
            events.append(("mkdirSub", p.name))
        else:
            events.append(("write", ""))

    def wrap(fn, kind, idx):
        def w(*a, **k):
            if len(a) > idx:
                log(kind, a[idx])
            depth[0] += 1
            try:
                return fn(*a, **k)
            finally:
                depth[0] -= 1
        return w

    def wrap_open(fn):
        def w(file, mode="r", *a, **k):
            if any(c in str(mode) for c in "wax+"):
                log("write", file)
            return fn(file, mode, *a, **k)
        return w

    patches = [(pathlib.Path, "mkdir", wrap(pathlib.Path.mkdir, "mkdir", 0)), (os, "mkdir", wrap(os.mkdir, "mkdir", 0)),
               (os, "makedirs", wrap(os.makedirs, "mkdir", 0)), (shutil, "copy", wrap(shutil.copy, "write", 1)),
               (shutil, "copy2", wrap(shutil.copy2, "write", 1)), (shutil, "copyfile", wrap(shutil.copyfile, "write", 1)),
               (shutil, "copytree", wrap(shutil.copytree, "write", 1)), (builtins, "open", wrap_open(builtins.open)),
               (io, "open", wrap_open(io.open))]
    saved = [(o, n, getattr(o, n)) for o, n, _ in patches]
    try:
        for o, n, f in patches:
            setattr(o, n, f)
        res = e2e.run_inprocess(project_file)
    finally:
        for o, n, f in saved:
            setattr(o, n, f)
    if res["rc"] != 0:
        raise LookupError(f"writeout probe: FORD failed on the scratch project: {res.get('exc')} {res['log'][-300:]}")
    note_removal()
    return events


def writeout_steps():
    """What a real run does at the output directory, in order (consecutive equal events merged), observed twice:
    the directory holds stale files / a plain file stands where the directory goes.  `removeOut` = from here on
    the stale content is gone.  Returns (steps with a stale directory, sub-directories created, steps with a plain file)."""
    from harness import e2e

    src = {"a.f90": "module a\n  !! doc\ncontains\n  subroutine s()\n    !! doc\n  end subroutine s\nend module a\n"}
    got = {}
    dirs: list = []
    with common.scratch_dir("ford-verif-c12-writeout-") as scratch:
        for variant in ("dir", "file"):
            root = Path(scratch) / variant
            pf = e2e.write_project(root, src, {"graph": "true", "search": "true", "parallel": "0"})
            out = (root / "doc").resolve()
            if variant == "dir":
                stale = [out / "stale.html", out / "proc" / "old~7.html", out / "deep" / "er" / "x.txt", out / "src" / "old.f90"]
                for f in stale:
                    f.parent.mkdir(parents=True, exist_ok=True)
                    f.write_text("stale\n")
                present = lambda stale=stale: any(f.exists() for f in stale)
            else:
                out.write_text("a plain file\n")
                present = lambda out=out: out.is_file()
            ev = _observe_output_events(pf, out, present)
            steps = []
            for kind, name in ev:
                if kind == "mkdirSub" and variant == "dir" and name not in dirs:
                    dirs.append(name)
                if not steps or steps[-1] != kind:
                    steps.append(kind)
            if "write" not in steps:
                raise LookupError(f"writeout probe ({variant}): no write below the output directory was observed: {steps}")
            got[variant] = steps
    if not dirs:
        raise LookupError("writeout probe: no sub-directory of the output directory was created")
    return got["dir"], dirs, got["file"]


GRAPH_SITES = [
    # (class, function, iterated expression with sorted()/list() peeled off)
    ("FortranGraph", "__init__", "=root"),
    ("FortranGraph", "__init__", "self.root"),
    ("FortranGraph", "add_to_graph", "nodes"),
    ("FortranGraph", "add_nodes", "nodes"),
    ("ModuleGraph", "add_node", "node.uses"),
    ("UsesGraph", "add_node", "node.uses"),
    ("UsedByGraph", "add_node", "getattr(node, 'used_by', [])"),
    ("UsedByGraph", "add_node", "getattr(node, 'children', [])"),
    ("FileGraph", "add_node", "node.efferent"),
    ("EfferentGraph", "add_node", "node.efferent"),
    ("AfferentGraph", "add_node", "node.afferent"),
    ("CallGraph", "add_node", "node.calls"),
    ("CallGraph", "add_node", "getattr(node, 'interfaces', [])"),
    ("CallsGraph", "add_node", "node.calls"),
    ("CallsGraph", "add_node", "getattr(node, 'interfaces', [])"),
    ("CalledByGraph", "add_node", "node.called_by"),
    ("CalledByGraph", "add_node", "getattr(node, 'interfaced_by', [])"),
    ("GraphManager", "graph_all", "self.graph_objs"),
    ("GraphManager", "graph_all", "=self.modules"),
    ("GraphManager", "graph_all", "=self.procedures | self.internal_procedures | self.bound_procedures"),
    ("GraphManager", "graph_all", "self.programs"),
    ("GraphManager", "graph_all", "self.procedures"),
]


def peel(node):
    """sorted(list(X)) / sorted(X) / list(X) -> (X, was_sorted)"""
    was_sorted = False
    while isinstance(node, ast.Call) and isinstance(node.func, ast.Name) and node.func.id in ("sorted", "list") \
            and len(node.args) == 1:
        if node.func.id == "sorted":
            was_sorted = True
        node = node.args[0]
    return node, was_sorted


class _Subst(ast.NodeTransformer):
    def __init__(self, mapping):
        self.mapping = mapping

    def visit_Name(self, n):
        if isinstance(n.ctx, ast.Load) and n.id in self.mapping:
            import copy
            return copy.deepcopy(self.mapping[n.id])
        return n


def _subst(node, mapping):
    import copy
    return _Subst(mapping).visit(copy.deepcopy(node)) if mapping else node


def inlined_statements(tree, cls_name, fn, depth=3):
    """Every node of `fn` *and of the helpers it calls* (module-level functions called by name, methods of the same
    class or of its bases called through `self.`), the helpers' parameters replaced by the argument expressions
    of the call - so a loop that was moved into a helper is still seen as a loop of the calling function, over
    the same expression.  Yields AST nodes (after substitution)."""
    mod_funcs = {n.name: n for n in tree.body if isinstance(n, ast.FunctionDef)}
    classes = {n.name: n for n in tree.body if isinstance(n, ast.ClassDef)}

    def method(cname, name, seen=()):
        c = classes.get(cname)
        if c is None or cname in seen:
            return None
        for n in c.body:
            if isinstance(n, ast.FunctionDef) and n.name == name:
                return n
        for base in c.bases:
            if isinstance(base, ast.Name):
                m = method(base.id, name, seen + (cname,))
                if m is not None:
                    return m
        return None

    def bind(helper, call, mapping, is_method):
        params = [a.arg for a in helper.args.posonlyargs + helper.args.args]
        if is_method and params:
            params = params[1:]
        out = {}
        for p_, a_ in zip(params, call.args):
            if isinstance(a_, ast.Starred):
                return None
            out[p_] = _subst(a_, mapping)
        for kw in call.keywords:
            if kw.arg is None:
                return None
            out[kw.arg] = _subst(kw.value, mapping)
        return out

    def walk(f, mapping, d, stack):
        for n in ast.walk(f):
            if n is f:
                continue
            yield _subst(n, mapping) if mapping and isinstance(n, (ast.For, ast.Assign, ast.AnnAssign, ast.Expr)) else n
            if d > 0 and isinstance(n, ast.Call):
                helper, is_m = None, False
                if isinstance(n.func, ast.Name) and n.func.id in mod_funcs:
                    helper = mod_funcs[n.func.id]
                elif isinstance(n.func, ast.Attribute) and isinstance(n.func.value, ast.Name) and n.func.value.id == "self" \
                        and cls_name is not None:
                    helper, is_m = method(cls_name, n.func.attr), True
                if helper is not None and helper is not f and helper.name not in stack:
                    m2 = bind(helper, n, mapping, is_m)
                    if m2 is not None:
                        yield from walk(helper, m2, d - 1, stack + (helper.name,))

    yield from walk(fn, {}, depth, (fn.name,))


def node_iter_sites():
    tree = ast.parse(_src("ford/graphs.py"))
    out = []
    for cls, fn, expr in GRAPH_SITES:
        f = _method(tree, cls, fn)
        want_assign = expr.startswith("=")  # "=X": the site is an assignment `v = sorted(list(X))`
        text = expr.lstrip("=")
        found = None
        for n in inlined_statements(tree, cls, f):
            if want_assign and isinstance(n, ast.Assign):
                cand = n.value
            elif not want_assign and isinstance(n, ast.For):
                cand = strip_wrappers(n.iter)
            else:
                continue
            inner, was_sorted = peel(cand)
            if ast.unparse(inner) == text:
                # several loops over the same expression in one function: all must be sorted
                found = was_sorted if found is None else (found and was_sorted)
        if found is None:
            raise LookupError(f"graphs.py: iteration site {cls}.{fn} over {text} not found (also not in the helpers it calls)")
        out.append((f"{cls}.{fn}: {text}", found))
    return out


GRAPH_COLLECTIONS = ("modules", "types", "procedures", "programs", "sourcefiles", "blockdata")


def output_graphs_tables():
    """Which graphs of which collection does `GraphManager.output_graphs` write - without worker processes and with
    them?  Observed: the real method runs on a manager whose collections hold recording stand-ins (any attribute of
    a stand-in is a graph that logs `create_svg`); `process_map` is replaced by a plain loop over the real wrapper
    function.  Returns two tables [(collection, [graph attributes])], both sorted (the order in which different
    files are written is covered by `parallel_irrelevant`)."""
    common.import_ford()
    import ford.graphs as G

    def observe(njobs):
        log = []

        class StubGraph:
            def __init__(self, coll, attr):
                self.coll, self.attr = coll, attr

            def create_svg(self, *_a, **_k):
                log.append((self.coll, self.attr))

        class StubEntity:
            def __init__(self, coll):
                self._coll = coll

            def __getattr__(self, name):
                if name.startswith("__"):
                    raise AttributeError(name)
                return StubGraph(self._coll, name)

        with common.scratch_dir("ford-verif-c12-graphs-") as scratch:
            gm = object.__new__(G.GraphManager)
            gm.save_graphs = True
            gm.graphdir = Path(scratch) / "graphs"
            for c in GRAPH_COLLECTIONS:
                setattr(gm, c, {StubEntity(c)})
            gm.usegraph = gm.typegraph = gm.callgraph = gm.filegraph = None
            gm.graph_objs = []
            saved = G.process_map
            used = []

            def plain_map(fn, args, *a, **k):
                used.append(True)
                return [fn(x) for x in args]

            G.process_map = plain_map
            try:
                gm.output_graphs(njobs)
            finally:
                G.process_map = saved
        return log, bool(used)

    serial_log, serial_used = observe(0)
    par_log, par_used = observe(2)
    if serial_used or not par_used:
        raise LookupError(f"output_graphs: process_map used with njobs=0: {serial_used}, with njobs=2: {par_used}")

    def table(log):
        t = {}
        for coll, attr in log:
            t.setdefault(coll, [])
            if attr not in t[coll]:
                t[coll].append(attr)
        return sorted((c, sorted(v)) for c, v in t.items())

    serial, par = table(serial_log), table(par_log)
    if not serial or not par:
        raise LookupError("output_graphs: no create_svg call observed")
    return serial, par


def uses_iter_sorted():
    import jinja2
    from jinja2 import nodes

    env = jinja2.Environment()
    tree = env.parse(_src("ford/templates/macros.html"))
    for m in tree.find_all(nodes.Macro):
        if m.name == "use_list":
            for f in m.find_all(nodes.For):
                it = f.iter
                has_sort = False
                cur = it
                while isinstance(cur, nodes.Filter):
                    if cur.name == "sort":
                        has_sort = True
                    cur = cur.node
                if isinstance(cur, nodes.Getattr) and cur.attr == "uses":
                    return has_sort
    raise LookupError("use_list macro / loop over obj.uses not found")


def uses_is_set():
    """is `self.uses` of a code unit rebound to a hash-ordered collection in `correlate` (any spelling of a set)?"""
    tree = ast.parse(_src("ford/sourceform.py"))
    fn = _method(tree, "FortranCodeUnit", "correlate")
    c = OrderClass(set(), {})
    for n in inlined_statements(tree, "FortranCodeUnit", fn):
        if isinstance(n, ast.Assign):
            for t in n.targets:
                if isinstance(t, ast.Attribute) and t.attr == "uses" and isinstance(t.value, ast.Name) and t.value.id == "self" \
                        and c.cls(n.value) == "hash":
                    return True
    return False



# ---------------------------------------------------------------- order class of an expression

HASH_OPS = (ast.BitOr, ast.BitAnd, ast.Sub, ast.BitXor)
# calls that hand their argument's order on
PASS_CALLS = {"list", "tuple", "reversed", "enumerate", "iter", "filter", "map", "chain", "ProgressBar", "zip",
              "copy", "deepcopy"}
# consumers for which the order of the argument does not matter
INSENSITIVE_CALLS = {"sorted", "set", "frozenset", "len", "any", "all", "sum", "min", "max", "bool", "dict",
                     "Counter", "toposort_flatten", "toposort", "isinstance"}
SET_METHODS = {"union", "intersection", "difference", "symmetric_difference"}
SEQUENCING_CALLS = {"list", "tuple", "enumerate", "map", "filter", "zip", "chain", "iter", "next", "reversed"}


def _is_dict_view(n) -> bool:
    return isinstance(n, ast.Call) and isinstance(n.func, ast.Attribute) and n.func.attr in ("keys", "items") \
        and not n.args


def _is_set_annotation(a) -> bool:
    s = ast.unparse(a) if a is not None else ""
    return s.startswith(("Set[", "set[", "FrozenSet[", "frozenset[", "typing.Set[", "AbstractSet[")) \
        or s in ("set", "Set", "frozenset")


def _call_name(n):
    f = n.func
    if isinstance(f, ast.Name):
        return f.id, False
    if isinstance(f, ast.Attribute):
        return f.attr, True
    return None, False


class OrderClass:
    """`cls(expr)` is "hash" when the expression is *syntactically* a hash-ordered collection or a sequence made
    from one without sorting (set()/frozenset(), set literal / comprehension, a set operator with such an operand
    or with a dict view, a set method, list()/tuple()/... of those, a local name or an attribute of the same
    file that is bound to one), "sorted" for sorted(...), else "ordered" (includes everything unknown)."""

    def __init__(self, set_attrs, env):
        self.set_attrs = set_attrs
        self.env = env

    def cls(self, n) -> str:
        if isinstance(n, ast.NamedExpr):
            return self.cls(n.value)
        if isinstance(n, (ast.Set, ast.SetComp)):
            return "hash"
        if isinstance(n, ast.Call):
            name, is_method = _call_name(n)
            if name == "sorted" and not is_method:
                return "sorted"
            if name in ("set", "frozenset") and not is_method:
                return "hash"
            if is_method and name in SET_METHODS:
                return "hash"
            if is_method and name == "copy":
                return self.cls(n.func.value)
            if name in PASS_CALLS and not is_method:
                return "hash" if any(self.cls(a) == "hash" for a in n.args) else "ordered"
            if name == "getattr" and len(n.args) >= 2 and isinstance(n.args[1], ast.Constant):
                return "hash" if n.args[1].value in self.set_attrs else "ordered"
            return "ordered"
        if isinstance(n, ast.BinOp):
            l, r = self.cls(n.left), self.cls(n.right)
            if isinstance(n.op, HASH_OPS) and ("hash" in (l, r) or _is_dict_view(n.left) or _is_dict_view(n.right)):
                return "hash"
            if isinstance(n.op, ast.Add) and "hash" in (l, r):
                return "hash"
            return "ordered"
        if isinstance(n, ast.BoolOp):
            return "hash" if any(self.cls(v) == "hash" for v in n.values) else "ordered"
        if isinstance(n, ast.IfExp):
            return "hash" if "hash" in (self.cls(n.body), self.cls(n.orelse)) else "ordered"
        if isinstance(n, ast.Name):
            return self.env.get(n.id, "ordered")
        if isinstance(n, ast.Attribute):
            return "hash" if n.attr in self.set_attrs else "ordered"
        if isinstance(n, (ast.ListComp, ast.GeneratorExp)):
            return "hash" if any(self.cls(g.iter) == "hash" for g in n.generators) else "ordered"
        return "ordered"


def _file_set_attrs(tree) -> set:
    """names of attributes that are bound to a hash-class value (or annotated as a set) somewhere in the file"""
    out = set()
    c0 = OrderClass(set(), {})
    for n in ast.walk(tree):
        if isinstance(n, ast.Assign):
            for t in n.targets:
                if isinstance(t, ast.Attribute) and c0.cls(n.value) == "hash":
                    out.add(t.attr)
        if isinstance(n, ast.AnnAssign) and isinstance(n.target, ast.Attribute):
            if _is_set_annotation(n.annotation) or (n.value is not None and c0.cls(n.value) == "hash"):
                out.add(n.target.attr)
    return out


def _local_env(fn, set_attrs) -> dict:
    env: dict = {}
    c = OrderClass(set_attrs, env)
    for _ in range(3):  # chains a = set(..); b = a - c; d = list(b)
        for n in ast.walk(fn):
            if isinstance(n, ast.Assign) and len(n.targets) == 1 and isinstance(n.targets[0], ast.Name):
                if c.cls(n.value) == "hash":
                    env[n.targets[0].id] = "hash"
            if isinstance(n, ast.AnnAssign) and isinstance(n.target, ast.Name):
                if _is_set_annotation(n.annotation) or (n.value is not None and c.cls(n.value) == "hash"):
                    env[n.target.id] = "hash"
    return env


def _classifier_for(rel, cls_name, fn_name):
    tree = ast.parse(_src(rel))
    fn = _method(tree, cls_name, fn_name)
    sa = _file_set_attrs(tree)
    return fn, OrderClass(sa, _local_env(fn, sa))


def inc_dirs_ordered():
    """Does `FortranReader` look an include file up in the directories *in the order given* (after the directory
    of the including file)?  Observed on the real reader: a scratch source file includes `x.inc`, which three
    directories hold with different contents (and which itself includes `y.inc`, held by two of them); the reader
    is given the directories in all six orders.  True iff every time the first listed holder is read, for the
    nested include as well, and a copy next to the source file wins over all of them.  Returns (ordered, note)."""
    common.import_ford()
    import itertools

    import ford.reader as R

    with common.scratch_dir("ford-verif-c12-inc-") as scratch:
        root = Path(scratch)
        (root / "src").mkdir()
        main = root / "src" / "main.f90"
        main.write_text("module m\ninclude 'x.inc'\nend module m\n")
        own = root / "own"
        own.mkdir()
        (own / "main.f90").write_text("module m\ninclude 'x.inc'\nend module m\n")
        (own / "x.inc").write_text("integer :: x_from_own\n")
        dirs = []
        for k in range(3):
            d = root / f"d{k}"
            d.mkdir()
            (d / "x.inc").write_text(f"integer :: x_from_d{k}\ninclude 'y.inc'\n")
            if k != 1:
                (d / "y.inc").write_text(f"integer :: y_from_d{k}\n")
            dirs.append(d)
        ok = True
        seen = []
        for perm in itertools.permutations(range(3)):
            order = [str(dirs[k]) for k in perm]
            text = " ".join(R.FortranReader(str(main), inc_dirs=list(order))).lower()
            first_y = next(k for k in perm if k != 1)
            got = (f"x_from_d{perm[0]}" in text, f"y_from_d{first_y}" in text,
                   sum(f"x_from_d{k}" in text for k in range(3)), sum(f"y_from_d{k}" in text for k in (0, 2)))
            seen.append(got)
            if got != (True, True, 1, 1):
                ok = False
            text = " ".join(R.FortranReader(str(own / "main.f90"), inc_dirs=list(order))).lower()
            if "x_from_own" not in text or "x_from_d" in text:
                raise LookupError("FortranReader.include: a file next to the including file no longer wins")
        if any(g[2:] != (1, 1) for g in seen):
            raise LookupError(f"FortranReader.include: not exactly one holder is read per include line: {seen}")
    return ok, "the first listed holder is read for every order of the list" if ok else "order of the list not respected"


def inherited_iter_ordered():
    """FortranType.correlate: every loop / comprehension that feeds `inherited` (components, then bindings) or
    `inherited_generic` walks an ordered collection <=> none of their iterables is hash-ordered."""
    fn, c = _classifier_for("ford/sourceform.py", "FortranType", "correlate")
    feeds = []

    def feeding(body_nodes):
        for b in body_nodes:
            for x in ast.walk(b):
                if isinstance(x, ast.Call) and isinstance(x.func, ast.Attribute) and x.func.attr in ("append", "extend", "insert") \
                        and isinstance(x.func.value, ast.Name) and x.func.value.id.startswith("inherited"):
                    return True
        return False

    for n in ast.walk(fn):
        if isinstance(n, ast.For) and feeding(n.body):
            feeds.append(n.iter)
        if isinstance(n, ast.Assign) and len(n.targets) == 1 and isinstance(n.targets[0], ast.Name) \
                and n.targets[0].id.startswith("inherited"):
            if isinstance(n.value, (ast.ListComp, ast.GeneratorExp)):
                feeds += [g.iter for g in n.value.generators]
            elif isinstance(n.value, ast.List) and not n.value.elts:
                pass
            else:
                feeds.append(n.value)
    if len(feeds) < 2:
        raise LookupError("FortranType.correlate: the loops collecting inherited components / bindings were not found")
    src = ast.unparse(fn)
    if "self.boundprocs = inherited + self.boundprocs" not in src or "self.variables = inherited + self.variables" not in src:
        raise LookupError("FortranType.correlate: `inherited + self.boundprocs` / `inherited + self.variables` not found")
    classes = [c.cls(f) for f in feeds]
    if "sorted" in classes:
        raise LookupError("FortranType.correlate: inherited entities are sorted, not the modelled shape")
    return "hash" not in classes, [ast.unparse(f) for f in feeds]


def hash_iter_sites():
    """[(site, goes through sorted())] over ford/*.py; a site is `<file>:<Class.function>: <consumer> <expression>`"""
    out: dict = {}
    files = sorted((common.REPO / "ford").glob("*.py"))
    if not files:
        raise LookupError("no ford/*.py")
    for path in files:
        tree = ast.parse(path.read_text())
        set_attrs = _file_set_attrs(tree)

        def visit_fn(fn, qual):
            c = OrderClass(set_attrs, _local_env(fn, set_attrs))
            parents = {}
            for p in ast.walk(fn):
                for ch in ast.iter_child_nodes(p):
                    parents[ch] = p

            def insensitive(node) -> bool:
                """is `node` directly consumed by something for which order does not matter?"""
                p = parents.get(node)
                while isinstance(p, ast.NamedExpr):
                    node, p = p, parents.get(p)
                if isinstance(p, ast.Call):
                    name, is_method = _call_name(p)
                    if name in INSENSITIVE_CALLS and not is_method and node in p.args:
                        return True
                    if is_method and name in (SET_METHODS | {"update", "issubset", "issuperset", "isdisjoint"}) \
                            and node in p.args and c.cls(p.func.value) == "hash":
                        return True
                if isinstance(p, ast.Compare):
                    return True
                return False

            def note(kind, e):
                k = c.cls(e)
                if k == "hash":
                    key = f"{path.name}:{qual}: {kind} {ast.unparse(e)}"
                    out[key] = False
                elif k == "sorted" and isinstance(e, ast.Call) and e.args and c.cls(e.args[0]) == "hash":
                    key = f"{path.name}:{qual}: {kind} {ast.unparse(e.args[0])}"
                    out.setdefault(key, True)

            for n in ast.walk(fn):
                if isinstance(n, (ast.FunctionDef, ast.AsyncFunctionDef, ast.Lambda)) and n is not fn:
                    continue
                if isinstance(n, (ast.For, ast.AsyncFor)):
                    note("for", strip_wrappers(n.iter) if c.cls(n.iter) != "hash" else n.iter)
                elif isinstance(n, (ast.ListComp, ast.GeneratorExp, ast.DictComp)):
                    if not insensitive(n):
                        for g in n.generators:
                            note("comprehension", g.iter)
                elif isinstance(n, ast.Call):
                    name, is_method = _call_name(n)
                    if not is_method and name in SEQUENCING_CALLS and not insensitive(n):
                        for a in n.args:
                            if not isinstance(a, (ast.ListComp, ast.GeneratorExp)):
                                note(name + "()", a)
                    if is_method and name in ("join", "extend"):
                        for a in n.args:
                            if not isinstance(a, (ast.ListComp, ast.GeneratorExp)):
                                note("." + name + "()", a)
                    if is_method and name == "pop" and not n.args and c.cls(n.func.value) == "hash":
                        out[f"{path.name}:{qual}: pop() {ast.unparse(n.func.value)}"] = False
                elif isinstance(n, ast.Starred):
                    note("*", n.value)

        def walk_defs(node, prefix):
            for ch in ast.iter_child_nodes(node):
                if isinstance(ch, (ast.FunctionDef, ast.AsyncFunctionDef)):
                    visit_fn(ch, prefix + ch.name)
                    walk_defs(ch, prefix + ch.name + ".")
                elif isinstance(ch, ast.ClassDef):
                    walk_defs(ch, prefix + ch.name + ".")

        walk_defs(tree, "")
    if not any(v for v in out.values()):
        raise LookupError("hash_iter_sites: not a single sorted(...) over a set found - the scanner no longer understands the sources")
    return sorted(out.items())


# ---------------------------------------------------------------- order definitions and sort sites


def _self_other_compare(fn, op):
    """`return self.<X> <op> other.<X>` -> text of X (with `self` written `_`), else None"""
    body = [st for st in fn.body if not (isinstance(st, ast.Expr) and isinstance(st.value, ast.Constant))]
    # locals bound once before the `return` are put back in (`a, b = self.k, other.k; return a < b`)
    mapping = {}
    while body and isinstance(body[0], ast.Assign) and len(body) > 1:
        st = body.pop(0)
        for t in st.targets:
            if isinstance(t, ast.Name):
                mapping[t.id] = _subst(st.value, mapping)
            elif isinstance(t, ast.Tuple) and isinstance(st.value, ast.Tuple) and len(t.elts) == len(st.value.elts) \
                    and all(isinstance(e, ast.Name) for e in t.elts):
                vals = [_subst(e, mapping) for e in st.value.elts]
                for e, v_ in zip(t.elts, vals):
                    mapping[e.id] = v_
            else:
                return None
    if len(body) != 1 or not isinstance(body[0], ast.Return):
        return None
    v = _subst(body[0].value, mapping)
    if not (isinstance(v, ast.Compare) and len(v.ops) == 1 and isinstance(v.ops[0], op)):
        return None
    args = [a.arg for a in fn.args.args]
    if len(args) != 2:
        return None

    class Ren(ast.NodeTransformer):
        def __init__(self, frm):
            self.frm = frm

        def visit_Name(self, n):
            return ast.copy_location(ast.Name(id="_", ctx=n.ctx), n) if n.id == self.frm else n

    import copy
    l = ast.unparse(Ren(args[0]).visit(copy.deepcopy(v.left)))
    r = ast.unparse(Ren(args[1]).visit(copy.deepcopy(v.comparators[0])))
    if l != r or not l.startswith("_."):
        return None
    return l[2:]


def order_defs():
    """every class of ford/*.py that defines `__lt__`: (file:Class, key compared by __lt__, key compared by
    __eq__ or '', key hashed by __hash__ or '').  `sorted()` over a set of such objects is independent of the
    iteration order of the set only if the key distinguishes the members of the set: for graph nodes the set
    keeps one node per `ident` (__eq__/__hash__), so __lt__ has to compare the same attribute."""
    out = []
    for path in sorted((common.REPO / "ford").glob("*.py")):
        tree = ast.parse(path.read_text())
        for c in ast.walk(tree):
            if not isinstance(c, ast.ClassDef):
                continue
            meths = {m.name: m for m in c.body if isinstance(m, ast.FunctionDef)}
            if "__lt__" not in meths:
                continue
            lt = _self_other_compare(meths["__lt__"], ast.Lt)
            if lt is None:
                raise LookupError(f"{path.name}:{c.name}.__lt__ is not `return self.<key> < other.<key>`: "
                                  + ast.unparse(meths["__lt__"])[:200])
            eq = ""
            if "__eq__" in meths:
                eq = _self_other_compare(meths["__eq__"], ast.Eq)
                if eq is None:
                    raise LookupError(f"{path.name}:{c.name}.__eq__ is not `return self.<key> == other.<key>`")
            hs = ""
            if "__hash__" in meths:
                hits = [ast.unparse(n.args[0]) for n in ast.walk(meths["__hash__"])
                        if isinstance(n, ast.Call) and isinstance(n.func, ast.Name) and n.func.id == "hash" and n.args]
                if len(hits) != 1 or not hits[0].startswith("self."):
                    raise LookupError(f"{path.name}:{c.name}.__hash__ does not hash one attribute of self")
                hs = hits[0][len("self."):]
            for other in ("__le__", "__gt__", "__ge__"):
                if other in meths:
                    raise LookupError(f"{path.name}:{c.name} defines {other}: not the modelled shape")
            out.append((f"{path.name}:{c.name}", lt, eq, hs))
    names = [o[0] for o in out]
    for need in ("graphs.py:BaseNode", "sourceform.py:FortranBase"):
        if need not in names:
            raise LookupError(f"{need}.__lt__ not found")
    return out


FS_ENUM_CALLS = {"listdir", "scandir", "glob", "rglob", "iterdir", "walk", "find_all_files", "iglob"}


def sort_sites():
    """every `sorted(..)`, `.sort(..)`, `min/max(.., key=)` of ford/*.py and every `|sort` filter of the templates:
    (site, kind of input, key).  Kind of input: `hash` (syntactically a hash-ordered collection), `fs` (a file-system
    enumeration: listdir / glob / iterdir / walk ...), else `other`.  A stable sort on a key that does not distinguish
    the elements hands the order of its input on, so every site must either use the natural order of the elements
    (no key; for objects that is `__lt__`, see order_defs) or have been reviewed."""
    out = []
    for path in sorted((common.REPO / "ford").glob("*.py")):
        tree = ast.parse(path.read_text())
        set_attrs = _file_set_attrs(tree)

        def visit_fn(fn, qual):
            c = OrderClass(set_attrs, _local_env(fn, set_attrs))

            def kind(e):
                if e is None:
                    return "other"
                if c.cls(e) == "hash":
                    return "hash"
                for x in ast.walk(e):
                    if isinstance(x, ast.Call):
                        nm, _m = _call_name(x)
                        if nm in FS_ENUM_CALLS:
                            return "fs"
                return "other"

            for n in ast.walk(fn):
                if isinstance(n, (ast.FunctionDef, ast.AsyncFunctionDef)) and n is not fn:
                    continue
                if not isinstance(n, ast.Call):
                    continue
                nm, is_m = _call_name(n)
                kws = {k.arg: k.value for k in n.keywords if k.arg}
                if nm == "sorted" and not is_m:
                    arg = n.args[0] if n.args else None
                    key = kws.get("key", n.args[1] if len(n.args) > 1 else None)
                    inner, _ = peel(arg) if arg is not None else (None, False)
                    out.append((f"{path.name}:{qual}: sorted({ast.unparse(inner) if inner is not None else ''})",
                                kind(arg), ast.unparse(key) if key is not None else "",
                                "reverse" if "reverse" in kws else ""))
                elif nm == "sort" and is_m:
                    key = kws.get("key")
                    out.append((f"{path.name}:{qual}: {ast.unparse(n.func.value)}.sort()", kind(n.func.value),
                                ast.unparse(key) if key is not None else "", "reverse" if "reverse" in kws else ""))
                elif nm in ("min", "max") and not is_m and "key" in kws:
                    out.append((f"{path.name}:{qual}: {nm}({ast.unparse(n.args[0]) if n.args else ''})",
                                kind(n.args[0] if n.args else None), ast.unparse(kws["key"]), ""))

        def walk_defs(node, prefix):
            for ch in ast.iter_child_nodes(node):
                if isinstance(ch, (ast.FunctionDef, ast.AsyncFunctionDef)):
                    visit_fn(ch, prefix + ch.name)
                    walk_defs(ch, prefix + ch.name + ".")
                elif isinstance(ch, ast.ClassDef):
                    walk_defs(ch, prefix + ch.name + ".")

        walk_defs(tree, "")
    # the templates: `x | sort(...)`, `dictsort`, `groupby`, `unique`
    import jinja2
    from jinja2 import nodes as jn

    env = jinja2.Environment()
    tdir = common.REPO / "ford" / "templates"
    for tp in sorted(tdir.glob("*.html")):
        try:
            tt = env.parse(tp.read_text())
        except Exception as e:  # a template Jinja cannot parse is somebody else's problem, but say so
            raise LookupError(f"template {tp.name} does not parse: {e}")
        for f in tt.find_all(jn.Filter):
            if f.name in ("sort", "dictsort", "groupby", "unique"):
                args = [_jinja_src(a) for a in f.args] + [f"{k.key}={_jinja_src(k.value)}" for k in f.kwargs]
                out.append((f"templates/{tp.name}: {_jinja_src(f.node)}|{f.name}", "other", ", ".join(args), ""))
    if not any(s_[0].startswith("pagetree.py:") for s_ in out) or len(out) < 10:
        raise LookupError("sort_sites: the scanner no longer finds the sorts of the package (none in pagetree.py)")
    # one entry per (site, kind, key): several loops over the same expression in one function collapse
    return sorted(set(out))


def _jinja_src(n) -> str:
    from jinja2 import nodes as jn
    if isinstance(n, jn.Name):
        return n.name
    if isinstance(n, jn.Getattr):
        return _jinja_src(n.node) + "." + n.attr
    if isinstance(n, jn.Const):
        return repr(n.value)
    if isinstance(n, jn.Filter):
        return _jinja_src(n.node) + "|" + n.name
    if isinstance(n, jn.Getitem):
        return _jinja_src(n.node) + "[..]"
    return type(n).__name__


PAGE_PROBE_ENTRIES = ["index.md", "usage.md", "usage", "FAQ.md", "faq.md", "b.md", "a-b.md", "a.md", "Zeta.md", "notes.txt",
                      "data.csv", "img", ".hidden.md", "old.md~"]
PAGE_PROBE_ORDERED = [[], ["b.md", "ghost.md", "usage", "Zeta.md"]]


class _ScanOrdered:
    """stands in for the iterator of os.scandir: the entries in a chosen order"""

    def __init__(self, it, order):
        with it:
            self._entries = order(list(it), key=lambda e: e.name)

    def __iter__(self):
        return iter(self._entries)

    def __enter__(self):
        return self

    def __exit__(self, *a):
        return False

    def close(self):
        pass


def page_file_list(natural, ordered, enum):
    """the model's rule (lean: Order.pageFileList), used to recognise which rule the code follows"""
    import os

    fl = sorted(enum, key=(lambda n: n) if natural else (lambda n: os.path.splitext(n)[0].lower()))
    if "index.md" in fl:
        fl.remove("index.md")
    merged = list(dict.fromkeys(list(ordered) + fl)) if ordered else fl
    return [n for n in merged if n[0] != "." and n[-1] != "~"]


def page_list_natural():
    """Does `get_page_tree` walk the entries of a page directory in the order of their *names*, however the file
    system lists them - and does it follow the modelled rule (`index.md` left out, the `ordered_subpage` list merged in
    front without duplicates, dot files and `~` backups skipped)?  Observed: the real `get_page_tree` runs on a
    scratch directory (a page `usage.md` next to a directory `usage/`, `FAQ.md` next to `faq.md`, a hidden file, a
    backup, other files, a directory without index.md) with a recording stand-in for `PageNode`, with and without an
    `ordered_subpage` list, while `os.listdir` / `os.scandir` hand out the entries ascending, descending and
    rotated.  True: pages and files come out as the rule with the plain name order says, every time; False: as the
    rule with the lower-cased-stem key says (the listing order then shows among equal keys); anything else raises.
    Returns (natural, description)."""
    common.import_ford()
    import contextlib
    import io
    import os

    import ford.pagetree as PT

    observed = []
    with common.scratch_dir("ford-verif-c12-pages-") as scratch:
        top = Path(scratch) / "pages"
        top.mkdir()
        for name in PAGE_PROBE_ENTRIES:
            if name in ("usage", "img"):
                (top / name).mkdir()
            else:
                (top / name).write_text(f"title: {name}\n---\ntext\n")
        (top / "usage" / "index.md").write_text("title: usage dir\n---\ntext\n")
        (top / "img" / "x.png").write_text("no page here\n")
        names = sorted(os.listdir(top))
        if names != sorted(PAGE_PROBE_ENTRIES):
            raise LookupError(f"page probe: scratch directory holds {names}")

        def ascending(xs, key=lambda x: x):
            return sorted(xs, key=key)

        def descending(xs, key=lambda x: x):
            return sorted(xs, key=key, reverse=True)

        def rotated(xs, key=lambda x: x):
            s_ = sorted(xs, key=key)
            return s_[len(s_) // 2:] + s_[:len(s_) // 2]

        def is_page(n):
            return (n.endswith(".md") and (top / n).is_file()) or (top / n / "index.md").is_file()

        saved = (PT.PageNode, os.listdir, os.scandir)
        try:
            for ordered in PAGE_PROBE_ORDERED:
                class StubNode:
                    def __init__(self, md, path, output_dir, proj_copy_subdir, parent, encoding="utf-8", ordered=ordered):
                        self.src = Path(path)
                        self.parent = parent
                        self.ordered_subpages = list(ordered) if self.src == top / "index.md" else []
                        self.copy_subdir = []
                        self.subpages = []
                        self.files = []

                PT.PageNode = StubNode
                for order in (ascending, descending, rotated):
                    os.listdir = lambda p_=".", order=order: order(saved[1](p_))
                    os.scandir = lambda p_=".", order=order: _ScanOrdered(saved[2](p_), order)
                    with contextlib.redirect_stdout(io.StringIO()), contextlib.redirect_stderr(io.StringIO()):
                        node = PT.get_page_tree(top, [], Path(scratch) / "out", None)
                    if node is None:
                        raise LookupError("page probe: get_page_tree returned no tree")
                    listing = order(names)
                    got = ([os.path.relpath(sp.src, top).split(os.sep)[0] for sp in node.subpages], [str(f) for f in node.files])
                    want = {}
                    for natural in (True, False):
                        walk = page_file_list(natural, ordered, listing)
                        want[natural] = ([n for n in walk if is_page(n)],
                                         [n for n in walk if (top / n).is_file() and not n.endswith(".md")])
                    observed.append((got == want[True], got == want[False], got, want[True]))
        finally:
            PT.PageNode, os.listdir, os.scandir = saved
    if all(o[0] for o in observed):
        return True, "entries walked in name order for every listing order"
    if all(o[1] for o in observed):
        return False, "entries walked in the order of their lower-cased stems: the listing order shows among equal keys"
    bad = next(o for o in observed if not o[0])
    raise LookupError(f"get_page_tree no longer follows the modelled rule: walked {bad[2]}, the rule says {bad[3]}")


# --------------------------------------------------------------------------
# round 6: edge colours of a hop, source files reachable under two paths, sort_components
# --------------------------------------------------------------------------

def observe_hop_colours(items, coloured=True, as_set=False):
    """The real `FortranGraph.add_nodes` on one hop: `items` are real node objects (or names, made into string
    nodes) in the order the collection hands them out.  Returns [(identifier, colour)] in the order
    `add_node` is called.  No graph is built: `add_node` records, `add_to_graph` ends the hop."""
    common.import_ford()
    import ford.graphs as G

    gd = G.GraphData("../", coloured, False)
    nodes = [G.BaseNode(x, gd) if isinstance(x, str) else x for x in items]
    calls = []

    class Hop(G.FortranGraph):
        def __init__(self):                      # (no root, no dot object: only add_nodes is exercised)
            self.data = gd

        def add_node(self, hop_nodes, hop_edges, node, colour):
            calls.append((node.ident, colour))

        def add_to_graph(self, nodes, edges, nesting):
            return False

    Hop().add_nodes(set(nodes) if as_set else nodes)
    return calls


def palette(n):
    """colour number i of n, as `rainbowcolour` spells it (index -> text; used to read the number back)"""
    import colorsys

    out = []
    for i in range(n):
        r, g, b = colorsys.hsv_to_rgb(float(i) / n, 1.0, 1.0)
        out.append(f"#{int(255 * r):02X}{int(255 * g):02X}{int(255 * b):02X}")
    return out


def edge_colour_by_sorted_index():
    """Probe of `FortranGraph.add_nodes` with `coloured_edges` on: four nodes handed over in all 24 orders.
    True: the k-th node *in sorted order* gets colour k of 4 whatever the order of the collection; False: the
    colour number of a node is its position in the collection as iterated; anything else raises."""
    import itertools

    names = ["delta", "alpha", "Charlie", "bravo"]
    pal = palette(len(names))
    by_sorted, by_position = True, True
    for perm in itertools.permutations(names):
        got = observe_hop_colours(list(perm))
        if [g[0] for g in got] != sorted(names):
            raise LookupError(f"add_nodes handled the nodes in the order {[g[0] for g in got]}")
        if any(c not in pal for _, c in got):
            raise LookupError(f"add_nodes: colours {got} are not rainbowcolour(i, {len(names)})")
        if [c for _, c in got] != pal:
            by_sorted = False
        if any(c != pal[perm.index(i)] for i, c in got):
            by_position = False
    black = observe_hop_colours(names, coloured=False)
    if {c for _, c in black} != {"#000000"}:
        raise LookupError(f"add_nodes without coloured_edges: {black}")
    if by_sorted == by_position:
        raise LookupError("add_nodes: the colour of a node is neither its sorted position nor its position in the collection")
    return by_sorted


def observe_find_all_files(root: Path, order: str, extensions=("f90",)):
    """the real `find_all_files` on the directory `root/src` with every directory enumerated in ascending /
    descending name order (os.scandir and os.listdir arranged); paths relative to `root`"""
    common.import_ford()
    import os
    from types import SimpleNamespace

    import ford.fortran_project as FP

    class Scan:
        def __init__(self, entries):
            self._it = iter(entries)

        def __iter__(self):
            return self

        def __next__(self):
            return next(self._it)

        def __enter__(self):
            return self

        def __exit__(self, *a):
            return False

        def close(self):
            pass

    real_scandir, real_listdir = os.scandir, os.listdir
    rev = order == "descending"

    def scandir(path="."):
        with real_scandir(path) as it:
            return Scan(sorted(it, key=lambda e: e.name, reverse=rev))

    def listdir(path="."):
        return sorted(real_listdir(path), reverse=rev)

    settings = SimpleNamespace(extensions=list(extensions), fixed_extensions=[], extra_filetypes={},
                               src_dir=[Path(root) / "src"], exclude_dir=[], exclude=[],
                               # read by find_all_files since repair 7f6b57f (output directory excluded by location)
                               output_dir=Path(root) / "doc")
    os.scandir, os.listdir = scandir, listdir
    try:
        found = FP.find_all_files(settings)
    finally:
        os.scandir, os.listdir = real_scandir, real_listdir
    return sorted(os.path.relpath(str(p), root) for p in found)


def source_aliases_first_come():
    """Probe of `find_all_files` on a scratch source directory in which one file is reachable under two paths
    (a symbolic link next to it and one in another directory), enumerated ascending and descending.
    False: every matching path is a source file, in both orders (the tree as it is); True: of the paths of one
    file only the one enumerated first survives; anything else raises."""
    import os

    with common.scratch_dir("ford-verif-c12-alias-") as scratch:
        root = Path(scratch)
        (root / "src" / "legacy").mkdir(parents=True)
        (root / "src" / "compat").mkdir()
        (root / "src" / "legacy" / "axpy.f90").write_text("subroutine axpy()\nend subroutine axpy\n")
        (root / "src" / "norms.f90").write_text("subroutine norms()\nend subroutine norms\n")
        os.symlink("../legacy/axpy.f90", root / "src" / "compat" / "blas_axpy.f90")
        os.symlink("axpy.f90", root / "src" / "legacy" / "zaxpy.f90")
        asc = observe_find_all_files(root, "ascending")
        desc = observe_find_all_files(root, "descending")
    every = sorted(["src/compat/blas_axpy.f90", "src/legacy/axpy.f90", "src/legacy/zaxpy.f90", "src/norms.f90"])
    if asc == every and desc == every:
        return False
    if "src/norms.f90" in asc and "src/norms.f90" in desc and len(asc) == 2 and len(desc) == 2 and asc != desc:
        return True
    raise LookupError(f"find_all_files on a directory with aliased source files: ascending {asc}, descending {desc}")


def sort_components_tables():
    """AST of `FortranBase.sort_components`: the keys of `SORT_KEY_FUNCTIONS` (the values `sort:` may take) and the
    entity lists that are sorted, in order"""
    fn = _method(ast.parse(_src("ford/sourceform.py")), "FortranBase", "sort_components")
    modes, lists = None, None
    for n in ast.walk(fn):
        if isinstance(n, ast.Assign) and isinstance(n.value, ast.Dict) and any(
                isinstance(t, ast.Name) and t.id == "SORT_KEY_FUNCTIONS" for t in n.targets):
            modes = [k.value for k in n.value.keys if isinstance(k, ast.Constant) and isinstance(k.value, str)]
            if len(modes) != len(n.value.keys):
                raise LookupError("SORT_KEY_FUNCTIONS has keys that are not string literals")
        if isinstance(n, ast.For) and isinstance(n.iter, (ast.List, ast.Tuple)) and any(
                isinstance(c, ast.Call) and isinstance(c.func, ast.Attribute) and c.func.attr == "sort"
                for b in n.body for c in ast.walk(b)):
            lists = [e.value for e in n.iter.elts if isinstance(e, ast.Constant) and isinstance(e.value, str)]
            if len(lists) != len(n.iter.elts):
                raise LookupError("sort_components: the list of entity lists is not made of string literals")
    if not modes or not lists:
        raise LookupError("sort_components: SORT_KEY_FUNCTIONS or the loop over the entity lists not found")
    return modes, lists


def lean_chars(s: str) -> str:
    """char-list literal (fast for `decide`, unlike "..".toList)"""
    def ch(c):
        if c == "'":
            return "'\\''"
        if c == "\\":
            return "'\\\\'"
        if ord(c) < 32 or ord(c) > 126:
            return f"Char.ofNat {ord(c)}"
        return f"'{c}'"
    return "[" + ", ".join(ch(c) for c in s) + "]"

# ---------------------------------------------------------------- emit


def generate() -> dict:
    sym = symbol_replacements()
    count_lower = numbering_shape()
    ffo = fortran_file_order()
    containers, chain_order = correlate_tables()
    fsorted, fsrc = file_iter_sorted()
    pages = page_list_order()
    steps, dirs, steps_file = writeout_steps()
    sites = node_iter_sites()
    serial, par = output_graphs_tables()
    usorted = uses_iter_sorted()
    uset = uses_is_set()
    inc_ordered, inc_src = inc_dirs_ordered()
    inh_ordered, inh_src = inherited_iter_ordered()
    hsites = hash_iter_sites()
    ext_by_suffix = extension_by_suffix()
    out_excl = output_dir_excluded()
    odefs = order_defs()
    ssites = sort_sites()
    page_natural, page_src = page_list_natural()
    lt_of = {o[0]: o[1] for o in odefs}
    colour_sorted = edge_colour_by_sorted_index()
    alias_first = source_aliases_first_come()
    sort_modes, sort_lists = sort_components_tables()

    def pairs(xs):
        return lean_list(f"({lean_str(a)}, {lean_str(b)})" for a, b in xs)

    def gtab(xs):
        return lean_list(f"({lean_str(c)}, {lean_list(lean_str(a) for a in attrs)})" for c, attrs in xs)

    L = ["/- GENERATED by translate/c12.py from the working tree - do not edit -/",
         "import FordModel.Basic.Chars", "namespace Ford.Gen.C12", "",
         "/-- dict literal of NameSelector.get_name -/",
         "def symbolReplacements : List (Char × Str) := "
         + lean_list(f"({repr(k) if k != chr(39) else chr(34)+k+chr(34)}, {lean_str(v)})".replace("'", "'") for k, v in sym),
         "", "/-- NameSelector.get_name: is the counter kept under the lower-cased name (True) or the name as written? -/",
         f"def countKeyLower : Bool := {'true' if count_lower else 'false'}",
         "", "/-- order of the `for x in new_file.<attr>` loops of Project._fortran_file -/",
         "def fortranFileOrder : List Str := " + lean_list(lean_str(a) for a in ffo),
         "", "/-- CONTAINERS of Project.correlate, in dict order -/",
         "def containersOrder : List (Str × Str) := " + pairs(containers),
         "", "/-- chain(...) of code units in the gather loop of Project.correlate -/",
         "def unitChainOrder : List Str := " + lean_list(lean_str(a) for a in chain_order),
         "", "/-- entity_list_page_map of Documentation.__init__ (project list, page class), incl. the incl_src entry -/",
         "def pageListOrder : List (Str × Str) := " + pairs(pages),
         "", f"/-- Project.__init__ (probed: {fsrc}): is the file set sorted before it is iterated? -/",
         f"def fileIterSorted : Bool := {'true' if fsorted else 'false'}",
         "", "/-- `{% for use in obj.uses %}` of the use_list macro: iterated through a sort filter? -/",
         f"def usesIterSorted : Bool := {'true' if usorted else 'false'}",
         "", "/-- `self.uses = set(...)` in FortranCodeUnit.correlate -/",
         f"def usesIsSet : Bool := {'true' if uset else 'false'}",
         "", "/-- what a run does at the output directory, in order (observed on a real run over a stale output directory; "
         + "`removeOut`: from here on the stale content is gone) -/",
         "def writeoutSteps : List Str := " + lean_list(lean_str(s) for s in steps),
         "", "/-- the same when a plain file stands where the output directory goes -/",
         "def writeoutStepsPlainFile : List Str := " + lean_list(lean_str(s) for s in steps_file),
         "", "/-- directories created by writeout -/",
         "def outDirs : List Str := " + lean_list(lean_str(s) for s in dirs),
         "", "/-- loops over node collections in graphs.py: (site, iterated through sorted()) -/",
         "def nodeIterSites : List (Str × Bool) := "
         + lean_list(f"({lean_str(s)}, {'true' if b else 'false'})" for s, b in sites),
         "", "/-- output_graphs, branch njobs == 0: (collection, graphs written per element) -/",
         "def serialGraphs : List (Str × List Str) := " + gtab(serial),
         "", "/-- output_graphs, process_map branch -/",
         "def parallelGraphs : List (Str × List Str) := " + gtab(par),
         "", f"/-- FortranReader (probed on the real reader for all orders of three directories): {inc_src} -/",
         f"def incDirsOrdered : Bool := {'true' if inc_ordered else 'false'}",
         "", "/-- FortranType.correlate: the loops that collect inherited components / bindings iterate "
         + "; ".join(inh_src).replace("-/", "- /") + " : all in source order? -/",
         f"def inheritedIterOrdered : Bool := {'true' if inh_ordered else 'false'}",
         "", "/-- ford/*.py: syntactically hash-ordered collections turned into a sequence: (site, goes through sorted()) -/",
         "def hashIterSites : List (Str × Bool) := "
         + lean_list(f"({lean_chars(s)}, {'true' if b else 'false'})" for s, b in hsites),
         "", "/-- Project.__init__ (probed on stubs): the kind of a file (free / fixed form, preprocessed, extra file type) is "
         + "decided by the last suffix of its name (true) or by the first configured extension the name ends with (false) -/",
         f"def extensionBySuffix : Bool := {'true' if ext_by_suffix else 'false'}",
         "", "/-- find_all_files (probed on a scratch project whose output directory lies inside the source directory and "
         + "holds a stale Fortran file): (how the output directory is configured, stale file left out) -/",
         "def outputDirExcludedIn : List (Str × Bool) := "
         + lean_list(f"({lean_chars(s)}, {'true' if b else 'false'})" for s, b in out_excl),
         "", "/-- every class of ford/*.py with `__lt__`: (class, key compared by __lt__, key of __eq__ or empty, key of __hash__ or empty) -/",
         "def orderDefs : List (Str × Str × Str × Str) := "
         + lean_list(f"({lean_chars(a)}, {lean_chars(b)}, {lean_chars(c_)}, {lean_chars(d)})" for a, b, c_, d in odefs),
         "", f"/-- BaseNode.__lt__ compares `{lt_of['graphs.py:BaseNode']}`: is that the identifier the node sets are keyed by? -/",
         f"def nodeLtByIdent : Bool := {'true' if lt_of['graphs.py:BaseNode'] == 'ident' else 'false'}",
         "", f"/-- FortranBase.__lt__ compares `{lt_of['sourceform.py:FortranBase']}`: the identifier? -/",
         f"def entityLtByIdent : Bool := {'true' if lt_of['sourceform.py:FortranBase'] == 'ident' else 'false'}",
         "", "/-- every sorted() / .sort() / keyed min,max of ford/*.py and every sort filter of the templates: "
         "(site, kind of input hash|fs|other, key or empty, `reverse` or empty) -/",
         "def sortSites : List (Str × Str × Str × Str) := "
         + lean_list(f"({lean_chars(a)}, {lean_chars(b)}, {lean_chars(c_)}, {lean_chars(d)})" for a, b, c_, d in ssites),
         "", f"/-- get_page_tree (probed with the page directory listed in several orders): {page_src} -/",
         f"def pageListNatural : Bool := {'true' if page_natural else 'false'}",
         "", "/-- FortranGraph.add_nodes (probed with four nodes handed over in all 24 orders): the edges leaving the k-th node "
         "in sorted order get colour k (true), or the colour number is the node's position in the collection as iterated (false) -/",
         f"def edgeColourBySortedIndex : Bool := {'true' if colour_sorted else 'false'}",
         "", "/-- find_all_files (probed on a scratch directory with symbolic links to source files, enumerated ascending and "
         "descending): of the paths that lead to one file only the first enumerated one is kept (true), or every path is a source file (false) -/",
         f"def sourceAliasesFirstCome : Bool := {'true' if alias_first else 'false'}",
         "", "/-- keys of SORT_KEY_FUNCTIONS in FortranBase.sort_components (the values of the `sort` option) -/",
         "def sortModes : List Str := " + lean_list(lean_str(a) for a in sort_modes),
         "", "/-- the entity lists FortranBase.sort_components sorts, in order -/",
         "def sortedComponentLists : List Str := " + lean_list(lean_str(a) for a in sort_lists),
         "", "end Ford.Gen.C12", ""]
    text = "\n".join(L)
    common.write_if_changed(common.LEAN / "FordModel" / "Generated" / "C12.lean", text)
    return {"symbolReplacements": sym, "fortranFileOrder": ffo, "containersOrder": containers,
            "unitChainOrder": chain_order, "pageListOrder": pages, "fileIterSorted": fsorted, "countKeyLower": count_lower,
            "usesIterSorted": usorted, "usesIsSet": uset, "writeoutSteps": steps, "outDirs": dirs, "writeoutStepsPlainFile": steps_file,
            "nodeIterSites": sites, "serialGraphs": serial, "parallelGraphs": par,
            "incDirsOrdered": inc_ordered, "inheritedIterOrdered": inh_ordered, "hashIterSites": hsites,
            "inheritedIterables": inh_src, "incDirsKept": inc_src,
            "extensionBySuffix": ext_by_suffix, "outputDirExcludedIn": out_excl,
            "orderDefs": odefs, "sortSites": ssites, "pageListNatural": page_natural, "pageListing": page_src,
            "find_all_files_returns": find_all_files_returns_set(),
            "edgeColourBySortedIndex": colour_sorted, "sourceAliasesFirstCome": alias_first,
            "sortModes": sort_modes, "sortedComponentLists": sort_lists}


if __name__ == "__main__":
    import json
    print(json.dumps(generate(), indent=1))
